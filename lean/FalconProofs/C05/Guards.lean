/-
  FalconProofs.C05.Guards — the recognised guard pairs are partitions: in every state that defines their
  scalars, exactly one guard of the pair is enabled (unless a guard contains a division by zero).
-/
import FalconProofs.C05.Sorted

namespace Falcon
open Const

theorem evalIn_const (σ : State) (c : Const) : σ.evalIn (.const c) = .ok c := rfl

/-- evaluation of a well-sorted binary node is the operator applied to the operands' values -/
theorem evalIn_bin (σ : State) (op : BinOp) (l r : Expr) (hw : (Expr.bin op l r).wellSorted = true)
    (hd : ∀ s ∈ (Expr.bin op l r).scalars, σ.Defines s) :
    σ.evalIn (.bin op l r) = (σ.evalIn l >>= fun a => σ.evalIn r >>= fun b => op.apply a b) := by
  simp only [Expr.wellSorted, Bool.and_eq_true, decide_eq_true_eq] at hw
  obtain ⟨l', hl, hlb, -, -, -⟩ := symbolize_wellSorted σ l hw.1.1 (fun s hs => hd s (by simp [Expr.scalars, hs]))
  obtain ⟨r', hr, hrb, -, -, -⟩ := symbolize_wellSorted σ r hw.1.2 (fun s hs => hd s (by simp [Expr.scalars, hs]))
  have hbits : l'.bits = r'.bits := by rw [hlb, hrb]; exact hw.2
  simp [State.evalIn, State.symbolize, hl, hr, Expr.mkBin, hbits, Expr.eval]

theorem one_bit {c : Const} (hg : c.Good) (hb : c.bits = 1) : c.val = 0 ∨ c.val = 1 := by
  have := hg.wf
  unfold Const.WF at this
  rw [hb] at this
  omega

theorem isBitConst_eq {e : Expr} {v : Nat} (h : isBitConst e v = true) : e = .const ⟨1, v⟩ := by
  unfold isBitConst at h
  split at h
  · rename_i c
    simp only [Bool.and_eq_true, beq_iff_eq] at h
    cases c with
    | mk b w => simp only at h; rw [h.1, h.2]
  · cases h

/-- `holds σ g`: the guard evaluates to a constant that `is_one` -/
abbrev holds (σ : State) (g : Expr) : Prop := guardHolds σ (some g)

theorem holds_iff (σ : State) (g : Expr) (c : Const) (h : σ.evalIn g = .ok c) : holds σ g ↔ c.val = 1 := by
  constructor
  · rintro ⟨c', h', hv⟩; rw [h] at h'; cases h'; exact hv
  · intro hv; exact ⟨c, h, hv⟩

theorem not_holds_of_err (σ : State) (g : Expr) (e : Err) (h : σ.evalIn g = .err e) : ¬ holds σ g := by
  rintro ⟨c', h', _⟩; rw [h] at h'; cases h'

/-- what "exactly one of the two guards is enabled" means -/
def ExactlyOne (σ : State) (g h : Expr) : Prop :=
  (holds σ g ∧ ¬ holds σ h) ∨ (¬ holds σ g ∧ holds σ h)

theorem ExactlyOne.symm {σ : State} {g h : Expr} (x : ExactlyOne σ g h) : ExactlyOne σ h g := by
  rcases x with ⟨a, b⟩ | ⟨a, b⟩
  · exact .inr ⟨b, a⟩
  · exact .inl ⟨b, a⟩

section shapes
variable (σ : State)

/-- S1a: `g` / `g == 0` -/
theorem neg_cmpeq0 (g : Expr) (hw : g.wellSorted = true) (hb : g.bits = 1)
    (hd : ∀ s ∈ g.scalars, σ.Defines s) :
    σ.evalIn g = .err .div0 ∨ ExactlyOne σ g (.bin .cmpeq g (.const ⟨1, 0⟩)) := by
  have hwh : (Expr.bin .cmpeq g (.const ⟨1, 0⟩)).wellSorted = true := by
    simp [Expr.wellSorted, hw, hb, Expr.bits]
  have hdh : ∀ s ∈ (Expr.bin .cmpeq g (.const ⟨1, 0⟩)).scalars, σ.Defines s := by
    intro s hs; simp [Expr.scalars] at hs; exact hd s hs
  rcases evalIn_wellSorted σ g hw hd with ⟨c, hc, hcb, hcg⟩ | he
  · right
    have hh : σ.evalIn (.bin .cmpeq g (.const ⟨1, 0⟩)) = .ok (bit (c.val == 0)) := by
      rw [evalIn_bin σ _ _ _ hwh hdh, hc, evalIn_const]
      simp [BinOp.apply, Const.cmpeq, hcb, hb]
    rw [ExactlyOne, holds_iff σ g c hc, holds_iff σ _ _ hh]
    rcases one_bit hcg (hcb.trans hb) with h0 | h1
    · right; simp [h0, bit]
    · left; simp [h1, bit]
  · exact .inl he

/-- S1b: `g` / `g != 1` -/
theorem neg_cmpneq1 (g : Expr) (hw : g.wellSorted = true) (hb : g.bits = 1)
    (hd : ∀ s ∈ g.scalars, σ.Defines s) :
    σ.evalIn g = .err .div0 ∨ ExactlyOne σ g (.bin .cmpneq g (.const ⟨1, 1⟩)) := by
  have hwh : (Expr.bin .cmpneq g (.const ⟨1, 1⟩)).wellSorted = true := by
    simp [Expr.wellSorted, hw, hb, Expr.bits]
  have hdh : ∀ s ∈ (Expr.bin .cmpneq g (.const ⟨1, 1⟩)).scalars, σ.Defines s := by
    intro s hs; simp [Expr.scalars] at hs; exact hd s hs
  rcases evalIn_wellSorted σ g hw hd with ⟨c, hc, hcb, hcg⟩ | he
  · right
    have hh : σ.evalIn (.bin .cmpneq g (.const ⟨1, 1⟩)) = .ok (bit (c.val != 1)) := by
      rw [evalIn_bin σ _ _ _ hwh hdh, hc, evalIn_const]
      simp [BinOp.apply, Const.cmpneq, hcb, hb]
    rw [ExactlyOne, holds_iff σ g c hc, holds_iff σ _ _ hh]
    rcases one_bit hcg (hcb.trans hb) with h0 | h1
    · right; simp [h0, bit]
    · left; simp [h1, bit]
  · exact .inl he

/-- S2: `x == 0` / `x == 1` for a 1-bit `x` -/
theorem eq0_eq1 (x : Expr) (hw : x.wellSorted = true) (hb : x.bits = 1)
    (hd : ∀ s ∈ x.scalars, σ.Defines s) :
    σ.evalIn x = .err .div0 ∨
      ExactlyOne σ (.bin .cmpeq x (.const ⟨1, 0⟩)) (.bin .cmpeq x (.const ⟨1, 1⟩)) := by
  have hw0 : (Expr.bin .cmpeq x (.const ⟨1, 0⟩)).wellSorted = true := by
    simp [Expr.wellSorted, hw, hb, Expr.bits]
  have hw1 : (Expr.bin .cmpeq x (.const ⟨1, 1⟩)).wellSorted = true := by
    simp [Expr.wellSorted, hw, hb, Expr.bits]
  have hd0 : ∀ s ∈ (Expr.bin .cmpeq x (.const ⟨1, 0⟩)).scalars, σ.Defines s := by
    intro s hs; simp [Expr.scalars] at hs; exact hd s hs
  have hd1 : ∀ s ∈ (Expr.bin .cmpeq x (.const ⟨1, 1⟩)).scalars, σ.Defines s := by
    intro s hs; simp [Expr.scalars] at hs; exact hd s hs
  rcases evalIn_wellSorted σ x hw hd with ⟨c, hc, hcb, hcg⟩ | he
  · right
    have h0 : σ.evalIn (.bin .cmpeq x (.const ⟨1, 0⟩)) = .ok (bit (c.val == 0)) := by
      rw [evalIn_bin σ _ _ _ hw0 hd0, hc, evalIn_const]
      simp [BinOp.apply, Const.cmpeq, hcb, hb]
    have h1 : σ.evalIn (.bin .cmpeq x (.const ⟨1, 1⟩)) = .ok (bit (c.val == 1)) := by
      rw [evalIn_bin σ _ _ _ hw1 hd1, hc, evalIn_const]
      simp [BinOp.apply, Const.cmpeq, hcb, hb]
    rw [ExactlyOne, holds_iff σ _ _ h0, holds_iff σ _ _ h1]
    rcases one_bit hcg (hcb.trans hb) with hz | ho
    · left; simp [hz, bit]
    · right; simp [ho, bit]
  · exact .inl he

/-- S3: `a == b` / `a != b` -/
theorem eq_neq (a b : Expr) (hw : (Expr.bin .cmpeq a b).wellSorted = true)
    (hd : ∀ s ∈ (Expr.bin .cmpeq a b).scalars, σ.Defines s) :
    (σ.evalIn a = .err .div0 ∨ σ.evalIn b = .err .div0) ∨
      ExactlyOne σ (.bin .cmpeq a b) (.bin .cmpneq a b) := by
  have hw' : (Expr.bin .cmpneq a b).wellSorted = true := by simpa [Expr.wellSorted] using hw
  have hd' : ∀ s ∈ (Expr.bin .cmpneq a b).scalars, σ.Defines s := by simpa [Expr.scalars] using hd
  have hws := hw
  simp only [Expr.wellSorted, Bool.and_eq_true, decide_eq_true_eq] at hws
  rcases evalIn_wellSorted σ a hws.1.1 (fun s hs => hd s (by simp [Expr.scalars, hs])) with ⟨ca, hca, hab, _⟩ | he
  · rcases evalIn_wellSorted σ b hws.1.2 (fun s hs => hd s (by simp [Expr.scalars, hs])) with ⟨cb, hcb, hbb, _⟩ | he
    · right
      have hbits : ca.bits = cb.bits := by rw [hab, hbb]; exact hws.2
      have h0 : σ.evalIn (.bin .cmpeq a b) = .ok (bit (ca.val == cb.val)) := by
        rw [evalIn_bin σ _ _ _ hw hd, hca, hcb]; simp [BinOp.apply, Const.cmpeq, hbits]
      have h1 : σ.evalIn (.bin .cmpneq a b) = .ok (bit (ca.val != cb.val)) := by
        rw [evalIn_bin σ _ _ _ hw' hd', hca, hcb]; simp [BinOp.apply, Const.cmpneq, hbits]
      rw [ExactlyOne, holds_iff σ _ _ h0, holds_iff σ _ _ h1]
      by_cases hv : ca.val = cb.val
      · left; simp [hv, bit]
      · right; simp [hv, bit]
    · exact .inl (.inr he)
  · exact .inl (.inl he)

end shapes

/-- division-free: no `divu/modu/divs/mods` node (then evaluation cannot end in the division error) -/
def Expr.divFree : Expr → Bool
  | .scalar _ => true
  | .const _ => true
  | .bin op l r => !(op == .divu || op == .modu || op == .divs || op == .mods) && l.divFree && r.divFree
  | .ext _ _ e => e.divFree
  | .ite c t e => c.divFree && t.divFree && e.divFree

/-- **the recognised pairs are partitions**: for every state defining the scalars of both guards, exactly
    one of the two is enabled — unless evaluating one of them divides by zero -/
theorem complement_sound (σ : State) (g h : Expr) (hc : isComplement g h = true)
    (hwg : g.wellSorted = true) (hwh : h.wellSorted = true) (hbg : g.bits = 1) (hbh : h.bits = 1)
    (hdg : ∀ s ∈ g.scalars, σ.Defines s) (hdh : ∀ s ∈ h.scalars, σ.Defines s) :
    (∃ e, e ∈ [g, h] ∧ σ.evalIn e = .err .div0) ∨ ExactlyOne σ g h := by
  have key : ∀ g h : Expr, isNegOf g h = true → g.wellSorted = true → g.bits = 1 →
      (∀ s ∈ g.scalars, σ.Defines s) → σ.evalIn g = .err .div0 ∨ ExactlyOne σ g h := by
    intro g h hn hwg hbg hdg
    unfold isNegOf at hn
    split at hn
    · rename_i a b
      simp only [Bool.and_eq_true, beq_iff_eq] at hn
      rw [hn.1, isBitConst_eq hn.2]
      exact neg_cmpeq0 σ g hwg hbg hdg
    · rename_i a b
      simp only [Bool.and_eq_true, beq_iff_eq] at hn
      rw [hn.1, isBitConst_eq hn.2]
      exact neg_cmpneq1 σ g hwg hbg hdg
    · cases hn
  unfold isComplement at hc
  simp only [Bool.or_eq_true] at hc
  rcases hc with (h1 | h2) | h3
  · rcases key g h h1 hwg hbg hdg with he | hx
    · exact .inl ⟨g, by simp, he⟩
    · exact .inr hx
  · rcases key h g h2 hwh hbh hdh with he | hx
    · exact .inl ⟨h, by simp, he⟩
    · exact .inr hx.symm
  · split at h3
    · -- x == b / x == b'
      rename_i a b a' b'
      simp only [Bool.and_eq_true, beq_iff_eq, Bool.or_eq_true] at h3
      obtain ⟨⟨haa, hab⟩, hbb⟩ := h3
      subst haa
      have hwa : a.wellSorted = true := by
        simp only [Expr.wellSorted, Bool.and_eq_true] at hwg; exact hwg.1.1
      have hda : ∀ s ∈ a.scalars, σ.Defines s := fun s hs => hdg s (by simp [Expr.scalars, hs])
      rcases hbb with ⟨b0, b1⟩ | ⟨b1, b0⟩
      · rw [isBitConst_eq b0, isBitConst_eq b1]
        rcases eq0_eq1 σ a hwa hab hda with he | hx
        · left
          refine ⟨.bin .cmpeq a (.const ⟨1, 0⟩), by simp, ?_⟩
          rw [isBitConst_eq b0] at hwg hdg
          rw [evalIn_bin σ _ _ _ hwg hdg, he]; rfl
        · exact .inr hx
      · rw [isBitConst_eq b0, isBitConst_eq b1]
        rcases eq0_eq1 σ a hwa hab hda with he | hx
        · left
          refine ⟨.bin .cmpeq a (.const ⟨1, 1⟩), by simp, ?_⟩
          rw [isBitConst_eq b1] at hwg hdg
          rw [evalIn_bin σ _ _ _ hwg hdg, he]; rfl
        · exact .inr hx.symm
    · rename_i a b a' b'
      simp only [Bool.and_eq_true, beq_iff_eq] at h3
      obtain ⟨ha, hb⟩ := h3
      subst ha; subst hb
      rcases eq_neq σ a b hwg hdg with he | hx
      · left
        refine ⟨.bin .cmpeq a b, by simp, ?_⟩
        rcases he with he | he
        · rw [evalIn_bin σ _ _ _ hwg hdg, he]; rfl
        · have hws := hwg
          simp only [Expr.wellSorted, Bool.and_eq_true, decide_eq_true_eq] at hws
          rcases evalIn_wellSorted σ a hws.1.1 (fun s hs => hdg s (by simp [Expr.scalars, hs])) with ⟨ca, hca, _, _⟩ | hea
          · rw [evalIn_bin σ _ _ _ hwg hdg, hca, he]; rfl
          · rw [evalIn_bin σ _ _ _ hwg hdg, hea]; rfl
      · exact .inr hx
    · rename_i a b a' b'
      simp only [Bool.and_eq_true, beq_iff_eq] at h3
      obtain ⟨ha, hb⟩ := h3
      subst ha; subst hb
      rcases eq_neq σ a b hwh hdh with he | hx
      · left
        refine ⟨.bin .cmpeq a b, by simp, ?_⟩
        rcases he with he | he
        · rw [evalIn_bin σ _ _ _ hwh hdh, he]; rfl
        · have hws := hwh
          simp only [Expr.wellSorted, Bool.and_eq_true, decide_eq_true_eq] at hws
          rcases evalIn_wellSorted σ a hws.1.1 (fun s hs => hdh s (by simp [Expr.scalars, hs])) with ⟨ca, hca, _, _⟩ | hea
          · rw [evalIn_bin σ _ _ _ hwh hdh, hca, he]; rfl
          · rw [evalIn_bin σ _ _ _ hwh hdh, hea]; rfl
      · exact .inr hx.symm
    · cases h3

end Falcon
