/-
  Drivers.C15 — line-protocol driver for property C15 (CFG construction and editing).

  A request is ONE history: operations separated by ` ; `, over three graphs g0 g1 g2 that all start as
  `ControlFlowGraph::new()`.

    new_block g | uedge g h t | cedge g h t <FIL expr> | entry g i | exit g i | merge g
    append g g' | insert g g' | op g b <FIL op> | bappend g b g' b' | rmins g b idx | temp g bits

  Answer per operation (joined by ` ; `):   <result>|<properties>|<dump of g after the call>
    result      ok | ok:<index> | ok:<entry>,<exit> | ok:<name>:<bits> | err:other | panic
    properties  wf | bad:<reasons>      then ` lang=<digest>` after merge, ` ee=<digest>` after append
    dump        (cfg <entry> <exit> <next_index> <next_temp> (blk ..)* (edge ..)* (q <i> (s succ*) (p pred*))*)
  After a panic the graph is the one before the call (the harness restores its snapshot).

  Specification column per operation:  <result or *>|<properties>  — what the property demands:
    always `wf`; `merge` must return ok and keep the (length ≤ K) language from the entry;
    `append` must fail exactly in the documented cases and otherwise produce the concatenation of the
    entry→exit languages.
-/
import FalconModel.DriverLoop
import FalconModel.CfgEdit

open Falcon Falcon.CfgEdit

def K : Nat := 5

def optStr : Option Nat → String
  | none => "-"
  | some n => toString n

def natsStr (xs : List Nat) : String := " ".intercalate (xs.map toString)

def cfgStr (c : Cfg) : String :=
  let q := c.blocks.map (fun b =>
    "(q " ++ toString b.index ++ " (s" ++ (if (c.successorIndices b.index).isEmpty then "" else " ") ++ natsStr (c.successorIndices b.index)
      ++ ") (p" ++ (if (c.predecessorIndices b.index).isEmpty then "" else " ") ++ natsStr (c.predecessorIndices b.index) ++ "))")
  " ".intercalate (["(cfg", optStr c.entry, optStr c.exit, toString c.nextIndex, toString c.nextTemp]
    ++ c.blocks.map Fil.blkStr ++ c.edges.map Fil.edgeStr ++ q) ++ ")"

def propsStr (c : Cfg) : String :=
  match wfProblems c with
  | [] => "wf"
  | ps => "bad:" ++ ",".intercalate ps

def resStr {α : Type} (f : α → String) : Res α → String
  | .ok a => f a
  | .err e => toString e
  | .panic => "panic"

def graphIx (s : String) : Option Nat :=
  match s with
  | "g0" => some 0
  | "g1" => some 1
  | "g2" => some 2
  | _ => none

structure St where
  g0 : Cfg := {}
  g1 : Cfg := {}
  g2 : Cfg := {}

def St.get (s : St) : Nat → Cfg
  | 0 => s.g0
  | 1 => s.g1
  | _ => s.g2

def St.set (s : St) (i : Nat) (c : Cfg) : St :=
  match i with
  | 0 => { s with g0 := c }
  | 1 => { s with g1 := c }
  | _ => { s with g2 := c }

/-- model answer, spec answer, new state -/
def finish {α : Type} (s : St) (g : Nat) (st : Step α) (f : α → String) (extra : Cfg → String)
    (specRes : String) (specExtra : String) : St × String × String :=
  let c' := match st.res with
    | .panic => s.get g
    | _ => st.cfg
  (s.set g c', resStr f st.res ++ "|" ++ propsStr c' ++ extra c' ++ "|" ++ cfgStr c', specRes ++ "|wf" ++ specExtra)

def unitStr : Unit → String := fun _ => "ok"

def stepOp (s : St) (op : String) : St × String × String :=
  let bad := (s, "bad-request", "-")
  let noX : Cfg → String := fun _ => ""
  match Sx.parseAll op with
  | some [.atom "new_block", .atom g] =>
    match graphIx g with
    | some g => finish s g (newBlock (s.get g)) (fun i => "ok:" ++ toString i) noX "*" ""
    | none => bad
  | some [.atom "uedge", .atom g, h, t] =>
    match graphIx g, h.nat?, t.nat? with
    | some g, some h, some t => finish s g (unconditionalEdge (s.get g) h t) unitStr noX "*" ""
    | _, _, _ => bad
  | some [.atom "cedge", .atom g, h, t, e] =>
    match graphIx g, h.nat?, t.nat?, Fil.expr? e with
    | some g, some h, some t, some e => finish s g (conditionalEdge (s.get g) h t e) unitStr noX "*" ""
    | _, _, _, _ => bad
  | some [.atom "entry", .atom g, i] =>
    match graphIx g, i.nat? with
    | some g, some i => finish s g (setEntry (s.get g) i) unitStr noX "*" ""
    | _, _ => bad
  | some [.atom "exit", .atom g, i] =>
    match graphIx g, i.nat? with
    | some g, some i => finish s g (setExit (s.get g) i) unitStr noX "*" ""
    | _, _ => bad
  | some [.atom "merge", .atom g] =>
    match graphIx g with
    | some g =>
      let pre := s.get g
      finish s g (merge pre) unitStr (fun c => " lang=" ++ digest (langK c K)) "ok" (" lang=" ++ digest (langK pre K))
    | none => bad
  | some [.atom "append", .atom g, .atom h] =>
    match graphIx g, graphIx h with
    | some g, some h =>
      let pre := s.get g
      let d := s.get h
      let mustFail := (!pre.blocks.isEmpty && (pre.entry.isNone || pre.exit.isNone)) || d.entry.isNone || d.exit.isNone
      let (specRes, specX) :=
        if mustFail then ("err:other", "")
        else
          let ee := if pre.blocks.isEmpty then langEEK d K
            else match langEEK pre K, langEEK d K with
              | some a, some b => some (concatK K a b)
              | _, _ => none
          ("ok", " ee=" ++ digest ee)
      let st := append pre d
      let isOk := match st.res with | .ok _ => true | _ => false
      finish s g st unitStr (fun c => if isOk then " ee=" ++ digest (langEEK c K) else "") specRes specX
    | _, _ => bad
  | some [.atom "insert", .atom g, .atom h] =>
    match graphIx g, graphIx h with
    | some g, some h =>
      finish s g (insert (s.get g) (s.get h)) (fun (p : Nat × Nat) => "ok:" ++ toString p.1 ++ "," ++ toString p.2) noX "*" ""
    | _, _ => bad
  | some [.atom "op", .atom g, b, o] =>
    match graphIx g, b.nat?, Fil.op? o with
    | some g, some b, some o => finish s g (blockOp (s.get g) b o) unitStr noX "*" ""
    | _, _, _ => bad
  | some [.atom "bappend", .atom g, b, .atom h, j] =>
    match graphIx g, b.nat?, graphIx h, j.nat? with
    | some g, some b, some h, some j => finish s g (blockAppendOp (s.get g) b (s.get h) j) unitStr noX "*" ""
    | _, _, _, _ => bad
  | some [.atom "rmins", .atom g, b, i] =>
    match graphIx g, b.nat?, i.nat? with
    | some g, some b, some i => finish s g (removeInstruction (s.get g) b i) unitStr noX "*" ""
    | _, _, _ => bad
  | some [.atom "temp", .atom g, n] =>
    match graphIx g, n.nat? with
    | some g, some n =>
      finish s g (temp (s.get g) n) (fun (x : Scalar) => "ok:" ++ x.name ++ ":" ++ toString x.bits) noX "*" ""
    | _, _ => bad
  | _ => bad

def handle (line : String) : String :=
  let ops := line.splitOn " ; "
  let (_, ms, ss) := ops.foldl (fun (acc : St × List String × List String) op =>
    let (s, ms, ss) := acc
    let (s', m, sp) := stepOp s op
    (s', m :: ms, sp :: ss)) ({}, [], [])
  " ; ".intercalate ms.reverse ++ "\t" ++ " ; ".intercalate ss.reverse

def main : IO Unit := driverLoop handle
