/-
  Drivers.C15 — line-protocol driver for property C15 (CFG construction and editing).

  A request is ONE history: operations separated by ` ; `, over three graphs g0 g1 g2 that all start as
  `ControlFlowGraph::new()`.

    new_block g | uedge g h t | cedge g h t <FIL expr> | entry g i | exit g i | merge g
    append g g' | insert g g' | op g b <FIL op> | bappend g b g' b' | rmins g b idx | temp g bits
    blockify g g'*      (g := BlockTranslationResult::new([g'*], ..).blockify()?; g unchanged on Err)

  Answer per operation (joined by ` ; `):   <result>|<properties>|<dump of g after the call>
    result      ok | ok:<index> | ok:<entry>,<exit> | ok:<name>:<bits> | err:other | panic
    properties  wf | bad:<reasons>      then ` lang=<digest>` after merge, ` ee=<digest>` after append
    dump        (cfg <entry> <exit> <next_index> <next_temp> (blk ..)* (edge ..)* (q <i> (s succ*) (p pred*))*)
  After a panic the graph is the one before the call (the harness restores its snapshot).

  Specification column per operation:  <result or *>|<properties>  — what the property demands:
    always `wf`; `merge` must return ok and keep the (length ≤ K) language from the entry;
    `append` must fail exactly in the documented cases and otherwise produce the concatenation of the
    entry→exit languages.
-/
import FalconModel.DriverLoop
import FalconModel.CfgEdit

open Falcon Falcon.CfgEdit

def K : Nat := 5

def optStr : Option Nat → String
  | none => "-"
  | some n => toString n

def natsStr (xs : List Nat) : String := " ".intercalate (xs.map toString)

def cfgStr (c : Cfg) : String :=
  let q := c.blocks.map (fun b =>
    "(q " ++ toString b.index ++ " (s" ++ (if (c.successorIndices b.index).isEmpty then "" else " ") ++ natsStr (c.successorIndices b.index)
      ++ ") (p" ++ (if (c.predecessorIndices b.index).isEmpty then "" else " ") ++ natsStr (c.predecessorIndices b.index) ++ "))")
  " ".intercalate (["(cfg", optStr c.entry, optStr c.exit, toString c.nextIndex, toString c.nextTemp]
    ++ c.blocks.map Fil.blkStr ++ c.edges.map Fil.edgeStr ++ q) ++ ")"

def propsStr (c : Cfg) : String :=
  match wfProblems c with
  | [] => "wf"
  | ps => "bad:" ++ ",".intercalate ps

def resStr {α : Type} (f : α → String) : Res α → String
  | .ok a => f a
  | .err e => toString e
  | .panic => "panic"

def graphIx (s : String) : Option Nat :=
  match s with
  | "g0" => some 0
  | "g1" => some 1
  | "g2" => some 2
  | _ => none

/-- operation text → `EditOp` -/
def parseOp (op : String) : Option EditOp :=
  match Sx.parseAll op with
  | some [.atom "new_block", .atom g] => do pure (.newBlock (← graphIx g))
  | some [.atom "uedge", .atom g, h, t] => do pure (.uedge (← graphIx g) (← h.nat?) (← t.nat?))
  | some [.atom "cedge", .atom g, h, t, e] => do pure (.cedge (← graphIx g) (← h.nat?) (← t.nat?) (← Fil.expr? e))
  | some [.atom "entry", .atom g, i] => do pure (.entry (← graphIx g) (← i.nat?))
  | some [.atom "exit", .atom g, i] => do pure (.exit (← graphIx g) (← i.nat?))
  | some [.atom "merge", .atom g] => do pure (.merge (← graphIx g))
  | some [.atom "append", .atom g, .atom h] => do pure (.append (← graphIx g) (← graphIx h))
  | some [.atom "insert", .atom g, .atom h] => do pure (.insert (← graphIx g) (← graphIx h))
  | some [.atom "op", .atom g, b, o] => do pure (.op (← graphIx g) (← b.nat?) (← Fil.op? o))
  | some [.atom "bappend", .atom g, b, .atom h, j] => do pure (.bappend (← graphIx g) (← b.nat?) (← graphIx h) (← j.nat?))
  | some [.atom "rmins", .atom g, b, i] => do pure (.rmins (← graphIx g) (← b.nat?) (← i.nat?))
  | some [.atom "temp", .atom g, n] => do pure (.temp (← graphIx g) (← n.nat?))
  | some (.atom "blockify" :: .atom g :: hs) => do
      pure (.blockify (← graphIx g) (← hs.mapM (fun h => h.atom?.bind graphIx)))
  | _ => none

def outcomeStr : Outcome → String
  | .unit => "ok"
  | .index i => "ok:" ++ toString i
  | .pair a b => "ok:" ++ toString a ++ "," ++ toString b
  | .scalar x => "ok:" ++ x.name ++ ":" ++ toString x.bits

/-- what the property demands of this call, from the graphs before it: (result or `*`, extra properties) -/
def specOf (s : Graphs) : EditOp → String × String
  | .merge g => ("ok", " lang=" ++ digest (langK (s g) K))
  | .append g h =>
    let pre := s g
    let d := s h
    let mustFail := (!pre.blocks.isEmpty && (pre.entry.isNone || pre.exit.isNone)) || d.entry.isNone || d.exit.isNone
    if mustFail then ("err:other", "")
    else
      let ee := if pre.blocks.isEmpty then langEEK d K
        else match langEEK pre K, langEEK d K with
          | some a, some b => some (concatK K a b)
          | _, _ => none
      ("ok", " ee=" ++ digest ee)
  | .blockify _ hs =>
    let ds := hs.map s
    if ds.all (fun d => d.entry.isSome && d.exit.isSome) then
      -- the appended graph runs the instruction graphs in sequence (append's specification); the final
      -- merge must not change what can be executed from the entry
      ("ok", " lang=" ++ digest (langK (blockifyAppends blockifyInit ds).cfg K))
    else ("err:other", "")
  | _ => ("*", "")

/-- the extra properties printed after the call, from the graph after it -/
def extraOf (o : EditOp) (res : Res Outcome) (c : Cfg) : String :=
  match o, res with
  | .merge _, _ => " lang=" ++ digest (langK c K)
  | .append .., .ok _ => " ee=" ++ digest (langEEK c K)
  | .blockify .., .ok _ => " lang=" ++ digest (langK c K)
  | _, _ => ""

/-- new graphs, model answer, spec answer -/
def stepOp (s : Graphs) (op : String) : Graphs × String × String :=
  match parseOp op with
  | none => (s, "bad-request", "-")
  | some o =>
    let (s', res) := run s o
    let c' := s' o.target
    let (specRes, specX) := specOf s o
    (s', resStr outcomeStr res ++ "|" ++ propsStr c' ++ extraOf o res c' ++ "|" ++ cfgStr c', specRes ++ "|wf" ++ specX)

def handle (line : String) : String :=
  let ops := line.splitOn " ; "
  let (_, ms, ss) := ops.foldl (fun (acc : Graphs × List String × List String) op =>
    let (s, ms, ss) := acc
    let (s', m, sp) := stepOp s op
    (s', m :: ms, sp :: ss)) ((fun _ => CfgEdit.new), [], [])
  " ; ".intercalate ms.reverse ++ "\t" ++ " ; ".intercalate ss.reverse

def main : IO Unit := driverLoop handle
