/-
  Drivers.C09 — line-protocol driver for property C09 (the fixed-point engine).
  Request:
    fp <f|b> <force 0|1> <max|-> <join> <cmp> <k> <fn> (def e…) (at <oloc> e…)*
      f|b      forward / backward solver
      max      `max_analysis_steps` (forward only; the backward solver uses DEFAULT_MAX_ANALYSIS_STEPS)
      join     u (union) | i (intersection) | x (xor) | m (max) | e (returns Err) | c<N> (constant N)
      cmp      s (subset order on bit masks) | n (numeric order) | z (never comparable) | g (always Greater)
      k        states are the numbers below 2^k
      e…       the transfer table of a location: 2^k+1 entries, entry 0 for `None`, entry s+1 for `Some(s)`;
               an entry is a number or `err` (trans returns Err).  `def` is the table of every location that
               has no `at`; <oloc> is (i b k) | (e h t) | (b k).
  Answer: `ok <loc>=<state> …` (sorted) | err:maxsteps | err:ordering:<less|norel>@<loc> | err:noroot | err:other | panic
  Spec column:
    `ok …`    lawful monotone analysis (tables monotone incl. the None entry, join = lub of the cmp order):
              the least solution computed by Kleene iteration over the reachable locations — must be the answer
    `lfp …`   the same with a small step budget: the answer must be that map or err:maxsteps
    `sound`   force = 0 and a lawful cmp: the model's answer is an error or satisfies the equations on exactly
              the reachable locations (runtime re-check of theorem fp_ok_solution); `unsound` otherwise;
              `falcon-unsound` when FALCON's own `ok` answer (second input field) does not satisfy them
    `-`       no second opinion (force with a non-monotone analysis, unlawful cmp)
-/
import FalconModel.DriverLoop
import FalconModel.FilIL
import FalconModel.FixedPoint

open Falcon

def olocStr : OFLoc → String
  | .instr b i => s!"I{b}:{i}"
  | .edge h t => s!"E{h}-{t}"
  | .empty b => s!"B{b}"

def flocStr : FLoc → String
  | .instr b i => s!"I{b.index}:{i.index}:{Fil.optHexStr i.addr}"
  | .edge e => s!"E{e.head}-{e.tail}"
  | .empty b => s!"B{b.index}"

def olocKey : OFLoc → Nat × Nat × Nat × Nat
  | .instr b i => (0, b, i, 0)
  | .edge h t => (1, h, t, 0)
  | .empty b => (2, b, 0, 0)

def flocKey : FLoc → Nat × Nat × Nat × Nat
  | .instr b i => (0, b.index, i.index, match i.addr with | none => 0 | some a => a + 1)
  | .edge e => (1, e.head, e.tail, 0)
  | .empty b => (2, b.index, 0, 0)

def keyLe (a b : Nat × Nat × Nat × Nat) : Bool :=
  let (a0, a1, a2, a3) := a
  let (b0, b1, b2, b3) := b
  if a0 != b0 then a0 < b0 else if a1 != b1 then a1 < b1 else if a2 != b2 then a2 < b2 else a3 ≤ b3

/-- newest entry per key, sorted -/
def mapStr {L : Type} [DecidableEq L] (key : L → Nat × Nat × Nat × Nat) (str : L → String)
    (st : List (L × Nat)) : String :=
  let dedup := st.foldl (fun acc (kv : L × Nat) => if acc.any (·.1 = kv.1) then acc else acc ++ [kv]) []
  let sorted := dedup.mergeSort (fun a b => keyLe (key a.1) (key b.1))
  " ".intercalate ("ok" :: sorted.map fun (l, v) => s!"{str l}={v}")

def outStr {L : Type} [DecidableEq L] (key : L → Nat × Nat × Nat × Nat) (str : L → String)
    (ostr : L → String) : FPOut L Nat → String
  | .ok st => mapStr key str st
  | .maxSteps => "err:maxsteps"
  | .ordering less l => s!"err:ordering:{if less then "less" else "norel"}@{ostr l}"
  | .noRoot => "err:noroot"
  | .err => "err:other"
  | .panic => "panic"

inductive JoinK | u | i | x | m | e | c (n : Nat)
inductive CmpK | s | n | z | g
  deriving DecidableEq

def joinK? (s : String) : Option JoinK :=
  match s.toList with
  | ['u'] => some .u | ['i'] => some .i | ['x'] => some .x | ['m'] => some .m | ['e'] => some .e
  | 'c' :: r => (String.ofList r).toNat?.map .c
  | _ => none

def cmpK? : String → Option CmpK
  | "s" => some .s | "n" => some .n | "z" => some .z | "g" => some .g
  | _ => none

def JoinK.apply : JoinK → Nat → Nat → Res Nat
  | .u, a, b => .ok (a ||| b)
  | .i, a, b => .ok (a &&& b)
  | .x, a, b => .ok (a ^^^ b)
  | .m, a, b => .ok (max a b)
  | .e, _, _ => .err .other
  | .c n, _, _ => .ok n

def CmpK.apply : CmpK → Nat → Nat → Option Ordering
  | .s, a, b => if a = b then some .eq else if a &&& b = a then some .lt else if a &&& b = b then some .gt else none
  | .n, a, b => some (compare a b)
  | .z, _, _ => none
  | .g, _, _ => some .gt

/-- the order a cmp kind denotes (for the monotonicity test of the tables) -/
def CmpK.le : CmpK → Nat → Nat → Bool
  | .s, a, b => a &&& b == a
  | .n, a, b => a ≤ b
  | _, _, _ => false

abbrev Table := List (Option Nat)

def entry? : Sx → Option (Option Nat)
  | .atom "err" => some none
  | x => x.nat?.map some

def table? : List Sx → Option Table
  | [] => some []
  | x :: xs => do pure ((← entry? x) :: (← table? xs))

def oloc? : Sx → Option OFLoc
  | .list [.atom "i", b, k] => do pure (.instr (← b.nat?) (← k.nat?))
  | .list [.atom "e", h, t] => do pure (.edge (← h.nat?) (← t.nat?))
  | .list [.atom "b", b] => do pure (.empty (← b.nat?))
  | _ => none

def ats? : List Sx → Option (List (OFLoc × Table))
  | [] => some []
  | .list (.atom "at" :: o :: es) :: xs => do pure (((← oloc? o), (← table? es)) :: (← ats? xs))
  | _ => none

structure Req where
  fwd : Bool
  force : Bool
  max : Nat
  join : JoinK
  cmp : CmpK
  k : Nat
  f : Function
  dflt : Table
  ats : List (OFLoc × Table)

def Req.table (r : Req) (o : OFLoc) : Table :=
  match r.ats.find? (·.1 = o) with
  | some (_, t) => t
  | none => r.dflt

def Req.analysis (r : Req) : Analysis Nat where
  trans pl x :=
    let idx := match x with | none => 0 | some s => s + 1
    match (r.table pl.loc.toOwned)[idx]? with
    | some (some v) => .ok v
    | _ => .err .other
  join := r.join.apply
  cmp := r.cmp.apply

def req? : List Sx → Option Req
  | .atom "fp" :: .atom d :: .atom fo :: mx :: .atom j :: .atom c :: k :: fn :: .list (.atom "def" :: es) :: rest => do
    let fwd ← match d with | "f" => some true | "b" => some false | _ => none
    let force ← match fo with | "0" => some false | "1" => some true | _ => none
    let max := match mx.nat? with | some n => n | none => 0
    pure { fwd, force, max, join := (← joinK? j), cmp := (← cmpK? c), k := (← k.nat?),
           f := (← Fil.function? fn), dflt := (← table? es), ats := (← ats? rest) }
  | _ => none

/-- monotone table (entry 0 = `None` is below everything), no `err`, all values below 2^k -/
def tableMono (c : CmpK) (k : Nat) (t : Table) : Bool :=
  t.length == 2 ^ k + 1 && t.all (fun e => match e with | some v => v < 2 ^ k | none => false) &&
  (List.range (2 ^ k)).all fun a =>
    (match t[0]?, t[a + 1]? with
      | some (some x), some (some y) => c.le x y
      | _, _ => false) &&
    (List.range (2 ^ k)).all fun b =>
      if c.le a b then
        match t[a + 1]?, t[b + 1]? with
        | some (some x), some (some y) => c.le x y
        | _, _ => false
      else true

def lawfulMono (r : Req) : Bool :=
  (match r.cmp, r.join with
   | .s, .u => true
   | .n, .m => true
   | _, _ => false) &&
  tableMono r.cmp r.k r.dflt && r.ats.all (fun a => tableMono r.cmp r.k a.2)

/-- the same re-check on what FALCON answered (the property: an error, never an unsound answer): an `ok` answer must
    give a state to exactly the reachable locations and satisfy the data-flow equations at every one of them.
    The answer is matched against the reachable locations through their printed names, so nothing is parsed back. -/
def falconSound {L : Type} [DecidableEq L] (P : FPParams L Nat) (keys : List L) (str : L → String)
    (falcon : String) : String :=
  match falcon.splitOn " " with
  | "ok" :: entries =>
    let kvs : List (String × Nat) := entries.filterMap fun e =>
      match e.splitOn "=" with
      | [k, v] => v.toNat?.map (fun n => (k, n))
      | _ => none
    if kvs.length != entries.length then "sound" else
    let st : List (L × Nat) := keys.filterMap fun l => (kvs.find? (·.1 == str l)).map (fun kv => (l, kv.2))
    if st.length == keys.length && kvs.length == keys.length && keys.all (eqnB P st) then "sound"
    else "falcon-unsound"
  | _ => "sound"

/-- the second opinion for one solver instance -/
def specFor {L : Type} [DecidableEq L] (r : Req) (P : FPParams L Nat) (root : L)
    (key : L → Nat × Nat × Nat × Nat) (str : L → String) (model : FPOut L Nat) (bigBudget : Bool)
    (closureFuel : Nat) (falcon : String) : String :=
  match closure P.succL closureFuel [root] [] with
  | none => "fuel"
  | some keys =>
    if lawfulMono r then
      match kleene P keys (keys.length * (2 ^ r.k + 2) + 2) [] with
      | some st =>
        let m := mapStr key str st
        if bigBudget then m else "lfp" ++ (m.drop 2).toString
      | none => "kleene-failed"
    else if !r.force && (r.cmp == .s || r.cmp == .n) then
      match model with
      | .ok st =>
        let ks := st.map (·.1)
        if keys.all (fun l => ks.contains l) && ks.all (fun l => keys.contains l) && ks.all (eqnB P st)
        then falconSound P keys str falcon else "unsound"
      | _ => falconSound P keys str falcon
    else "-"

def handle (line0 : String) : String :=
  let bad := "bad-request\t-"
  -- input: `request TAB falcon's answer` (DRIVER_TAKES_ANSWER); the answer is only used by `falconSound`
  let (line, falcon) := match line0.splitOn "\t" with
    | [r, a] => (r, a)
    | _ => (line0, "")
  match Sx.parseAll line >>= req? with
  | none => bad
  | some r =>
    let A := r.analysis
    let f := r.f
    let cfuel := f.locFuel
    if r.fwd then
      let model := fixedPointForward f A r.force r.max
      let m := outStr olocKey olocStr olocStr model
      let s := match f.cfg.entry.bind f.cfg.block with
        | some b => specFor r (fwdParams f A) b.firstLoc.toOwned olocKey olocStr model (r.max ≥ 10000) cfuel falcon
        | none => "-"
      m ++ "\t" ++ (if wffB f then s else "?")
    else
      let model := fixedPointBackward f A r.force
      let m := outStr flocKey flocStr (fun l => olocStr l.toOwned) model
      let s := match f.cfg.exit.bind f.cfg.block with
        | some b => specFor r (bwdParams f A) b.lastLoc flocKey flocStr model true cfuel falcon
        | none => "-"
      m ++ "\t" ++ (if wffB f then s else "?")

def main : IO Unit := driverLoop handle
