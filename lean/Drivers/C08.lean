/-
  Drivers.C08 — line-protocol driver for property C08 (paged memory).

  One request line = one history: operations separated by " ; ", tokens by single spaces.  Handles are
  arbitrary tokens (`m0`, `m1`, …).  Addresses and lengths are `0x…` hexadecimal (or decimal), widths
  and permissions decimal, constants `0x<hex>:<bits>`.

    new <h> <LE|BE>                                  h := Memory::new(endian)
    newb <h> <LE|BE> <LE|BE> <sec>,<sec>,…|-         h := Memory::new_with_backing(endian, backing) where the
                                                     backing (second endian) is built by `set_memory` from the
                                                     sections  <addr>:<perm>:<hexbytes>  (ascending, disjoint,
                                                     non-empty); `-` = no sections
    clone <h> <h2>                                   h2 := h.clone()
    store <h> <addr> <const>                         ok | err:other | err:sort | panic
    load <h> <addr> <bits>                           <const> | none | err:… | panic
    perm <h> <addr> <len> <p>                        set_permissions: ok | panic
    getperm <h> <addr>                               p<n> | none
    eq <h> <h2>                                      true | false
    mode E                                           (first operation only) the harness runs the history on
                                                     Memory<il::Expression>: every stored constant becomes a
                                                     small constant expression tree, every loaded expression is
                                                     evaluated before printing; the model column is computed by
                                                     the Expression-instance model (`storeE`/`loadE`/`eqE`, the
                                                     same tree `(c ^ k) ^ k` stored, the loaded tree evaluated
                                                     by `Expr.eval`); the specification column is the byte array
                                                     of the evaluated values
  an operation on an unknown handle answers `nohandle`, an unreadable one `bad-request`.

  Answer line: `<model answers joined by " ; ">\t<specification answers joined by " ; ">`.
  Specification column per operation: the byte-array answer; `-` where the property gives no second
  opinion (an `eq` between memories that are neither clone-identical nor distinguishable by a load;
  `getperm` on a page touched only by an empty range), `?` outside the property's domain (widths that
  are not positive multiples of 8 for loads, ranges running past 2^64).
-/
import FalconModel.DriverLoop
import FalconModel.FilExpr
import FalconModel.Paged

open Falcon Falcon.Paged

structure SpecMem where
  endian : Endian
  bytes : Bytes
  probes : List Nat              -- addresses at which `bytes` may be defined
  perms : AList (Option Nat)     -- page ↦ `some p` (set) | `none` (no opinion)
  bperm : Nat → Option Nat       -- the backing's permissions
  ver : Nat                      -- identity of the contents: clones share it until modified

structure St where
  hs : List (String × Mem × SpecMem)
  next : Nat

def St.find (s : St) (h : String) : Option (Mem × SpecMem) := s.hs.lookup h
def St.put (s : St) (h : String) (m : Mem) (sp : SpecMem) : St :=
  { s with hs := (h, m, sp) :: s.hs.filter (fun x => x.1 != h) }

def endian? : String → Option Endian
  | "LE" => some .little
  | "BE" => some .big
  | _ => none

def hexBytes : List Char → Option (List UInt8)
  | [] => some []
  | a :: b :: t => do
      let x ← Sx.hexVal a
      let y ← Sx.hexVal b
      let r ← hexBytes t
      pure (UInt8.ofNat (x * 16 + y) :: r)
  | _ => none

def section? (s : String) : Option Section :=
  match s.splitOn ":" with
  | [a, p, d] => do
      let a ← Sx.parseNat a
      let p ← p.toNat?
      let d ← hexBytes d.toList
      pure ⟨a, d, p⟩
  | _ => none

def sections? (s : String) : Option (List Section) :=
  if s = "-" then some [] else (s.splitOn ",").mapM section?

def showLoad : Res (Option Const) → String
  | .ok (some c) => toString c
  | .ok none => "none"
  | .err e => toString e
  | .panic => "panic"

def showPerm : Option Nat → String
  | some p => "p" ++ toString p
  | none => "none"

def specBytesDiffer (a b : SpecMem) : Bool :=
  (a.probes ++ b.probes).any (fun x => a.bytes x != b.bytes x)

/-- pages `pa, pa+1024, …` below `limit` (at most `fuel`) -/
def pagesBelow (limit : Nat) : Nat → Nat → List Nat
  | _, 0 => []
  | pa, fuel + 1 => if pa < limit then pa :: pagesBelow limit (pa + PAGE_SIZE) fuel else []

def step (s : St) (op : String) : St × String × String :=
  let bad := (s, "bad-request", "bad-request")
  let noh := (s, "nohandle", "nohandle")
  match op.splitOn " " with
  | ["new", h, e] =>
    match endian? e with
    | some e =>
      let sp : SpecMem := ⟨e, fun _ => none, [], [], fun _ => none, s.next⟩
      ({ (s.put h (Paged.new e) sp) with next := s.next + 1 }, "ok", "ok")
    | none => bad
  | ["newb", h, e, be, secs] =>
    match endian? e, endian? be, sections? secs with
    | some e, some be, some secs =>
      let b : Backing := ⟨be, secs⟩
      let probes := secs.foldl (fun acc sec => acc ++ (List.range sec.data.length).map (· + sec.addr)) []
      let sp : SpecMem := ⟨e, b.get8, probes, [], b.permissions, s.next⟩
      ({ (s.put h (Paged.newWithBacking e b) sp) with next := s.next + 1 }, "ok", "ok")
    | _, _, _ => bad
  | ["clone", h, h2] =>
    match s.find h with
    | some (m, sp) => (s.put h2 m sp, "ok", "ok")
    | none => noh
  | ["store", h, a, c] =>
    match s.find h, Sx.parseNat a, Fil.const? c with
    | none, _, _ => noh
    | some (m, sp), some a, some c =>
      let v := Const.new c.val c.bits
      let (m', ans) := match Paged.store m a v with
        | .ok m' => (m', "ok")
        | .err e => (m, toString e)
        | .panic => (m, "panic")
      if v.bits % 8 ≠ 0 ∨ v.bits = 0 then (s.put h m' sp, ans, "err:other")
      else if a + v.bits / 8 > U64 then (s.put h m' sp, ans, "?")
      else
        let bs := bytesOf sp.endian v
        let sp' := { sp with bytes := write sp.bytes a bs,
                             probes := (List.range bs.length).map (· + a) ++ sp.probes, ver := s.next }
        ({ (s.put h m' sp') with next := s.next + 1 }, ans, "ok")
    | _, _, _ => bad
  | ["load", h, a, n] =>
    match s.find h, Sx.parseNat a, n.toNat? with
    | none, _, _ => noh
    | some (m, sp), some a, some n =>
      let ans := showLoad (Paged.load m a n)
      let spec :=
        if n % 8 ≠ 0 ∨ n = 0 ∨ a + n / 8 > U64 then "?"
        else match read sp.bytes a (n / 8) sp.endian with
          | some c => toString c
          | none => "none"
      (s, ans, spec)
    | _, _, _ => bad
  | ["perm", h, a, len, p] =>
    match s.find h, Sx.parseNat a, Sx.parseNat len, p.toNat? with
    | none, _, _, _ => noh
    | some (m, sp), some a, some len, some p =>
      let (m', ans) := (Paged.setPermissions m a len p, "ok")
      if a + len > U64 ∨ len > 2 ^ 24 then (s.put h m' sp, ans, "?")
      else
        let pgs := pagesBelow (a + len) (pageOf a) (len / PAGE_SIZE + 2)
        let perms :=
          if len = 0 then AList.set sp.perms (pageOf a) none
          else pgs.foldl (fun acc pa => AList.set acc pa (some p)) sp.perms
        let sp' := { sp with perms := perms, ver := s.next }
        ({ (s.put h m' sp') with next := s.next + 1 }, ans, "ok")
    | _, _, _, _ => bad
  | ["getperm", h, a] =>
    match s.find h, Sx.parseNat a with
    | none, _ => noh
    | some (m, sp), some a =>
      let ans := showPerm (Paged.permissions m a)
      let spec := match AList.get sp.perms (pageOf a) with
        | some (some p) => showPerm (some p)
        | some none => "-"
        | none => showPerm (sp.bperm a)
      (s, ans, spec)
    | _, _ => bad
  | ["eq", h, h2] =>
    match s.find h, s.find h2 with
    | some (m, sp), some (m2, sp2) =>
      let ans := if Paged.eq m m2 then "true" else "false"
      let spec :=
        if sp.ver = sp2.ver then "true"
        else if specBytesDiffer sp sp2 then "false"
        else "-"
      (s, ans, spec)
    | _, _ => noh
  | ["mode", _] => (s, "ok", "ok")     -- `mode E`: the harness runs the history on Memory<il::Expression>
  | _ => bad

/-! ### `mode E`: the same interpreter over `MemE` -/

structure StE where
  hs : List (String × MemE × SpecMem)
  next : Nat

def StE.find (s : StE) (h : String) : Option (MemE × SpecMem) := s.hs.lookup h
def StE.put (s : StE) (h : String) (m : MemE) (sp : SpecMem) : StE :=
  { s with hs := (h, m, sp) :: s.hs.filter (fun x => x.1 != h) }

/-- the harness's `mask_a5`: 0xa5 in every byte, trimmed to `w` bits -/
def maskA5 (w : Nat) : Const := Const.new (0xa5 * ((256 ^ ((w + 7) / 8) - 1) / 255)) w

/-- the harness's `expr_of_const`: the tree `(c ^ k) ^ k` -/
def exprOfConst (c : Const) : Expr :=
  if c.bits = 0 then .const c
  else
    let k := maskA5 c.bits
    let ck := Const.new (c.val ^^^ k.val) c.bits
    match Expr.mkBin .xor (.const ck) (.const k) with
    | .ok e => e
    | _ => .const c

def showLoadE : Res (Option Expr) → String
  | .ok (some e) => (Expr.eval e).show_
  | .ok none => "none"
  | .err e => toString e
  | .panic => "panic"

def stepE (s : StE) (op : String) : StE × String × String :=
  let bad := (s, "bad-request", "bad-request")
  let noh := (s, "nohandle", "nohandle")
  match op.splitOn " " with
  | ["new", h, e] =>
    match endian? e with
    | some e =>
      let sp : SpecMem := ⟨e, fun _ => none, [], [], fun _ => none, s.next⟩
      ({ (s.put h (Paged.newE e) sp) with next := s.next + 1 }, "ok", "ok")
    | none => bad
  | ["newb", h, e, be, secs] =>
    match endian? e, endian? be, sections? secs with
    | some e, some be, some secs =>
      let b : Backing := ⟨be, secs⟩
      let probes := secs.foldl (fun acc sec => acc ++ (List.range sec.data.length).map (· + sec.addr)) []
      let sp : SpecMem := ⟨e, b.get8, probes, [], b.permissions, s.next⟩
      ({ (s.put h (Paged.newWithBackingE e b) sp) with next := s.next + 1 }, "ok", "ok")
    | _, _, _ => bad
  | ["clone", h, h2] =>
    match s.find h with
    | some (m, sp) => (s.put h2 m sp, "ok", "ok")
    | none => noh
  | ["store", h, a, c] =>
    match s.find h, Sx.parseNat a, Fil.const? c with
    | none, _, _ => noh
    | some (m, sp), some a, some c =>
      let v := Const.new c.val c.bits
      let (m', ans) := match Paged.storeE m a (exprOfConst v) with
        | .ok m' => (m', "ok")
        | .err e => (m, toString e)
        | .panic => (m, "panic")
      if v.bits % 8 ≠ 0 ∨ v.bits = 0 then (s.put h m' sp, ans, "err:other")
      else if a + v.bits / 8 > U64 then (s.put h m' sp, ans, "?")
      else
        let bs := bytesOf sp.endian v
        let sp' := { sp with bytes := write sp.bytes a bs,
                             probes := (List.range bs.length).map (· + a) ++ sp.probes, ver := s.next }
        ({ (s.put h m' sp') with next := s.next + 1 }, ans, "ok")
    | _, _, _ => bad
  | ["load", h, a, n] =>
    match s.find h, Sx.parseNat a, n.toNat? with
    | none, _, _ => noh
    | some (m, sp), some a, some n =>
      let ans := showLoadE (Paged.loadE m a n)
      let spec :=
        if n % 8 ≠ 0 ∨ n = 0 ∨ a + n / 8 > U64 then "?"
        else match read sp.bytes a (n / 8) sp.endian with
          | some c => toString c
          | none => "none"
      (s, ans, spec)
    | _, _, _ => bad
  | ["perm", h, a, len, p] =>
    match s.find h, Sx.parseNat a, Sx.parseNat len, p.toNat? with
    | none, _, _, _ => noh
    | some (m, sp), some a, some len, some p =>
      let m' := Paged.setPermissionsE m a len p
      if a + len > U64 ∨ len > 2 ^ 24 then (s.put h m' sp, "ok", "?")
      else
        let pgs := pagesBelow (a + len) (pageOf a) (len / PAGE_SIZE + 2)
        let perms :=
          if len = 0 then AList.set sp.perms (pageOf a) none
          else pgs.foldl (fun acc pa => AList.set acc pa (some p)) sp.perms
        let sp' := { sp with perms := perms, ver := s.next }
        ({ (s.put h m' sp') with next := s.next + 1 }, "ok", "ok")
    | _, _, _, _ => bad
  | ["getperm", h, a] =>
    match s.find h, Sx.parseNat a with
    | none, _ => noh
    | some (m, sp), some a =>
      let ans := showPerm (Paged.permissionsE m a)
      let spec := match AList.get sp.perms (pageOf a) with
        | some (some p) => showPerm (some p)
        | some none => "-"
        | none => showPerm (sp.bperm a)
      (s, ans, spec)
    | _, _ => bad
  | ["eq", h, h2] =>
    match s.find h, s.find h2 with
    | some (m, sp), some (m2, sp2) =>
      let ans := if Paged.eqE m m2 then "true" else "false"
      let spec :=
        if sp.ver = sp2.ver then "true"
        else if specBytesDiffer sp sp2 then "false"
        else "-"
      (s, ans, spec)
    | _, _ => noh
  | ["mode", _] => (s, "ok", "ok")
  | _ => bad

def handle (line : String) : String :=
  let ops := line.splitOn " ; "
  let (ms, ss) :=
    if ops.head? = some "mode E" then
      let (_, ms, ss) := ops.foldl (fun (acc : StE × List String × List String) op =>
        let (s, ms, ss) := acc
        let (s', m, sp) := stepE s op
        (s', m :: ms, sp :: ss)) (⟨[], 0⟩, [], [])
      (ms, ss)
    else
      let (_, ms, ss) := ops.foldl (fun (acc : St × List String × List String) op =>
        let (s, ms, ss) := acc
        let (s', m, sp) := step s op
        (s', m :: ms, sp :: ss)) (⟨[], 0⟩, [], [])
      (ms, ss)
  " ; ".intercalate ms.reverse ++ "\t" ++ " ; ".intercalate ss.reverse

def main : IO Unit := driverLoop handle
