/-
  Drivers.C02 — input line: `ins <arch> <hexbytes> <0xaddr> | <state>` TAB `<falcon's answer>`
  (answer = `<BTR in FIL> | <post>` or `err:…`/`panic@…`).

  Output: `<model> | mirror=<same|diff|none|->` TAB `<spec>` and, when mirror=diff and falcon returned IL, four more fields
          `MIRROR-BTR \t <the mirror's BTR in FIL> \t <runBTR of the mirror> \t <runBTR of falcon's IL>` (both as full
          `postLine` over the registers of the request's state): the input of the semantic comparison tools/il_equiv.py
          and of its per-run self-test (props/smt_tie.py, design/06_smt_tie.md)
    model  = the dumped IL run by the Lean IL semantics (`runBTR`) from the state, as a delta post line
    mirror = the dumped IL compared syntactically with the Lean mirror of the lifter (option (A))
    spec   = the ISA interpreter (`Isa.Mips` / `Isa.Ppc`) run on the raw instruction word(s) from the same state

  post (delta form) := next=<0xaddr|err:…|trap:…|env|fault|unpredictable|reserved> ; <registers that changed> ; <windows>
  A register the manual leaves UNPREDICTABLE is printed as `name=*`.
-/
import FalconModel.DriverLoop
import FalconModel.Isa.MipsLift
import FalconModel.Isa.PpcLift
import FalconModel.FilBTR
open Falcon

namespace C02

def mipsWatch : List String := Isa.Mips.regNames.drop 1 ++ ["$hi", "$lo"]

def ppcWatch : List String :=
  (List.range 32).map (fun i => s!"r{i}") ++ ["lr", "ctr", "carry"] ++
  (List.range 8).flatMap (fun i => ["lt", "gt", "eq", "so"].map (fun f => s!"cr{i}-{f}"))

def windowsStr (mem : ByteMem) (ws : List (Nat × Nat)) : String :=
  ",".intercalate (ws.map fun (a, len) =>
    Fil.hex a ++ ":" ++ MachState.bytesHex ((List.range len).map fun i => (mem (a + i)).getD 0))

def preStr (m : MachState) (n : String) : String :=
  match m.regs.lookup n with
  | some c => toString c
  | none => "-"

/-- delta post line of an IL run -/
def modelLine (m : MachState) (watch : List String) (out : LiftOut) : String :=
  let (σ, head) := match out with
    | .next σ pcs => (σ, ",".intercalate (pcs.map Fil.hex))
    | .stop σ why => (σ, why)
  let regs := watch.filterMap fun n =>
    let v := match σ.get n with | some c => toString c | none => "-"
    if v = preStr m n then none else some (n ++ "=" ++ v)
  let ws := m.mem.map fun (a, bs) => (a, bs.length)
  "next=" ++ head ++ " ; " ++ ",".intercalate regs ++ " ; " ++ windowsStr σ.mem ws

def w32Str (v : BitVec 32) : String := "0x" ++ Const.hexDigits v.toNat ++ ":32"

/-- the instruction words of the request, in the byte order of the architecture's instruction fetch -/
def wordsOf (big : Bool) : List UInt8 → List (BitVec 32)
  | a :: b :: c :: d :: rest =>
    let n := if big then ((a.toNat * 256 + b.toNat) * 256 + c.toNat) * 256 + d.toNat
             else ((d.toNat * 256 + c.toNat) * 256 + b.toNat) * 256 + a.toNat
    BitVec.ofNat 32 n :: wordsOf big rest
  | _ => []

def mipsSpecLine (m : MachState) (σ₀ : State) (o : Isa.Mips.Outcome) : String :=
  let ws := m.mem.map fun (a, bs) => (a, bs.length)
  let unchanged (head : String) := "next=" ++ head ++ " ;  ; " ++ windowsStr σ₀.mem ws
  match o with
  | .next s pc u =>
    let gprs := (List.range 31).filterMap fun k =>
      let i : Isa.Mips.Reg := BitVec.ofNat 5 (k + 1)
      let n := Isa.Mips.regName i
      let v := w32Str (s.gpr i)
      if v = preStr m n then none else some (n ++ "=" ++ v)
    let hl := if u then ["$hi=*", "$lo=*"] else
      [("$hi", s.hi), ("$lo", s.lo)].filterMap fun (n, x) =>
        let v := w32Str x
        if v = preStr m n then none else some (n ++ "=" ++ v)
    "next=" ++ Fil.hex pc.toNat ++ " ; " ++ ",".intercalate (gprs ++ hl) ++ " ; " ++ windowsStr s.mem ws
  | .trap t => unchanged ("trap:" ++ (match t with
      | .overflow => "overflow" | .trap => "trap" | .syscall => "syscall" | .breakpoint => "break"
      | .addrLoad => "addrload" | .addrStore => "addrstore"))
  | .env => unchanged "env"
  | .fault => unchanged "fault"
  | .unpredictable => unchanged "unpredictable"
  | .reserved => unchanged "reserved"

def mipsSpec (big : Bool) (bytes : List UInt8) (addr : Nat) (m : MachState) : String :=
  let σ₀ := m.toState
  let s := Isa.Mips.absState σ₀
  let pc := BitVec.ofNat 32 addr
  match wordsOf big bytes with
  | [w] => mipsSpecLine m σ₀ (Isa.Mips.step w pc s)
  | [wb, wd] => mipsSpecLine m σ₀ (Isa.Mips.step2 wb wd pc s)
  | _ => "next=reserved ;  ; "

def btrEq (a b : BTR) : Bool :=
  a.addr == b.addr && a.length == b.length && decide (a.instrs = b.instrs) && decide (a.succs = b.succs)

def handle (line : String) : String :=
  match line.splitOn "\t" with
  | [req, ans] =>
    match req.splitOn " | " with
    | [head, st] =>
      match head.splitOn " ", MachState.parse st with
      | ["ins", arch, hex, addr], some m =>
        match MachState.hexPairs hex.toList, Sx.parseNat addr with
        | some bytes, some addr =>
          let isMips := arch.startsWith "mips"
          let big := arch != "mipsel"
          let spec := if isMips then mipsSpec big bytes addr m else Isa.Ppc.specLine bytes addr m
          let mirror : Option BTR :=
            if isMips then Isa.Mips.liftBTRall big (wordsOf big bytes) addr else Isa.Ppc.liftBTR (wordsOf true bytes) addr
          if ans.startsWith "err:" || ans.startsWith "panic" then
            let mir := match mirror with | none => "none" | some _ => "diff"
            s!"{ans} | mirror={mir}\t{spec}"
          else
            match ans.splitOn " | " with
            | [il, _] =>
              match Sx.parseAll il with
              | some [x] =>
                match Fil.btr? x with
                | some r =>
                  let out := runBTR r m.toState
                  let watch := if isMips then mipsWatch else ppcWatch
                  let (mir, more) : String × String := match mirror with
                    | none => ("none", "")
                    | some r' =>
                      if btrEq r r' then ("same", "")
                      else
                        let regs : List String := m.regs.map (fun p => p.1)
                        let ws : List (Nat × Nat) := m.mem.map fun (a, bs) => (a, bs.length)
                        ("diff", "\tMIRROR-BTR\t" ++ Fil.btrStr r' ++ "\t" ++ postLine (runBTR r' m.toState) regs ws
                                 ++ "\t" ++ postLine out regs ws)
                  s!"{modelLine m watch out} | mirror={mir}\t{spec}{more}"
                | none => "unparsable-btr\t-"
              | _ => "unparsable-sx\t-"
            | _ => "unparsable-answer\t-"
        | _, _ => "bad-request\t-"
      | _, _ => "bad-request\t-"
    | _ => "bad-request\t-"
  | _ => "bad-request\t-"

end C02

def main : IO Unit := driverLoop C02.handle
