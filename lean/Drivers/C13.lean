/-
  Drivers.C13 — line-protocol driver for property C13 (constant propagation).

  input line  :  <request> TAB <falcon's answer>          (props/c13.py sets DRIVER_TAKES_ANSWER)
     request  :  <function in FIL> (probe <loc> <expr>)*
     answer   :  (ok (<loc> <name>:<bits>=<T|0x..:bits> ...) ...) (probes <none|0x..:bits|noloc|panic> ...)
                 | err:<kind> | panic
  output line :  <verdict> TAB premise=<yes|no> nt=<0|1>
     verdict  :  valid                                     the verified checker `constCheck` accepts the map
              |  invalid <loc> <scalar> [contradicted <loc> <scalar> reported=<c> actual=<v> state=<..>]
                                                            it does not; a concrete run that contradicts a
                                                            reported constant, when the search finds one
              |  incomplete <answer>                        the analysis returned an error or panicked
              |  ?                                          outside the domain (no entry, a name with two widths)
       then, for probes,  ` probe-mismatch <k> model=<..> falcon=<..>`  (model of `Constants::eval` differs)
                          ` probe-contradicted <k> …`        (a run on which the expression has another value)
     premise  :  no location reachable in the location graph reads a scalar that is not certainly assigned
                 (the premise of the completion clause), decided by the driver's own must-assigned analysis
     nt       :  the map reports a constant in a block that is a join or lies on a cycle
-/
import FalconModel.DriverLoop
import FalconModel.FilIL
import FalconModel.ConstCert

open Falcon Falcon.ConstCert

def parseLoc (s : String) : Option Loc :=
  match s.splitOn ":" with
  | ["i", b, i] => do pure (.instr (← b.toNat?) (← i.toNat?))
  | ["e", h, t] => do pure (.edge (← h.toNat?) (← t.toNat?))
  | ["b", b] => do pure (.empty (← b.toNat?))
  | _ => none

/-- `name:bits=T` or `name:bits=0x..:bits` -/
def parseEntry (s : String) : Option (String × Nat × AVal) :=
  match s.splitOn "=" with
  | [k, v] =>
    match k.splitOn ":" with
    | [n, b] => do
        let b ← b.toNat?
        if v = "T" then pure (n, b, .top) else pure (n, b, .const (← Fil.const? v))
    | _ => none
  | _ => none

def parseEntries : List Sx → Option (List (String × Nat × AVal))
  | [] => some []
  | .atom a :: xs => do pure ((← parseEntry a) :: (← parseEntries xs))
  | _ => none

def parseMap : List Sx → Option (List (Loc × List (String × Nat × AVal)))
  | [] => some []
  | .list (.atom l :: es) :: xs => do pure (((← parseLoc l), (← parseEntries es)) :: (← parseMap xs))
  | _ => none

structure Probe where
  loc : Loc
  expr : Expr

def parseProbes : List Sx → Option (List Probe)
  | [] => some []
  | .list [.atom "probe", .atom l, e] :: xs => do
      pure ({ loc := (← parseLoc l), expr := (← Fil.expr? e) } :: (← parseProbes xs))
  | _ => none

def constStr (c : Const) : String := s!"0x{Const.hexDigits c.val}:{c.bits}"

-- ---------------------------------------------------------------- domain: one width per name

def opScalars : Op → List Scalar
  | .assign d s => d :: s.scalars
  | .store i s => i.scalars ++ s.scalars
  | .load d i => d :: i.scalars
  | .branch t => t.scalars
  | .intrinsic i => (i.written.getD []).flatMap Expr.scalars ++ (i.read.getD []).flatMap Expr.scalars
  | .nop => []

def fnScalars (f : Function) : List Scalar :=
  f.cfg.blocks.flatMap (fun b => b.instrs.flatMap (fun i => opScalars i.op)) ++
  f.cfg.edges.flatMap (fun e => match e.cond with | some g => g.scalars | none => [])

def widthsOk (ss : List (String × Nat)) : Bool :=
  ss.all (fun p => ss.all (fun q => p.1 != q.1 || p.2 == q.2))

def nameWidths (ss : List (String × Nat)) : List (String × Nat) :=
  ss.foldl (fun acc p => if acc.any (·.1 == p.1) then acc else acc ++ [p]) []

-- ---------------------------------------------------------------- diagnosis (unverified)

def leWhy (F1 F2 : Fact) : Option String :=
  match F2.must.find? (fun x => !F1.must.contains x) with
  | some x => some x
  | none =>
    match F1.vals.find? (fun p => !(F2.vals.get p.1).isSome) with
    | some p => some p.1
    | none =>
      (F2.vals.find? (fun p =>
        match p.2 with
        | .top => false
        | .const c =>
          match F1.vals.get p.1 with
          | none => false
          | some v => !(v == .const c))).map (·.1)

def diagnose (f : Function) (R : Report) : String :=
  match (entryLocs f).find? (fun l => match R l with | some F => !F.must.isEmpty | none => true) with
  | some l => s!"{l.str} entry"
  | none =>
    let bad := (flowEdges f).findSome? (fun (l, op, l') =>
      match R l with
      | none => none
      | some F =>
        let F1 := match op with | some o => absStep o F | none => F
        match R l' with
        | none => some s!"{l'.str} unvisited"
        | some F' => if le F1 F' then none else some s!"{l'.str} {(leWhy F1 F').getD "?"}")
    bad.getD "? ?"

-- ---------------------------------------------------------------- search for a contradicting run (unverified)

def lcg (x : Nat) : Nat := (x * 6364136223846793005 + 1442695040888963407) % 2 ^ 64

def initVal (bits k i : Nat) : Nat :=
  match k with
  | 0 => 0
  | 1 => 1
  | 2 => 2 ^ bits - 1
  | 3 => 2 ^ (bits - 1)
  | _ => (lcg (lcg (k * 1000003 + i * 7919 + 12345)) / 7) % 2 ^ bits

def initState (names : List (String × Nat)) (k : Nat) : State :=
  { scalars := names.zipIdx.map (fun ((n, b), i) => (n, ⟨b, initVal b k i⟩)),
    mem := fun a => some (UInt8.ofNat ((a * 131 + k * 7 + 13) % 256)),
    endian := .little }

def locsAt (f : Function) (c : Config) : List Loc :=
  match f.block c.block with
  | none => []
  | some bk =>
    match bk.instrs[c.pos]? with
    | some i => [.instr c.block i.index]
    | none =>
      if c.pos = bk.instrs.length then
        (if bk.instrs.isEmpty then [Loc.empty c.block] else []) ++
        (enabledEdges f c).map (fun e => Loc.edge c.block e.tail)
      else []

def succs (f : Function) (c : Config) : List Config :=
  match f.block c.block with
  | none => []
  | some bk =>
    match bk.instrs[c.pos]? with
    | some i =>
      match execute c.state i.op with
      | .ok (σ', .fallThrough) => [⟨c.block, c.pos + 1, σ'⟩]
      | _ => []
    | none =>
      if c.pos = bk.instrs.length then (enabledEdges f c).map (fun e => ⟨e.tail, 0, c.state⟩) else []

def stateStr (σ : State) : String :=
  ",".intercalate (σ.scalars.map (fun (n, c) => s!"{n}={constStr c}"))

def optConstStr : Option Const → String
  | some c => constStr c
  | none => "unset"

/-- a reported constant of an assigned name that the state contradicts, or a probe answer -/
def contraAt (R : Report) (probes : List (Nat × Probe × Const)) (l : Loc) (σ : State) (A : List String) :
    Option String :=
  let m := match R l with
    | none => some s!"contradicted {l.str} - reported=unvisited actual=reached state={stateStr σ}"
    | some F => F.vals.findSome? (fun ((x, v) : String × AVal) =>
        match v with
        | AVal.const c =>
          if A.contains x && F.vals.get x == some (.const c) && σ.get x != some c then
            some s!"contradicted {l.str} {x} reported={constStr c} actual={optConstStr (σ.get x)} state={stateStr σ}"
          else none
        | AVal.top => none)
  match m with
  | some s => some s
  | none => probes.findSome? (fun ((k, p, v) : Nat × Probe × Const) =>
      if p.loc == l && p.expr.scalars.all (fun s => A.contains s.name) then
        match σ.evalIn p.expr with
        | .ok v' => if v' == v then none
                    else some s!"probe-contradicted {k} reported={constStr v} actual={constStr v'} state={stateStr σ}"
        | _ => none
      else none)

def explore (f : Function) (R : Report) (probes : List (Nat × Probe × Const)) :
    Nat → List (Config × List String) → Option String
  | 0, _ => none
  | _, [] => none
  | fuel + 1, (c, A) :: rest =>
    match (locsAt f c).findSome? (fun l => contraAt R probes l c.state A) with
    | some s => some s
    | none =>
      let A' := dedup (writesAt f c ++ A)
      explore f R probes fuel (rest ++ (succs f c).map (fun c' => (c', A')))

def search (f : Function) (R : Report) (probes : List (Nat × Probe × Const)) (names : List (String × Nat)) :
    Option String :=
  match f.cfg.entry with
  | none => none
  | some e =>
    (List.range 24).findSome? (fun k => explore f R probes 400 [(⟨e, 0, initState names k⟩, [])])

-- ---------------------------------------------------------------- non-triviality

def reachFrom (f : Function) : Nat → List Nat → List Nat
  | 0, acc => acc
  | k + 1, acc =>
    let next := acc.flatMap (fun b => f.cfg.successorIndices b)
    let acc' := next.foldl (fun a x => if a.contains x then a else a ++ [x]) acc
    if acc'.length == acc.length then acc else reachFrom f k acc'

def interesting (f : Function) (b : Nat) : Bool :=
  (f.cfg.edgesIn b).length ≥ 2 || (f.cfg.entry == some b && (f.cfg.edgesIn b).length ≥ 1) ||
  (reachFrom f (f.cfg.blocks.length + 1) (f.cfg.successorIndices b)).contains b

def locBlock : Loc → Nat
  | .instr b _ => b
  | .edge h _ => h
  | .empty b => b

-- ---------------------------------------------------------------- main

def resOptStr : Res (Option Const) → String
  | .ok (some c) => constStr c
  | .ok none => "none"
  | .err e => toString e
  | .panic => "panic"

def handle (line : String) : String :=
  match line.splitOn "\t" with
  | [req, ans] =>
    match Sx.parseAll req with
    | some (fx :: px) =>
      match Fil.function? fx, parseProbes px with
      | some f, some probes =>
        let must := mustAssigned f
        let premise := if noReadBeforeAssign f must then "yes" else "no"
        let scal := (fnScalars f ++ probes.flatMap (·.expr.scalars)).map (fun s => (s.name, s.bits))
        if f.cfg.entry.isNone || !widthsOk scal || (fnScalars f).any (·.ssa.isSome) then
          s!"?\tpremise={premise} nt=0"
        else if ans = "panic" || ans.startsWith "err:" then
          s!"incomplete {ans}\tpremise={premise} nt=0"
        else
          match Sx.parseAll ans with
          | some [.list (.atom "ok" :: ms), .list (.atom "probes" :: pas)] =>
            match parseMap ms with
            | none => "bad-answer\t-"
            | some m =>
              if !widthsOk (scal ++ m.flatMap (fun p => p.2.map (fun e => (e.1, e.2.1)))) then
                s!"?\tpremise={premise} nt=0"
              else
              let facts : List (Loc × Fact) := m.map (fun (l, es) =>
                (l, { vals := es.map (fun e => (e.1, e.2.2)), must := (must.get l).getD [] }))
              let R : Report := fun l => (facts.find? (fun p => p.1 == l)).map (·.2)
              let names := nameWidths scal
              -- probes: the model of `Constants::eval` against falcon's answers
              let pz := (probes.zip (pas.map (fun a => (a.atom?).getD "?"))).zipIdx
              let mism := pz.filterMap (fun ((p, a), k) =>
                let mod := match R p.loc with
                  | none => "noloc"
                  | some F => resOptStr (constEval F.vals p.expr)
                if mod == a then none else some s!" probe-mismatch {k} model={mod} falcon={a}")
              let claimed : List (Nat × Probe × Const) := pz.filterMap (fun ((p, a), k) =>
                (Fil.const? a).map (fun c => (k, p, c)))
              let nt := facts.any (fun (l, F) =>
                interesting f (locBlock l) && F.vals.any (fun p => match p.2 with | .const _ => true | .top => false))
              let valid := constCheck f R
              let verdict :=
                if valid then "valid"
                else
                  let w := diagnose f R
                  match search f R claimed names with
                  | some s => s!"invalid {w} {s}"
                  | none => s!"invalid {w}"
              s!"{verdict}{String.join mism}\tpremise={premise} nt={if nt then 1 else 0}"
          | _ => "bad-answer\t-"
      | _, _ => "bad-request\t-"
    | _ => "bad-request\t-"
  | _ => "bad-line\t-"

def main : IO Unit := driverLoop handle
