/-
  Drivers.C04 — line-protocol driver for property C04.
  Request (one per line)                      answer:  <model>\t<spec>
    bin <op> <const> <const>                  result of Const.<op>        | Spec.bin
    un <zext|sext|trun> <m> <const>           result of Const.<ext>       | Spec.ext
    eval <FIL>                                executor::eval              | Spec.denote
    ctor <op> <FIL> <FIL>                     ok <FIL> | err:sort         | -
    ctorx <zext|sext|trun> <m> <FIL>          ok <FIL> | err:sort         | -
    ctori <FIL> <FIL> <FIL>                   ok <FIL> | err:sort         | -
    sra <FIL> <FIL>                           eval (Expression::sra l r)  | ashr meaning of eval l, eval r
    rotl <FIL> <FIL>                          eval (Expression::rotl e s) | rotate-left meaning
    subst <FIL> <scalar-FIL> <FIL>            ok <FIL> | err:sort         | -
  spec column: `-` = the property gives no second opinion, `?` = outside the property's domain.
-/
import FalconModel.DriverLoop
import FalconModel.FilExpr
import FalconModel.ConstSpec

open Falcon

def showC (r : Res Const) : String := r.show_

def showE (r : Res Expr) : String :=
  match r with
  | .ok e => "ok " ++ Fil.exprStr e
  | .err e => toString e
  | .panic => "panic"

/-- spec is only defined for widths ≥ 1 and reduced values -/
def inDomain (c : Const) : Bool := decide (c.bits ≥ 1) && decide c.WF

def specRotl (x s : Const) : Res Const :=
  if h : x.bits = s.bits then
    .ok (Const.ofBV (x.toBV.rotateLeft (s.val % x.bits)))
  else .err .sort

/-- compositional bit-vector meaning under a valuation of the scalars (specification side) -/
def evalUnderSpec (ρ : Scalar → Option Const) : Expr → Res Const
  | .scalar s => match ρ s with
      | some c => .ok c
      | none => .err .scalar
  | .const c => .ok c
  | .bin op l r => do
      let a ← evalUnderSpec ρ l
      let b ← evalUnderSpec ρ r
      Spec.bin op a b
  | .ext op m e => do
      let a ← evalUnderSpec ρ e
      Spec.ext op a m
  | .ite c t e => do
      let cv ← evalUnderSpec ρ c
      if cv.val = 1 then evalUnderSpec ρ t else evalUnderSpec ρ e

def handle (line : String) : String :=
  let bad := "bad-request\t-"
  match Sx.parseAll line with
  | some (.atom "bin" :: .atom op :: .atom a :: .atom b :: []) =>
    match Fil.binOp? op, Fil.const? a, Fil.const? b with
    | some o, some a, some b =>
      let m := showC (o.apply a b)
      let s := if inDomain a && inDomain b then showC (Spec.bin o a b) else "?"
      m ++ "\t" ++ s
    | _, _, _ => bad
  | some (.atom "un" :: .atom op :: m :: .atom a :: []) =>
    match Fil.extOp? op, m.nat?, Fil.const? a with
    | some o, some m, some a =>
      let r := showC (o.apply a m)
      let s := if inDomain a && m ≥ 1 then showC (Spec.ext o a m) else "?"
      r ++ "\t" ++ s
    | _, _, _ => bad
  | some (.atom "eval" :: e :: []) =>
    match Fil.expr? e with
    | some e => showC e.eval ++ "\t" ++ showC (Spec.denote e)
    | none => bad
  | some (.atom "ctor" :: .atom op :: l :: r :: []) =>
    match Fil.binOp? op, Fil.expr? l, Fil.expr? r with
    | some o, some l, some r => showE (Expr.mkBin o l r) ++ "\t-"
    | _, _, _ => bad
  | some (.atom "ctorx" :: .atom op :: m :: e :: []) =>
    match Fil.extOp? op, m.nat?, Fil.expr? e with
    | some o, some m, some e => showE (Expr.mkExt o m e) ++ "\t-"
    | _, _, _ => bad
  | some (.atom "ctori" :: c :: t :: e :: []) =>
    match Fil.expr? c, Fil.expr? t, Fil.expr? e with
    | some c, some t, some e => showE (Expr.mkIte c t e) ++ "\t-"
    | _, _, _ => bad
  | some (.atom "sra" :: l :: r :: []) =>
    match Fil.expr? l, Fil.expr? r with
    | some l, some r =>
      let m := showC (Expr.sra l r >>= Expr.eval)
      let s := match Spec.denote l, Spec.denote r with
        | .ok x, .ok y => if inDomain x && inDomain y then showC (Spec.bin .ashr x y) else "?"
        | _, _ => "?"
      m ++ "\t" ++ s
    | _, _ => bad
  | some (.atom "rotl" :: l :: r :: []) =>
    match Fil.expr? l, Fil.expr? r with
    | some l, some r =>
      let m := showC (Expr.rotl l r >>= Expr.eval)
      let s := match Spec.denote l, Spec.denote r with
        | .ok x, .ok y => if inDomain x && inDomain y then showC (specRotl x y) else "?"
        | _, _ => "?"
      m ++ "\t" ++ s
    | _, _ => bad
  | some (.atom "subst" :: e :: .list (.atom "s" :: sc) :: r :: []) =>
    match Fil.expr? e, Fil.scalar? sc, Fil.expr? r with
    | some e, some x, some r => showE (Expr.replaceScalar x r e) ++ "\t-"
    | _, _, _ => bad
  | some (.atom "substeval" :: e :: .list (.atom "s" :: sc) :: r :: .list (.atom "val" :: vals) :: []) =>
    match Fil.expr? e, Fil.scalar? sc, Fil.expr? r with
    | some e, some x, some r =>
      let binds : List (Scalar × Const) := vals.filterMap fun v =>
        match v with
        | .list [.atom n, val, b] => do
            let bits ← b.nat?
            pure ({ name := n, bits := bits }, ⟨bits, (← val.nat?) % 2 ^ bits⟩)
        | _ => none
      -- model: mirror of what falcon does (replace_scalar for the target, then for every bound scalar, then eval)
      let m := do
        let e1 ← Expr.replaceScalar x r e
        let e2 ← binds.foldlM (fun acc (s, c) => Expr.replaceScalar s (.const c) acc) e1
        e2.eval
      -- spec: the value of `e` under the valuation in which `x` is bound to the value of the (closed) replacement
      let s := match Spec.denote r with
        | .ok rv =>
          if rv.bits = x.bits then
            let ρ : Scalar → Option Const := fun s => if s = x then some rv else binds.lookup s
            showC (evalUnderSpec ρ e)
          else "?"
        | _ => "?"
      showC m ++ "\t" ++ s
    | _, _, _ => bad
  | _ => bad

def main : IO Unit := driverLoop handle
