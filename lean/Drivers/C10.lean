/-
  Drivers.C10 — line-protocol driver for property C10 (SSA transformation), pattern P3.

  Input line (props/c10.py sets DRIVER_TAKES_ANSWER):   <f in FIL> TAB <falcon's answer>
    falcon's answer = `<g in FIL>` (g = ssa_transformation(f)), or `panic`, or `err:<kind>`.
  Output:  <verdict> TAB <info>
    verdict = `valid`                                   ssaCheck f g = true (the theorems of Props/C10 apply)
            | `invalid <clause> ; diverge state=<s> step=<k> at=<b>.<p> <what>`
                                                        ssaCheck rejects g and a concrete execution of f (Exec.lean)
                                                        and of g (the SSA executor of Ssa.lean) from the same initial
                                                        state shows a difference: another path, another value of an
                                                        evaluated expression, another outcome of an instruction
            | `invalid <clause> ; path-witness use=<b>.<p> name=<n> read=<v> path=[blocks] last-def=<w>`
                                                        rejected, no diverging run found among the tried states, but a
                                                        CFG path from the entry to a read is exhibited along which the
                                                        last definition of the name is not the version the read names
                                                        (the structural clause of the property fails on this path)
            | `invalid <clause> ; no-divergence-found`  rejected, neither kind of counterexample found
            | `invalid panic/<feature>` | `invalid err/<kind>`   falcon produced no function although f has an entry
            | `valid noentry`                           f has no entry block and falcon answered with an error
    <clause> is a category without data values (it becomes the finding signature):
       shape/<header|edges|block-count|block-index|instruction|has-phi-in-input|erase>
                                        erasing versions and phi nodes from g does not give f
       shape/phi-preds | shape/phi-entry    a phi node's operands are not exactly the CFG predecessors / the
                                        entry operand is present in a non-entry block or missing in the entry
       single/unversioned-def | single/duplicate-def
       flow/entry                       the entry block's phi nodes / live-in versions are not the unversioned ones
       flow/<instr|guard>-read/<no-phi|stale>
                                        a scalar read by an instruction / an out-edge guard of a reachable block does
                                        not carry the version holding the name's value: `no-phi` = predecessors
                                        disagree and the block has no phi node for the name, `stale` = a version is
                                        known and the read names another
       flow/phi-operand/<missing|name|no-phi|stale>
       (a flow clause gets the suffix `/two-widths` when the name read occurs at two widths in f)
       flow/edge-target                 an out-edge of a reachable block leads to a block that does not exist
       cert/not-inductive               internal: the computed certificate is not closed
    info = `phis=<k> cand=<0|1>`: number of phi nodes falcon inserted; cand=1 if some name is written in
           some block and read (by an instruction or a guard) in a block where it is not written before.
-/
import FalconModel.DriverLoop
import FalconModel.FilIL
import FalconModel.Ssa

open Falcon Falcon.Ssa

-- ------------------------------------------------------------------ which clause fails (unverified diagnosis)

/-- a failed clause, and for the flow clauses the read that fails: block, position (instruction position, or the
    number of instructions for a guard / a phi operand read at the end of the block), the scalar as read -/
structure Fail where
  clause : String
  loc : Option (Nat × Nat × Scalar) := none

def readFail (m : VMap) (ss : List Scalar) : Option (String × Scalar) :=
  match ss.find? (fun s => m.lookup s.name != some s.ssa) with
  | none => none
  | some s => match m.lookup s.name with
    | none => some ("no-phi", s)
    | some _ => some ("stale", s)

def explainWalk (bi : Nat) : Nat → VMap → List Instr → Sum Fail VMap
  | _, m, [] => .inr m
  | k, m, i :: is =>
    match readFail m (opReads i.op) with
    | some (w, s) => .inl ⟨s!"flow/instr-read/{w}", some (bi, k, s)⟩
    | none => explainWalk bi (k + 1) (setAll m (opWrites i.op)) is

def explainPhiOperand (vout : VMap) (p : Block) (φ : Phi) : Option Fail :=
  match φ.incoming.lookup p.index with
  | none => some ⟨"flow/phi-operand/missing", none⟩
  | some o =>
    if o.name != φ.out.name then some ⟨"flow/phi-operand/name", none⟩
    else (readFail vout [o]).map (fun (w, s) => ⟨s!"flow/phi-operand/{w}", some (p.index, p.instrs.length, s)⟩)

def explainBlock (g : Function) (cert : Cert) (b : Block) : Option Fail :=
  match explainWalk b.index 0 (cert.start b) b.instrs with
  | .inl w => some w
  | .inr vout =>
    (g.cfg.edgesOut b.index).findSome? (fun e =>
      match readFail vout (match e.cond with | none => [] | some c => c.scalars) with
      | some (w, s) => some ⟨s!"flow/guard-read/{w}", some (b.index, b.instrs.length, s)⟩
      | none =>
        match g.block e.tail with
        | none => some ⟨"flow/edge-target", none⟩
        | some s =>
          if !cert.reach.contains e.tail then some ⟨"cert/not-inductive", none⟩
          else match s.phis.findSome? (explainPhiOperand vout b) with
            | some w => some w
            | none => if edgeFlowOk cert vout b.index s then none else some ⟨"cert/not-inductive", none⟩)

def explainShape (f g : Function) : String :=
  let ef := eraseF g
  if f.cfg.blocks.any (fun b => !b.phis.isEmpty) then "shape/has-phi-in-input"
  else if ef.cfg.edges ≠ f.cfg.edges then "shape/edges"
  else if ef.cfg.blocks.length ≠ f.cfg.blocks.length then "shape/block-count"
  else if ef.cfg.blocks.map (·.index) ≠ f.cfg.blocks.map (·.index) then "shape/block-index"
  else if ef.cfg.blocks ≠ f.cfg.blocks then "shape/instruction"
  else if ef ≠ f then "shape/header"
  else "shape/erase"

def explain (f g : Function) : Fail :=
  let cert := computeCert g
  if eraseF g ≠ f then ⟨explainShape f g, none⟩
  else if !phiShapeOk g then
    (if g.cfg.blocks.any (fun b => b.phis.any (fun φ => φ.incoming.map (·.1) != g.cfg.predecessorIndices b.index))
     then ⟨"shape/phi-preds", none⟩ else ⟨"shape/phi-entry", none⟩)
  else if !singleOk g cert then
    (if (reachDefs g cert).any (fun d => d.scalar.ssa.isNone) then ⟨"single/unversioned-def", none⟩
     else ⟨"single/duplicate-def", none⟩)
  else if !entryOk g cert then ⟨"flow/entry", none⟩
  else
    match cert.reach.findSome? (fun i => match g.block i with
        | none => some ⟨"cert/not-inductive", none⟩
        | some b => explainBlock g cert b) with
    | some w => w
    | none => ⟨"unknown", none⟩

-- ------------------------------------------------------------------ a path whose last definition is not the version read

/-- the version of `n` current after the phi nodes and the first `k` instructions of `b`, entered with `v` -/
def verThrough (n : String) (b : Block) (k : Nat) (v : Option Nat) : Option Nat :=
  let v0 := b.phis.foldl (fun v φ => if φ.out.name == n then φ.out.ssa else v) v
  (b.instrs.take k).foldl (fun v i => (opWrites i.op).foldl (fun v s => if s.name == n then s.ssa else v) v) v0

/-- breadth-first search over (block, version of `n` on entry); every state carries the block path from the
    entry that produces it -/
def pathStates (g : Function) (n : String) (e : Nat) : List (Nat × Option Nat × List Nat) :=
  let rec go : Nat → List (Nat × Option Nat × List Nat) → List (Nat × Option Nat × List Nat) →
      List (Nat × Option Nat × List Nat)
    | 0, seen, _ => seen
    | fuel + 1, seen, frontier =>
      let next := frontier.flatMap (fun (b, v, path) =>
        match g.block b with
        | none => []
        | some blk =>
          let vout := verThrough n blk blk.instrs.length v
          (g.cfg.edgesOut b).map (fun ed => (ed.tail, vout, path ++ [ed.tail])))
      let fresh := next.foldl (fun acc (st : Nat × Option Nat × List Nat) =>
        if (seen ++ acc).any (fun t => t.1 == st.1 && t.2.1 == st.2.1) then acc else acc ++ [st]) []
      if fresh.isEmpty then seen else go fuel (seen ++ fresh) fresh
  go (4 * g.cfg.blocks.length + 4) [(e, none, [e])] [(e, none, [e])]

def verStr : Option Nat → String
  | none => "unversioned"
  | some k => toString k

/-- a CFG path from the entry to the failing read along which the last definition of the name is NOT the
    version the read carries: a concrete counterexample to "every use names the version whose definition
    reaches it on every path from the entry" -/
def pathWitness (g : Function) (loc : Nat × Nat × Scalar) : Option String :=
  let (ub, up, s) := loc
  match g.cfg.entry, g.block ub with
  | some e, some blk =>
    (pathStates g s.name e).findSome? (fun (b, v, path) =>
      if b == ub && verThrough s.name blk up v != s.ssa then
        some s!"use={ub}.{up} name={s.name} read={verStr s.ssa} path={path} last-def={verStr (verThrough s.name blk up v)}"
      else none)
  | _, _ => none

/-- the name of the failing read occurs at two widths in `f` -/
def twoWidths (f : Function) (name : String) (all : List Scalar) : Bool :=
  let _ := f
  ((all.filter (·.name == name)).map (·.bits)).eraseDups.length ≥ 2

-- ------------------------------------------------------------------ search for a diverging execution

def opScalars : Op → List Scalar
  | .assign d s => d :: s.scalars
  | .store a s => a.scalars ++ s.scalars
  | .load d a => d :: a.scalars
  | .branch t => t.scalars
  | .intrinsic i => ((i.written.getD []) ++ (i.read.getD [])).flatMap Expr.scalars
  | .nop => []

/-- name ↦ width (first occurrence) of every scalar mentioned by the function -/
def nameUniverse (f : Function) : List (String × Nat) :=
  let all := f.cfg.blocks.flatMap (fun b => b.instrs.flatMap (fun i => opScalars i.op)) ++
             f.cfg.edges.flatMap (fun e => match e.cond with | none => [] | some c => c.scalars)
  all.foldl (fun acc s => if acc.any (·.1 == s.name) then acc else acc ++ [(s.name, s.bits)]) []

def mix (a b : Nat) : Nat := ((a + 0x9E3779B97F4A7C15) * (b * 2 + 0xBF58476D1CE4E5B9) + (a >>> 7) + b * b) % 2 ^ 64

def nameHash (s : String) : Nat := s.toList.foldl (fun h c => mix h c.toNat) 17

/-- the value of a name in the `k`-th initial state -/
def initVal (k : Nat) (name : String) (bits : Nat) : Nat :=
  let h := mix (nameHash name) k
  let big := mix h 1 + 2 ^ 64 * mix h 2 + 2 ^ 128 * mix h 3 + 2 ^ 192 * mix h 4
  let v := match k with
    | 0 => 0
    | 1 => 1
    | 2 => 2 ^ bits - 1
    | 3 => 2 ^ (bits - 1)
    | 4 => h % 4
    | 5 => h % 256
    | 6 => if h % 2 = 0 then 0 else 1
    | _ => match k % 4 with
      | 0 => h % 300
      | 1 => big
      | 2 => if h % 3 = 0 then 0 else if h % 3 = 1 then 2 ^ bits - 1 else h % 16
      | _ => big % 2 ^ (bits / 2 + 1)
  v % 2 ^ bits

/-- state 7 binds no scalar and maps no memory; odd states are big-endian -/
def initState (uni : List (String × Nat)) (k : Nat) : State :=
  { scalars := if k = 7 then [] else uni.map (fun (n, b) => (n, ⟨b, initVal k n b⟩)),
    mem := if k = 7 then ByteMem.empty else fun a => some (UInt8.ofNat (mix a k % 256)),
    endian := if k % 2 = 0 then .little else .big }

def numStates : Nat := 64
def maxSteps : Nat := 200

def resStr : Res Const → String
  | .ok c => toString c
  | .err e => toString e
  | .panic => "panic"

def outStr : Option (Res Succ) → String
  | none => "end"
  | some (.ok .fallThrough) => "next"
  | some (.ok (.branch a)) => s!"branch:{Fil.hex a}"
  | some (.err e) => toString e
  | some .panic => "panic"

def kindAt (f : Function) (b p : Nat) : String :=
  match f.block b with
  | none => "?"
  | some blk => match blk.instrs[p]? with
    | none => "guard"
    | some i => match i.op with
      | .assign .. => "assign" | .store .. => "store" | .load .. => "load"
      | .branch _ => "branch" | .intrinsic _ => "intrinsic" | .nop => "nop"

/-- run `f` and `g` side by side; `some what` = first difference -/
def sideBySide (f g : Function) : Nat → Nat → Config → SConfig → Option String
  | 0, _, _, _ => none
  | fuel + 1, k, cf, cg =>
    let here := s!"step={k} at={cf.block}.{cf.pos}"
    let of_ := obsF f cf
    let og := obsS g cg
    if of_.block ≠ og.block ∨ of_.pos ≠ og.pos then some s!"{here} path g-at={cg.block}.{cg.pos}"
    else if of_.vals ≠ og.vals then
      some s!"{here} {kindAt f cf.block cf.pos}-value f={of_.vals.map resStr} g={og.vals.map resStr}"
    else if of_.outcome ≠ og.outcome then
      some s!"{here} {kindAt f cf.block cf.pos}-outcome f={outStr of_.outcome} g={outStr og.outcome}"
    else
      match fstep f cf, sstep g cg with
      | none, none => none
      | some _, none => some s!"{here} g-stops-where-f-continues"
      | none, some _ => some s!"{here} g-continues-where-f-stops"
      | some cf', some cg' => sideBySide f g fuel (k + 1) cf' cg'

def searchDivergence (f g : Function) : Option String :=
  match f.cfg.entry with
  | none => none
  | some e =>
    let uni := nameUniverse f
    (List.range numStates).findSome? (fun k =>
      let σ := initState uni k
      match sinitial g σ with
      | none => some s!"state={k} step=0 at={e}.0 g-cannot-enter"
      | some cg => (sideBySide f g maxSteps 0 ⟨e, 0, σ⟩ cg).map (fun w => s!"state={k} {w}"))

-- ------------------------------------------------------------------ features

def reachable (f : Function) : List Nat :=
  match f.cfg.entry with
  | none => []
  | some e =>
    let rec go : Nat → List Nat → List Nat
      | 0, seen => seen
      | n + 1, seen =>
        let next := (f.cfg.edges.filter (fun ed => seen.contains ed.head && !seen.contains ed.tail)).map (·.tail)
        if next.isEmpty then seen else go n (seen ++ next.eraseDups)
    go (f.cfg.blocks.length + 1) [e]

def failFeature (f : Function) : String :=
  if f.cfg.entry.isNone then "no-entry"
  else
    let r := reachable f
    if f.cfg.blocks.any (fun b => !r.contains b.index) then "unreachable-block" else "other"

/-- some name is written in some block and read, before any write of the block, by an instruction or a guard of
    some block (the value on entry to the function counts as a definition too): a phi node may be needed -/
def phiCandidate (f : Function) : Bool :=
  let writers (n : String) : List Nat :=
    (f.cfg.blocks.filter (fun b => b.instrs.any (fun i => (opWrites i.op).any (·.name == n)))).map (·.index)
  let upward (b : Block) : List String :=
    let rec go : List Instr → List String → List String → List String
      | [], killed, acc =>
        acc ++ (((f.cfg.edgesOut b.index).flatMap (fun e => match e.cond with | none => [] | some c => c.scalars)).map (·.name)).filter
          (fun n => !killed.contains n)
      | i :: is, killed, acc =>
        go is (killed ++ (opWrites i.op).map (·.name)) (acc ++ ((opReads i.op).map (·.name)).filter (fun n => !killed.contains n))
    go b.instrs [] []
  f.cfg.blocks.any (fun b => (upward b).any (fun n => (writers n).length ≥ 1))

def phiCount (g : Function) : Nat := (g.cfg.blocks.map (·.phis.length)).foldl (· + ·) 0

-- ------------------------------------------------------------------ the handler

def judge (f g : Function) : String :=
  if ssaCheck f g then "valid"
  else
    let fail := explain f g
    let why := match fail.loc with
      | some (_, _, s) => if twoWidths f s.name (scalarsOfFunction f) then fail.clause ++ "/two-widths" else fail.clause
      | none => fail.clause
    match searchDivergence f g with
    | some d => s!"invalid {why} ; diverge {d}"
    | none =>
      match fail.loc.bind (pathWitness g) with
      | some w => s!"invalid {why} ; path-witness {w}"
      | none => s!"invalid {why} ; no-divergence-found"

def handle (line : String) : String :=
  match line.splitOn "\t" with
  | [req, ans] =>
    match Sx.parseAll req with
    | some [fx] =>
      match Fil.function? fx with
      | none => "bad-request\t-"
      | some f =>
        let cand := if phiCandidate f then 1 else 0
        if ans = "panic" then
          (if f.cfg.entry.isNone then s!"invalid panic/no-entry\tphis=0 cand={cand}"
           else s!"invalid panic/{failFeature f}\tphis=0 cand={cand}")
        else if ans.startsWith "err:" then
          (if f.cfg.entry.isNone then s!"valid noentry\tphis=0 cand={cand}"
           else s!"invalid err/{(ans.drop 4).toString}/{failFeature f}\tphis=0 cand={cand}")
        else
          match Sx.parseAll ans with
          | some (gx :: _) =>
            match Fil.function? gx with
            | some g => s!"{judge f g}\tphis={phiCount g} cand={cand}"
            | none => "bad-answer\t-"
          | _ => "bad-answer\t-"
    | _ => "bad-request\t-"
  | _ => "bad-line\t-"

def main : IO Unit := driverLoop handle
