/-
  Drivers.C05 — input line: `lift <arch> <hexbytes> <addr> <opt>` TAB `<falcon's answer>`
  where the answer is the BlockTranslationResult in FIL, `err:…` or `panic`.
  Output: `<verdict>\t-` with verdict ∈ { rejected, panic, wf, illformed <why>, unparsable }.
-/
import FalconModel.DriverLoop
import FalconModel.WfIL
open Falcon

def handle (line : String) : String :=
  match line.splitOn "\t" with
  | [req, ans] =>
    let arch := match req.splitOn " " with
      | _ :: a :: _ => a
      | _ => ""
    if ans.startsWith "panic" then ans ++ "\t-"
    else if ans.startsWith "err:" then "rejected\t-"
    else
      match Sx.parseAll ans with
      | some [x] =>
        match Fil.btr? x with
        | some r =>
          match btrIll { addrBits := addrBitsOf arch } r with
          | none => "wf\t-"
          | some w => "illformed " ++ w ++ "\t-"
        | none => "unparsable\t-"
      | _ => "unparsable\t-"
  | _ => "bad-request\t-"

def main : IO Unit := driverLoop handle
