/-
  Drivers.C16 — line-protocol driver for property C16 (backing memory).

  A request is ONE line holding a whole history: operations separated by ` ; `, the first item being
  the endianness.  Numbers are decimal, data is a string of hex digit pairs (`-` = empty data).

      be|le ; set <addr> <hex|-> <perm> ; set32 <addr> <value> ; get8 <addr> ; perm <addr>
            ; get <addr> <bits> ; get32 <addr> ; dump <addr> <count> ; sections

  The answer is the per-operation answers joined by ` ; `, once from the model (mirror of backing.rs)
  and once from the specification (a byte map `Nat → Option (UInt8 × Perm)` updated by `override`):

      <model answers>\t<spec answers>

      be|le      -> be|le
      set        -> ok | panic                        spec: ok   (`?` when addr + len > 2^64: not a region)
      set32      -> ok | err:other | panic            spec: ok when [addr, addr+4) lies in one section, else ?
      get8       -> none | <2 hex digits>             spec: the byte of the most recent covering region
      perm       -> none | <bits>                     spec: its permissions
      get        -> none | 0x<hex>:<bits> | panic     spec: bytes assembled in the memory's endianness, none
                                                            when any byte is unmapped or bits is not 8k>0
      get32      -> none | 0x<hex>                    spec: assembled when the 4 bytes lie in one section, else ?
      dump a n   -> per address a..a+n-1: `.` unmapped, else <2 hex digits><perm>   (get8 + permissions)
                                                      spec: the same from the byte map
      sections   -> <addr>:<perm>:<hex>,… | -         spec: -  (the split is not determined by the property;
                                                            props/c16.py checks falcon's dump for overlaps)
  After a mutating operation panicked the state of the Rust object is unspecified: every later
  operation answers `skipped` (model) — the harness does the same.
-/
import FalconModel.DriverLoop
import FalconModel.Backing

open Falcon Falcon.Backing

namespace C16Driver

def hexVal (c : Char) : Option Nat :=
  if '0' ≤ c ∧ c ≤ '9' then some (c.toNat - '0'.toNat)
  else if 'a' ≤ c ∧ c ≤ 'f' then some (c.toNat - 'a'.toNat + 10)
  else if 'A' ≤ c ∧ c ≤ 'F' then some (c.toNat - 'A'.toNat + 10)
  else none

def parseHexPairs : List Char → Option (List UInt8)
  | [] => some []
  | [_] => none
  | a :: b :: rest =>
    match hexVal a, hexVal b, parseHexPairs rest with
    | some x, some y, some bs => some (UInt8.ofNat (x * 16 + y) :: bs)
    | _, _, _ => none

def parseData (s : String) : Option (List UInt8) :=
  if s = "-" then some [] else parseHexPairs s.toList

def hexDigit (n : Nat) : Char := (Nat.toDigits 16 n).headD '0'

def byteHex (b : UInt8) : String := String.ofList [hexDigit (b.toNat / 16), hexDigit (b.toNat % 16)]

def dataHex (d : List UInt8) : String := String.join (d.map byteHex)

def hexNat (n : Nat) : String := "0x" ++ String.ofList (Nat.toDigits 16 n)

def showSections (m : SMap) : String :=
  if m.isEmpty then "-"
  else ",".intercalate (m.map (fun e => toString e.1 ++ ":" ++ toString e.2.perm ++ ":" ++ dataHex e.2.data))

def showOpt {α : Type} (f : α → String) : Option α → String
  | none => "none"
  | some a => f a

def showRes {α : Type} (f : α → String) : Res α → String
  | .ok a => f a
  | .err e => toString e
  | .panic => "panic"

structure St where
  endian : Endian
  model : Option Memory          -- `none` after a mutating operation panicked
  spec : Option ByteMap          -- `none` once the history left the property's domain

def step (st : St) (op : String) : St × String × String :=
  let bad := (st, "bad-request", "-")
  match op.splitOn " " with
  | ["set", a, d, p] =>
    match a.toNat?, parseData d, p.toNat? with
    | some a, some d, some p =>
      let (model, mAns) := match st.model with
        | none => (none, "skipped")
        | some m => match m.setMemory a d p with
          | .ok m' => (some m', "ok")
          | .err e => (none, toString e)
          | .panic => (none, "panic")
      let (spec, sAns) := match st.spec with
        | none => (none, "?")
        | some f => if a + d.length ≤ U64 then (some (override f a d p), "ok") else (none, "?")
      ({ st with model := model, spec := spec }, mAns, sAns)
    | _, _, _ => bad
  | ["set32", a, v] =>
    match a.toNat?, v.toNat? with
    | some a, some v =>
      let inOne := match st.model with
        | some m => within32 m.sections a
        | none => false
      let (model, mAns, okM) := match st.model with
        | none => (none, "skipped", false)
        | some m => match m.set32 a v with
          | .ok m' => (some m', "ok", true)
          | .err e => (some m, toString e, false)       -- returned before any mutation
          | .panic => (some m, "panic", false)          -- panics before any mutation
      let (spec, sAns) := match st.spec with
        | none => (none, "?")
        | some f =>
          if inOne then (some (overrideBytes f a (Memory.bytes32 st.endian v)), "ok")
          else if okM then (some (overrideBytes f a (Memory.bytes32 st.endian v)), "?")
          else (some f, "?")
      ({ st with model := model, spec := spec }, mAns, sAns)
    | _, _ => bad
  | ["get8", a] =>
    match a.toNat? with
    | some a =>
      let mAns := match st.model with
        | none => "skipped"
        | some m => showRes (showOpt byteHex) (m.get8 a)
      let sAns := match st.spec with
        | none => "?"
        | some f => showOpt (fun (x : UInt8 × Perm) => byteHex x.1) (f a)
      (st, mAns, sAns)
    | none => bad
  | ["perm", a] =>
    match a.toNat? with
    | some a =>
      let mAns := match st.model with
        | none => "skipped"
        | some m => showRes (showOpt (fun (p : Perm) => toString p)) (m.permissions a)
      let sAns := match st.spec with
        | none => "?"
        | some f => showOpt (fun (x : UInt8 × Perm) => toString x.2) (f a)
      (st, mAns, sAns)
    | none => bad
  | ["get", a, bits] =>
    match a.toNat?, bits.toNat? with
    | some a, some bits =>
      let mAns := match st.model with
        | none => "skipped"
        | some m => showRes (showOpt Const.toStr) (m.get a bits)
      let sAns := match st.spec with
        | none => "?"
        | some f => showOpt Const.toStr (specGet st.endian f a bits)
      (st, mAns, sAns)
    | _, _ => bad
  | ["get32", a] =>
    match a.toNat? with
    | some a =>
      let mAns := match st.model with
        | none => "skipped"
        | some m => showRes (showOpt hexNat) (m.get32 a)
      let sAns := match st.spec, st.model with
        | some f, some m => if within32 m.sections a then showOpt hexNat (specGet32 st.endian f a) else "?"
        | _, _ => "?"
      (st, mAns, sAns)
    | none => bad
  | ["dump", a, n] =>
    match a.toNat?, n.toNat? with
    | some a, some n =>
      if a + n > U64 then bad else
      let addrs := (List.range n).map (fun i => a + i)
      let mAns := match st.model with
        | none => "skipped"
        | some m =>
          let cells := addrs.map (fun x =>
            match m.get8 x, m.permissions x with
            | .ok none, .ok none => some "."
            | .ok (some b), .ok (some p) => some (byteHex b ++ toString p)
            | .ok _, .ok _ => some "!"
            | _, _ => none)
          if cells.all Option.isSome then String.join (cells.map (fun c => c.getD "")) else "panic"
      let sAns := match st.spec with
        | none => "?"
        | some f => String.join (addrs.map (fun x =>
            match f x with
            | none => "."
            | some (b, p) => byteHex b ++ toString p))
      (st, mAns, sAns)
    | _, _ => bad
  | ["sections"] =>
    let mAns := match st.model with
      | none => "skipped"
      | some m => showSections m.sections
    (st, mAns, "-")
  | _ => bad

def handle (line : String) : String :=
  match line.splitOn " ; " with
  | e :: ops =>
    let endian? : Option Endian := if e = "be" then some .big else if e = "le" then some .little else none
    match endian? with
    | none => "bad-request\t-"
    | some en =>
      let init : St := { endian := en, model := some (Memory.new en), spec := some ByteMap.empty }
      let (_, ms, ss) := ops.foldl (fun (acc : St × List String × List String) op =>
        let (st, ms, ss) := acc
        let (st', m, s) := step st op
        (st', m :: ms, s :: ss)) (init, [e], [e])
      " ; ".intercalate ms.reverse ++ "\t" ++ " ; ".intercalate ss.reverse
  | [] => "bad-request\t-"

end C16Driver

def main : IO Unit := driverLoop C16Driver.handle
