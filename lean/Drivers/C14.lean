/-
  Drivers.C14 — line-protocol driver for property C14 (dead-code elimination), pattern P3.

  Input line (props/c14.py sets DRIVER_TAKES_ANSWER):   <f in FIL> TAB <falcon's answer>
    falcon's answer = `<g in FIL> | x=<same|skip|diff:…>`  (g = dead_code_elimination(f); the x field is the
    harness's own side-by-side execution of f and g with falcon's executor), or `panic`, or `err:<kind>`.
  Output:  <verdict> TAB <info>
    verdict = `valid`                                   dceCheck f g = true (the theorem applies)
            | `invalid <why> ; diverge state=<s> step=<k> at=<b>.<p> <what>`
                                                        dceCheck rejects g and a concrete execution of f and g
                                                        from the same initial state shows an observable difference
            | `invalid <why> ; no-divergence-found`     rejected, but none of the tried initial states separates them
            | `invalid panic/<feature>` | `invalid err/<kind>`   falcon produced no function
            | `valid noentry`                           f has no entry block and falcon answered with an error
    <why> is a category without data values (it becomes the finding signature):
       shape/<what>                 header, edges, block or instruction lists differ
       changed/<f-op>-><g-op>       an instruction was replaced by something that is not `nop`
       removed-<op>                 an instruction that is neither assign nor load became `nop`
                                    (for intrinsics: removed-intrinsic/writes=<declared|undeclared>)
       dead-read/<reader>/<reads=1|reads=2+|self-update>
                                    a kept instruction or guard reads a name whose defining instruction was
                                    removed on some path (reads = number of scalar occurrences the reader has;
                                    self-update = the reader overwrites the very name, `x := x + 1`)
       dead-at-<branch|intrinsic|exit>   such a name is still pending where the full state is observable
       cert/not-inductive           internal: the computed certificate is not closed (fuel)
    info = `removed=<k>` (number of instructions replaced by nop) or `-`.
-/
import FalconModel.DriverLoop
import FalconModel.FilIL
import FalconModel.DceCert

open Falcon Falcon.Dce

-- ------------------------------------------------------------------ why was g rejected (unverified diagnosis)

def opKind : Op → String
  | .assign .. => "assign" | .store .. => "store" | .load .. => "load"
  | .branch _ => "branch" | .intrinsic _ => "intrinsic" | .nop => "nop"

def readsTag (ns : Names) : String := if ns.length ≤ 1 then "reads=1" else "reads=2+"

def opReadNames : Op → Names
  | .assign _ s => exprNames s
  | .store a s => exprNames a ++ exprNames s
  | .load _ a => exprNames a
  | .branch t => exprNames t
  | _ => []

/-- first reason why `stepD D i j` is `none` -/
def opWriteName : Op → Option String
  | .assign d _ => some d.name
  | .load d _ => some d.name
  | _ => none

/-- `self-update`: the dead name the instruction reads is the one it overwrites (`x := x + 1`) -/
def readerTag (D : Names) (op : Op) : String :=
  match opWriteName op with
  | some x => if D.contains x && (opReadNames op).contains x then "self-update" else readsTag (opReadNames op)
  | none => readsTag (opReadNames op)

def explainStep (D : Names) (i j : Instr) : String :=
  if i.index ≠ j.index then "shape/instruction-index"
  else if i.addr ≠ j.addr then "shape/instruction-address"
  else if i.op = j.op then
    match j.op with
    | .branch _ => "dead-at-branch"
    | .intrinsic _ => "dead-at-intrinsic"
    | op => s!"dead-read/{opKind op}/{readerTag D op}"
  else if j.op = .nop then
    match i.op with
    | .intrinsic x => s!"removed-intrinsic/writes={if x.written.isSome then "declared" else "undeclared"}"
    | op => s!"removed-{opKind op}"
  else s!"changed/{opKind i.op}->{opKind j.op}"

def explainWalk : Names → List Instr → List Instr → Sum String Names
  | D, [], [] => .inr D
  | D, i :: is, j :: js =>
    match stepD D i j with
    | some D' => explainWalk D' is js
    | none => .inl (explainStep D i j)
  | _, _, _ => .inl "shape/instruction-count"

def explainBlock (g : Function) (cert : Cert) (bf bg : Block) : Option String :=
  if bf.index ≠ bg.index then some "shape/block-index"
  else if bf.nextInstr ≠ bg.nextInstr then some "shape/next-instruction-index"
  else if bf.phis ≠ bg.phis then some "shape/phi"
  else match explainWalk (cert.din bg.index) bf.instrs bg.instrs with
    | .inl why => some why
    | .inr Dend =>
      let out := g.cfg.edgesOut bg.index
      if out.isEmpty then (if Dend.isEmpty then none else some "dead-at-exit")
      else
        match out.find? (fun e => !disjoint (guardNames e.cond) Dend) with
        | some e => some s!"dead-read/guard/{readsTag (guardNames e.cond)}"
        | none => if out.all (fun e => subset Dend (cert.din e.tail)) then none else some "cert/not-inductive"

def explainBlocks (g : Function) (cert : Cert) : List Block → List Block → Option String
  | [], [] => none
  | bf :: fs, bg :: gs => (explainBlock g cert bf bg).orElse (fun _ => explainBlocks g cert fs gs)
  | _, _ => some "shape/block-count"

def explain (f g : Function) : String :=
  if ¬ headerOk f g then
    (if f.cfg.edges ≠ g.cfg.edges then "shape/edges" else "shape/header")
  else (explainBlocks g (computeCert f g) f.cfg.blocks g.cfg.blocks).getD "unknown"

def removedCount (f g : Function) : Nat :=
  let fi := f.cfg.blocks.flatMap (·.instrs)
  let gi := g.cfg.blocks.flatMap (·.instrs)
  ((fi.zip gi).filter (fun (i, j) => i.op ≠ j.op)).length

-- ------------------------------------------------------------------ search for a diverging execution

def exprScalars (e : Expr) : List Scalar := e.scalars

def opScalars : Op → List Scalar
  | .assign d s => d :: s.scalars
  | .store a s => a.scalars ++ s.scalars
  | .load d a => d :: a.scalars
  | .branch t => t.scalars
  | .intrinsic i => ((i.written.getD []) ++ (i.read.getD [])).flatMap Expr.scalars
  | .nop => []

/-- name ↦ width (first occurrence) of every scalar mentioned by the function -/
def nameUniverse (f : Function) : List (String × Nat) :=
  let all := f.cfg.blocks.flatMap (fun b => b.instrs.flatMap (fun i => opScalars i.op)) ++
             f.cfg.edges.flatMap (fun e => match e.cond with | none => [] | some c => c.scalars)
  all.foldl (fun acc s => if acc.any (·.1 == s.name) then acc else acc ++ [(s.name, s.bits)]) []

def mix (a b : Nat) : Nat := ((a + 0x9E3779B97F4A7C15) * (b * 2 + 0xBF58476D1CE4E5B9) + (a >>> 7) + b * b) % 2 ^ 64

def nameHash (s : String) : Nat := s.toList.foldl (fun h c => mix h c.toNat) 17

/-- the value of a name in the `k`-th initial state -/
def initVal (k : Nat) (name : String) (bits : Nat) : Nat :=
  let h := mix (nameHash name) k
  let big := mix h 1 + 2 ^ 64 * mix h 2 + 2 ^ 128 * mix h 3 + 2 ^ 192 * mix h 4
  let v := match k with
    | 0 => 0
    | 1 => 1
    | 2 => 2 ^ bits - 1
    | 3 => 2 ^ (bits - 1)
    | 4 => h % 4
    | 5 => h % 256
    | 6 => if h % 2 = 0 then 0 else 1
    | _ => match k % 4 with
      | 0 => h % 300
      | 1 => big
      | 2 => if h % 3 = 0 then 0 else if h % 3 = 1 then 2 ^ bits - 1 else h % 16
      | _ => big % 2 ^ (bits / 2 + 1)
  v % 2 ^ bits

def initState (uni : List (String × Nat)) (k : Nat) : State :=
  { scalars := uni.map (fun (n, b) => (n, ⟨b, initVal k n b⟩)),
    -- every address is mapped (pseudo-random bytes), except in state 7 where nothing is
    mem := if k = 7 then ByteMem.empty else fun a => some (UInt8.ofNat (mix a k % 256)),
    endian := if k % 2 = 0 then .little else .big }

def numStates : Nat := 24
def maxSteps : Nat := 400

def firstDiff (uni : List (String × Nat)) (s t : State) : Option String :=
  match uni.find? (fun (n, _) => s.get n != t.get n) with
  | some (n, _) =>
    let sh := fun (o : Option Const) => match o with | none => "undef" | some c => toString c
    some s!"scalar {n} f={sh (s.get n)} g={sh (t.get n)}"
  | none => none

def evStr : Option (Nat × List UInt8) → String
  | none => "none"
  | some (a, bs) => s!"[{Fil.hex a}]<-{bs.map (·.toNat)}"

/-- run `f` and `g` side by side; `some what` = first observable difference -/
def sideBySide (f g : Function) (uni : List (String × Nat)) : Nat → Nat → Config → Config → Option String
  | 0, _, _, _ => none
  | fuel + 1, k, cf, cg =>
    let here := s!"step={k} at={cf.block}.{cf.pos}"
    if cf.block ≠ cg.block ∨ cf.pos ≠ cg.pos then some s!"{here} path g-at={cg.block}.{cg.pos}"
    else
      let of_ := opAt f cf
      let og := opAt g cg
      let observable : Bool := match of_ with
        | some (.branch _) => true
        | some (.intrinsic _) => true
        | _ => atExit f cf
      if observable ∧ of_ ≠ og then
        some s!"{here} operation f={(of_.map opKind).getD "end"} g={(og.map opKind).getD "end"}"
      else
        match (if observable then firstDiff uni cf.state cg.state else none) with
        | some d => some s!"{here} {(of_.map opKind).getD "exit"} sees {d}"
        | none =>
          if storeEvent f cf ≠ storeEvent g cg then
            some s!"{here} store f={evStr (storeEvent f cf)} g={evStr (storeEvent g cg)}"
          else
            match fstep f cf with
            | none => none            -- f ends here (fault, branch, intrinsic, exit): the premise covers no more
            | some cf' =>
              match fstep g cg with
              | none => some s!"{here} g-stops-where-f-continues"
              | some cg' => sideBySide f g uni fuel (k + 1) cf' cg'

def searchDivergence (f g : Function) : Option String :=
  match f.cfg.entry with
  | none => none
  | some e =>
    let uni := nameUniverse f
    (List.range numStates).findSome? (fun k =>
      let σ := initState uni k
      (sideBySide f g uni maxSteps 0 ⟨e, 0, σ⟩ ⟨e, 0, σ⟩).map (fun w => s!"state={k} {w}"))

-- ------------------------------------------------------------------ features of f for the panic classes

def reachable (f : Function) : List Nat :=
  match f.cfg.entry with
  | none => []
  | some e =>
    let rec go : Nat → List Nat → List Nat
      | 0, seen => seen
      | n + 1, seen =>
        let next := (f.cfg.edges.filter (fun ed => seen.contains ed.head && !seen.contains ed.tail)).map (·.tail)
        if next.isEmpty then seen else go n (seen ++ next.eraseDups)
    go (f.cfg.blocks.length + 1) [e]

def panicFeature (f : Function) : String :=
  if f.cfg.entry.isNone then "no-entry"
  else
    let r := reachable f
    if f.cfg.blocks.any (fun b => !r.contains b.index) then "unreachable-block" else "other"

-- ------------------------------------------------------------------ the handler

def judge (f g : Function) : String :=
  if dceCheck f g then "valid"
  else
    let why := explain f g
    match searchDivergence f g with
    | some d => s!"invalid {why} ; diverge {d}"
    | none => s!"invalid {why} ; no-divergence-found"

def handle (line : String) : String :=
  match line.splitOn "\t" with
  | [req, ans] =>
    match Sx.parseAll req with
    | some [fx] =>
      match Fil.function? fx with
      | none => "bad-request\t-"
      | some f =>
        if ans = "panic" then s!"invalid panic/{panicFeature f}\t-"
        else if ans.startsWith "err:" then
          (if f.cfg.entry.isNone then "valid noentry\t-" else s!"invalid err/{(ans.drop 4).toString}\t-")
        else
          match Sx.parseAll ans with
          | some (gx :: _) =>
            match Fil.function? gx with
            | some g => s!"{judge f g}\tremoved={removedCount f g}"
            | none => "bad-answer\t-"
          | _ => "bad-answer\t-"
    | _ => "bad-request\t-"
  | _ => "bad-line\t-"

def main : IO Unit := driverLoop handle
