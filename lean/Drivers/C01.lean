/-
  Drivers.C01 — input line: `ins <x86|amd64> <hexbytes> <0xaddr> | <state>` TAB
                            `<BTR in FIL | err:…> | <falcon post> | <operand description> | <silicon post>`
  Output: `<model post>\t<spec post>\t<mirrored|->` and, when falcon's IL differs syntactically from the mirror's,
          four more fields `MIRROR-BTR \t <the mirror's BTR in FIL | -> \t <runBTR of the mirror> \t <runBTR of falcon's IL>`
          (the last two as `postLine` over the registers of the request's state): the input of the semantic comparison
          tools/il_equiv.py and of its per-run self-test (props/smt_tie.py, design/06_smt_tie.md)
    model = the Lean IL semantics (`runBTR`) on the dumped IL from the same state
    spec  = the x86 specification `X86.step` on the operand description from the same state
            (`-` when the description is missing or the mnemonic is outside the specification)
-/
import FalconModel.DriverLoop
import FalconModel.Isa.X86
import FalconModel.Isa.X86Lift
import FalconModel.FilBTR
open Falcon

def fields (s : String) : List String := (s.splitOn " | ").map (fun x => x.trimAscii.toString)

def watchOf (post : String) : List String :=
  match post.splitOn ";" with
  | _ :: regs :: _ => ((regs.splitOn ",").map fun kv => ((kv.splitOn "=").headD "").trimAscii.toString).filter (· ≠ "")
  | _ => []

def handle (line : String) : String :=
  match line.splitOn "\t" with
  | [req, ans] =>
    match fields req, fields ans with
    | [head, state], [btr, fpost, desc, _native] =>
      match head.splitOn " ", MachState.parse state with
      | ["ins", arch, _hex, addr], some ms =>
        let mode := if arch = "amd64" then X86.Mode.amd64 else X86.Mode.x86
        let addr := (Sx.parseNat addr).getD 0
        let watch := watchOf fpost
        let windows := ms.mem.map fun (a, bs) => (a, bs.length)
        let ins? := X86.parseIns mode addr desc
        let allRegs := ms.regs.map (·.1)
        -- (model post, mirror fields): option (A): for the mirrored class the dumped IL must BE the mirror's output;
        -- if it is not, the mirror's IL goes out as text for the semantic comparison
        let (model, mirrorFields) : String × String :=
          match Sx.parseAll btr with
          | some [x] =>
            match Fil.btr? x with
            | some r =>
              let post := postLine (runBTR r ms.toState 20000) watch windows
              let diffFields (m? : Option BTR) : String :=
                let fil := match m? with | some m => Fil.btrStr m | none => "-"
                let pm := match m? with | some m => postLine (runBTR m ms.toState 20000) allRegs windows | none => "-"
                "\tMIRROR-BTR\t" ++ fil ++ "\t" ++ pm ++ "\t" ++ postLine (runBTR r ms.toState 20000) allRegs windows
              match ins? with
              | some i =>
                match X86Lift.liftIns i with
                | some (.ok m) => if Fil.btrSame m r then (post, "") else (post, diffFields (some m))
                | some _ => (post, diffFields none)
                | none => (post, "")
              | none => (post, "")
            | none => ("-", "")
          | _ => ("-", "")
        let watchS := if watch.isEmpty then
            (if mode = .amd64 then X86.gprNames else X86.regNames32) ++ ["CF", "ZF", "SF", "OF", "DF"] else watch
        let spec :=
          match ins? with
          | some i => X86.postLine mode (X86.step i (X86.ofMach mode ms)) watchS windows
          | none => "-"
        let inMirror := match ins? with
          | some i => if (X86Lift.liftIns i).isSome then "mirrored" else "-"
          | none => "-"
        model ++ "\t" ++ spec ++ "\t" ++ inMirror ++ mirrorFields
      | _, _ => "bad-request\t-"
    | _, _ => "bad-request\t-"
  | _ => "bad-request\t-"

def main : IO Unit := driverLoop handle
