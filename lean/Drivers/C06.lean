/-
  Drivers.C06 — input: `<request>\t<falcon's answer>` (harness/src/bin/c06.rs documents both).
  Output: `<verdict>\t<detail>`:
    ok                                   structure fine, reference trace = function trace (= falcon's executor trace)
    structure <which>                    a structural clause of C06 fails on the recovered function
    diverge k=<i> fn=<addr> ref=<addr>   the recovered function and the single-step reference visit different addresses
    post-differs <what>                  same trace, different final state / next pc
    model-mismatch <what>                the Lean IL semantics and falcon's executor disagree on the recovered function
    rejected <err>                       translate_function_extended returned an error (outside the property unless a panic)
    oracle-miss / unparsable             machinery
  second request kind `asm …` (synthetic translation results, harness/src/bin/c06.rs): ok | rejected | panic | asm-mismatch
    incoherent <clause>                  (only when the verdict would be `ok`) the hypothesis of `asm_refines` fails on the dumped
                                         translation results: a clause of `Assemble.Coherent` (keys/first/same/exitOut; `reqFun` only
                                         when a guard is DROPPED, i.e. the later request is a manual edge — a successor's guard is merged
                                         into the edge by OR and the case stays `ok` with detail `merged-guards:<coverage by asm_refines_merged_partial>`),
                                         or `continuation@<addr>`: the control transfers requested out of an instruction differ
                                         from what lifting that ONE instruction gives (the `oracle` field)
    asm-mismatch <first difference>      (only when the verdict would be `ok`) the Lean model of the assembly algorithm
                                         (FalconModel/Assemble.lean: `discover` + `assemble` run on the `tr` field, the
                                         translation results falcon's work list uses) does not reproduce the recovered function
-/
import FalconModel.DriverLoop
import FalconModel.FnRec
import FalconModel.Assemble
open Falcon Falcon.FnRec

def splitBar (s : String) : List String := (s.splitOn " | ").map (fun x => x.trimAscii.toString)

def parseOracle (s : String) : Option (List (Nat × (BTR ⊕ String))) :=
  match Sx.parseAll s with
  | some xs => xs.mapM fun x =>
      match x with
      | .list [.atom "at", a, .atom why] => do pure ((← a.nat?), .inr why)
      | .list [.atom "at", a, b] => do pure ((← a.nat?), .inl (← Fil.btr? b))
      | _ => none
  | none => none

def parseTrace (s : String) : List Nat :=
  (s.splitOn ",").filterMap (fun x => Sx.parseNat x.trimAscii.toString)

def firstDiff (a b : List Nat) : Option (Nat × Nat × Nat) :=
  let rec go : List Nat → List Nat → Nat → Option (Nat × Nat × Nat)
    | x :: xs, y :: ys, k => if x = y then go xs ys (k + 1) else some (k, x, y)
    | _, _, _ => none
  go a b 0

def dedupAdj : List Nat → List Nat
  | a :: b :: rest => if a = b then dedupAdj (b :: rest) else a :: dedupAdj (b :: rest)
  | l => l

def handleBase (line : String) : String :=
  match line.splitOn "\t" with
  | [req, ans] =>
    if ans.startsWith "panic" then "panic " ++ ans ++ "\t-"
    else if ans.startsWith "err:" then "rejected " ++ ans ++ "\t-"
    else
      match splitBar req, splitBar ans with
      | [head, st], fnS :: trS :: postS :: orS :: rest =>
        let hf := head.splitOn " "
        let arch := hf[1]?.getD ""
        let mips := arch.startsWith "mips"
        let entry := (hf[4]?.bind Sx.parseNat).getD 0
        let steps := ((hf[6]?.map (fun x => (x.drop 6).toString)).bind String.toNat?).getD 0
        match MachState.parse st, (Sx.parseAll (fnS.drop 3).toString), parseOracle (orS.drop 7).toString with
        | some ms, some [fx], some oracle =>
          match Fil.function? fx with
          | none => "unparsable fn\t-"
          | some f =>
            match structureIll f oracle mips with
            | some w => "structure " ++ w ++ "\t-"
            | none =>
              let σ := ms.toState
              let watch := (ms.regs.map (·.1)).mergeSort (fun a b => a ≤ b)
              let windows := ms.mem.map (fun (a, bs) => (a, bs.length))
              let post (r : Run) := postLine (.stop r.state r.head) watch windows
              let fnRun := match f.cfg.entry with
                | some en => runFn f mips steps (40 * steps + 200) ⟨en, 0, σ⟩ []
                | none => ⟨[], "err:noentry", σ⟩
              let refRun := runRef oracle mips steps (steps + 2) entry σ []
              let fnTr := fnRun.trace.reverse
              let refTr := refRun.trace.reverse
              let implTr := parseTrace (trS.drop 6).toString
              let implPost := (postS.drop 5).toString
              -- 1. Lean semantics vs falcon's executor on the recovered function
              if fnTr ≠ implTr then
                "model-mismatch trace\t" ++ toString fnTr.length ++ "/" ++ toString implTr.length
              else if post fnRun ≠ implPost then
                "model-mismatch post\t" ++ post fnRun
              else if refRun.head.startsWith "oracle-miss" then refRun.head ++ "\t-"
              else
                -- 2. the recovered function vs the single-step reference
                match firstDiff fnTr refTr with
                | some (k, a, b) => s!"diverge k={k} fn={Fil.hex a} ref={Fil.hex b}\t-"
                | none =>
                  -- the function-level run was cut by the step bound: only the common prefix is comparable.  (A function run
                  -- that ENDED before the bound while the reference runs on is a divergence, handled below.)
                  let cut := fnTr.length ≥ steps
                  -- 3. (only when everything above agrees) the recovered function vs the INDEPENDENT reference machine,
                  --    which decodes the raw bytes itself (no lifter involved); its trace may be a prefix (it stops at
                  --    encodings it does not know); consecutive repetitions of one address are one entry, as in `trace`
                  let machTr : List Nat := match rest.getLast? with
                    | some m => if m.startsWith "machine" then dedupAdj (parseTrace (m.drop 8).toString) else []
                    | none => []
                  let machine : Option String :=
                    match firstDiff fnTr machTr with
                    | some (k, a, b) => some s!"diverge-from-machine k={k} fn={Fil.hex a} machine={Fil.hex b}"
                    | none =>
                      if machTr.length > fnTr.length ∧ fnTr.length < steps ∧ fnRun.head ≠ "err:steps" then
                        some s!"diverge-from-machine k={fnTr.length} fn-ends=[{fnRun.head}] machine={Fil.hex (machTr.getD fnTr.length 0)}"
                      else none
                  if cut then (match machine with | some m => m ++ "\t-" | none => "ok\tcut")
                  else if fnTr.length ≠ refTr.length then
                    s!"diverge k={min fnTr.length refTr.length} fn-len={fnTr.length} ref-len={refTr.length} fn=[{fnRun.head}] ref=[{refRun.head}]\t-"
                  else if post fnRun ≠ post refRun then
                    "post-differs fn=[" ++ fnRun.head ++ "] ref=[" ++ refRun.head ++ "]\t" ++ post refRun
                  else (match machine with | some m => m ++ "\t-" | none => "ok\t-")
        | _, _, _ => "unparsable\t-"
      | _, _ => "unparsable\t-"
  | _ => "bad-request\t-"

-- ------------------------------------------------------------------------------------------------
-- the assembly algorithm: model vs falcon

/-- `tr` field: `(at <addr> <btr>)` or `(at <addr> empty)` -/
def parseTr (s : String) : Option (List (Nat × Option BTR)) :=
  match Sx.parseAll s with
  | some xs => xs.mapM fun x =>
      match x with
      | .list [.atom "at", a, .atom "empty"] => do pure ((← a.nat?), none)
      | .list [.atom "at", a, b] => do pure ((← a.nat?), some (← Fil.btr? b))
      | _ => none
  | none => none

def parseManual (s : String) : List Assemble.ManualEdge :=
  ((s.drop 2).toString.splitOn ",").filterMap fun p =>
    match p.splitOn "-" with
    | [h, t] =>
      let hx := fun (x : String) => Sx.parseNat (if x.startsWith "0x" then x else "0x" ++ x)
      match hx h, hx t with
      | some h, some t => some { head := h, tail := t }
      | _, _ => none
    | _ => none

/-- what `fil::function_str` can see of the private counters: max index + 1, 0 temporaries -/
def canonFn (f : Function) : Function :=
  { f with cfg := { f.cfg with
      nextIndex := f.cfg.blocks.foldl (fun m b => max m (b.index + 1)) 0
      nextTemp := 0
      blocks := f.cfg.blocks.map (fun b => { b with nextInstr := b.instrs.foldl (fun m i => max m (i.index + 1)) 0 }) } }

def fnDiff (m f : Function) : String :=
  if m.addr ≠ f.addr then "addr"
  else if m.cfg.entry ≠ f.cfg.entry then s!"entry model={m.cfg.entry} falcon={f.cfg.entry}"
  else if m.cfg.exit ≠ f.cfg.exit then s!"exit model={m.cfg.exit} falcon={f.cfg.exit}"
  else if m.cfg.blocks.map (·.index) ≠ f.cfg.blocks.map (·.index) then
    s!"block-indices model={m.cfg.blocks.map (·.index)} falcon={f.cfg.blocks.map (·.index)}"
  else if m.cfg.edges.map CfgEdit.edgeKey ≠ f.cfg.edges.map CfgEdit.edgeKey then
    s!"edge-set model={m.cfg.edges.map CfgEdit.edgeKey} falcon={f.cfg.edges.map CfgEdit.edgeKey}"
  else if m.cfg.edges ≠ f.cfg.edges then "edge-guards"
  else match (m.cfg.blocks.zip f.cfg.blocks).find? (fun (a, b) => a ≠ b) with
    | some (a, _) => s!"block {a.index}"
    | none => if m.cfg.nextIndex ≠ f.cfg.nextIndex then "next-index" else "other"

/-- the hypothesis of the theorems of Props/C06Asm.lean, evaluated on the dumped translation results: every
    instruction graph satisfies C15's `WF` -/
def illFormedGraph (tb : List (Nat × BTR)) : Option String :=
  tb.findSome? fun (_, r) => r.instrs.findSome? fun g =>
    match CfgEdit.wfProblems g.cfg with
    | [] => none
    | ps => some s!"ill-formed-instruction-graph {Fil.hex g.addr} {ps}"

/-- `none` = the model reproduces falcon's function -/
def asmCheck (req ans : String) : Option String :=
  match splitBar req, splitBar ans with
  | head :: _, fnS :: _ :: _ :: _ :: asmS :: _ =>
    let hf := head.splitOn " "
    let entry := (hf[4]?.bind Sx.parseNat).getD 0
    let manual := parseManual (hf[5]?.getD "m=")
    match Sx.parseAll (fnS.drop 3).toString, parseTr (asmS.drop 3).toString with
    | some [fx], some tr =>
      match Fil.function? fx with
      | none => some "unparsable-fn"
      | some f =>
        let tb : List (Nat × BTR) := tr.map (fun (a, r) => (a, r.getD (Assemble.emptyResult a)))
        -- the work list of the model, fed with exactly these translation results
        let oracle : Nat → Option (Res BTR) := fun a =>
          match tr.lookup a with
          | some (some r) => some (.ok r)
          | some none => none
          | none => some (.err .other)
        match illFormedGraph tb with
        | some w => some w
        | none =>
        match Assemble.discover oracle manual entry (4 * tr.length + 16) with
        | .ok tb' =>
          if tb'.map (·.1) ≠ tb.map (·.1) then
            some s!"worklist model={(tb'.map (·.1)).map Fil.hex} falcon={(tb.map (·.1)).map Fil.hex}"
          else
            match Assemble.assemble tb' manual entry with
            | .ok m => if canonFn m = f then none else some (fnDiff (canonFn m) f)
            | .err e => some s!"model-returns {e}"
            | .panic => some "model-panics"
        | .err e => some s!"worklist model-returns {e}"
        | .panic => some "worklist model-panics"
    | _, _ => some "unparsable-tr"
  | _, _ => none      -- answers without a `tr` field (errors, old corpus lines) are not compared

/-- request kind `asm <entry> | (at a <btr|empty>)… (manual h t <-|cond>)…`: the model's whole
    `translate_function_extended` on a synthetic table against falcon's (run with a table translator) -/
def handleAsm (req ans : String) : String :=
  match req.splitOn " | " with
  | [head, body] =>
    let entry := ((head.splitOn " ")[1]?.bind Sx.parseNat).getD 0
    match Sx.parseAll body with
    | none => "unparsable\t-"
    | some items =>
      let parsed : Option (List (Nat × Option (Res BTR)) × List Assemble.ManualEdge) :=
        items.foldr (fun x acc => do
          let (tb, ms) ← acc
          match x with
          | .list [.atom "at", a, .atom "empty"] => pure (((← a.nat?), none) :: tb, ms)
          | .list [.atom "at", a, .atom "fail"] => pure (((← a.nat?), some (.err .other)) :: tb, ms)
          | .list [.atom "at", a, b] => pure (((← a.nat?), some (.ok (← Fil.btr? b))) :: tb, ms)
          | .list [.atom "manual", h, t, c] =>
            let c ← match c with
              | .atom "-" => some none
              | y => (Fil.expr? y).map some
            pure (tb, { head := (← h.nat?), tail := (← t.nat?), cond := c } :: ms)
          | _ => none) (some ([], []))
      match parsed with
      | none => "unparsable\t-"
      | some (tb, manual) =>
        -- addresses that are not listed have no bytes
        let oracle : Nat → Option (Res BTR) := fun a => (tb.lookup a).getD none
        let m := Assemble.translateFunction oracle manual entry (8 * tb.length + 8 * manual.length + 64)
        let emptyList := tb.any (fun p => match p.2 with | some (.ok r) => r.instrs.isEmpty | _ => false)
        let note := if emptyList then "empty-instruction-list" else "-"
        if ans.startsWith "fn " then
          match Sx.parseAll (ans.drop 3).toString with
          | some [fx] =>
            match Fil.function? fx, m with
            | some f, .ok mf => if canonFn mf = f then "ok\t" ++ note else "asm-mismatch " ++ fnDiff (canonFn mf) f ++ "\t" ++ note
            | some _, .err e => s!"asm-mismatch model-returns {e}\t" ++ note
            | some _, .panic => "asm-mismatch model-panics\t" ++ note
            | none, _ => "unparsable fn\t-"
          | _ => "unparsable fn\t-"
        else if ans.startsWith "err:" then
          match m with
          | .err _ => "rejected " ++ ans ++ "\t" ++ note
          | .ok _ => "asm-mismatch falcon-returns-err model-ok\t" ++ note
          | .panic => "asm-mismatch falcon-returns-err model-panics\t" ++ note
        else
          match m with
          | .panic => "panic " ++ ans ++ "\t" ++ note
          | _ => "asm-mismatch falcon-panics " ++ ans ++ "\t" ++ note
  | _ => "bad-request\t-"

/-- successor determinism against the single-instruction oracle (restricted by the caller to the units the reference
    run executes: the oracle also lists single lifts of addresses that are only ever executed as delay slots): for
    every unit `[a₁ … a_k]` with successors `S`, the transfers requested out of `aᵢ` by the translation results (manual edges aside)
    must be exactly `aᵢ → aᵢ₊₁` (i < k) and `a_k → s` under `c` for `(s, c) ∈ S`. -/
def refPcs (oracle : List (Nat × (BTR ⊕ String))) : Nat → Nat → State → List Nat → List Nat
  | 0, _, _, acc => acc
  | fuel + 1, pc, σ, acc =>
    match oracle.lookup pc with
    | some (.inl r) =>
      match stepBTR r σ with
      | .next σ' pc' => refPcs oracle fuel pc' σ' (pc :: acc)
      | _ => pc :: acc
    | _ => acc

def continuationProblem (tb : List (Nat × BTR)) (oracle : List (Nat × (BTR ⊕ String))) : Option Nat :=
  let req := Assemble.reqLinks tb ++ Assemble.reqSuccs tb
  let known := (Assemble.allInstrs tb).map (·.addr)
  let sameSet := fun (xs ys : List (Nat × Option Expr)) => xs.all (fun x => ys.contains x) && ys.all (fun y => xs.contains y)
  oracle.findSome? fun (_, u) =>
    match u with
    | .inr _ => none
    | .inl unit =>
      let addrs := unit.instrs.map (·.addr)
      let rec go : List Nat → Option Nat
        | [] => none
        | [a] =>
          if known.contains a ∧ !sameSet ((req.filter (fun q => q.1 == a)).map (·.2)) unit.succs then some a else none
        | a :: b :: rest =>
          if known.contains a ∧ !sameSet ((req.filter (fun q => q.1 == a)).map (·.2)) [(b, none)] then some a
          else go (b :: rest)
      go addrs

/-- `none` = the hypothesis of `asm_refines` holds on this case -/
def coherenceCheck (req ans : String) : Option String :=
  match splitBar req, splitBar ans with
  | head :: stS :: _, _ :: _ :: _ :: orS :: asmS :: _ =>
    let hf := head.splitOn " "
    let manual := parseManual (hf[5]?.getD "m=")
    let entry := (hf[4]?.bind Sx.parseNat).getD 0
    let steps := ((hf[6]?.map (fun x => (x.drop 6).toString)).bind String.toNat?).getD 0
    match parseTr (asmS.drop 3).toString, parseOracle (orS.drop 7).toString, MachState.parse stS with
    | some tr, some oracle, some ms =>
      -- the units the reference run executes
      let pcs := (refPcs oracle (steps + 2) entry ms.toState []).eraseDups
      let oracle := oracle.filter (fun p => pcs.contains p.1)
      let tb : List (Nat × BTR) := tr.map (fun (a, r) => (a, r.getD (Assemble.emptyResult a)))
      -- `reqFun` fails harmlessly when the later of two differently guarded requests for the same pair of
      -- instructions is a successor: the (repaired) successor loop merges its guard into the edge by OR.  It is a
      -- dropped guard only when the later request is a manual edge (the manual-edge loop still skips duplicates).
      let early := Assemble.reqLinks tb ++ Assemble.reqManual tb manual
      let dropped := (Assemble.reqManual tb manual).any (fun q₂ =>
        early.any (fun q₁ => q₁.1 == q₂.1 && q₁.2.1 == q₂.2.1 && q₁.2.2 != q₂.2.2))
      let probs := (Assemble.coherenceProblems tb manual).filter (fun p => !(p.startsWith "reqFun") || dropped)
      match probs with
      | p :: _ => some p
      | [] =>
        match continuationProblem tb oracle with
        | some a => some ("continuation@" ++ Fil.hex a)
        | none => none
    | _, _, _ => some "unparsable"
  | _, _ => none

/-- some pair of instructions is requested with two different guards (the edge then carries their disjunction) -/
def mergedGuards (req ans : String) : Bool :=
  match splitBar req, splitBar ans with
  | head :: _, _ :: _ :: _ :: _ :: asmS :: _ =>
    let manual := parseManual ((head.splitOn " ")[5]?.getD "m=")
    match parseTr (asmS.drop 3).toString with
    | some tr =>
      let tb : List (Nat × BTR) := tr.map (fun (a, r) => (a, r.getD (Assemble.emptyResult a)))
      (Assemble.coherenceProblems tb manual).any (fun p => p.startsWith "reqFun")
    | none => false
  | _, _ => false

/-- states at the instruction boundaries of the reference run -/
def refStates (oracle : List (Nat × (BTR ⊕ String))) : Nat → Nat → State → List State → List State
  | 0, _, σ, acc => σ :: acc
  | fuel + 1, pc, σ, acc =>
    match oracle.lookup pc with
    | some (.inl r) =>
      match stepBTR r σ with
      | .next σ' pc' => refStates oracle fuel pc' σ' (σ :: acc)
      | .indirect σ' _ => σ' :: σ :: acc
      | .stop σ' _ => σ' :: σ :: acc
    | _ => σ :: acc

/-- is a case with a merged guard covered by `asm_refines_merged_partial`?  Evaluates its hypotheses for
    `tb' = canonTable tb manual` (every successor carries the final guard of its transfer): coherence and well-formedness of `tb'`, `MergedOf`, `assemble tb' = assemble tb` (the step that is
    not proved for all tables), and `GuardsTyped` at the instruction boundaries of the reference run. -/
def mergedCoverage (req ans : String) : String :=
  match splitBar req, splitBar ans with
  | head :: stS :: _, _ :: _ :: _ :: orS :: asmS :: _ =>
    let hf := head.splitOn " "
    let manual := parseManual (hf[5]?.getD "m=")
    let entry := (hf[4]?.bind Sx.parseNat).getD 0
    let steps := ((hf[6]?.map (fun x => (x.drop 6).toString)).bind String.toNat?).getD 0
    match parseTr (asmS.drop 3).toString, parseOracle (orS.drop 7).toString, MachState.parse stS with
    | some tr, some oracle, some ms =>
      let tb : List (Nat × BTR) := tr.map (fun (a, r) => (a, r.getD (Assemble.emptyResult a)))
      let tb' := Assemble.canonTable tb manual
      if tb'.map (·.2.instrs) != tb.map (·.2.instrs) then "uncovered(instruction-lists-differ)"
      else if !decide (Assemble.Coherent tb' manual) then "uncovered(normalised-table-incoherent)"
      else if (illFormedGraph tb').isSome then "uncovered(ill-formed-graph)"
      else if !Assemble.mergedOfB tb tb' manual then "uncovered(not-a-disjunction-of-requested-guards)"
      else if !(match Assemble.assemble tb' manual entry, Assemble.assemble tb manual entry with
                | .ok f', .ok f => f' == f
                | _, _ => false) then "uncovered(normalised-table-assembles-differently)"
      else
        let guards := (Assemble.reqList tb manual).filterMap (·.2.2)
        let states := refStates oracle (steps + 2) entry ms.toState []
        if states.all (fun σ => guards.all (fun g => Assemble.guardBitB σ g)) then "covered"
        else "hypotheses-hold;guards-untyped-in-some-visited-state"
    | _, _, _ => "uncovered(unparsable)"
  | _, _ => "uncovered(unparsable)"

def handle (line : String) : String :=
  if line.startsWith "asm " then
    match line.splitOn "\t" with
    | [req, ans] => handleAsm req ans
    | _ => "bad-request\t-"
  else
  -- diagnostic forms: `ASM:<request>\t<answer>` runs the assembly comparison alone, `COH:…` the coherence check alone
  if line.startsWith "ASM:" then
    match ((line.drop 4).toString).splitOn "\t" with
    | [req, ans] => (match asmCheck req ans with | none => "asm-ok\t-" | some d => "asm-mismatch " ++ d ++ "\t-")
    | _ => "bad-request\t-"
  else if line.startsWith "COH:" then
    match ((line.drop 4).toString).splitOn "\t" with
    | [req, ans] => (match coherenceCheck req ans with | none => "coherent\t-" | some d => "incoherent " ++ d ++ "\t-")
    | _ => "bad-request\t-"
  else
  let base := handleBase line
  if base.startsWith "ok" then
    match line.splitOn "\t" with
    | [req, ans] =>
      match asmCheck req ans with
      | some d => "asm-mismatch " ++ d ++ "\t-"
      | none =>
        match coherenceCheck req ans with
        | some d => "incoherent " ++ d ++ "\t-"
        | none =>
          -- `ok`; the detail column says when a guard was merged (such programs are outside the hypothesis `reqFun`
          -- of `asm_refines` and are validated per case only)
          if mergedGuards req ans then (base.splitOn "\t").head! ++ "\tmerged-guards:" ++ mergedCoverage req ans else base
    | _ => base
  else base

def main : IO Unit := driverLoop handle
