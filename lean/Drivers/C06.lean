/-
  Drivers.C06 — input: `<request>\t<falcon's answer>` (harness/src/bin/c06.rs documents both).
  Output: `<verdict>\t<detail>`:
    ok                                   structure fine, reference trace = function trace (= falcon's executor trace)
    structure <which>                    a structural clause of C06 fails on the recovered function
    diverge k=<i> fn=<addr> ref=<addr>   the recovered function and the single-step reference visit different addresses
    post-differs <what>                  same trace, different final state / next pc
    model-mismatch <what>                the Lean IL semantics and falcon's executor disagree on the recovered function
    rejected <err>                       translate_function_extended returned an error (outside the property unless a panic)
    oracle-miss / unparsable             machinery
-/
import FalconModel.DriverLoop
import FalconModel.FnRec
open Falcon Falcon.FnRec

def splitBar (s : String) : List String := (s.splitOn " | ").map (fun x => x.trimAscii.toString)

def parseOracle (s : String) : Option (List (Nat × (BTR ⊕ String))) :=
  match Sx.parseAll s with
  | some xs => xs.mapM fun x =>
      match x with
      | .list [.atom "at", a, .atom why] => do pure ((← a.nat?), .inr why)
      | .list [.atom "at", a, b] => do pure ((← a.nat?), .inl (← Fil.btr? b))
      | _ => none
  | none => none

def parseTrace (s : String) : List Nat :=
  (s.splitOn ",").filterMap (fun x => Sx.parseNat x.trimAscii.toString)

def firstDiff (a b : List Nat) : Option (Nat × Nat × Nat) :=
  let rec go : List Nat → List Nat → Nat → Option (Nat × Nat × Nat)
    | x :: xs, y :: ys, k => if x = y then go xs ys (k + 1) else some (k, x, y)
    | _, _, _ => none
  go a b 0

def handle (line : String) : String :=
  match line.splitOn "\t" with
  | [req, ans] =>
    if ans.startsWith "panic" then "panic " ++ ans ++ "\t-"
    else if ans.startsWith "err:" then "rejected " ++ ans ++ "\t-"
    else
      match splitBar req, splitBar ans with
      | [head, st], [fnS, trS, postS, orS] =>
        let hf := head.splitOn " "
        let arch := hf[1]?.getD ""
        let mips := arch.startsWith "mips"
        let entry := (hf[4]?.bind Sx.parseNat).getD 0
        let steps := ((hf[6]?.map (fun x => (x.drop 6).toString)).bind String.toNat?).getD 0
        match MachState.parse st, (Sx.parseAll (fnS.drop 3).toString), parseOracle (orS.drop 7).toString with
        | some ms, some [fx], some oracle =>
          match Fil.function? fx with
          | none => "unparsable fn\t-"
          | some f =>
            match structureIll f oracle mips with
            | some w => "structure " ++ w ++ "\t-"
            | none =>
              let σ := ms.toState
              let watch := (ms.regs.map (·.1)).mergeSort (fun a b => a ≤ b)
              let windows := ms.mem.map (fun (a, bs) => (a, bs.length))
              let post (r : Run) := postLine (.stop r.state r.head) watch windows
              let fnRun := match f.cfg.entry with
                | some en => runFn f mips steps (40 * steps + 200) ⟨en, 0, σ⟩ []
                | none => ⟨[], "err:noentry", σ⟩
              let refRun := runRef oracle mips steps (steps + 2) entry σ []
              let fnTr := fnRun.trace.reverse
              let refTr := refRun.trace.reverse
              let implTr := parseTrace (trS.drop 6).toString
              let implPost := (postS.drop 5).toString
              -- 1. Lean semantics vs falcon's executor on the recovered function
              if fnTr ≠ implTr then
                "model-mismatch trace\t" ++ toString fnTr.length ++ "/" ++ toString implTr.length
              else if post fnRun ≠ implPost then
                "model-mismatch post\t" ++ post fnRun
              else if refRun.head.startsWith "oracle-miss" then refRun.head ++ "\t-"
              else
                -- 2. the recovered function vs the single-step reference
                match firstDiff fnTr refTr with
                | some (k, a, b) => s!"diverge k={k} fn={Fil.hex a} ref={Fil.hex b}\t-"
                | none =>
                  let cut := fnTr.length ≥ steps || refTr.length ≥ steps
                  if cut then "ok\tcut"
                  else if fnTr.length ≠ refTr.length then
                    s!"diverge k={min fnTr.length refTr.length} fn-len={fnTr.length} ref-len={refTr.length} fn=[{fnRun.head}] ref=[{refRun.head}]\t-"
                  else if post fnRun ≠ post refRun then
                    "post-differs fn=[" ++ fnRun.head ++ "] ref=[" ++ refRun.head ++ "]\t" ++ post refRun
                  else "ok\t-"
        | _, _, _ => "unparsable\t-"
      | _, _ => "unparsable\t-"
  | _ => "bad-request\t-"

def main : IO Unit := driverLoop handle
