/-
  Drivers.C07 — line-protocol driver for property C07 (the concrete executor).

  Request (one line, five S-expressions):
    (prog …)                                      the program in FIL
    (state <LE|BE> <back> (init (<addr> <const>)…) (scalars (<name> <const>)…))
        <back> := -  |  (back (<addr> <hexbytes>)…)      backing memory regions (absent bytes are unmapped)
        init   := stores performed on the paged memory before the run (in order)
    (at <fn|-> (i <block> <index>) | (e <head> <tail>) | (b <block>))
    (steps <n>)
    (watch (<addr> <len>)…)                        windows printed at the end of the run
  Answer: per executed step `<loc> <changed scalars|-> <memory window of a store | l<address of a load> | ->`, joined by ` ; `; the run
  ends with `err:<kind>` / `panic` / `lift` (branch target outside the program) / `edge64` (access touching
  the last byte of the address space: outside the compared domain) or, after n steps, with
  `end <watch windows>`.
    model column: `Drv.step` (mirror of Driver::step);
    spec column : the unique `Sem.Step` successor (`Sem.succs`), `err:{kinds}` when there is none and the
                  property names the reason (`Sem.whyStuck`), `?` from the first step on which the
                  specification is silent: the configuration is outside the property's premise
                  (`Sem.inDomain`: ill-typed operation or guard, duplicate instruction indices, guards not
                  exclusive / a lone guarded edge that is not enabled in this state), several successors,
                  lift, edge64.
-/
import FalconModel.DriverLoop
import FalconModel.FilIL
import FalconModel.Sem

open Falcon Falcon.Drv

namespace C07

def hexByte (b : UInt8) : String :=
  let d := Nat.toDigits 16 b.toNat
  String.ofList (if d.length < 2 then '0' :: d else d)

def parseHexBytes : List Char → Option (List UInt8)
  | [] => some []
  | a :: b :: rest => do
      let x ← Sx.hexVal a
      let y ← Sx.hexVal b
      let tl ← parseHexBytes rest
      pure (UInt8.ofNat (x * 16 + y) :: tl)
  | _ => none

def posStr : Pos → String
  | .instr b i => s!"i{b}.{i}"
  | .edge h t => s!"e{h}-{t}"
  | .empty b => s!"b{b}"

def locStr (l : Loc) : String :=
  (match l.fn with | none => "-" | some f => toString f) ++ ":" ++ posStr l.pos

def pos? : Sx → Option Pos
  | .list [.atom "i", b, i] => do pure (.instr (← b.nat?) (← i.nat?))
  | .list [.atom "e", h, t] => do pure (.edge (← h.nat?) (← t.nat?))
  | .list [.atom "b", b] => do pure (.empty (← b.nat?))
  | _ => none

def sortedScalars (σ : State) : List (String × Const) :=
  σ.scalars.mergeSort (fun a b => decide (a.1 < b.1) || a.1 == b.1)

/-- the scalars whose value differs from the previous state -/
def deltaStr (old new : State) : String :=
  let ch := (sortedScalars new).filter (fun p => old.get p.1 != some p.2)
  if ch.isEmpty then "-" else ",".intercalate (ch.map (fun p => p.1 ++ "=" ++ p.2.toStr))

def windowStr (m : ByteMem) (start len : Nat) : String :=
  let bytes := (List.range len).map (fun k =>
    if start + k < 2 ^ 64 then
      match m (start + k) with
      | some b => hexByte b
      | none => "??"
    else "")
  "m" ++ Fil.hex start ++ "=" ++ String.join bytes

/-- window around a store: two bytes before, the bytes written, two bytes after -/
def storeWindow (ev : State → Expr → Res Const) (pre post : State) : Op → String
  | .store index src =>
    match ev pre index, ev pre src with
    | .ok i, .ok v =>
      let a := i.val
      let start := a - 2
      windowStr post.mem start (a - start + v.bits / 8 + 2)
    | _, _ => "-"
  | .load _ index =>
    match ev pre index with
    | .ok i => "l" ++ Fil.hex i.val
    | _ => "-"
  | _ => "-"

def opAt (P : Program) (l : Loc) : Op :=
  match apply P l with
  | .ok (.instr _ _ i) => i.op
  | _ => .nop

def entryStr (ev : State → Expr → Res Const) (P : Program) (d d' : Loc × State) : String :=
  locStr d'.1 ++ " " ++ deltaStr d.2 d'.2 ++ " " ++ storeWindow ev d.2 d'.2 (opAt P d.1)

def watchStr (σ : State) (ws : List (Nat × Nat)) : String :=
  if ws.isEmpty then "end -" else "end " ++ ",".intercalate (ws.map (fun w => windowStr σ.mem w.1 w.2))

/-- the access touches the last byte of the 64-bit address space: outside the compared domain
    (`a + len < 2^64` is the side condition under which `Exec.execute` mirrors the paged memory) -/
def edge64 (σ : State) : Op → Bool
  | .store index src =>
    match σ.evalIn src, σ.evalIn index with
    | .ok v, .ok i => decide (i.val < 2 ^ 64) && decide (i.val + v.bits / 8 ≥ 2 ^ 64)
    | _, _ => false
  | .load dst index =>
    match σ.evalIn index with
    | .ok i => decide (i.val < 2 ^ 64) && decide (i.val + dst.bits / 8 ≥ 2 ^ 64)
    | _ => false
  | _ => false

def modelRun (P : Program) (ws : List (Nat × Nat)) : Nat → Loc × State → List String
  | 0, d => [watchStr d.2 ws]
  | n + 1, d =>
    if (needsLift P d).isSome then ["lift"]
    else if edge64 d.2 (opAt P d.1) then ["edge64"]
    else
      match step P d with
      | .ok d' => entryStr State.evalIn P d d' :: modelRun P ws n d'
      | .err k => [toString k]
      | .panic => ["panic"]

def named : List Err := [.scalar, .div0, .unmapped, .intrinsic, .noedge]

def errSetStr (ks : List Err) : String :=
  let names := (named.filter (fun k => ks.contains k)).map toString
  "err:{" ++ ",".intercalate (names.map (fun s => (s.drop 4).toString)) ++ "}"

def specRun (P : Program) (ws : List (Nat × Nat)) : Nat → Loc × State → List String
  | 0, d => [watchStr d.2 ws]
  | n + 1, d =>
    if edge64 d.2 (opAt P d.1) || !Sem.inDomain P d then ["?"] else
    match Sem.succs P d with
    | [d'] => entryStr Sem.value P d d' :: specRun P ws n d'
    | [] =>
      if (Sem.leavesProgram P d).isSome then ["lift"] else
      match Sem.whyStuck P d with
      | some ks => if ks.isEmpty || ks.any (fun k => !named.contains k) then ["?"] else [errSetStr ks]
      | none => ["?"]
    | _ => ["?"]

def endian? : Sx → Option Endian
  | .atom "LE" => some .little
  | .atom "BE" => some .big
  | _ => none

def regions? : List Sx → Option (List (Nat × List UInt8))
  | [] => some []
  | .list [a, .atom h] :: rest => do
      pure (((← a.nat?), (← parseHexBytes h.toList)) :: (← regions? rest))
  | .list [a] :: rest => do pure (((← a.nat?), []) :: (← regions? rest))
  | _ => none

def back? : Sx → Option (List (Nat × List UInt8))
  | .atom "-" => some []
  | .list (.atom "back" :: rs) => regions? rs
  | _ => none

def inits? : List Sx → Option (List (Nat × Const))
  | [] => some []
  | .list [a, .atom c] :: rest => do pure (((← a.nat?), (← Fil.const? c)) :: (← inits? rest))
  | _ => none

def scalars? : List Sx → Option (List (String × Const))
  | [] => some []
  | .list [.atom n, .atom c] :: rest => do pure ((n, (← Fil.const? c)) :: (← scalars? rest))
  | _ => none

def watch? : List Sx → Option (List (Nat × Nat))
  | [] => some []
  | .list [a, n] :: rest => do pure (((← a.nat?), (← n.nat?)) :: (← watch? rest))
  | _ => none

/-- later regions override earlier ones; then the initial stores, in order -/
def initialState (e : Endian) (back : List (Nat × List UInt8)) (inits : List (Nat × Const))
    (scalars : List (String × Const)) : State :=
  let m0 : ByteMem := back.foldl (fun m r => m.write r.1 r.2) ByteMem.empty
  let m1 : ByteMem := inits.foldl (fun m s => m.write s.1 (bytesOf e s.2)) m0
  let σ0 : State := { scalars := [], mem := m1, endian := e }
  scalars.foldl (fun σ p => σ.set p.1 p.2) σ0

def handle (line : String) : String :=
  let bad := "bad-request\t-"
  match Sx.parseAll line with
  | some [prog, .list [.atom "state", en, bk, .list (.atom "init" :: ins), .list (.atom "scalars" :: scs)],
          .list [.atom "at", fi, ps], .list [.atom "steps", n], .list (.atom "watch" :: ws)] =>
    match Fil.program? prog, endian? en, back? bk, inits? ins, scalars? scs, Fil.optNat? fi, pos? ps, n.nat?,
          watch? ws with
    | some P, some e, some back, some inits, some scalars, some fi, some ps, some n, some ws =>
      let σ := initialState e back inits scalars
      let d : Loc × State := (⟨fi, ps⟩, σ)
      " ; ".intercalate (modelRun P ws n d) ++ "\t" ++ " ; ".intercalate (specRun P ws n d)
    | _, _, _, _, _, _, _, _, _ => bad
  | _ => bad

end C07

def main : IO Unit := driverLoop C07.handle
