/-
  Drivers.C17 — line-protocol driver for property C17 (stack-pointer offsets).

  input line  :  <request> TAB <falcon's answer>          (props/c17.py sets DRIVER_TAKES_ANSWER)
     request  :  il <arch> <function in FIL>      |   mc <arch> <hex bytes of a machine-code function at 0x1000>
     answer   :  (sp <name> <bits>) [<lifted function in FIL>] <result>        (the function only for `mc`)
                 | nolift <err|panic>                                           (the translator declined)
     result   :  (ok (<loc> <T|B|isize>) ...) [(x86d (<addr> <operand description>) ...)] | err:<kind> | panic
                 (x86d: capstone's decoding of the bytes, x86/amd64 `mc` cases, for the x86 reference interpreter)
  output line :  <verdict> TAB premise=<yes|no> nt=<0|1> strict=<ok|loc> isa=<-|cmp:..,top:..,und:..,noil:..,exit:..,fuel:..,stop:..>
     verdict  :  valid                                     the verified checker `spoCheck` accepts the map
              |  invalid <loc> [contradicted <loc> k=<isize> s0=<hex> sp=<hex>]
                                                            it does not; then a concrete run (initial stack pointer
                                                            `s0`, aligned and unaligned values are tried) after whose
                                                            location the stack pointer is not `s0 + k`, if one is found
              |  [invalid …] isa-contradicted <loc> addr=<machine address> k=<isize> s0=<hex> sp=<hex>
                                                            `mc` cases: the reference interpreter of the instruction set
                                                            ran the bytes from architectural stack register = s0 and
                                                            after the machine instruction at addr the ARCHITECTURAL stack
                                                            pointer is not s0 + k, k reported at its last IL location
              |  incomplete <result>                        the analysis returned an error or panicked
              |  ?                                          outside the domain (no entry block, lift declined, a name
                                                            with two widths, SSA versions)
     premise  :  the entry block has no incoming edge (the premise of the completion clause)
     nt       :  the map reports at least two distinct numbers
     isa      :  the architectural witness: boundaries compared / reported Top / location not determined, and how the
                 six runs ended (left the code, fuel, outside the interpreter's domain or trap)
     strict   :  verdict of the checker in strict mode (an intrinsic that may write the stack pointer gives `top`);
                 informative only — no execution passes an intrinsic
-/
import FalconModel.DriverLoop
import FalconModel.FilIL
import FalconModel.SpoCert
import FalconModel.Isa.Mips
import FalconModel.Isa.Ppc
import FalconModel.Isa.A64
import FalconModel.Isa.X86

open Falcon Falcon.SpoCert

def parseLoc (s : String) : Option Loc :=
  match s.splitOn ":" with
  | ["i", b, i] => do pure (.instr (← b.toNat?) (← i.toNat?))
  | ["e", h, t] => do pure (.edge (← h.toNat?) (← t.toNat?))
  | ["b", b] => do pure (.empty (← b.toNat?))
  | _ => none

/-- a reported value: `none` = Top, `some (some i)` = Value(i), `some none` = Bottom -/
inductive RVal where
  | top | bottom | num (i : Int)
  deriving Repr, Inhabited

def parseVal (s : String) : Option RVal :=
  if s = "T" then some .top
  else if s = "B" then some .bottom
  else (s.toInt?).map .num

def parseMap : List Sx → Option (List (Loc × RVal))
  | [] => some []
  | .list [.atom l, .atom v] :: xs => do pure (((← parseLoc l), (← parseVal v)) :: (← parseMap xs))
  | _ => none

def toAOff (w : Nat) : RVal → AOff w
  | .top => .top
  | .bottom => .bottom
  | .num i => .value (ofReported w i)

-- ---------------------------------------------------------------- domain: one width per name

def opScalars : Op → List Scalar
  | .assign d s => d :: s.scalars
  | .store i s => i.scalars ++ s.scalars
  | .load d i => d :: i.scalars
  | .branch t => t.scalars
  | .intrinsic i => (i.written.getD []).flatMap Expr.scalars ++ (i.read.getD []).flatMap Expr.scalars
  | .nop => []

def fnScalars (f : Function) : List Scalar :=
  f.cfg.blocks.flatMap (fun b => b.instrs.flatMap (fun i => opScalars i.op)) ++
  f.cfg.edges.flatMap (fun e => match e.cond with | some g => g.scalars | none => [])

def nameWidths (ss : List (String × Nat)) : List (String × Nat) :=
  ss.foldl (fun acc p => if acc.any (·.1 == p.1) then acc else acc ++ [p]) []

def widthsOk (ss : List (String × Nat)) : Bool :=
  let nw := nameWidths ss
  ss.all (fun p => nw.any (fun q => q.1 == p.1 && q.2 == p.2))

-- ---------------------------------------------------------------- diagnosis (unverified)

def diagnose (strict : Bool) (sp : String) {w : Nat} (f : Function) (R : Report w) : Option String :=
  match (entryLocs f).find? (fun p => !flows strict sp (.value 0) R p) with
  | some p => some s!"{p.1.str}"
  | none =>
    (flowEdges f).findSome? (fun (l, l', op) =>
      match R l with
      | none => none
      | some a => if flows strict sp a R (l', op) then none else some l'.str)

-- ---------------------------------------------------------------- search for a contradicting run (unverified)

def lcg (x : Nat) : Nat := (x * 6364136223846793005 + 1442695040888963407) % 2 ^ 64

/-- initial stack pointers: aligned, unaligned, extreme -/
def spInit (w k : Nat) : Nat :=
  let top := 2 ^ w
  match k % 8 with
  | 0 => (top / 2 - 0x10000) % top          -- aligned
  | 1 => (top / 2 - 0x10000 + 3) % top      -- unaligned
  | 2 => (top / 2 - 0x10000 + 8) % top      -- 8- but not 16-aligned
  | 3 => (top / 2 - 0x10000 + 1) % top
  | 4 => 0
  | 5 => top - 1
  | 6 => 0x1000 % top
  | _ => (lcg (lcg (k * 1000003 + 12345)) / 7) % top

def initVal (bits k i : Nat) : Nat :=
  match (k / 8) % 4 with
  | 0 => 0
  | 1 => 1
  | 2 => 2 ^ bits - 1
  | _ => (lcg (lcg (k * 1000003 + i * 7919 + 12345)) / 7) % 2 ^ bits

def initState (names : List (String × Nat)) (sp : String) (w k : Nat) : State :=
  { scalars := (sp, ⟨w, spInit w k⟩) ::
      (names.filter (fun p => p.1 != sp)).zipIdx.map (fun ((n, b), i) => (n, ⟨b, initVal b k i⟩)),
    mem := fun a => some (UInt8.ofNat ((a * 131 + k * 7 + 13) % 256)),
    endian := .little }

/-- the steps from a configuration, each with the location it executes -/
def stepLocs (f : Function) (c : Config) : List (Loc × Config) :=
  match f.block c.block with
  | none => []
  | some bk =>
    match bk.instrs[c.pos]? with
    | some i =>
      match execute c.state i.op with
      | .ok (σ', .fallThrough) => [(.instr c.block i.index, ⟨c.block, c.pos + 1, σ'⟩)]
      | _ => []
    | none =>
      if c.pos = bk.instrs.length then
        (enabledEdges f c).map (fun e => (Loc.edge c.block e.tail, ⟨e.tail, 0, c.state⟩))
      else []

def hexS (n : Nat) : String := "0x" ++ Const.hexDigits n

/-- does the state after location `l` contradict the report? -/
def contraAt (sp : String) (w : Nat) (rep : Loc → Option RVal) (s0 : Nat) (l : Loc) (σ : State) : Option String :=
  let cur := match σ.get sp with | some c => hexS c.val | none => "unset"
  match rep l with
  | none => some s!"contradicted {l.str} k=unvisited s0={hexS s0} sp={cur}"
  | some .top => none
  | some .bottom => some s!"contradicted {l.str} k=bottom s0={hexS s0} sp={cur}"
  | some (.num i) =>
    let want : Const := Const.ofBV (BitVec.ofNat w s0 + ofReported w i)
    if σ.get sp == some want then none
    else some s!"contradicted {l.str} k={i} s0={hexS s0} sp={cur}"

def emptyHere (f : Function) (c : Config) : Option Loc :=
  match f.block c.block with
  | some bk => if bk.instrs.isEmpty then some (.empty c.block) else none
  | none => none

def explore (f : Function) (sp : String) (w : Nat) (rep : Loc → Option RVal) (s0 : Nat) :
    Nat → List Config → Option String
  | 0, _ => none
  | _, [] => none
  | fuel + 1, c :: rest =>
    let here := match emptyHere f c with
      | some l => contraAt sp w rep s0 l c.state
      | none => none
    match here with
    | some s => some s
    | none =>
      let nexts := stepLocs f c
      match nexts.findSome? (fun (l, c') => contraAt sp w rep s0 l c'.state) with
      | some s => some s
      | none => explore f sp w rep s0 fuel (rest ++ nexts.map (·.2))

def search (f : Function) (sp : String) (w : Nat) (rep : Loc → Option RVal) (names : List (String × Nat)) :
    Option String :=
  match f.cfg.entry with
  | none => none
  | some e =>
    (List.range 32).findSome? (fun k =>
      explore f sp w rep (spInit w k) 300 [⟨e, 0, initState names sp w k⟩])


-- ---------------------------------------------------------------- the ISA witness (unverified; `mc` cases only)
/-
  An oracle that does NOT take the name of the stack register from falcon: the reference interpreters of the
  instruction sets (FalconModel/Isa/{Mips,Ppc,A64,X86}.lean, the specifications of C01–C03) run the SAME BYTES from
  a state whose ARCHITECTURAL stack register (MIPS r29, PPC r1, A64 SP, x86 esp/rsp) holds `s0`.  After every machine
  instruction (for MIPS: after a branch together with its delay slot) the architectural stack pointer is compared
  with what falcon reports at the LAST IL location of that machine instruction: a number `k` there must satisfy
  `sp = s0 + k (mod 2^w)`.  The comparison is made only where that location is determined: all IL instructions
  carrying the machine instruction's address lie in one block, contiguously.  An instruction outside an
  interpreter's domain, a trap or a fault ends the witness run; so does leaving the code (`ret`) and the fuel.
-/

def codeBase : Nat := 0x1000

def witnessMem (k : Nat) : ByteMem := fun a => some (UInt8.ofNat ((a * 131 + k * 7 + 13) % 256))

def wordAt (big : Bool) (code : Array UInt8) (pc : Nat) : Option (BitVec 32) :=
  if pc < codeBase then none
  else
    let o := pc - codeBase
    match code[o]?, code[o+1]?, code[o+2]?, code[o+3]? with
    | some a, some b, some c, some d =>
      let (b0, b1, b2, b3) := if big then (a, b, c, d) else (d, c, b, a)
      some (BitVec.ofNat 32 (((b0.toNat * 256 + b1.toNat) * 256 + b2.toNat) * 256 + b3.toNat))
    | _, _, _, _ => none

/-- one boundary of a witness run: address of the machine instruction just completed, stack pointer after it -/
abbrev Boundary := Nat × Nat

structure Witness where
  bounds : List Boundary
  /-- `exit` (left the code: return), `fuel`, or `stop` (outside the interpreter's domain / trap / fault) -/
  ended : String

def mipsRun (code : Array UInt8) : Nat → Nat → Isa.Mips.St → List Boundary → Witness
  | 0, _, _, acc => ⟨acc.reverse, "fuel"⟩
  | fuel + 1, pc, s, acc =>
    match wordAt s.bigEndian code pc with
    | none => ⟨acc.reverse, "exit"⟩
    | some w =>
      match Isa.Mips.decode w with
      | none => ⟨acc.reverse, "stop"⟩
      | some i =>
        if i.isBranch then
          match wordAt s.bigEndian code (pc + 4) with
          | none => ⟨acc.reverse, "stop"⟩
          | some wd =>
            match Isa.Mips.step2 w wd (BitVec.ofNat 32 pc) s with
            | .next s' pc' _ => mipsRun code fuel pc'.toNat s' ((pc + 4, (s'.r 29).toNat) :: acc)
            | _ => ⟨acc.reverse, "stop"⟩
        else
          match Isa.Mips.step w (BitVec.ofNat 32 pc) s with
          | .next s' pc' _ => mipsRun code fuel pc'.toNat s' ((pc, (s'.r 29).toNat) :: acc)
          | _ => ⟨acc.reverse, "stop"⟩

def mipsInit (big : Bool) (s0 cond k : Nat) : Isa.Mips.St :=
  { gpr := fun i =>
      if i = 29 then BitVec.ofNat 32 s0
      else if i = 4 then BitVec.ofNat 32 cond
      else if i = 31 then 0
      else BitVec.ofNat 32 (0x10000 * (i.toNat + 1) + 8 * k),
    hi := 0, lo := 0, mem := witnessMem k, bigEndian := big }

def ppcRun (code : Array UInt8) : Nat → Nat → Isa.Ppc.St → List Boundary → Witness
  | 0, _, _, acc => ⟨acc.reverse, "fuel"⟩
  | fuel + 1, pc, s, acc =>
    match wordAt true code pc with
    | none => ⟨acc.reverse, "exit"⟩
    | some w =>
      match Isa.Ppc.step w (BitVec.ofNat 32 pc) s with
      | .next s' pc' => ppcRun code fuel pc'.toNat s' ((pc, (s'.gpr 1).toNat) :: acc)
      | _ => ⟨acc.reverse, "stop"⟩

def ppcInit (s0 cond k : Nat) : Isa.Ppc.St :=
  { gpr := fun i =>
      if i = 1 then BitVec.ofNat 32 s0
      else if i = 3 then BitVec.ofNat 32 cond
      else BitVec.ofNat 32 (0x10000 * (i.toNat + 1) + 8 * k),
    lr := 0, ctr := 0, ca := false, so := false, cr := fun _ => false, mem := witnessMem k }

def a64Run (code : Array UInt8) : Nat → A64.St → List Boundary → Witness
  | 0, _, acc => ⟨acc.reverse, "fuel"⟩
  | fuel + 1, s, acc =>
    let pc := s.pc.toNat
    match wordAt false code pc with        -- instruction fetch is little-endian in both configurations
    | none => ⟨acc.reverse, "exit"⟩
    | some w =>
      match A64.step w s with
      | .ok s' => a64Run code fuel s' ((pc, s'.sp.toNat) :: acc)
      | _ => ⟨acc.reverse, "stop"⟩

def a64Init (big : Bool) (s0 cond k : Nat) : A64.St :=
  { x := fun i =>
      if i = 0 then BitVec.ofNat 64 cond
      else if i = 30 then 0
      else BitVec.ofNat 64 (0x100000 * (i + 1) + 16 * k),
    sp := BitVec.ofNat 64 s0, n := false, z := false, c := false, v := false, q := fun _ => 0,
    mem := witnessMem k, big := big, pc := BitVec.ofNat 64 codeBase }

def x86Run (mode : X86.Mode) (insns : List (Nat × X86.Ins)) : Nat → Nat → X86.St → List Boundary → Witness
  | 0, _, _, acc => ⟨acc.reverse, "fuel"⟩
  | fuel + 1, pc, σ, acc =>
    match insns.lookup pc with
    | none => ⟨acc.reverse, if insns.any (fun p => p.1 < pc + 16 && pc < p.1 + 16) then "stop" else "exit"⟩
    | some i =>
      match X86.step i σ with
      | .ok σ' next undef =>
        if undef.contains "rsp" then ⟨acc.reverse, "stop"⟩
        else x86Run mode insns fuel next σ' ((pc, (σ'.gpr 4).toNat % 2 ^ mode.bits) :: acc)
      | _ => ⟨acc.reverse, "stop"⟩

def x86Init (s0 cond k : Nat) : X86.St :=
  { gpr := fun i =>
      if i = 4 then BitVec.ofNat 64 s0
      else if i = 0 then BitVec.ofNat 64 cond
      else BitVec.ofNat 64 (0x100000 * (i + 1) + 16 * k),
    cf := false, pf := false, zf := false, sf := false, of := false, df := false,
    xmm := fun _ => 0, seg := fun _ => 0, mem := witnessMem k }

/-- `(x86d (<addr> <mnemonic> len=.. asz=.. pfx=.. <operand>*) ...)`: capstone's decoding, from the harness -/
def parseX86d (mode : X86.Mode) : List Sx → Option (List (Nat × X86.Ins))
  | [] => some []
  | .list (a :: toks) :: xs => do
      let addr ← a.nat?
      let words ← toks.mapM Sx.atom?
      let ins ← X86.parseIns mode addr (" ".intercalate words)
      pure ((addr, ins) :: (← parseX86d mode xs))
  | _ => none

def hexBytes (s : String) : Option (Array UInt8) :=
  let rec go : List Char → List UInt8 → Option (List UInt8)
    | [], acc => some acc.reverse
    | a :: b :: rest, acc => do
        let x ← Sx.hexVal a
        let y ← Sx.hexVal b
        go rest (UInt8.ofNat (x * 16 + y) :: acc)
    | _, _ => none
  (go s.toList []).map List.toArray

/-- the architectural witness run for one architecture name; `none` = no interpreter input for it -/
def witnessRun (arch : String) (code : Array UInt8) (x86d : Option (List Sx)) (s0 cond k : Nat) : Option Witness :=
  match arch with
  | "mips" => some (mipsRun code 64 codeBase (mipsInit true s0 cond k) [])
  | "mipsel" => some (mipsRun code 64 codeBase (mipsInit false s0 cond k) [])
  | "ppc" => some (ppcRun code 64 codeBase (ppcInit s0 cond k) [])
  | "aarch64" => some (a64Run code 64 (a64Init false s0 cond k) [])
  | "aarch64eb" => some (a64Run code 64 (a64Init true s0 cond k) [])
  | "x86" => do
      let ins ← parseX86d .x86 (← x86d)
      pure (x86Run .x86 ins 64 codeBase (x86Init s0 cond k) [])
  | "amd64" => do
      let ins ← parseX86d .amd64 (← x86d)
      pure (x86Run .amd64 ins 64 codeBase (x86Init s0 cond k) [])
  | _ => none

/-- the last IL location of the machine instruction at `addr`, when it is determined: every IL instruction with
    that address lies in ONE block, and they are contiguous there -/
def lastLocOf (f : Function) (addr : Nat) : Option Loc :=
  let hits := f.cfg.blocks.filterMap (fun bk =>
    let idxs := (bk.instrs.zipIdx.filter (fun p => p.1.addr == some addr)).map (·.2)
    if idxs.isEmpty then none else some (bk, idxs))
  match hits with
  | [(bk, idxs)] =>
    match idxs.head?, idxs.getLast? with
    | some a, some b =>
      if b + 1 - a == idxs.length then (bk.instrs[b]?).map (fun i => Loc.instr bk.index i.index) else none
    | _, _ => none
  | _ => none

structure IsaStats where
  compared : Nat := 0      -- boundaries where falcon reports a number and it was compared
  top : Nat := 0           -- boundaries where falcon reports Top / nothing
  undetermined : Nat := 0  -- boundaries whose IL location is not determined (IL of the instruction in several blocks)
  noil : Nat := 0          -- boundaries of machine instructions without any IL instruction (lifted to an empty block)
  exit : Nat := 0
  fuel : Nat := 0
  stop : Nat := 0
  contra : Option String := none

def IsaStats.str (t : IsaStats) : String :=
  s!"isa=cmp:{t.compared},top:{t.top},und:{t.undetermined},noil:{t.noil},exit:{t.exit},fuel:{t.fuel},stop:{t.stop}"

def isaCompare (f : Function) (w : Nat) (rep : Loc → Option RVal) (s0 : Nat) (wt : Witness) (t : IsaStats) : IsaStats :=
  let t := match wt.ended with
    | "exit" => { t with exit := t.exit + 1 }
    | "fuel" => { t with fuel := t.fuel + 1 }
    | _ => { t with stop := t.stop + 1 }
  wt.bounds.foldl (fun t (addr, sp) =>
    match lastLocOf f addr with
    | none =>
      if f.cfg.blocks.any (fun bk => bk.instrs.any (fun i => i.addr == some addr)) then
        { t with undetermined := t.undetermined + 1 }
      else { t with noil := t.noil + 1 }
    | some l =>
      match rep l with
      | some (.num i) =>
        let t := { t with compared := t.compared + 1 }
        if BitVec.ofNat w sp == BitVec.ofNat w s0 + ofReported w i then t
        else if t.contra.isSome then t
        else { t with contra := some s!"isa-contradicted {l.str} addr={hexS addr} k={i} s0={hexS s0} sp={hexS (sp % 2 ^ w)}" }
      | some .bottom =>
        if t.contra.isSome then t
        else { t with contra := some s!"isa-contradicted {l.str} addr={hexS addr} k=bottom s0={hexS s0} sp={hexS (sp % 2 ^ w)}" }
      | _ => { t with top := t.top + 1 }) t

/-- runs from an aligned and an unaligned stack pointer, with the branch register zero and non-zero -/
def isaWitness (arch : String) (code : Array UInt8) (x86d : Option (List Sx)) (f : Function) (w : Nat)
    (rep : Loc → Option RVal) : Option IsaStats :=
  let runs : List (Nat × Nat) := [(0, 0), (0, 1), (1, 0), (1, 1), (2, 0), (2, 1)]
  runs.foldl (fun acc (k, cond) =>
    match acc with
    | none => none
    | some t =>
      let s0 := spInit w k
      match witnessRun arch code x86d s0 cond k with
      | none => none
      | some wt => some (isaCompare f w rep s0 wt t)) (some {})

-- ---------------------------------------------------------------- main

def distinctNums (m : List (Loc × RVal)) : Nat :=
  (m.foldl (fun (acc : List Int) p => match p.2 with
    | .num i => if acc.contains i then acc else i :: acc
    | _ => acc) []).length

/-- the width of the architectural stack register — NOT taken from falcon -/
def archWidth (arch : String) : Nat :=
  if arch = "amd64" || arch = "aarch64" || arch = "aarch64eb" then 64 else 32

structure McInput where
  arch : String
  code : Array UInt8
  x86d : Option (List Sx)

def judge (f : Function) (sp : String) (w : Nat) (res : List Sx) (mc : Option McInput) : String :=
  let premise := match f.cfg.entry with
    | some e => if (f.cfg.edgesIn e).isEmpty then "yes" else "no"
    | none => "no"
  let scal := (sp, w) :: (fnScalars f).map (fun s => (s.name, s.bits))
  if f.cfg.entry.isNone || !widthsOk scal || (fnScalars f).any (·.ssa.isSome) then
    s!"?\tpremise={premise} nt=0 strict=- isa=-"
  else
    match res with
    | .atom a :: _ => s!"incomplete {a}\tpremise={premise} nt=0 strict=- isa=-"
    | .list (.atom "ok" :: ms) :: _ =>
      match parseMap ms with
      | none => "bad-answer\t-"
      | some m =>
        let rep : Loc → Option RVal := fun l => (m.find? (fun p => p.1 == l)).map (·.2)
        let R : Report w := fun l => (rep l).map (toAOff w)
        let nt := if distinctNums m ≥ 2 then 1 else 0
        let strictS := if spoCheck true sp f R then "ok" else (diagnose true sp f R).getD "?"
        let verdict :=
          if spoCheck false sp f R then "valid"
          else
            let why := (diagnose false sp f R).getD "?"
            match search f sp w rep (nameWidths scal) with
            | some s => s!"invalid {why} {s}"
            | none => s!"invalid {why}"
        -- the architectural oracle (machine-code cases): independent of falcon's idea of the stack register
        let isa := match mc with
          | none => none
          | some i => isaWitness i.arch i.code i.x86d f (archWidth i.arch) rep
        let isaS := match isa with | some t => t.str | none => "isa=-"
        let verdict := match isa.bind (·.contra) with
          | some c => if verdict = "valid" then c else s!"{verdict} {c}"
          | none => verdict
        s!"{verdict}\tpremise={premise} nt={nt} strict={strictS} {isaS}"
    | _ => "bad-answer\t-"

def findX86d : List Sx → Option (List Sx)
  | [] => none
  | .list (.atom "x86d" :: ds) :: _ => some ds
  | _ :: xs => findX86d xs

def handle (line : String) : String :=
  match line.splitOn "\t" with
  | [req, ans] =>
    match Sx.parseAll req, Sx.parseAll ans with
    | some (.atom kind :: .atom arch :: rest), some axs =>
      match axs with
      | .atom "nolift" :: _ => "?\tpremise=no nt=0 strict=- isa=-"
      | .list [.atom "sp", .atom sp, wb] :: more =>
        match wb.nat? with
        | none => "bad-answer\t-"
        | some w =>
          if kind = "il" then
            match rest with
            | [fx] =>
              match Fil.function? fx with
              | some f => judge f sp w more none
              | none => "bad-request\t-"
            | _ => "bad-request\t-"
          else if kind = "mc" then
            match more, rest with
            | fx :: res, [.atom hex] =>
              match Fil.function? fx, hexBytes hex with
              | some f, some code => judge f sp w res (some ⟨arch, code, findX86d res⟩)
              | _, _ => "bad-answer\t-"
            | _, _ => "bad-answer\t-"
          else "bad-request\t-"
      | _ => "bad-answer\t-"
    | _, _ => "bad-request\t-"
  | _ => "bad-line\t-"

def main : IO Unit := driverLoop handle
