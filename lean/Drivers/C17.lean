/-
  Drivers.C17 — line-protocol driver for property C17 (stack-pointer offsets).

  input line  :  <request> TAB <falcon's answer>          (props/c17.py sets DRIVER_TAKES_ANSWER)
     request  :  il <arch> <function in FIL>      |   mc <arch> <hex bytes of a machine-code function at 0x1000>
     answer   :  (sp <name> <bits>) [<lifted function in FIL>] <result>        (the function only for `mc`)
                 | nolift <err|panic>                                           (the translator declined)
     result   :  (ok (<loc> <T|B|isize>) ...) | err:<kind> | panic
  output line :  <verdict> TAB premise=<yes|no> nt=<0|1> strict=<ok|loc>
     verdict  :  valid                                     the verified checker `spoCheck` accepts the map
              |  invalid <loc> [contradicted <loc> k=<isize> s0=<hex> sp=<hex>]
                                                            it does not; then a concrete run (initial stack pointer
                                                            `s0`, aligned and unaligned values are tried) after whose
                                                            location the stack pointer is not `s0 + k`, if one is found
              |  incomplete <result>                        the analysis returned an error or panicked
              |  ?                                          outside the domain (no entry block, lift declined, a name
                                                            with two widths, SSA versions)
     premise  :  the entry block has no incoming edge (the premise of the completion clause)
     nt       :  the map reports at least two distinct numbers
     strict   :  verdict of the checker in strict mode (an intrinsic that may write the stack pointer gives `top`);
                 informative only — no execution passes an intrinsic
-/
import FalconModel.DriverLoop
import FalconModel.FilIL
import FalconModel.SpoCert

open Falcon Falcon.SpoCert

def parseLoc (s : String) : Option Loc :=
  match s.splitOn ":" with
  | ["i", b, i] => do pure (.instr (← b.toNat?) (← i.toNat?))
  | ["e", h, t] => do pure (.edge (← h.toNat?) (← t.toNat?))
  | ["b", b] => do pure (.empty (← b.toNat?))
  | _ => none

/-- a reported value: `none` = Top, `some (some i)` = Value(i), `some none` = Bottom -/
inductive RVal where
  | top | bottom | num (i : Int)
  deriving Repr, Inhabited

def parseVal (s : String) : Option RVal :=
  if s = "T" then some .top
  else if s = "B" then some .bottom
  else (s.toInt?).map .num

def parseMap : List Sx → Option (List (Loc × RVal))
  | [] => some []
  | .list [.atom l, .atom v] :: xs => do pure (((← parseLoc l), (← parseVal v)) :: (← parseMap xs))
  | _ => none

def toAOff (w : Nat) : RVal → AOff w
  | .top => .top
  | .bottom => .bottom
  | .num i => .value (ofReported w i)

-- ---------------------------------------------------------------- domain: one width per name

def opScalars : Op → List Scalar
  | .assign d s => d :: s.scalars
  | .store i s => i.scalars ++ s.scalars
  | .load d i => d :: i.scalars
  | .branch t => t.scalars
  | .intrinsic i => (i.written.getD []).flatMap Expr.scalars ++ (i.read.getD []).flatMap Expr.scalars
  | .nop => []

def fnScalars (f : Function) : List Scalar :=
  f.cfg.blocks.flatMap (fun b => b.instrs.flatMap (fun i => opScalars i.op)) ++
  f.cfg.edges.flatMap (fun e => match e.cond with | some g => g.scalars | none => [])

def nameWidths (ss : List (String × Nat)) : List (String × Nat) :=
  ss.foldl (fun acc p => if acc.any (·.1 == p.1) then acc else acc ++ [p]) []

def widthsOk (ss : List (String × Nat)) : Bool :=
  let nw := nameWidths ss
  ss.all (fun p => nw.any (fun q => q.1 == p.1 && q.2 == p.2))

-- ---------------------------------------------------------------- diagnosis (unverified)

def diagnose (strict : Bool) (sp : String) {w : Nat} (f : Function) (R : Report w) : Option String :=
  match (entryLocs f).find? (fun p => !flows strict sp (.value 0) R p) with
  | some p => some s!"{p.1.str}"
  | none =>
    (flowEdges f).findSome? (fun (l, l', op) =>
      match R l with
      | none => none
      | some a => if flows strict sp a R (l', op) then none else some l'.str)

-- ---------------------------------------------------------------- search for a contradicting run (unverified)

def lcg (x : Nat) : Nat := (x * 6364136223846793005 + 1442695040888963407) % 2 ^ 64

/-- initial stack pointers: aligned, unaligned, extreme -/
def spInit (w k : Nat) : Nat :=
  let top := 2 ^ w
  match k % 8 with
  | 0 => (top / 2 - 0x10000) % top          -- aligned
  | 1 => (top / 2 - 0x10000 + 3) % top      -- unaligned
  | 2 => (top / 2 - 0x10000 + 8) % top      -- 8- but not 16-aligned
  | 3 => (top / 2 - 0x10000 + 1) % top
  | 4 => 0
  | 5 => top - 1
  | 6 => 0x1000 % top
  | _ => (lcg (lcg (k * 1000003 + 12345)) / 7) % top

def initVal (bits k i : Nat) : Nat :=
  match (k / 8) % 4 with
  | 0 => 0
  | 1 => 1
  | 2 => 2 ^ bits - 1
  | _ => (lcg (lcg (k * 1000003 + i * 7919 + 12345)) / 7) % 2 ^ bits

def initState (names : List (String × Nat)) (sp : String) (w k : Nat) : State :=
  { scalars := (sp, ⟨w, spInit w k⟩) ::
      (names.filter (fun p => p.1 != sp)).zipIdx.map (fun ((n, b), i) => (n, ⟨b, initVal b k i⟩)),
    mem := fun a => some (UInt8.ofNat ((a * 131 + k * 7 + 13) % 256)),
    endian := .little }

/-- the steps from a configuration, each with the location it executes -/
def stepLocs (f : Function) (c : Config) : List (Loc × Config) :=
  match f.block c.block with
  | none => []
  | some bk =>
    match bk.instrs[c.pos]? with
    | some i =>
      match execute c.state i.op with
      | .ok (σ', .fallThrough) => [(.instr c.block i.index, ⟨c.block, c.pos + 1, σ'⟩)]
      | _ => []
    | none =>
      if c.pos = bk.instrs.length then
        (enabledEdges f c).map (fun e => (Loc.edge c.block e.tail, ⟨e.tail, 0, c.state⟩))
      else []

def hexS (n : Nat) : String := "0x" ++ Const.hexDigits n

/-- does the state after location `l` contradict the report? -/
def contraAt (sp : String) (w : Nat) (rep : Loc → Option RVal) (s0 : Nat) (l : Loc) (σ : State) : Option String :=
  let cur := match σ.get sp with | some c => hexS c.val | none => "unset"
  match rep l with
  | none => some s!"contradicted {l.str} k=unvisited s0={hexS s0} sp={cur}"
  | some .top => none
  | some .bottom => some s!"contradicted {l.str} k=bottom s0={hexS s0} sp={cur}"
  | some (.num i) =>
    let want : Const := Const.ofBV (BitVec.ofNat w s0 + ofReported w i)
    if σ.get sp == some want then none
    else some s!"contradicted {l.str} k={i} s0={hexS s0} sp={cur}"

def emptyHere (f : Function) (c : Config) : Option Loc :=
  match f.block c.block with
  | some bk => if bk.instrs.isEmpty then some (.empty c.block) else none
  | none => none

def explore (f : Function) (sp : String) (w : Nat) (rep : Loc → Option RVal) (s0 : Nat) :
    Nat → List Config → Option String
  | 0, _ => none
  | _, [] => none
  | fuel + 1, c :: rest =>
    let here := match emptyHere f c with
      | some l => contraAt sp w rep s0 l c.state
      | none => none
    match here with
    | some s => some s
    | none =>
      let nexts := stepLocs f c
      match nexts.findSome? (fun (l, c') => contraAt sp w rep s0 l c'.state) with
      | some s => some s
      | none => explore f sp w rep s0 fuel (rest ++ nexts.map (·.2))

def search (f : Function) (sp : String) (w : Nat) (rep : Loc → Option RVal) (names : List (String × Nat)) :
    Option String :=
  match f.cfg.entry with
  | none => none
  | some e =>
    (List.range 32).findSome? (fun k =>
      explore f sp w rep (spInit w k) 300 [⟨e, 0, initState names sp w k⟩])

-- ---------------------------------------------------------------- main

def distinctNums (m : List (Loc × RVal)) : Nat :=
  (m.foldl (fun (acc : List Int) p => match p.2 with
    | .num i => if acc.contains i then acc else i :: acc
    | _ => acc) []).length

def judge (f : Function) (sp : String) (w : Nat) (res : List Sx) : String :=
  let premise := match f.cfg.entry with
    | some e => if (f.cfg.edgesIn e).isEmpty then "yes" else "no"
    | none => "no"
  let scal := (sp, w) :: (fnScalars f).map (fun s => (s.name, s.bits))
  if f.cfg.entry.isNone || !widthsOk scal || (fnScalars f).any (·.ssa.isSome) then s!"?\tpremise={premise} nt=0 strict=-"
  else
    match res with
    | [.atom a] => s!"incomplete {a}\tpremise={premise} nt=0 strict=-"
    | [.list (.atom "ok" :: ms)] =>
      match parseMap ms with
      | none => "bad-answer\t-"
      | some m =>
        let rep : Loc → Option RVal := fun l => (m.find? (fun p => p.1 == l)).map (·.2)
        let R : Report w := fun l => (rep l).map (toAOff w)
        let nt := if distinctNums m ≥ 2 then 1 else 0
        let strictS := if spoCheck true sp f R then "ok" else (diagnose true sp f R).getD "?"
        let verdict :=
          if spoCheck false sp f R then "valid"
          else
            let why := (diagnose false sp f R).getD "?"
            match search f sp w rep (nameWidths scal) with
            | some s => s!"invalid {why} {s}"
            | none => s!"invalid {why}"
        s!"{verdict}\tpremise={premise} nt={nt} strict={strictS}"
    | _ => "bad-answer\t-"

def handle (line : String) : String :=
  match line.splitOn "\t" with
  | [req, ans] =>
    match Sx.parseAll req, Sx.parseAll ans with
    | some (.atom kind :: .atom _arch :: rest), some axs =>
      match axs with
      | .atom "nolift" :: _ => "?\tpremise=no nt=0 strict=-"
      | .list [.atom "sp", .atom sp, wb] :: more =>
        match wb.nat? with
        | none => "bad-answer\t-"
        | some w =>
          if kind = "il" then
            match rest with
            | [fx] =>
              match Fil.function? fx with
              | some f => judge f sp w more
              | none => "bad-request\t-"
            | _ => "bad-request\t-"
          else if kind = "mc" then
            match more with
            | fx :: res =>
              match Fil.function? fx with
              | some f => judge f sp w res
              | none => "bad-answer\t-"
            | _ => "bad-answer\t-"
          else "bad-request\t-"
      | _ => "bad-answer\t-"
    | _, _ => "bad-request\t-"
  | _ => "bad-line\t-"

def main : IO Unit := driverLoop handle
