/- echoes the FIL parse of each input line (function, program or block translation result); used by the FIL self-test.
   A `(btr …)` line is parsed, printed by the LEAN printer (`Fil.btrStr`) and parsed again: the echo is the printed text,
   prefixed with `ROUNDTRIP-FAIL ` if `btr? ∘ parse ∘ btrStr` did not give the value back.
   A line `btr-run TAB <state> TAB <btr>` answers the post line of the Lean IL semantics (`runBTR`) from that state
   (registers of the state, bytes of its windows): the reference of tools/il_equiv_selftest.sh. -/
import FalconModel.DriverLoop
import FalconModel.FilIL
import FalconModel.FilBTR
open Falcon

def handle (line : String) : String :=
  match line.splitOn "\t" with
  | ["btr-run", st, btr] =>
    match MachState.parse st, Fil.readBTR btr with
    | some m, some r =>
      postLine (runBTR r m.toState) (m.regs.map (·.1)) (m.mem.map fun (a, bs) => (a, bs.length))
    | none, _ => "bad-state"
    | _, none => "bad-btr"
  | _ =>
  match Sx.parseAll line with
  | some [x] =>
    match Fil.function? x with
    | some f => Fil.functionStr f
    | none =>
      match Fil.program? x with
      | some p => Fil.programStr p
      | none =>
        match Fil.btr? x with
        | some r => (if Fil.btrRoundTrips r then "" else "ROUNDTRIP-FAIL ") ++ Fil.btrStr r
        | none => "parse-error"
  | _ => "sx-error"

def main : IO Unit := driverLoop handle
