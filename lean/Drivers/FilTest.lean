/- echoes the FIL parse of each input line (function or program); used by the FIL self-test -/
import FalconModel.DriverLoop
import FalconModel.FilIL
open Falcon

def handle (line : String) : String :=
  match Sx.parseAll line with
  | some [x] =>
    match Fil.function? x with
    | some f => Fil.functionStr f
    | none =>
      match Fil.program? x with
      | some p => Fil.programStr p
      | none => "parse-error"
  | _ => "sx-error"

def main : IO Unit := driverLoop handle
