/-
  Drivers.C11 — line-protocol driver for property C11 (graph container + graph algorithms).

  Requests (one per line); answer `<model>\t<spec>`:

    q <V> <E> <r>
        V = comma separated vertex ids or `-`;  E = comma separated `h>t` or `-`;  r = root id.
        answer = sections `name=value` joined by ` | `:
          reach unreach idom doms domtree df loops looptree red acyc tpreds nopred nosucc
        (for a root that is not a vertex also pre/post/cacyc: the Err/panic the code answers with).
        The sections are the *definitional* models of FalconModel/GraphAlg.lean, restricted to the
        vertices reachable from r; model and spec column coincide (the model is the specification,
        proved equal to the path definitions in FalconProofs/Props/C11.lean).
    chk pre <V> <E> <r> <list>          valid | invalid:<why>      verified checker isPreorder
    chk post <V> <E> <r> <list>         valid | invalid:<why>      isPostorder (certificate search inside)
    chk topo <V> <E> <list|err:custom>  valid | invalid:<why>      isTopo / hasCycle
    chk cacyc <V> <E> <r> <V'> <E'>     valid | invalid:<why>      checkAcyclicGraph
    <op> ; <op> ; ...                   an edit history from the empty graph; op = iv v | ie h t | re h t | rv v | ru r
        answer per op (joined by ` ; `): `<ok|err:..|panic|dead> V=.. E=.. S=.. P=.. Q=.. X=..`, then a final
        element `eq-rebuilt=true|false`.  Q: every public per-vertex query (has_vertex, vertex, edges_in,
        edges_out, successors, predecessors, successor_indices, predecessor_indices) on every id the history
        mentions anywhere plus one it never mentions: `ok` when each id answers as present (all Ok, the three
        successor answers equal, the three predecessor answers equal) or as absent (all vertex-not-found),
        otherwise `!` and the full outcomes of the offending ids.  X: has_edge/edge on every mentioned pair.
        eq-rebuilt: the graph `==` a graph rebuilt from its own vertices()/edges().
        model column = the container mirror (four views), spec column = the abstract (V, E) graph with
        the successor/predecessor views derived from E.
-/
import FalconModel.GraphAlg

open Falcon Falcon.G Falcon.GA Falcon.Reach

def sortN (xs : List Nat) : List Nat := (xs.mergeSort (fun a b => a ≤ b))
def leE (a b : Nat × Nat) : Bool := a.1 < b.1 || (a.1 == b.1 && a.2 ≤ b.2)
def sortE (xs : EL) : EL := xs.mergeSort leE

def csv (xs : List Nat) : String := ",".intercalate (xs.map toString)
def plus (xs : List Nat) : String := "+".intercalate (xs.map toString)
def edgesStr (es : EL) : String := ",".intercalate (es.map (fun e => s!"{e.1}>{e.2}"))
def keyed (m : List (Nat × List Nat)) : String :=
  let m := m.mergeSort (fun a b => a.1 ≤ b.1)
  ",".intercalate (m.map (fun e => s!"{e.1}:{plus (sortN e.2)}"))

def parseList (s : String) : Option (List Nat) :=
  if s == "-" || s == "" then some [] else (s.splitOn ",").mapM String.toNat?

def parseEdge (s : String) : Option (Nat × Nat) :=
  match s.splitOn ">" with
  | [a, b] => do pure ((← a.toNat?), (← b.toNat?))
  | _ => none

def parseEdges (s : String) : Option EL :=
  if s == "-" || s == "" then some [] else (s.splitOn ",").mapM parseEdge

def bstr (b : Bool) : String := if b then "true" else "false"

/-- all deterministic sections for a root that is a vertex -/
def querySections (V : List Nat) (E : EL) (r : Nat) : List (String × String) :=
  let a := analyse V E r
  let R := a.R
  let dom := a.dom
  let ls := loopsOf V E R dom
  let fwd := E.filter (fun e => !dom e.2 e.1)
  let fwdTab := mkTab (reachE V fwd) (dedup (univE V E))
  [ ("reach", csv (sortN R)),
    ("unreach", csv (sortN (V.filter (fun v => v ∉ R)))),
    ("idom", ",".intercalate ((sortN R).filterMap (fun v => (idomOf R dom v).map (fun d => s!"{v}:{d}")))),
    ("doms", keyed (R.map (fun v => (v, domsOf R dom v)))),
    ("domtree", edgesStr (sortE (domTreeOf R dom))),
    ("df", keyed (R.map (fun n => (n, frontierOf E R dom n)))),
    ("loops", keyed ls),
    ("looptree", edgesStr (sortE (loopTreeOf ls))),
    ("red", bstr (acyclicOf fwd R (fun s => tabGet fwdTab (reachE V fwd) s))),
    ("acyc", bstr (acyclicOf E R a.rs)) ]

def globalSections (V : List Nat) (E : EL) : List (String × String) :=
  let U := dedup (univE V E)
  let rsTab := mkTab (reachE V E) U
  let rs := fun s => tabGet rsTab (reachE V E) s
  [ ("tpreds", keyed (V.map (fun v => (v, dedup (tpredsOf V E rs v))))),
    ("nopred", csv (sortN (V.filter (fun v => (predE E v).isEmpty)))),
    ("nosucc", csv (sortN (V.filter (fun v => (succE E v).isEmpty)))) ]

def sections (xs : List (String × String)) : String :=
  " | ".intercalate (xs.map (fun p => p.1 ++ "=" ++ p.2))

def handleQuery (V : List Nat) (E : EL) (r : Nat) : String :=
  if r ∈ V then sections (querySections V E r ++ globalSections V E)
  else
    let e := s!"err:vnf:{r}"
    sections ([("reach", e), ("unreach", e), ("idom", e), ("doms", e), ("domtree", e), ("df", e),
      ("loops", e), ("looptree", e), ("red", e), ("acyc", "panic")] ++ globalSections V E ++
      [("pre", e), ("post", "panic"), ("cacyc", "panic")])

def verdict (b : Bool) (why : String) : String := if b then "valid" else "invalid:" ++ why

def handleChk (ws : List String) : String :=
  match ws with
  | ["pre", v, e, r, l] =>
    match parseList v, parseEdges e, r.toNat?, parseList l with
    | some V, some E, some r, some xs => verdict (isPreorder V E r xs) "not-a-dfs-preorder"
    | some _, some _, some _, none => "invalid:" ++ l
    | _, _, _, _ => "bad-request"
  | ["post", v, e, r, l] =>
    match parseList v, parseEdges e, r.toNat?, parseList l with
    | some V, some E, some r, some xs => verdict (isPostorder V E r xs) "no-dfs-with-this-postorder-found"
    | some _, some _, some _, none => "invalid:" ++ l
    | _, _, _, _ => "bad-request"
  | ["topo", v, e, l] =>
    match parseList v, parseEdges e with
    | some V, some E =>
      if l == "err:custom" then verdict (hasCycle V E) "error-but-graph-is-acyclic"
      else match parseList l with
        | some xs => verdict (isTopo V E xs) "not-a-topological-order"
        | none => "invalid:" ++ l
    | _, _ => "bad-request"
  | ["cacyc", v, e, r, v', e'] =>
    match parseList v, parseEdges e, r.toNat?, parseList v', parseEdges e' with
    | some V, some E, some r, some V', some E' => verdict (checkAcyclicGraph V E r V' E') "acyclic-graph-contract"
    | some _, some _, some _, _, _ => "invalid:" ++ v'
    | _, _, _, _, _ => "bad-request"
  | _ => "bad-request"

/-! histories -/

def parseOp (s : String) : Option Op :=
  match (s.splitOn " ").filter (· ≠ "") with
  | ["iv", v] => do pure (.iv (← v.toNat?))
  | ["ie", h, t] => do pure (.ie (← h.toNat?) (← t.toNat?))
  | ["re", h, t] => do pure (.re (← h.toNat?) (← t.toNat?))
  | ["rv", v] => do pure (.rv (← v.toNat?))
  | ["ru", v] => do pure (.ru (← v.toNat?))
  | _ => none

def dumpViews (V : List Nat) (E : EL) (S P : List (Nat × List Nat)) : String :=
  s!"V={csv (sortN V)} E={edgesStr (sortE E)} S={keyed S} P={keyed P}"

def dumpG (g : Graph) : String := dumpViews g.verts g.edges g.succ g.pred
def dumpS (s : SGraph) : String :=
  dumpViews s.V s.E (s.V.map (fun v => (v, s.succOf v))) (s.V.map (fun v => (v, s.predOf v)))

/-- outcome of a per-vertex list query, canonical text -/
def lqStr : GRes (List Nat) → String
  | .ok l => plus (sortN l)
  | .err e => toString e
  | .panic => "panic"

def uStr : GRes Unit → String
  | .ok _ => "ok"
  | .err e => toString e
  | .panic => "panic"

/-- the per-vertex / per-edge probes of the harness, answered from the mirror's four maps
    (same classification: `ok` when every id answers as present or as absent, else the full outcomes) -/
def probeG (g : Graph) (ids : List Nat) (pairs : EL) : String :=
  let qbad := ids.filterMap (fun v =>
    let listed := decide (v ∈ g.verts)
    let vx := uStr (g.qVertex v)
    let ei := lqStr (g.qEdgesIn v); let eo := lqStr (g.qEdgesOut v)
    let su := lqStr (g.qSuccessors v); let pr := lqStr (g.qPredecessors v)
    let si := lqStr (g.qSuccIdx v); let pi := lqStr (g.qPredIdx v)
    let isOk := fun (r : GRes (List Nat)) => match r with | .ok _ => true | _ => false
    let vnf := s!"err:vnf:{v}"
    let present := listed && vx == "ok" && isOk (g.qSuccIdx v) && su == si && eo == si
      && isOk (g.qPredIdx v) && pr == pi && ei == pi
    let absent := !listed && vx == vnf && ei == vnf && eo == vnf && su == vnf && pr == vnf && si == vnf && pi == vnf
    if present || absent then none
    else
      let t := if listed then "t" else "f"
      some s!"{v}:listed={t},hv={t},vx={vx},ei={ei},eo={eo},su={su},pr={pr},si={si},pi={pi}")
  let xbad := pairs.filterMap (fun e =>
    let listed := decide (e ∈ g.edges)
    let ed := uStr (g.qEdge e.1 e.2)
    let present := listed && ed == "ok"
    let absent := !listed && ed == s!"err:enf:{e.1}>{e.2}"
    if present || absent then none
    else
      let t := if listed then "t" else "f"
      some s!"{e.1}>{e.2}:listed={t},he={t},ed={ed}")
  let q := if qbad.isEmpty then "ok" else "!" ++ "/".intercalate qbad
  let x := if xbad.isEmpty then "ok" else "!" ++ "/".intercalate xbad
  s!"Q={q} X={x}"

/-- the ids and pairs a history mentions anywhere, plus one id it never mentions -/
def mentioned (ops : List Op) : List Nat × EL :=
  let ids := ops.flatMap (fun op => match op with
    | .iv v => [v] | .rv v => [v] | .ru v => [v] | .ie h t => [h, t] | .re h t => [h, t])
  let pairs := ops.flatMap (fun op => match op with
    | .ie h t => [(h, t)] | .re h t => [(h, t)] | _ => [])
  let extra := match ids.foldl (fun (m : Option Nat) x => match m with | none => some x | some y => some (max x y)) none with
    | none => 0
    | some m => m + 1
  (sortN (dedup (extra :: ids)), sortE (pairs.eraseDups))

/-- the mirror of `g == rebuilt`: rebuild from `vertices()`/`edges()` through the mirror's own insertions
    and compare the four maps (as the derived `PartialEq` of the BTreeMaps does) -/
def eqRebuilt (g : Graph) : String :=
  let r0 : Option Graph := (sortN g.verts).foldl (fun acc v => match acc with
    | some r => (match r.insertVertex v with | .ok r' => some r' | _ => none)
    | none => none) (some Graph.empty)
  let r1 : Option Graph := (sortE g.edges).foldl (fun acc e => match acc with
    | some r => (match r.insertEdge e.1 e.2 with | .ok r' => some r' | _ => none)
    | none => none) r0
  match r1 with
  | some r => "eq-rebuilt=" ++ bstr (dumpG r == dumpG g)
  | none => "eq-rebuilt=rebuild-failed"

def runModel (ids : List Nat) (pairs : EL) : Option Graph → List Op → List String
  | none, [] => ["eq-rebuilt=dead"]
  | some g, [] => [eqRebuilt g]
  | none, _ :: ops => "dead" :: runModel ids pairs none ops
  | some g, op :: ops =>
    match op.apply g with
    | .ok g' => ("ok " ++ dumpG g' ++ " " ++ probeG g' ids pairs) :: runModel ids pairs (some g') ops
    | .err e => (toString e ++ " " ++ dumpG g ++ " " ++ probeG g ids pairs) :: runModel ids pairs (some g) ops
    | .panic => "panic" :: runModel ids pairs none ops

/-- the abstract graph answers every per-vertex query on an id outside V with vertex-not-found, every
    per-edge query on a pair outside E with edge-not-found, and equals its own rebuild -/
def runSpec : SGraph → List Op → List String
  | _, [] => ["eq-rebuilt=true"]
  | s, op :: ops =>
    match s.apply op with
    | .ok s' => ("ok " ++ dumpS s' ++ " Q=ok X=ok") :: runSpec s' ops
    | .err e => (toString e ++ " " ++ dumpS s ++ " Q=ok X=ok") :: runSpec s ops
    | .panic => "panic" :: runSpec s ops

def handleHistory (line : String) : String :=
  match (line.splitOn " ; ").mapM parseOp with
  | some ops =>
    let (ids, pairs) := mentioned ops
    " ; ".intercalate (runModel ids pairs (some Graph.empty) ops) ++ "\t" ++ " ; ".intercalate (runSpec SGraph.empty ops)
  | none => "bad-request\t-"

def handle (line : String) : String :=
  let ws := (line.splitOn " ").filter (· ≠ "")
  match ws with
  | ["q", v, e, r] =>
    match parseList v, parseEdges e, r.toNat? with
    | some V, some E, some r => let a := handleQuery V E r; a ++ "\t" ++ (if r ∈ V then a else "?")
    | _, _, _ => "bad-request\t-"
  | "chk" :: rest => let a := handleChk rest; a ++ "\t" ++ a
  | _ => handleHistory line

partial def loop (stdin stdout : IO.FS.Stream) : IO Unit := do
  let line ← stdin.getLine
  if line.isEmpty then
    stdout.flush
    return ()
  let line := (line.dropEndWhile (fun c => c = '\n' || c = '\r')).toString
  stdout.putStrLn (handle line)
  stdout.flush
  loop stdin stdout

def main : IO Unit := do
  loop (← IO.getStdin) (← IO.getStdout)
