/-
  Drivers.C19 — line-protocol driver for property C19 (ELF loading).

  A request is ONE line: items separated by ` ; `.  Declarations build a structured description of one
  or more ELF objects (what the `goblin` parser hands to falcon; the harness writes the corresponding
  file and checks that goblin's view of it equals the description); queries load it.  Numbers are
  decimal, bytes are hex digit pairs (`-` = none), an empty name is written `~`.

      obj <name> <32|64> <le|be> <machine> <etype> <entry>      begins an object
      ph <type> <flags> <offset> <vaddr> <paddr> <filesz> <memsz> <align> <hex|->   (bytes: the file bytes
                                                                the header covers; the model uses them for PT_LOAD only)
      sym  <name> <value> <size> <info> <other> <shndx>         .symtab entry (index 1, 2, …)
      dsym <name> <value> <size> <info> <other> <shndx>         .dynsym entry (index 1, 2, …)
      dyn <tag> <val>                                           .dynamic entry
      need <name>                                               the name a DT_NEEDED entry resolves to
      rel <offset> <sym> <type> | rela <offset> <sym> <type> <addend> | plt <offset> <sym> <type> <addend>
      user <addr>                                               add_user_function (for later loads)
      load <base>                                               query: Elf at this base (last object)
      link                                                      query: ElfLinker on the first object
      loadelf <name> <base>                                     a further call of the public `load_elf` on that
                                                                linker (after a failed call: `skipped`)

  Answer: per-item answers joined by ` ; `: `ok` for a declaration; for `load`/`link`

      arch=<name>/<le|be> mem=<runs> fe=<addresses> fn=<names> syms=<addr>@<name>,… pe=<addr>

  (`err:other` alone when the object cannot be opened / linked; a component is `panic` when that call
  panics).  `mem` lists maximal runs of consecutive mapped addresses with equal permissions:
  `<addr>:<len>:<perm>:<hex>`, or `…:#<fnv1a-64>` for runs longer than 640 bytes.
  Output: `<model>\t<spec>`; the specification column has `fn=*` (the property does not fix names of
  function entries) and is `?` when the case is outside the property's domain (ill-formed headers,
  overlapping segments, addresses leaving u64).
-/
import FalconModel.DriverLoop
import FalconModel.Elf

open Falcon Falcon.Elf

namespace C19Driver

def hexVal (c : Char) : Option Nat :=
  if '0' ≤ c ∧ c ≤ '9' then some (c.toNat - '0'.toNat)
  else if 'a' ≤ c ∧ c ≤ 'f' then some (c.toNat - 'a'.toNat + 10)
  else none

def parseHexPairs : List Char → Option (List UInt8)
  | [] => some []
  | [_] => none
  | a :: b :: rest =>
    match hexVal a, hexVal b, parseHexPairs rest with
    | some x, some y, some bs => some (UInt8.ofNat (x * 16 + y) :: bs)
    | _, _, _ => none

def parseData (s : String) : Option (List UInt8) :=
  if s = "-" then some [] else parseHexPairs s.toList

def parseName (s : String) : String := if s = "~" then "" else s
def showName (s : String) : String := if s = "" then "~" else s

def hexDigit (n : Nat) : Char := (Nat.toDigits 16 n).headD '0'
def byteHex (b : UInt8) : String := String.ofList [hexDigit (b.toNat / 16), hexDigit (b.toNat % 16)]

def fnv (bs : List UInt8) : UInt64 :=
  bs.foldl (fun h b => (h ^^^ b.toUInt64) * 0x100000001b3) 0xcbf29ce484222325

structure Run where
  start : Nat
  perm : Nat
  rbytes : List UInt8      -- reversed
  len : Nat

def Run.show (r : Run) : String :=
  let bs := r.rbytes.reverse
  let body := if r.len ≤ 640 then String.join (bs.map byteHex)
              else "#" ++ String.ofList (Nat.toDigits 16 (fnv bs).toNat)
  toString r.start ++ ":" ++ toString r.len ++ ":" ++ toString r.perm ++ ":" ++ body

/-- walk the addresses `lo .. lo+n-1`, asking the image itself for every byte -/
def walk (img : Img) : Nat → Nat → Option Run → List Run → Option Run × List Run
  | 0, _, cur, acc => (cur, acc)
  | n + 1, a, cur, acc =>
    match img a with
    | none =>
      match cur with
      | some r => walk img n (a + 1) none (r :: acc)
      | none => walk img n (a + 1) none acc
    | some (b, p) =>
      match cur with
      | some r =>
        if r.start + r.len = a ∧ r.perm = p then
          walk img n (a + 1) (some { r with rbytes := b :: r.rbytes, len := r.len + 1 }) acc
        else walk img n (a + 1) (some ⟨a, p, [b], 1⟩) (r :: acc)
      | none => walk img n (a + 1) (some ⟨a, p, [b], 1⟩) acc

/-- render `img` over the union of the given ranges `[lo, hi)` -/
def renderImage (img : Img) (ranges : List (Nat × Nat)) : String :=
  let pts := ((ranges.flatMap (fun r => [r.1, r.2])).mergeSort (· ≤ ·)).eraseDups
  let ivs := pts.zip (pts.drop 1)
  let (cur, acc) := ivs.foldl (fun (st : Option Run × List Run) iv =>
      if (img iv.1).isSome then walk img (iv.2 - iv.1) iv.1 st.1 st.2
      else match st.1 with
        | some r => (none, r :: st.2)
        | none => st) (none, [])
  let runs := (match cur with | some r => r :: acc | none => acc).reverse
  if runs.isEmpty then "-" else ",".intercalate (runs.map Run.show)

def loadRanges (d : ElfDesc) (B : Nat) : List (Nat × Nat) :=
  (d.phdrs.filter (fun p => p.isLoad && p.memsz != 0)).map (fun p => (p.vaddr + B, p.vaddr + B + p.memsz))

def showList (xs : List String) : String := if xs.isEmpty then "-" else ",".intercalate xs

def showResS {α : Type} (f : α → String) : Res α → String
  | .ok a => f a
  | .err e => toString e
  | .panic => "panic"

def showEntries (withNames : Bool) (es : List Entry) : String :=
  "fe=" ++ showList (es.map (fun e => toString e.1)) ++ " fn=" ++
    (if withNames then showList (es.map (fun e => match e.2 with | some n => showName n | none => "-")) else "*")

def showEntriesRes (withNames : Bool) : Res (List Entry) → String
  | .ok es => showEntries withNames es
  | .err e => "fe=" ++ toString e ++ " fn=" ++ (if withNames then toString e else "*")
  | .panic => "fe=panic fn=" ++ (if withNames then "panic" else "*")

def showSyms (ss : List Symbol) : String := showList (ss.map (fun s => toString s.1 ++ "@" ++ showName s.2))

def archStr (a : Arch) : String := a.name ++ "/" ++ (if a.big then "be" else "le")

def loadAnswer (d : ElfDesc) (B : Nat) (users : List Nat) (withNames : Bool) : String :=
  match arch d with
  | .err e => toString e
  | .panic => "panic"
  | .ok a =>
    "arch=" ++ archStr a
    ++ " mem=" ++ showResS (fun img => renderImage img (loadRanges d B)) (memoryRes d B)
    ++ " " ++ showEntriesRes withNames (entriesRes d B users)
    ++ " syms=" ++ showResS showSyms (symbolsRes d B)
    ++ " pe=" ++ showResS toString (programEntryRes d B)

def strLe (a b : String) : Bool := decide (a ≤ b)

/-- `ElfLinker`'s own `function_entries`, `symbols`, `program_entry`: per loaded object in the order
    of the file names (a BTreeMap), concatenated. -/
def linkAnswer (main : ElfDesc) (loaded : List (ElfDesc × Nat)) (img : Img) (withNames : Bool) : String :=
  let byName := (latestByName loaded).mergeSort (fun x y => strLe x.1.name y.1.name)
  let fe : Res (List Entry) := byName.foldl (fun acc x => acc.bind (fun l => (entriesRes x.1 x.2 []).map (fun e => l ++ e))) (.ok [])
  let sy : Res (List Symbol) := byName.foldl (fun acc x => acc.bind (fun l => (symbolsRes x.1 x.2).map (fun e => l ++ e))) (.ok [])
  match arch main with
  | .ok a =>
    "arch=" ++ archStr a
    ++ " mem=" ++ renderImage img (loaded.flatMap (fun x => loadRanges x.1 x.2))
    ++ " " ++ showEntriesRes withNames fe
    ++ " syms=" ++ showResS showSyms sy
    ++ " pe=" ++ showResS toString
        (match (latestByName loaded).find? (fun x => x.1.name == main.name) with
         | some x => programEntryRes x.1 x.2       -- `loaded[main's file name].program_entry()`
         | none => programEntryRes main 0)
  | .err e => toString e
  | .panic => "panic"

/-- the property's domain for a single load -/
def inDomain (d : ElfDesc) (B : Nat) (users : List Nat) : Bool :=
  headerConsistent d && d.wf && fits d B users

/-- linked objects: every object in the domain, memory ranges of different objects disjoint -/
def rangesDisjoint : List (Nat × Nat) → Bool
  | [] => true
  | r :: rs => rs.all (fun q => decide (r.2 ≤ q.1) || decide (q.2 ≤ r.1)) && rangesDisjoint rs

def linkDomain (loaded : List (ElfDesc × Nat)) : Bool :=
  loaded.all (fun x => inDomain x.1 x.2 []) && rangesDisjoint (loaded.flatMap (fun x => loadRanges x.1 x.2))

structure St where
  objs : List ElfDesc := []      -- the last one is the object being described
  users : List Nat := []
  linker : Option (ElfDesc × LinkState) := none    -- after `link`: the main object and the linker's state
  dead : Bool := false                             -- a linker call failed: later calls answer `skipped`

def St.updLast (st : St) (f : ElfDesc → ElfDesc) : Option St :=
  match st.objs.reverse with
  | [] => none
  | d :: rest => some { st with objs := (f d :: rest).reverse }

def nullSym : Sym := ⟨"", 0, 0, 0, 0, 0⟩

def parseSym (n v s i o x : String) : Option Sym :=
  match v.toNat?, s.toNat?, i.toNat?, o.toNat?, x.toNat? with
  | some v, some s, some i, some o, some x => some ⟨parseName n, v, s, i, o, x⟩
  | _, _, _, _, _ => none

def parseRel (o s t a : String) : Option Rel :=
  match o.toNat?, s.toNat?, t.toNat?, a.toNat? with
  | some o, some s, some t, some a => some ⟨o, s, t, a⟩
  | _, _, _, _ => none

/-- one item: new state, model answer, specification answer -/
def step (st : St) (item : String) : St × String × String :=
  let bad := (st, "bad-request", "-")
  let okd (o : Option St) : St × String × String :=
    match o with
    | some s => (s, "ok", "ok")
    | none => bad
  match item.splitOn " " with
  | ["obj", name, cls, enc, m, t, e] =>
    match m.toNat?, t.toNat?, e.toNat? with
    | some m, some t, some e =>
      let c? : Option Cls := if cls = "32" then some .c32 else if cls = "64" then some .c64 else none
      let e? : Option Enc := if enc = "le" then some .lsb else if enc = "be" then some .msb else none
      match c?, e? with
      | some c, some en =>
        let d : ElfDesc := ⟨name, c, en, m, t, e, [], [], [], [], [], [], [], []⟩
        ({ st with objs := st.objs ++ [d] }, "ok", "ok")
      | _, _ => bad
    | _, _, _ => bad
  | ["ph", t, f, o, v, pa, fs, ms, al, hx] =>
    match t.toNat?, f.toNat?, o.toNat?, v.toNat?, fs.toNat?, ms.toNat?, parseData hx, pa.toNat?, al.toNat? with
    | some t, some f, some o, some v, some fs, some ms, some bs, some pa, some al =>
      okd (st.updLast (fun d => { d with phdrs := d.phdrs ++ [⟨t, f, o, v, fs, ms, bs, pa, al⟩] }))
    | _, _, _, _, _, _, _, _, _ => bad
  | ["sym", n, v, s, i, o, x] =>
    match parseSym n v s i o x with
    | some sy => okd (st.updLast (fun d => { d with syms := (if d.syms.isEmpty then [nullSym] else d.syms) ++ [sy] }))
    | none => bad
  | ["dsym", n, v, s, i, o, x] =>
    match parseSym n v s i o x with
    | some sy => okd (st.updLast (fun d => { d with dynsyms := (if d.dynsyms.isEmpty then [nullSym] else d.dynsyms) ++ [sy] }))
    | none => bad
  | ["dyn", t, v] =>
    match t.toNat?, v.toNat? with
    | some t, some v =>
      -- a dynamic section always comes with a dynamic symbol table holding at least the null symbol
      okd (st.updLast (fun d => { d with dyns := d.dyns ++ [(t, v)],
                                         dynsyms := if d.dynsyms.isEmpty then [nullSym] else d.dynsyms }))
    | _, _ => bad
  | ["need", n] => okd (st.updLast (fun d => { d with needed := d.needed ++ [n] }))
  | ["rel", o, s, t] =>
    match parseRel o s t "0" with
    | some r => okd (st.updLast (fun d => { d with rels := d.rels ++ [r] }))
    | none => bad
  | ["rela", o, s, t, a] =>
    match parseRel o s t a with
    | some r => okd (st.updLast (fun d => { d with relas := d.relas ++ [r] }))
    | none => bad
  | ["plt", o, s, t, a] =>
    match parseRel o s t a with
    | some r => okd (st.updLast (fun d => { d with plt := d.plt ++ [r] }))
    | none => bad
  | ["user", a] =>
    match a.toNat? with
    | some a => ({ st with users := st.users ++ [a] }, "ok", "ok")
    | none => bad
  | ["load", b] =>
    match b.toNat?, st.objs.getLast? with
    | some B, some d =>
      let m := loadAnswer d B st.users true
      let s := if inDomain d B st.users then loadAnswer d B st.users false else "?"
      (st, m, s)
    | _, _ => bad
  | ["link"] =>
    match st.objs with
    | [] => bad
    | main :: _ =>
      match link st.objs main.name with
      | .err e => ({ st with dead := true, linker := none }, toString e, "?")
      | .panic => ({ st with dead := true, linker := none }, "panic", "?")
      | .ok ls =>
        let m := linkAnswer main ls.placed ls.mem true
        let s :=
          if linkDomain ls.placed then
            match linkSpec ls.placed (main.enc == .msb) with
            | .ok img => linkAnswer main ls.placed img false
            | _ => "?"
          else "?"
        ({ st with linker := some (main, ls), dead := false }, m, s)
  | ["loadelf", name, b] =>
    match b.toNat?, st.linker, st.dead with
    | none, _, _ => bad
    | some _, none, _ => (st, "skipped", "skipped")
    | some _, some _, true => (st, "skipped", "skipped")
    | some B, some (main, ls), false =>
      match callLoad st.objs (main.enc == .msb) ls name B with
      | .err e => ({ st with dead := true }, toString e, "?")
      | .panic => ({ st with dead := true }, "panic", "?")
      | .ok ls' =>
        let m := linkAnswer main ls'.placed ls'.mem true
        let s := if linkDomain ls'.placed then linkAnswer main ls'.placed ls'.mem false else "?"
        ({ st with linker := some (main, ls') }, m, s)
  | _ => bad

def handle (line : String) : String :=
  let items := line.splitOn " ; "
  let (_, ms, ss) := items.foldl (fun (acc : St × List String × List String) it =>
      let (st', m, s) := step acc.1 it
      (st', m :: acc.2.1, s :: acc.2.2)) (({} : St), [], [])
  " ; ".intercalate ms.reverse ++ "\t" ++ " ; ".intercalate ss.reverse

end C19Driver

def main : IO Unit := driverLoop C19Driver.handle
