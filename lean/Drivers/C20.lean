/-
  Drivers.C20 — line-protocol driver for property C20 (architecture descriptors agree with the lifters and
  the platform ABI).

  Request `<arch> <field>` (see `harness/src/bin/c20.rs` for the field list); answer `<model>\t<spec>`:
    model   the value of the field in `Generated.Arch` — the table the theorems of `Props/C20.lean` were proved
            about in this run (regenerated from /repo by `c20 table` before the build).  falcon ≠ model means
            the proofs talk about a table that is not today's.
    spec    the value the platform ABI / the property requires (`FalconModel/Abi.lean`), `-` where there is
            no requirement on the field by itself (`preserved`, `trashed`, `emitted`, `sweep_failed`).
            For the query fields: `arg_types` / `stack_arg_offsets` = what the ABI requires `argument_type(n)`
            to answer over the swept range; `is_preserved` / `is_trashed` = what the documented semantics
            (Some(true) / Some(false) / None) gives for the table's own preserved and trashed sets.
  A disagreement falcon ≠ spec is the concrete failing input of this finite property:
  (architecture, field, observed value, required value).
-/
import FalconModel.DriverLoop
import FalconModel.Abi
import Generated.Arch

open Falcon

def main : IO Unit := driverLoop (Abi.handle Generated.Arch.all)
