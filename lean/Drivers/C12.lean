/-
  Drivers.C12 — judge of falcon's reaching definitions, use-def and def-use chains (property C12).

  Input line (DRIVER_TAKES_ANSWER):   <function in FIL> TAB <falcon's answer>
    (self-test requests are `(mut <kind> <k>) <function in FIL>`: the harness mutates falcon's answer, the judge
     must reject it; see harness/src/bin/c12.rs `mutate`)
    falcon's answer = `rd <entries> | ud <entries> | du <entries>`, entries = `err:<kind>` | `panic` | `-` |
    `<loc>=[<loc>,…] …`, loc = `i:<block>:<instruction index>` | `e:<head>:<tail>` | `b:<block>`
  Output line:  <verdict> TAB ok
    ok                                                  all four checks of FalconModel/ReachDefs.lean pass
    missing-rd <l><-<d> x=<x> path=… exec=…             `d ∈ mustInclude T l x` but falcon's set of `l` lacks it
    spurious-rd <l><-<d> x=<x>                          falcon reports the assignment/load `d`, `d ∉ mayInclude T l x`
    missing-ud <u><-<d> x=<x> reads=<n> self=<0|1> path=… exec=…   `d ∈ useDefMust T f u`, absent from the chain
    not-inverse <d> <u>                                 def-use is not the inverse of use-def on that pair
    error <part>                                        falcon returned an error / panicked on a function with an entry
    ? <why>                                             outside the domain (ill-formed function) or unreadable
  `path=` is a path of the location graph entry ⇝ d ⇝ l on which nothing after `d` writes `x`; `exec=` is an
  initial state from which the run of `FStep` follows exactly that path (found by trying a few states; `none`
  if none of them does — then the disagreement is reported as a broken correspondence, not as a violation).
  The search code (paths, states) is unverified; the verdicts rest on `tables`, `checkMust`, `checkMay`,
  `checkUseDef`, `checkInverse`, whose meaning is proved in FalconProofs/Props/C12.lean.
-/
import FalconModel.DriverLoop
import FalconModel.FilIL
import FalconModel.ReachDefs

open Falcon Falcon.RD

/-! ### text -/

def locStr (f : Function) : Loc → String
  | .instr b p =>
    match instrAt f b p with
    | some i => s!"i:{b}:{i.index}"
    | none => s!"i:{b}:?{p}"
  | .edge h t => s!"e:{h}:{t}"
  | .empty b => s!"b:{b}"

def loc? (f : Function) (s : String) : Option Loc :=
  match s.splitOn ":" with
  | ["i", b, i] => do
      let b ← b.toNat?
      let i ← i.toNat?
      let B ← f.block b
      let p ← B.instrs.findIdx? (fun ins => ins.index == i)
      pure (.instr b p)
  | ["e", h, t] => do pure (.edge (← h.toNat?) (← t.toNat?))
  | ["b", b] => do pure (.empty (← b.toNat?))
  | _ => none

def locList? (f : Function) : List String → Option (List Loc)
  | [] => some []
  | s :: ss => do pure ((← loc? f s) :: (← locList? f ss))

/-- `<loc>=[a,b,c]` -/
def entry? (f : Function) (s : String) : Option (Loc × List Loc) :=
  match s.splitOn "=" with
  | [k, v] => do
      let k ← loc? f k
      let body := ((v.drop 1).dropEnd 1).toString
      let ds ← if body.isEmpty then some [] else locList? f (body.splitOn ",")
      pure (k, ds)
  | _ => none

def entries? (f : Function) : List String → Option Rel
  | [] => some []
  | s :: ss => do pure ((← entry? f s) :: (← entries? f ss))

inductive Part where
  | rel (r : Rel)
  | failed (why : String)
  | unreadable

def part? (f : Function) (tag : String) (s : String) : Part :=
  match (s.trimAscii.toString).splitOn " " with
  | t :: rest =>
    if t != tag then .unreadable
    else match rest with
      | ["-"] => .rel []
      | ["panic"] => .failed "panic"
      | [e] =>
        if e.startsWith "err:" then .failed e
        else match entries? f [e] with
          | some r => .rel r
          | none => .unreadable
      | es =>
        match entries? f es with
        | some r => .rel r
        | none => .unreadable
  | [] => .unreadable

/-! ### well-formedness (what falcon's constructors maintain) -/

def nodupNat (l : List Nat) : Bool :=
  match l with
  | [] => true
  | a :: as => !as.contains a && nodupNat as

def wellFormed (f : Function) : Bool :=
  nodupNat (f.cfg.blocks.map (·.index)) &&
  f.cfg.blocks.all (fun B => nodupNat (B.instrs.map (·.index))) &&
  f.cfg.edges.all (fun e => f.cfg.hasBlock e.head && f.cfg.hasBlock e.tail) &&
  (f.cfg.edges.map (fun e => (e.head, e.tail))).eraseDups.length == f.cfg.edges.length

/-! ### witness search (unverified) -/

/-- breadth-first search; returns a path `src … dst` -/
def bfs (succ : Loc → List Loc) (dst : Loc) : Nat → List (List Loc) → List Loc → Option (List Loc)
  | 0, _, _ => none
  | n + 1, frontier, seen =>
    match frontier.find? (fun p => p.head? == some dst) with
    | some p => some p.reverse
    | none =>
      if frontier.isEmpty then none
      else
        let (next, seen') := frontier.foldl (fun (acc : List (List Loc) × List Loc) p =>
          match p with
          | [] => acc
          | h :: _ => (succ h).foldl (fun (acc : List (List Loc) × List Loc) s =>
              if acc.2.contains s then acc else ((s :: p) :: acc.1, s :: acc.2)) acc) ([], seen)
        bfs succ dst n next.reverse seen'

def findPath (succ : Loc → List Loc) (n : Nat) (src dst : Loc) : Option (List Loc) :=
  bfs succ dst n [[src]] [src]

/-- entry ⇝ d in the location graph, then d ⇝ l avoiding later writers of x -/
def witnessPath (f : Function) (d l : Loc) (x : Scalar) : Option (List Loc) := do
  let e ← (entryLoc f).head?
  let n := fuel f + 1
  let p1 ← findPath (succ f) n e d
  let p2 ← findPath (succNoW f x) n d l
  pure (p1 ++ p2.drop 1)

def allScalars (f : Function) : List Scalar :=
  let ofOp (op : Op) : List Scalar := (op.scalarsRead.getD []) ++ (op.scalarsWritten.getD [])
  let ss := f.cfg.blocks.flatMap (fun B => B.instrs.flatMap (fun i => ofOp i.op)) ++
    f.cfg.edges.flatMap (fun e => match e.cond with | some c => c.scalars | none => [])
  ss.eraseDups

def lcg (s : Nat) : Nat := (s * 6364136223846793005 + 1442695040888963407) % 2 ^ 64

def pool : List Nat := [0, 1, 2, 3, 5, 50, 99, 100, 101, 150, 200, 255, 256, 0x7fffffff, 0x80000000, 0xffffffff]

def mkState (f : Function) (seed : Nat) : State :=
  let step := fun (acc : List (String × Const) × Nat) (s : Scalar) =>
    let r := lcg acc.2
    let v := if (r / 65536) % 4 == 0 then r / 7 else pool.getD ((r / 65536) % pool.length) 0
    if acc.1.any (fun p => p.1 == s.name) then acc
    else ((s.name, Const.new v s.bits) :: acc.1, r)
  let (vals, _) := (allScalars f).foldl step ([], lcg (seed + 17))
  { scalars := vals.reverse, mem := fun a => some (UInt8.ofNat ((a * 31 + seed) % 256)), endian := .little }

/-- does the run from `σ` follow `path` (each location executed in turn)? -/
def follows (f : Function) : List Loc → State → Bool
  | [], _ => true
  | .instr b p :: rest, σ =>
    match instrAt f b p with
    | some i =>
      match execute σ i.op with
      | .ok (σ', .fallThrough) => follows f rest σ'
      | _ => false
    | none => false
  | .edge h t :: rest, σ =>
    match f.cfg.edge h t with
    | some e => if decide (guardHolds σ e.cond) then follows f rest σ else false
    | none => false
  | .empty _ :: rest, σ => follows f rest σ

def stateStr (σ : State) : String :=
  "[" ++ ",".intercalate (σ.scalars.map (fun p => s!"{p.1}=0x{Const.hexDigits p.2.val}:{p.2.bits}")) ++ "]"

def findExec (f : Function) (path : List Loc) : String :=
  match (List.range 96).find? (fun seed => follows f path (mkState f seed)) with
  | some seed => stateStr (mkState f seed) ++ s!"/mem(a)=(31a+{seed})%256"
  | none => "none"

def witness (f : Function) (d l : Loc) (x : Scalar) (thenUse : Option Loc) : String :=
  match witnessPath f d l x with
  | none => "path=? exec=none"
  | some p =>
    let p := match thenUse with | some u => p ++ [u] | none => p
    "path=" ++ ">".intercalate (p.map (locStr f)) ++ " exec=" ++ findExec f p

/-! ### the judgement -/

def scalarTxt (s : Scalar) : String :=
  match s.ssa with
  | none => s!"{s.name}:{s.bits}"
  | some v => s!"{s.name}:{s.bits}.{v}"

def judge (f : Function) (rd ud du : Rel) : String :=
  match tables f with
  | none => "? internal: fuel exhausted"
  | some T =>
    match checkMust T rd with
    | some (l, d, x) => s!"missing-rd {locStr f l}<-{locStr f d} x={scalarTxt x} " ++ witness f d l x none
    | none =>
    match checkMay T f rd with
    | some (l, d) =>
      let x := match defOf f d with | some x => scalarTxt x | none => "?"
      s!"spurious-rd {locStr f l}<-{locStr f d} x={x}"
    | none =>
    match checkUseDef T f ud with
    | some (u, d) =>
      -- which scalar and which predecessor make `d` required (for the report only)
      let xs := (readBy f u).filter (fun x => (predsOf T f u).any (fun p => decide (d ∈ mustInclude T p x)))
      match xs.head? with
      | none => s!"missing-ud {locStr f u}<-{locStr f d}"
      | some x =>
        let p := ((predsOf T f u).find? (fun p => decide (d ∈ mustInclude T p x))).getD u
        let nreads := (readBy f u).eraseDups.length
        let self := if writes f u x then 1 else 0
        s!"missing-ud {locStr f u}<-{locStr f d} x={scalarTxt x} reads={nreads} self={self} " ++ witness f d p x (some u)
    | none =>
    match checkInverse ud du with
    | some (d, u) => s!"not-inverse {locStr f d} {locStr f u}"
    | none => "ok"

def handle (line : String) : String :=
  let out (v : String) := v ++ "\tok"
  match line.splitOn "\t" with
  | [req, ans] =>
    -- `(mut <kind> <k>) (fn …)`: a self-test request; falcon's answer was mutated by the harness, the function is last
    let fnSx : Option Sx := match Sx.parseAll req with
      | some [x] => some x
      | some [.list [.atom "mut", _, _], x] => some x
      | _ => none
    match fnSx with
    | some x =>
      match Fil.function? x with
      | none => out "? unreadable function"
      | some f =>
        if !wellFormed f then out "? ill-formed function"
        else
          match ans.splitOn " | " with
          | [a, b, c] =>
            let hasEntry := !(entryLoc f).isEmpty
            match part? f "rd" a, part? f "ud" b, part? f "du" c with
            | .rel rd, .rel ud, .rel du =>
              if hasEntry then out (judge f rd ud du)
              else out "error-expected: no entry, yet falcon answered"
            | .unreadable, _, _ | _, .unreadable, _ | _, _, .unreadable => out "? unreadable answer"
            | .failed w, _, _ => if hasEntry then out s!"error rd {w}" else out "ok"
            | _, .failed w, _ => if hasEntry then out s!"error ud {w}" else out "ok"
            | _, _, .failed w => if hasEntry then out s!"error du {w}" else out "ok"
          | _ => out "? unreadable answer"
    | _ => out "? unreadable request"
  | _ => out "? expected <request> TAB <falcon answer>"

def main : IO Unit := driverLoop handle
