/-
  Drivers.C03 — input line: `ins <arch> <hexbytes> <0xaddr> | <state>` TAB `<falcon's answer>`
  where falcon's answer is `<BlockTranslationResult in FIL> | <post line of falcon's executor>` or `err:…`/`panic@…`.

  Output: `<model>\t<spec>`
    model = post line of the Lean IL semantics (`runBTR`) on the dumped IL from the same state; prefixed
            with `MIRROR-SAME ` / `MIRROR-DIFF ` when the word belongs to a class with a Lean mirror of the
            lifter (`A64Lift.lift`) and falcon's dumped IL is / is not syntactically the mirror's IL;
            `rejected` when falcon returned no IL;
    spec  = post line of the A64 interpreter (`A64.step`) on the raw word from the same state, or
            `unallocated` | `unpredictable:<why>` | `fault:<why>`.
  When the mirror exists and differs from falcon's IL, four more fields follow:
    `MIRROR-BTR \t <the mirror's BTR in FIL> \t <runBTR of the mirror> \t <runBTR of falcon's IL>` — the input of the semantic
    comparison tools/il_equiv.py and of its per-run self-test (props/smt_tie.py, design/06_smt_tie.md).
  Both post lines list the registers of the request's state, in that order, and the bytes of its memory windows.
-/
import FalconModel.DriverLoop
import FalconModel.Lift
import FalconModel.Isa.A64
import FalconModel.Isa.A64Lift
import FalconModel.FilBTR
open Falcon

def splitOnce (s sep : String) : Option (String × String) :=
  match s.splitOn sep with
  | a :: b :: rest => some (a, sep.intercalate (b :: rest))
  | _ => none

def regVal (m : MachState) (name : String) : Nat :=
  match m.regs.lookup name with
  | some c => c.val
  | none => 0

def specState (m : MachState) (addr : Nat) : A64.St :=
  let xs : Array (BitVec 64) := (Array.range 32).map fun i => BitVec.ofNat 64 (regVal m ("x" ++ toString i))
  let qs : Array (BitVec 128) := (Array.range 32).map fun i => BitVec.ofNat 128 (regVal m ("v" ++ toString i))
  { x := fun i => xs.getD i 0
    sp := BitVec.ofNat 64 (regVal m "sp")
    n := regVal m "n" = 1
    z := regVal m "z" = 1
    c := regVal m "c" = 1
    v := regVal m "v" = 1
    q := fun i => qs.getD i 0
    mem := m.toState.mem
    big := m.endian == .big
    pc := BitVec.ofNat 64 addr }

def flag (b : Bool) : String := if b then "0x1:1" else "0x0:1"

def specReg (s : A64.St) (name : String) : String :=
  if name = "sp" then Fil.hex s.sp.toNat ++ ":64"
  else if name = "n" then flag s.n
  else if name = "z" then flag s.z
  else if name = "c" then flag s.c
  else if name = "v" then flag s.v
  else
    match name.toList with
    | 'x' :: ds => match (String.ofList ds).toNat? with
      | some i => Fil.hex (s.x i).toNat ++ ":64"
      | none => "-"
    | 'v' :: ds => match (String.ofList ds).toNat? with
      | some i => Fil.hex (s.q i).toNat ++ ":128"
      | none => "-"
    | _ => "-"

def specLine (o : A64.Outcome) (watch : List String) (windows : List (Nat × Nat)) : String :=
  match o with
  | .unallocated => "unallocated"
  | .unpredictable why => "unpredictable:" ++ why
  | .fault why => "fault:" ++ why
  | .ok s =>
    let regs := watch.map fun n => n ++ "=" ++ specReg s n
    let mem := windows.map fun (a, len) =>
      Fil.hex a ++ ":" ++ MachState.bytesHex ((List.range len).map fun i => (s.mem (a + i)).getD 0)
    "next=" ++ Fil.hex s.pc.toNat ++ " ; " ++ ",".intercalate regs ++ " ; " ++ ",".intercalate mem

def wordOf (bs : List UInt8) : Option (BitVec 32) :=
  match bs with
  | [a, b, c, d] => some (BitVec.ofNat 32 (a.toNat + 256 * b.toNat + 65536 * c.toNat + 16777216 * d.toNat))
  | _ => none

def handle (line : String) : String :=
  match line.splitOn "\t" with
  | [req, ans] =>
    match splitOnce req " | " with
    | none => "bad-request\t-"
    | some (head, st) =>
      match head.splitOn " ", MachState.parse st with
      | ["ins", _arch, hexs, addr], some m =>
        match MachState.hexPairs hexs.toList, Sx.parseNat addr with
        | some bytes, some addr =>
          match wordOf bytes with
          | none => "bad-request\t-"
          | some w =>
            let watch := m.regs.map (·.1)
            let windows := m.mem.map fun (a, bs) => (a, bs.length)
            let spec := specLine (A64.step w (specState m addr)) watch windows
            if ans.startsWith "(btr" then
              match splitOnce ans " | " with
              | none => "unparsable\t" ++ spec
              | some (btrText, _) =>
                match Sx.parseAll btrText with
                | some [x] =>
                  match Fil.btr? x with
                  | some r =>
                    let model := postLine (runBTR r m.toState) watch windows
                    let (mirror, more) : String × String := match A64Lift.lift w addr with
                      | some r' =>
                        if A64Lift.btrEq r' r then ("MIRROR-SAME ", "")
                        else ("MIRROR-DIFF ", "\tMIRROR-BTR\t" ++ Fil.btrStr r' ++ "\t"
                                ++ postLine (runBTR r' m.toState) watch windows ++ "\t" ++ model)
                      | none => if A64Lift.covered w then ("MIRROR-DIFF ", "") else ("", "")
                    mirror ++ model ++ "\t" ++ spec ++ more
                  | none => "unparsable\t" ++ spec
                | _ => "unparsable\t" ++ spec
            else if (A64Lift.lift w addr).isSome then "MIRROR-DIFF rejected\t" ++ spec
            else "rejected\t" ++ spec
        | _, _ => "bad-request\t-"
      | _, _ => "bad-request\t-"
  | _ => "bad-request\t-"

def main : IO Unit := driverLoop handle
