/-
  Drivers.C18 — line-protocol driver for property C18 (program locations).
  Request (one per line)            answer:  <model>\t<spec>
    nav <fn>        from=<from_function> ; <loc> f=<forward> b=<backward> ; …   (one entry per `locations()` element)
                    spec: the same text computed from the declarative successor relation `succB`
    locs <fn>       `locations()` in order                | spec: instructions, empty blocks, edges (any order)
    reach <fn>      closure of `forward` from `from_function`, sorted
                    spec: the locations anchored at blocks on CFG paths from the entry block, sorted
    rtf <fn>        <loc> -> FunctionLocation::from(loc).apply(fn) ; …          | spec: <loc> -> <loc>
    rt <prog>       <ploc> -> apply on the program, apply on its clone ; …      | spec: <ploc> -> <ploc> <ploc>
    addr <prog> a…  from_address per address, ` ; `-separated                   | spec: some|none per address
    apply <prog> <fi|-> (i b k | e h t | b k)    ProgramLocation::apply          | -
    mig <prog> <prog>   migrate of every location of the first program into the second | -
  Locations print as  I<block>:<instr index>:<address|->   E<head>-<tail>   B<block>,
  program locations as F<function index|->/<loc>.  spec `?` = outside the property's domain (ill-formed function).
-/
import FalconModel.DriverLoop
import FalconModel.FilIL
import FalconModel.Location

open Falcon

def locStr : FLoc → String
  | .instr b i => s!"I{b.index}:{i.index}:{Fil.optHexStr i.addr}"
  | .edge e => s!"E{e.head}-{e.tail}"
  | .empty b => s!"B{b.index}"

def plocStr (l : PLoc) : String := s!"F{Fil.optNatStr l.fn.index}/{locStr l.loc}"

def listStr (xs : List String) : String := "[" ++ ",".intercalate xs ++ "]"

def resStr {α : Type} (f : α → String) : Res α → String
  | .ok a => f a
  | .err e => toString e
  | .panic => "panic"

def locsRes (r : Res (List FLoc)) : String := resStr (fun ls => listStr (ls.map locStr)) r

def locKey : FLoc → Nat × Nat × Nat × Nat
  | .instr b i => (0, b.index, i.index, match i.addr with | none => 0 | some a => a + 1)
  | .edge e => (1, e.head, e.tail, 0)
  | .empty b => (2, b.index, 0, 0)

def keyLe (a b : Nat × Nat × Nat × Nat) : Bool :=
  let (a0, a1, a2, a3) := a
  let (b0, b1, b2, b3) := b
  if a0 != b0 then a0 < b0 else if a1 != b1 then a1 < b1 else if a2 != b2 then a2 < b2 else a3 ≤ b3

def sortLocs (ls : List FLoc) : List FLoc := ls.mergeSort (fun a b => keyLe (locKey a) (locKey b))

def fromFnStr (f : Function) : String :=
  match PLoc.fromFunction f with
  | none => "none"
  | some r => resStr (fun l => locStr l.loc) r

/-- declarative `from_function`: the first location of the entry block -/
def specFromFn (f : Function) : String :=
  match f.cfg.entry with
  | none => "none"
  | some en =>
    match f.cfg.blocks.filter (·.index == en) with
    | [b] => locStr b.firstLoc
    | _ => "?"

def navModel (f : Function) : String :=
  let entries := f.locations.map fun l =>
    s!"{locStr l} f={locsRes (l.forward f)} b={locsRes (l.backward f)}"
  " ; ".intercalate (s!"from={fromFnStr f}" :: entries)

def navSpec (f : Function) : String :=
  let ls := f.locations
  let entries := ls.map fun l =>
    s!"{locStr l} f={listStr ((ls.filter (succB l ·)).map locStr)} b={listStr ((ls.filter (succB · l)).map locStr)}"
  " ; ".intercalate (s!"from={specFromFn f}" :: entries)

def specLocs (f : Function) : List FLoc :=
  f.cfg.edges.map FLoc.edge
    ++ (f.cfg.blocks.filter (·.instrs.isEmpty)).map FLoc.empty
    ++ f.cfg.blocks.flatMap (fun b => b.instrs.map (FLoc.instr b))

def reachModel (f : Function) : String :=
  match PLoc.fromFunction f with
  | none => "none"
  | some (.ok l0) =>
    match closure (FLoc.stepF f) f.locFuel [l0.loc] [] with
    | some out => " ".intercalate ((sortLocs out).map locStr)
    | none => "fuel"
  | some r => resStr (fun _ => "") r

def reachSpec (f : Function) : String :=
  match f.cfg.entry with
  | none => "none"
  | some en =>
    let fuel := (f.cfg.blocks.length + 1) * (f.cfg.edges.length + 2) + 1
    match closure (fun b => f.cfg.successorIndices b) fuel [en] [] with
    | some bs => " ".intercalate ((sortLocs (f.locations.filter (fun l => bs.contains l.anchor))).map locStr)
    | none => "fuel"

def rtfModel (f : Function) : String :=
  " ; ".intercalate (f.locations.map fun l =>
    s!"{locStr l} -> {resStr (fun r => locStr r ++ (if r = l then "" else "!")) (l.toOwned.apply f)}")

def rtfSpec (f : Function) : String :=
  " ; ".intercalate (f.locations.map fun l => s!"{locStr l} -> {locStr l}")

def progLocs (p : Program) : List PLoc := p.functions.flatMap fun f => f.locations.map (PLoc.mk f)

def rtModel (p : Program) : String :=
  " ; ".intercalate ((progLocs p).map fun l =>
    let r := resStr (fun r => plocStr r ++ (if r = l then "" else "!")) (l.toOwned.apply p)
    s!"{plocStr l} -> {r} {r}")

def rtSpec (p : Program) : String :=
  " ; ".intercalate ((progLocs p).map fun l => s!"{plocStr l} -> {plocStr l} {plocStr l}")

def hasAddr (p : Program) (a : Nat) : Bool :=
  p.functions.any fun f => f.cfg.blocks.any fun b => b.instrs.any fun i => i.addr == some a

def nats? : List Sx → Option (List Nat)
  | [] => some []
  | x :: xs => do pure ((← x.nat?) :: (← nats? xs))

def oloc? : List Sx → Option OFLoc
  | [.atom "i", b, k] => do pure (.instr (← b.nat?) (← k.nat?))
  | [.atom "e", h, t] => do pure (.edge (← h.nat?) (← t.nat?))
  | [.atom "b", b] => do pure (.empty (← b.nat?))
  | _ => none

def handle (line : String) : String :=
  let bad := "bad-request\t-"
  match Sx.parseAll line with
  | some [.atom "nav", x] =>
    match Fil.function? x with
    | some f => navModel f ++ "\t" ++ (if wffB f then navSpec f else "?")
    | none => bad
  | some [.atom "locs", x] =>
    match Fil.function? x with
    | some f => " ".intercalate (f.locations.map locStr) ++ "\t"
        ++ (if wffB f then " ".intercalate ((specLocs f).map locStr) else "?")
    | none => bad
  | some [.atom "reach", x] =>
    match Fil.function? x with
    | some f => reachModel f ++ "\t" ++ (if wffB f then reachSpec f else "?")
    | none => bad
  | some [.atom "rtf", x] =>
    match Fil.function? x with
    | some f => rtfModel f ++ "\t" ++ (if wffB f then rtfSpec f else "?")
    | none => bad
  | some [.atom "rt", x] =>
    match Fil.program? x with
    | some p => rtModel p ++ "\t" ++ (if wfpB p && p.functions.all wffB then rtSpec p else "?")
    | none => bad
  | some (.atom "addr" :: x :: as) =>
    match Fil.program? x, nats? as with
    | some p, some as =>
      let m := as.map fun a => match PLoc.fromAddress p a with | none => "none" | some l => plocStr l
      let s := as.map fun a => if hasAddr p a then "some" else "none"
      " ; ".intercalate m ++ "\t" ++ " ; ".intercalate s
    | _, _ => bad
  | some (.atom "apply" :: x :: fi :: rest) =>
    match Fil.program? x, Fil.optNat? fi, oloc? rest with
    | some p, some fi, some o => resStr plocStr ((OPLoc.mk fi o).apply p) ++ "\t-"
    | _, _, _ => bad
  | some [.atom "mig", x, y] =>
    match Fil.program? x, Fil.program? y with
    | some p, some q =>
      " ; ".intercalate ((progLocs p).map fun l => s!"{plocStr l} -> {resStr plocStr (l.migrate q)}") ++ "\t-"
    | _, _ => bad
  | _ => bad

def main : IO Unit := driverLoop handle
