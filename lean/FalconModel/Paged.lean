/-
  FalconModel.Paged — mirror of `lib/memory/paged.rs` for `V = il::Constant` (through the `Value`
  instance of `lib/memory/value.rs`), the part of `lib/memory/backing.rs` it reads (`get8`,
  `permissions`), and the *specification* property C08 states: a byte array `Nat → Option UInt8`
  with endian `read` / `write`.

  Representation.  `pages : HashMap<u64, RC<Page>>` with `Page { cells : Vec<Option<MemoryCell>> (1024),
  permissions : Option<MemoryPermissions> }` is kept as two association lists:
    * `pages : AList (Option Nat)`   page address ↦ the page's permissions (presence = the page exists)
    * `cells : AList Cell`           full address ↦ the cell (`pages[a & MASK].cells[a & 1023]`)
  with `storeCell` creating the page when it is missing, exactly where `store_cell` does.  Copy-on-write
  (`RC::make_mut`) is not modelled: a clone is the same persistent value (DESIGN §3); sharing bugs are
  reachable only through the correspondence check.

  `u64` / `usize` arithmetic that the harness build checks (overflow-checks = on) is explicit:
  `cadd`, `csub`, `cmul` return `Res.panic` where the Rust code would.
-/
import FalconModel.Expr

namespace Falcon
namespace Paged

/-! ### association lists keyed by addresses -/

abbrev AList (β : Type) := List (Nat × β)

namespace AList

def get {β : Type} : AList β → Nat → Option β
  | [], _ => none
  | (k', v) :: t, k => if k' = k then some v else get t k

/-- replace the binding in place, or append it -/
def set {β : Type} : AList β → Nat → β → AList β
  | [], k, v => [(k, v)]
  | (k', v') :: t, k, v => if k' = k then (k, v) :: t else (k', v') :: set t k v

def keys {β : Type} (l : AList β) : List Nat := l.map (·.1)

end AList

/-! ### the constants of the source -/

def PAGE_SIZE : Nat := 1024
/-- `address & PAGE_MASK` -/
def pageOf (a : Nat) : Nat := a - a % PAGE_SIZE
/-- `2^64`: the first value a `u64`/`usize` cannot hold -/
def U64 : Nat := 2 ^ 64

/-- checked `u64`/`usize` arithmetic (the harness builds falcon with overflow checks) -/
def cadd (x y : Nat) : Res Nat := if x + y < U64 then .ok (x + y) else .panic
def csub (x y : Nat) : Res Nat := if y ≤ x then .ok (x - y) else .panic
def cmul (x y : Nat) : Res Nat := if x * y < U64 then .ok (x * y) else .panic

inductive Endian where
  | little | big
  deriving DecidableEq, Repr, Inhabited

/-! ### `impl Value for il::Constant` (lib/memory/value.rs): every operation builds an
    `il::Expression` through the sort-checking constructor and evaluates it -/

/-- `Value::shl(bits)`: `eval(Expression::shl(self, expr_const(bits as u64, self.bits())))` -/
def vshl (c : Const) (n : Nat) : Res Const :=
  Expr.mkBin .shl (.const c) (Expr.ec n c.bits) >>= Expr.eval
def vshr (c : Const) (n : Nat) : Res Const :=
  Expr.mkBin .shr (.const c) (Expr.ec n c.bits) >>= Expr.eval
def vtrun (c : Const) (n : Nat) : Res Const :=
  Expr.mkExt .trun n (.const c) >>= Expr.eval
def vzext (c : Const) (n : Nat) : Res Const :=
  Expr.mkExt .zext n (.const c) >>= Expr.eval
def vor (a b : Const) : Res Const :=
  Expr.mkBin .or (.const a) (.const b) >>= Expr.eval

/-! ### backing memory, as far as paged.rs reads it -/

structure Section where
  addr : Nat
  data : List UInt8
  perm : Nat
  deriving DecidableEq, Repr, Inhabited

/-- `backing::Memory`: `sections : BTreeMap<u64, Section>`, here the list of its entries -/
structure Backing where
  endian : Endian
  sections : List Section
  deriving DecidableEq, Repr, Inhabited

namespace Backing

/-- `section_address`: the entry with the greatest key `≤ address`
    (`range(0..=address).next_back()`), accepted if it contains the address -/
def sectionAt (b : Backing) (a : Nat) : Option Section :=
  let best := b.sections.foldl (fun (best : Option Section) s =>
    if s.addr ≤ a then
      match best with
      | some t => if t.addr ≤ s.addr then some s else best
      | none => some s
    else best) none
  match best with
  | some s => if s.addr ≤ a ∧ a < s.addr + s.data.length then some s else none
  | none => none

/-- `backing::Memory::get8` -/
def get8 (b : Backing) (a : Nat) : Option UInt8 :=
  match b.sectionAt a with
  | some s => s.data[a - s.addr]?
  | none => none

/-- `backing::Memory::permissions` -/
def permissions (b : Backing) (a : Nat) : Option Nat := (b.sectionAt a).map (·.perm)

end Backing

/-! ### the paged memory -/

inductive Cell where
  | value (v : Const)
  | backref (a : Nat)
  deriving DecidableEq, Repr, Inhabited

structure Mem where
  endian : Endian
  backing : Option Backing
  pages : AList (Option Nat)
  cells : AList Cell
  deriving Repr, Inhabited

/-- `Memory::new` -/
def new (e : Endian) : Mem := ⟨e, none, [], []⟩
/-- `Memory::new_with_backing` -/
def newWithBacking (e : Endian) (b : Backing) : Mem := ⟨e, some b, [], []⟩

/-- `load_cell` -/
def loadCell (m : Mem) (a : Nat) : Option Cell := AList.get m.cells a

/-- `store_cell`: writes the cell, creating the page (without permissions) if it does not exist -/
def storeCell (m : Mem) (a : Nat) (c : Cell) : Mem :=
  { m with
    cells := AList.set m.cells a c
    pages := match AList.get m.pages (pageOf a) with
      | some _ => m.pages
      | none => AList.set m.pages (pageOf a) none }

/-- the bytes of the backing, `none` without backing -/
def backingGet8 (m : Mem) (a : Nat) : Option UInt8 :=
  match m.backing with
  | some b => b.get8 a
  | none => none

/-- `load_backing`: `V::constant(il::const_(v as u64, 8))` -/
def loadBacking (m : Mem) (a : Nat) : Option Const :=
  (backingGet8 m a).map (fun x => Const.new x.toNat 8)

/-- the loop `for i in 1..bytes { store_cell(address + i, Backref(address)) }`, `i` counting up from
    `bytes - k` -/
def storeBackrefs (m : Mem) (a : Nat) : Nat → Nat → Mem
  | _, 0 => m
  | i, k + 1 => storeBackrefs (storeCell m (a + i) (.backref a)) a (i + 1) k

/-- `store_no_backref`.  (`address + i` cannot overflow where `store` calls it: every end address has
    been formed by a checked addition before.) -/
def storeNoBackref (m : Mem) (a : Nat) (v : Const) : Mem :=
  storeBackrefs (storeCell m a (.value v)) a 1 (v.bits / 8 - 1)

/-- the first half of `Memory::load`: the computation of `load_value`;
    `.ok none` is the early `return Ok(None)` -/
def loadFirst (m : Mem) (a bits : Nat) : Res (Option Const) :=
  match loadCell m a with
  | some (.value v) =>
    if v.bits ≤ bits then .ok (some v)
    else
      match m.endian with
      | .little => do let r ← vtrun v bits; pure (some r)
      | .big => do
          let sh ← csub v.bits bits
          let s ← vshr v sh
          let r ← vtrun s bits
          pure (some r)
  | some (.backref b) =>
    match loadCell m b with
    | none => .err .other                    -- "Backref cell pointed to null cell"
    | some (.backref _) => .err .other       -- "Backref cell pointed to cell without value"
    | some (.value v) => do
      let d ← csub a b
      let off ← cmul d 8
      let v' ← match m.endian with
        | .little => do
            let trunBits ← csub v.bits off
            let s ← vshr v off
            vtrun s trunBits
        | .big => do
            let sum ← cadd bits off
            let shift ← if sum ≥ v.bits then pure 0 else do
              let x ← csub v.bits bits
              csub x off
            let x ← csub v.bits off
            let trunBits ← csub x shift
            let s ← vshr v shift
            vtrun s trunBits
      if v'.bits > bits then do let r ← vtrun v' bits; pure (some r)
      else pure (some v')
  | none => .ok (loadBacking m a)

/-- the recursive call `self.load(address + offset, 8)` of the byte loop.  When the first half does not
    produce exactly 8 bits the Rust code calls itself with the same arguments for ever (stack
    exhaustion); the model says `panic`.  Theorem `C08.load_spec` shows this cannot happen in a state
    reachable from `new`. -/
def load8 (m : Mem) (a : Nat) : Res (Option Const) := do
  match ← loadFirst m a 8 with
  | none => pure none
  | some lv => if lv.bits = 8 then pure (some lv) else .panic

/-- `let shift = match self.endian { Big => (bytes - offset - 1) * 8, Little => offset * 8 }` -/
def shiftOf (e : Endian) (bytes off : Nat) : Nat :=
  match e with
  | .big => (bytes - off - 1) * 8
  | .little => off * 8

/-- the byte loop `for offset in 0..bytes`, `k` iterations left, `off = bytes - k` -/
def byteLoop (m : Mem) (a bits bytes : Nat) : Nat → Nat → Option Const → Res (Option Const)
  | 0, _, result => .ok result
  | k + 1, off, result => do
      let addr ← cadd a off
      let l ← load8 m addr
      let l := match l with
        | some v => some v
        | none => loadBacking m addr
      match l with
      | none => .ok none
      | some v => do
        let z ← vzext v bits
        let s ← vshl z (shiftOf m.endian bytes off)
        let r ← match result with
          | some r => vor r s
          | none => pure s
        byteLoop m a bits bytes k (off + 1) (some r)

/-- `Memory::load` -/
def load (m : Mem) (a bits : Nat) : Res (Option Const) :=
  if bits % 8 ≠ 0 then .err .other
  else if bits = 0 then .err .other
  else do
    match ← loadFirst m a bits with
    | none => pure none
    | some lv =>
      if lv.bits = bits then pure (some lv)
      else byteLoop m a bits (bits / 8) (bits / 8) 0 none

/-- phase 1 of `store`: the value to re-home after the write and its address (`None` if the cell after
    the write is not a back-reference) -/
def storeTail (m : Mem) (aaw : Nat) : Res (Option (Nat × Const)) :=
  match loadCell m aaw with
  | some (.backref b) =>
    match loadCell m b with
    | none => .err .other
    | some (.backref _) => .err .other
    | some (.value bv) => do
      let d ← csub aaw b
      let used ← cmul d 8
      let left ← csub bv.bits used
      match ← load m aaw left with
      | some t => pure (some (aaw, t))
      | none => pure none
  | _ => .ok none

/-- phase 2 of `store`: the shortened value before the write and where it lives -/
def storeHead (m : Mem) (a : Nat) : Res (Option (Nat × Const)) :=
  match loadCell m a with
  | some (.backref b) => do
      let d ← csub a b
      let left ← cmul d 8
      match ← load m b left with
      | some h => pure (some (b, h))
      | none => .panic                        -- `value_to_write.1.unwrap()`
  | _ => .ok none

/-- phase 1 guarded by `address_after_write = last_address.checked_add(1)`: nothing to re-home when the
    write ends at the top of the address space -/
def storeTailOpt (m : Mem) (aaw : Nat) : Res (Option (Nat × Const)) :=
  if aaw ≥ U64 then pure none else storeTail m aaw

/-- `if let Some((address, value)) = value_to_write { self.store_no_backref(address, value) }` -/
def rehome (m : Mem) (w : Option (Nat × Const)) : Mem :=
  match w with
  | some (a, v) => storeNoBackref m a v
  | none => m

/-- `Memory::store`.  `last_address = address.checked_add(bytes - 1)` must exist; the address after
    the write does not exist when the write ends at the top of the address space, and then phase 1 is
    skipped. -/
def store (m : Mem) (a : Nat) (v : Const) : Res Mem :=
  if v.bits % 8 ≠ 0 ∨ v.bits = 0 then .err .other
  else if a + (v.bits / 8 - 1) ≥ U64 then .err .other
  else do
    let aaw := a + v.bits / 8
    let tail ← storeTailOpt m aaw
    let m1 := rehome m tail
    let head ← storeHead m1 a
    let m2 := rehome m1 head
    pure (storeNoBackref m2 a v)

/-- `Memory::permissions`: the page's own permissions, else the backing's -/
def permissions (m : Mem) (a : Nat) : Option Nat :=
  match AList.get m.pages (pageOf a) with
  | some (some p) => some p
  | _ =>
    match m.backing with
    | some b => b.permissions a
    | none => none

/-- the `while page_address < end` loop of `set_permissions`, with fuel;
    `page_address.checked_add(PAGE_SIZE)` ends the loop at the top of the address space -/
def setPermLoop (pages : AList (Option Nat)) (p : Nat) (limit : Nat) : Nat → Nat → AList (Option Nat)
  | _, 0 => pages
  | pa, fuel + 1 =>
    if pa < limit then
      let pages := AList.set pages pa (some p)
      if pa + PAGE_SIZE < U64 then setPermLoop pages p limit (pa + PAGE_SIZE) fuel else pages
    else pages

/-- `Memory::set_permissions`: `end = address.saturating_add(len)` -/
def setPermissions (m : Mem) (a len p : Nat) : Mem :=
  let limit := if a + len < U64 then a + len else U64 - 1
  { m with pages := setPermLoop m.pages p limit (pageOf a) (len / PAGE_SIZE + 2) }

/-- equality of two association lists as finite maps -/
def alistEq {β : Type} [DecidableEq β] (x y : AList β) : Bool :=
  (AList.keys x ++ AList.keys y).all (fun k => decide (AList.get x k = AList.get y k))

/-- `impl PartialEq for Memory`: pages, endianness, then the backings -/
def eq (m₁ m₂ : Mem) : Bool :=
  if alistEq m₁.pages m₂.pages && alistEq m₁.cells m₂.cells && decide (m₁.endian = m₂.endian) then
    match m₁.backing, m₂.backing with
    | some b₁, some b₂ => decide (b₁ = b₂)     -- `RC::ptr_eq` or structural equality
    | none, none => true
    | _, _ => false
  else false

/-! ### the same memory for `V = il::Expression` (`impl Value for il::Expression`, lib/memory/value.rs)

  The operations build expression trees through the sort-checking constructors and never evaluate;
  `paged.rs` is generic in `V`, so every function below is the text of its `Constant` counterpart with
  the five `Value` operations replaced.  (Kept as a second copy rather than a type class so that the
  `Constant` model, which the C08 theorems unfold, stays first-order.) -/

/-- `Value::shl` for `il::Expression`: `Expression::shl(self, expr_const(bits as u64, self.bits()))` -/
def eshl (e : Expr) (n : Nat) : Res Expr := Expr.mkBin .shl e (Expr.ec n e.bits)
def eshr (e : Expr) (n : Nat) : Res Expr := Expr.mkBin .shr e (Expr.ec n e.bits)
def etrun (e : Expr) (n : Nat) : Res Expr := Expr.mkExt .trun n e
def ezext (e : Expr) (n : Nat) : Res Expr := Expr.mkExt .zext n e
def eor (a b : Expr) : Res Expr := Expr.mkBin .or a b

inductive CellE where
  | value (v : Expr)
  | backref (a : Nat)
  deriving DecidableEq, Repr, Inhabited

structure MemE where
  endian : Endian
  backing : Option Backing
  pages : AList (Option Nat)
  cells : AList CellE
  deriving Repr, Inhabited

def newE (e : Endian) : MemE := ⟨e, none, [], []⟩
def newWithBackingE (e : Endian) (b : Backing) : MemE := ⟨e, some b, [], []⟩

def loadCellE (m : MemE) (a : Nat) : Option CellE := AList.get m.cells a

def storeCellE (m : MemE) (a : Nat) (c : CellE) : MemE :=
  { m with
    cells := AList.set m.cells a c
    pages := match AList.get m.pages (pageOf a) with
      | some _ => m.pages
      | none => AList.set m.pages (pageOf a) none }

def backingGet8E (m : MemE) (a : Nat) : Option UInt8 :=
  match m.backing with
  | some b => b.get8 a
  | none => none

/-- `load_backing`: `V::constant(il::const_(v as u64, 8))` = `Expression::constant(..)` -/
def loadBackingE (m : MemE) (a : Nat) : Option Expr :=
  (backingGet8E m a).map (fun x => Expr.const (Const.new x.toNat 8))

def storeBackrefsE (m : MemE) (a : Nat) : Nat → Nat → MemE
  | _, 0 => m
  | i, k + 1 => storeBackrefsE (storeCellE m (a + i) (.backref a)) a (i + 1) k

def storeNoBackrefE (m : MemE) (a : Nat) (v : Expr) : MemE :=
  storeBackrefsE (storeCellE m a (.value v)) a 1 (v.bits / 8 - 1)

def loadFirstE (m : MemE) (a bits : Nat) : Res (Option Expr) :=
  match loadCellE m a with
  | some (.value v) =>
    if v.bits ≤ bits then .ok (some v)
    else
      match m.endian with
      | .little => do let r ← etrun v bits; pure (some r)
      | .big => do
          let sh ← csub v.bits bits
          let s ← eshr v sh
          let r ← etrun s bits
          pure (some r)
  | some (.backref b) =>
    match loadCellE m b with
    | none => .err .other
    | some (.backref _) => .err .other
    | some (.value v) => do
      let d ← csub a b
      let off ← cmul d 8
      let v' ← match m.endian with
        | .little => do
            let trunBits ← csub v.bits off
            let s ← eshr v off
            etrun s trunBits
        | .big => do
            let sum ← cadd bits off
            let shift ← if sum ≥ v.bits then pure 0 else do
              let x ← csub v.bits bits
              csub x off
            let x ← csub v.bits off
            let trunBits ← csub x shift
            let s ← eshr v shift
            etrun s trunBits
      if v'.bits > bits then do let r ← etrun v' bits; pure (some r)
      else pure (some v')
  | none => .ok (loadBackingE m a)

def load8E (m : MemE) (a : Nat) : Res (Option Expr) := do
  match ← loadFirstE m a 8 with
  | none => pure none
  | some lv => if lv.bits = 8 then pure (some lv) else .panic

def byteLoopE (m : MemE) (a bits bytes : Nat) : Nat → Nat → Option Expr → Res (Option Expr)
  | 0, _, result => .ok result
  | k + 1, off, result => do
      let addr ← cadd a off
      let l ← load8E m addr
      let l := match l with
        | some v => some v
        | none => loadBackingE m addr
      match l with
      | none => .ok none
      | some v => do
        let z ← ezext v bits
        let s ← eshl z (shiftOf m.endian bytes off)
        let r ← match result with
          | some r => eor r s
          | none => pure s
        byteLoopE m a bits bytes k (off + 1) (some r)

/-- `Memory::<il::Expression>::load` -/
def loadE (m : MemE) (a bits : Nat) : Res (Option Expr) :=
  if bits % 8 ≠ 0 then .err .other
  else if bits = 0 then .err .other
  else do
    match ← loadFirstE m a bits with
    | none => pure none
    | some lv =>
      if lv.bits = bits then pure (some lv)
      else byteLoopE m a bits (bits / 8) (bits / 8) 0 none

def storeTailE (m : MemE) (aaw : Nat) : Res (Option (Nat × Expr)) :=
  match loadCellE m aaw with
  | some (.backref b) =>
    match loadCellE m b with
    | none => .err .other
    | some (.backref _) => .err .other
    | some (.value bv) => do
      let d ← csub aaw b
      let used ← cmul d 8
      let left ← csub bv.bits used
      match ← loadE m aaw left with
      | some t => pure (some (aaw, t))
      | none => pure none
  | _ => .ok none

def storeHeadE (m : MemE) (a : Nat) : Res (Option (Nat × Expr)) :=
  match loadCellE m a with
  | some (.backref b) => do
      let d ← csub a b
      let left ← cmul d 8
      match ← loadE m b left with
      | some h => pure (some (b, h))
      | none => .panic
  | _ => .ok none

def storeTailOptE (m : MemE) (aaw : Nat) : Res (Option (Nat × Expr)) :=
  if aaw ≥ U64 then pure none else storeTailE m aaw

def rehomeE (m : MemE) (w : Option (Nat × Expr)) : MemE :=
  match w with
  | some (a, v) => storeNoBackrefE m a v
  | none => m

/-- `Memory::<il::Expression>::store` -/
def storeE (m : MemE) (a : Nat) (v : Expr) : Res MemE :=
  if v.bits % 8 ≠ 0 ∨ v.bits = 0 then .err .other
  else if a + (v.bits / 8 - 1) ≥ U64 then .err .other
  else do
    let aaw := a + v.bits / 8
    let tail ← storeTailOptE m aaw
    let m1 := rehomeE m tail
    let head ← storeHeadE m1 a
    let m2 := rehomeE m1 head
    pure (storeNoBackrefE m2 a v)

def permissionsE (m : MemE) (a : Nat) : Option Nat :=
  match AList.get m.pages (pageOf a) with
  | some (some p) => some p
  | _ =>
    match m.backing with
    | some b => b.permissions a
    | none => none

def setPermissionsE (m : MemE) (a len p : Nat) : MemE :=
  let limit := if a + len < U64 then a + len else U64 - 1
  { m with pages := setPermLoop m.pages p limit (pageOf a) (len / PAGE_SIZE + 2) }

/-- `impl PartialEq for Memory<il::Expression>`: cells are compared structurally (expression trees) -/
def eqE (m₁ m₂ : MemE) : Bool :=
  if alistEq m₁.pages m₂.pages && alistEq m₁.cells m₂.cells && decide (m₁.endian = m₂.endian) then
    match m₁.backing, m₂.backing with
    | some b₁, some b₂ => decide (b₁ = b₂)
    | none, none => true
    | _, _ => false
  else false

/-! ### the specification: a byte array -/

abbrev Bytes := Nat → Option UInt8

/-- the bytes of a value in memory order -/
def byteAt (e : Endian) (v : Const) (i : Nat) : UInt8 :=
  match e with
  | .little => UInt8.ofNat (v.val / 256 ^ i % 256)
  | .big => UInt8.ofNat (v.val / 256 ^ (v.bits / 8 - 1 - i) % 256)

def bytesOf (e : Endian) (v : Const) : List UInt8 :=
  (List.range (v.bits / 8)).map (byteAt e v)

/-- little-endian number of a byte list -/
def valLE : List UInt8 → Nat
  | [] => 0
  | b :: t => b.toNat + 256 * valLE t

def fromBytes (e : Endian) (bs : List UInt8) : Const :=
  match e with
  | .little => ⟨8 * bs.length, valLE bs⟩
  | .big => ⟨8 * bs.length, valLE bs.reverse⟩

def write (b : Bytes) (a : Nat) (bs : List UInt8) : Bytes :=
  fun x => if a ≤ x ∧ x < a + bs.length then bs[x - a]? else b x

/-- `n` bytes from `a`; `none` iff one of them is absent -/
def readBytes (b : Bytes) (a : Nat) : Nat → Option (List UInt8)
  | 0 => some []
  | n + 1 =>
    match b a, readBytes b (a + 1) n with
    | some x, some t => some (x :: t)
    | _, _ => none

def read (b : Bytes) (a n : Nat) (e : Endian) : Option Const :=
  (readBytes b a n).map (fromBytes e)

end Paged
end Falcon
