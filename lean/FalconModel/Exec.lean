/-
  FalconModel.Exec — the meaning of IL operations on a concrete state, and execution inside one function.

  * `State`, `symbolize`, `evalIn`, `execute` mirror `lib/executor/state.rs`
    (`symbolize_expression`, `symbolize_and_eval`, `State::execute`), with the memory replaced by its
    specification: a byte array `Nat → Option UInt8` read and written in the memory's endianness
    (that falcon's paged memory *is* such an array is property C08; the executor's stepping through
    program locations, on top of `execute`, is property C07).
  * `FStep` is the small-step relation *within one function* used by the verified checkers
    (C10, C12, C13, C14, C17): a configuration is (block, position in the block's instruction list, state);
    an instruction executes and falls through; at the end of a block control moves along an out-edge that
    is unconditional or whose guard evaluates to one.  `Operation::Branch` and intrinsics end a run.
-/
import FalconModel.IL
import FalconModel.ConstSpec

namespace Falcon

inductive Endian where
  | little | big
  deriving DecidableEq, Repr, Inhabited

abbrev ByteMem := Nat → Option UInt8

namespace ByteMem

def empty : ByteMem := fun _ => none

/-- write `bs` at addresses `a, a+1, …` -/
def write (m : ByteMem) (a : Nat) (bs : List UInt8) : ByteMem :=
  fun x => if a ≤ x ∧ x < a + bs.length then bs[x - a]? else m x

/-- the `k` bytes at `a, a+1, …`, `none` if any is unmapped -/
def readBytes (m : ByteMem) (a : Nat) : Nat → Option (List UInt8)
  | 0 => some []
  | k + 1 => do
      let b ← m a
      let rest ← readBytes m (a + 1) k
      pure (b :: rest)

end ByteMem

/-- the `bits/8` bytes of a value in memory order -/
def bytesOfLE (v : Nat) : Nat → List UInt8
  | 0 => []
  | k + 1 => UInt8.ofNat (v % 256) :: bytesOfLE (v / 256) k

def bytesOf (e : Endian) (c : Const) : List UInt8 :=
  let le := bytesOfLE c.val (c.bits / 8)
  match e with
  | .little => le
  | .big => le.reverse

def natOfLE : List UInt8 → Nat
  | [] => 0
  | b :: bs => b.toNat + 256 * natOfLE bs

def constOfBytes (e : Endian) (bs : List UInt8) : Const :=
  match e with
  | .little => ⟨8 * bs.length, natOfLE bs⟩
  | .big => ⟨8 * bs.length, natOfLE bs.reverse⟩

structure State where
  /-- `BTreeMap<String, Constant>`: keyed by NAME only (not width, not SSA version) -/
  scalars : List (String × Const) := []
  mem : ByteMem := ByteMem.empty
  endian : Endian := .little

namespace State

def get (σ : State) (name : String) : Option Const := σ.scalars.lookup name

def set (σ : State) (name : String) (v : Const) : State :=
  { σ with scalars := (name, v) :: σ.scalars.filter (fun p => p.1 != name) }

/-- `State::symbolize_expression`: substitute by name, rebuilding through the smart constructors -/
def symbolize (σ : State) : Expr → Res Expr
  | .scalar s => match σ.get s.name with
      | some c => .ok (.const c)
      | none => .ok (.scalar s)
  | .const c => .ok (.const c)
  | .bin op l r => do
      let l' ← symbolize σ l
      let r' ← symbolize σ r
      Expr.mkBin op l' r'
  | .ext op b e => do
      let e' ← symbolize σ e
      Expr.mkExt op b e'
  | .ite c t e => do
      let c' ← symbolize σ c
      let t' ← symbolize σ t
      let e' ← symbolize σ e
      Expr.mkIte c' t' e'

/-- `State::symbolize_and_eval` -/
def evalIn (σ : State) (e : Expr) : Res Const := do
  let e' ← σ.symbolize e
  e'.eval

end State

inductive Succ where
  | fallThrough
  | branch (addr : Nat)
  deriving DecidableEq, Repr, Inhabited

/-- `Constant::value_u64().ok_or(TooManyAddressBits)` -/
def addrOf (c : Const) : Res Nat := if c.val < 2 ^ 64 then .ok c.val else .err .addrbits

/-- `State::execute`.  Memory: `store` rejects widths that are not positive multiples of 8
    (`err:other`); `address + len` beyond `2^64` is the checked-arithmetic panic; a load with any byte
    unmapped is `ExecutorInvalidAddress` (`err:unmapped`). -/
def execute (σ : State) : Op → Res (State × Succ)
  | .assign dst src => do
      let v ← σ.evalIn src
      .ok (σ.set dst.name v, .fallThrough)
  | .store index src => do
      let v ← σ.evalIn src
      let i ← σ.evalIn index
      let a ← addrOf i
      if v.bits % 8 ≠ 0 ∨ v.bits = 0 then .err .other
      else if a + v.bits / 8 > 2 ^ 64 then .panic
      else .ok ({ σ with mem := σ.mem.write a (bytesOf σ.endian v) }, .fallThrough)
  | .load dst index => do
      let i ← σ.evalIn index
      let a ← addrOf i
      if dst.bits % 8 ≠ 0 ∨ dst.bits = 0 then .err .other
      else if a + dst.bits / 8 > 2 ^ 64 then .panic
      else match σ.mem.readBytes a (dst.bits / 8) with
        | some bs => .ok (σ.set dst.name (constOfBytes σ.endian bs), .fallThrough)
        | none => .err .unmapped
  | .branch target => do
      let t ← σ.evalIn target
      let a ← addrOf t
      .ok (σ, .branch a)
  | .intrinsic _ => .err .intrinsic
  | .nop => .ok (σ, .fallThrough)

/-- a guard is enabled: unconditional, or it evaluates to a constant that `is_one` -/
def guardHolds (σ : State) : Option Expr → Prop
  | none => True
  | some g => ∃ c, σ.evalIn g = .ok c ∧ c.val = 1

instance (σ : State) (g : Option Expr) : Decidable (guardHolds σ g) :=
  match g with
  | none => isTrue trivial
  | some g =>
    match h : σ.evalIn g with
    | .ok c => if hv : c.val = 1 then isTrue ⟨c, h, hv⟩
               else isFalse (fun ⟨c', h', hv'⟩ => by rw [h] at h'; cases h'; exact hv hv')
    | .err _ => isFalse (fun ⟨c', h', _⟩ => by rw [h] at h'; cases h')
    | .panic => isFalse (fun ⟨c', h', _⟩ => by rw [h] at h'; cases h')

/-- a configuration inside a function: block index, position in the block's instruction list, state -/
structure Config where
  block : Nat
  pos : Nat
  state : State

/-- one step inside function `f` -/
inductive FStep (f : Function) : Config → Config → Prop where
  /-- an instruction executes and falls through to the next position of its block -/
  | instr {b : Block} {i : Instr} {c : Config} {σ' : State} :
      f.block c.block = some b → b.instrs[c.pos]? = some i →
      execute c.state i.op = .ok (σ', .fallThrough) →
      FStep f c ⟨c.block, c.pos + 1, σ'⟩
  /-- at the end of a block control follows an enabled out-edge -/
  | edge {b : Block} {e : Edge} {c : Config} :
      f.block c.block = some b → c.pos = b.instrs.length →
      e ∈ f.cfg.edgesOut c.block → guardHolds c.state e.cond →
      FStep f c ⟨e.tail, 0, c.state⟩

/-- finite runs -/
inductive FRun (f : Function) : Config → Config → Prop where
  | refl (c : Config) : FRun f c c
  | step {a b c : Config} : FRun f a b → FStep f b c → FRun f a c

/-- the initial configuration of a run from the function's entry -/
def Function.initial (f : Function) (σ : State) : Option Config :=
  f.cfg.entry.map (fun e => ⟨e, 0, σ⟩)

/-- executable single-successor version used by drivers: the enabled out-edges in `edges_out` order -/
def enabledEdges (f : Function) (c : Config) : List Edge :=
  (f.cfg.edgesOut c.block).filter (fun e => decide (guardHolds c.state e.cond))

/-- executable step (first enabled edge), `none` = the run ends here (error, branch, no successor) -/
def fstep (f : Function) (c : Config) : Option Config :=
  match f.block c.block with
  | none => none
  | some b =>
    match b.instrs[c.pos]? with
    | some i =>
      match execute c.state i.op with
      | .ok (σ', .fallThrough) => some ⟨c.block, c.pos + 1, σ'⟩
      | _ => none
    | none =>
      if c.pos = b.instrs.length then
        match enabledEdges f c with
        | e :: _ => some ⟨e.tail, 0, c.state⟩
        | [] => none
      else none

end Falcon
