/-
  FalconModel.Expr — mirror of `lib/il/expression.rs` and `lib/executor/eval.rs`.

  The 17 binary constructors of `il::Expression` are one constructor `bin` indexed by `BinOp`, the three
  width-changing ones are `ext` indexed by `ExtOp`; the behaviour mirrored is that of the Rust source
  (sort checks in the smart constructors, evaluation order and laziness of `eval`).
-/
import FalconModel.Const

namespace Falcon

structure Scalar where
  name : String
  bits : Nat
  ssa : Option Nat := none
  deriving DecidableEq, Repr, Inhabited

inductive BinOp where
  | add | sub | mul | divu | modu | divs | mods | and | or | xor | shl | shr | ashr
  | cmpeq | cmpneq | cmplts | cmpltu
  deriving DecidableEq, Repr, Inhabited

inductive ExtOp where
  | zext | sext | trun
  deriving DecidableEq, Repr, Inhabited

inductive Expr where
  | scalar (s : Scalar)
  | const (c : Const)
  | bin (op : BinOp) (l r : Expr)
  | ext (op : ExtOp) (bits : Nat) (e : Expr)
  | ite (c t e : Expr)
  deriving DecidableEq, Repr, Inhabited

def BinOp.isCmp : BinOp → Bool
  | .cmpeq | .cmpneq | .cmplts | .cmpltu => true
  | _ => false

def BinOp.apply : BinOp → Const → Const → Res Const
  | .add => Const.add | .sub => Const.sub | .mul => Const.mul
  | .divu => Const.divu | .modu => Const.modu | .divs => Const.divs | .mods => Const.mods
  | .and => Const.and | .or => Const.or | .xor => Const.xor
  | .shl => Const.shl | .shr => Const.shr | .ashr => Const.ashr
  | .cmpeq => Const.cmpeq | .cmpneq => Const.cmpneq | .cmplts => Const.cmplts | .cmpltu => Const.cmpltu

def ExtOp.apply : ExtOp → Const → Nat → Res Const
  | .zext => Const.zext | .sext => Const.sext | .trun => Const.trun

namespace Expr

/-- `Expression::bits`. -/
def bits : Expr → Nat
  | scalar s => s.bits
  | const c => c.bits
  | bin op l _ => if op.isCmp then 1 else l.bits
  | ext _ b _ => b
  | ite _ t _ => t.bits

/-- the smart constructors `Expression::add … cmpltu` (`ensure_sort`). -/
def mkBin (op : BinOp) (l r : Expr) : Res Expr :=
  if l.bits ≠ r.bits then .err .sort else .ok (bin op l r)

/-- `Expression::zext / sext / trun`. -/
def mkExt (op : ExtOp) (b : Nat) (e : Expr) : Res Expr :=
  match op with
  | .zext | .sext => if e.bits ≥ b ∨ e.bits = 0 then .err .sort else .ok (ext op b e)
  | .trun => if e.bits ≤ b ∨ e.bits = 0 then .err .sort else .ok (ext op b e)

/-- `Expression::ite`. -/
def mkIte (c t e : Expr) : Res Expr :=
  if c.bits ≠ 1 ∨ t.bits ≠ e.bits then .err .sort else .ok (ite c t e)

/-- `executor::eval` on an expression (a scalar leaf is `ExecutorScalar`). -/
def eval : Expr → Res Const
  | scalar _ => .err .scalar
  | const c => .ok c
  | bin op l r => do
      let a ← eval l
      let b ← eval r
      op.apply a b
  | ext op b e => do
      let a ← eval e
      op.apply a b
  | ite c t e => do
      let cv ← eval c
      if cv.isOne then eval t else eval e

/-- `Expression::all_constants`. -/
def allConstants : Expr → Bool
  | scalar _ => false
  | const _ => true
  | bin _ l r => l.allConstants && r.allConstants
  | ext _ _ e => e.allConstants
  | ite c t e => c.allConstants && t.allConstants && e.allConstants

/-- `Expression::scalars` (with repetitions, left to right). -/
def scalars : Expr → List Scalar
  | scalar s => [s]
  | const _ => []
  | bin _ l r => l.scalars ++ r.scalars
  | ext _ _ e => e.scalars
  | ite c t e => c.scalars ++ t.scalars ++ e.scalars

/-- `Expression::replace_scalar` (through `map_to_expression`, i.e. rebuilding with the smart
    constructors, hence re-checking sorts bottom-up). -/
def replaceScalar (x : Scalar) (by_ : Expr) : Expr → Res Expr
  | scalar s => if s = x then .ok by_ else .ok (scalar s)
  | const c => .ok (const c)
  | bin op l r => do
      let l' ← replaceScalar x by_ l
      let r' ← replaceScalar x by_ r
      mkBin op l' r'
  | ext op b e => do
      let e' ← replaceScalar x by_ e
      mkExt op b e'
  | ite c t e => do
      let c' ← replaceScalar x by_ c
      let t' ← replaceScalar x by_ t
      let e' ← replaceScalar x by_ e
      mkIte c' t' e'

/-- `il::expr_const(v, bits)` for a `u64` value. -/
def ec (v bits : Nat) : Expr := const (Const.new (v % 2 ^ 64) bits)

/-- `Expression::sra` (since the repair: the `AShr` expression itself). -/
def sra (lhs rhs : Expr) : Res Expr := mkBin .ashr lhs rhs

/-- `Expression::rotl`: the amount is reduced modulo the width first. -/
def rotl (e s : Expr) : Res Expr := do
  let s ← mkBin .modu s (ec e.bits e.bits)
  let a ← mkBin .shl e s
  let d ← mkBin .sub (ec e.bits e.bits) s
  let b ← mkBin .shr e d
  mkBin .or a b

end Expr
end Falcon
