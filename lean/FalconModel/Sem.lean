/-
  FalconModel.Sem — the SPECIFICATION of property C07: a small relational semantics of IL programs.

  * `value σ e`: the meaning of an expression in a state — an environment semantics over the bit-vector
    operators of C04 (`Spec.bin`, `Spec.ext`): a scalar means the constant stored under its name, an
    undefined scalar has no value (`err:scalar`), a zero divisor has no value (`err:div0`), `ite` evaluates
    only the branch it selects.
  * `OpSem σ op σ' s`: what one operation does — assignment of the value; store / load of `bits/8` bytes
    of the byte-array memory in the memory's endianness, inside the 64-bit address space; indirect branch
    to the value; `nop`.  An intrinsic has no meaning.
  * `Step P (l,σ) (l',σ')`: apply the operation at `l`, then move on — to the next instruction of the
    block, or along an out-edge whose guard has value one (an unconditional edge counts as one), or to
    the instruction carrying the branch target's address; an edge location moves to the first location
    of its tail block; an empty block moves along an enabled out-edge.
  * `succs`, `opSem`: executable forms (all `Step`-successors of a configuration), used by the driver
    for the specification column; `FalconProofs.C07` proves `x ∈ succs P d ↔ Step P d x`.
  * `whyStuck`: which of the error kinds named by the property apply to a configuration without successor.
-/
import FalconModel.Driver

namespace Falcon
namespace Sem
open Drv

/-- meaning of an expression in a state -/
def value (σ : State) : Expr → Res Const
  | .scalar s =>
    match σ.get s.name with
    | some c => .ok c
    | none => .err .scalar
  | .const c => .ok c
  | .bin op l r => do
      let a ← value σ l
      let b ← value σ r
      Spec.bin op a b
  | .ext op m e => do
      let a ← value σ e
      Spec.ext op a m
  | .ite c t e => do
      let cv ← value σ c
      if cv.val = 1 then value σ t else value σ e

/-- a guard is enabled: no condition, or its value is one -/
def guardTrue (σ : State) : Option Expr → Prop
  | none => True
  | some g => ∃ c, value σ g = .ok c ∧ c.val = 1

instance (σ : State) (g : Option Expr) : Decidable (guardTrue σ g) :=
  match g with
  | none => isTrue trivial
  | some g =>
    match h : value σ g with
    | .ok c => if hv : c.val = 1 then isTrue ⟨c, h, hv⟩
               else isFalse (fun ⟨c', h', hv'⟩ => by rw [h] at h'; cases h'; exact hv hv')
    | .err _ => isFalse (fun ⟨c', h', _⟩ => by rw [h] at h'; cases h')
    | .panic => isFalse (fun ⟨c', h', _⟩ => by rw [h] at h'; cases h')

/-- an access of `bits` bits at `a` is byte-sized and lies inside the 64-bit address space -/
def Access (a bits : Nat) : Prop := bits % 8 = 0 ∧ bits ≠ 0 ∧ a + bits / 8 ≤ 2 ^ 64

instance (a bits : Nat) : Decidable (Access a bits) := inferInstanceAs (Decidable (_ ∧ _ ∧ _))

/-- the meaning of one operation -/
inductive OpSem (σ : State) : Op → State → Succ → Prop where
  | assign {dst : Scalar} {src : Expr} {v : Const} :
      value σ src = .ok v →
      OpSem σ (.assign dst src) (σ.set dst.name v) .fallThrough
  | store {index src : Expr} {v i : Const} :
      value σ src = .ok v → value σ index = .ok i → Access i.val v.bits →
      OpSem σ (.store index src) { σ with mem := σ.mem.write i.val (bytesOf σ.endian v) } .fallThrough
  | load {dst : Scalar} {index : Expr} {i : Const} {bs : List UInt8} :
      value σ index = .ok i → Access i.val dst.bits →
      σ.mem.readBytes i.val (dst.bits / 8) = some bs →
      OpSem σ (.load dst index) (σ.set dst.name (constOfBytes σ.endian bs)) .fallThrough
  | branch {target : Expr} {a : Const} :
      value σ target = .ok a → a.val < 2 ^ 64 →
      OpSem σ (.branch target) σ (.branch a.val)
  | nop : OpSem σ .nop σ .fallThrough

/-- `l` names the instruction at position `k` of block `b` of function `f` -/
structure AtInstr (P : Program) (l : Loc) (f : Function) (b : Block) (k : Nat) (i : Instr) : Prop where
  fn : ∃ fi, l.fn = some fi ∧ P.function fi = some f
  blk : f.block b.index = some b
  ins : b.instrs[k]? = some i
  pos : l.pos = .instr b.index i.index

/-- one step of a program -/
inductive Step (P : Program) : Loc × State → Loc × State → Prop where
  /-- an instruction falls through to the next instruction of its block -/
  | next {l : Loc} {σ σ' : State} {f : Function} {b : Block} {k : Nat} {i j : Instr} :
      AtInstr P l f b k i → OpSem σ i.op σ' .fallThrough → b.instrs[k + 1]? = some j →
      Step P (l, σ) (⟨f.index, .instr b.index j.index⟩, σ')
  /-- the last instruction of a block falls through along an enabled out-edge (guard read in the NEW state) -/
  | last {l : Loc} {σ σ' : State} {f : Function} {b : Block} {k : Nat} {i : Instr} {e : Edge} :
      AtInstr P l f b k i → OpSem σ i.op σ' .fallThrough → k + 1 = b.instrs.length →
      e ∈ f.cfg.edgesOut b.index → guardTrue σ' e.cond →
      Step P (l, σ) (edgeLoc f e, σ')
  /-- an indirect branch goes to the instruction carrying the target address -/
  | branch {l l' : Loc} {σ σ' : State} {f : Function} {b : Block} {k : Nat} {i : Instr} {a : Nat} :
      AtInstr P l f b k i → OpSem σ i.op σ' (.branch a) → fromAddress P a = some l' →
      Step P (l, σ) (l', σ')
  /-- an edge location moves to the first location of the tail block -/
  | edge {l : Loc} {σ : State} {fi : Nat} {f : Function} {h t : Nat} {e : Edge} {b : Block} :
      l.fn = some fi → P.function fi = some f → l.pos = .edge h t → f.cfg.edge h t = some e →
      f.block e.tail = some b →
      Step P (l, σ) (⟨f.index, blockEntry b⟩, σ)
  /-- an empty block moves along an enabled out-edge -/
  | empty {l : Loc} {σ : State} {fi : Nat} {f : Function} {bi : Nat} {b : Block} {e : Edge} :
      l.fn = some fi → P.function fi = some f → l.pos = .empty bi → f.block bi = some b → b.instrs = [] →
      e ∈ f.cfg.edgesOut b.index → guardTrue σ e.cond →
      Step P (l, σ) (edgeLoc f e, σ)

/-- finitely many steps -/
inductive Steps (P : Program) : Nat → Loc × State → Loc × State → Prop where
  | zero (d : Loc × State) : Steps P 0 d d
  | succ {n : Nat} {a b c : Loc × State} : Step P a b → Steps P n b c → Steps P (n + 1) a c

/-! ### the premise of the property: well-formed programs

  "Well-formed IL programs … whose guards are mutually exclusive and exhaustive (as lifters produce)":
  * `TypedE σ e` / `TypedOp σ op`: the expression is well-sorted as falcon's constructors demand, every
    width is between 1 and `usize::MAX`, constants are reduced, and every scalar it reads holds — if it
    is defined — a reduced constant of the scalar's declared width; stores and loads move whole bytes
    through addresses of at most 64 bits.
  * `WFProg`: instruction indices are distinct inside every block.
  * `GuardsOK`: a lone out-edge is always enabled (lifters emit it without condition); several out-edges
    all carry a condition, and whenever one guard has value one every other guard has a value, which is
    not one (mutual exclusion, in the strong form that also covers evaluation errors).
  * `GuardsExhaustive`: in every state in which all guards of a block have a value, one of them is one.
  All are decidable where they speak about one state; the driver uses `inDomain` to decide where the
  specification column is silent.
-/

def ConstOK (c : Const) : Prop := c.val < 2 ^ c.bits ∧ 1 ≤ c.bits ∧ c.bits < 2 ^ 64

instance (c : Const) : Decidable (ConstOK c) := inferInstanceAs (Decidable (_ ∧ _ ∧ _))

/-- the constant a scalar holds (if any) has the declared width and is reduced -/
def HoldsOK (σ : State) (s : Scalar) : Prop :=
  match σ.get s.name with
  | some c => c.bits = s.bits ∧ c.val < 2 ^ c.bits
  | none => True

instance (σ : State) (s : Scalar) : Decidable (HoldsOK σ s) := by
  unfold HoldsOK; cases σ.get s.name <;> exact inferInstance

def ExtOK : ExtOp → Nat → Nat → Prop
  | .trun, m, n => m < n
  | _, m, n => n < m

instance (op : ExtOp) (m n : Nat) : Decidable (ExtOK op m n) := by
  cases op <;> exact inferInstanceAs (Decidable (_ < _))

def TypedE (σ : State) : Expr → Prop
  | .scalar s => 1 ≤ s.bits ∧ s.bits < 2 ^ 64 ∧ HoldsOK σ s
  | .const c => ConstOK c
  | .bin _ l r => TypedE σ l ∧ TypedE σ r ∧ l.bits = r.bits
  | .ext op m e => TypedE σ e ∧ 1 ≤ m ∧ m < 2 ^ 64 ∧ ExtOK op m e.bits
  | .ite c t e => TypedE σ c ∧ TypedE σ t ∧ TypedE σ e ∧ c.bits = 1 ∧ t.bits = e.bits

instance TypedE.dec (σ : State) : (e : Expr) → Decidable (TypedE σ e)
  | .scalar _ => inferInstanceAs (Decidable (_ ∧ _ ∧ _))
  | .const c => inferInstanceAs (Decidable (ConstOK c))
  | .bin _ l r =>
    have := TypedE.dec σ l; have := TypedE.dec σ r
    inferInstanceAs (Decidable (_ ∧ _ ∧ _))
  | .ext _ _ e =>
    have := TypedE.dec σ e
    inferInstanceAs (Decidable (_ ∧ _ ∧ _ ∧ _))
  | .ite c t e =>
    have := TypedE.dec σ c; have := TypedE.dec σ t; have := TypedE.dec σ e
    inferInstanceAs (Decidable (_ ∧ _ ∧ _ ∧ _ ∧ _))

def TypedOp (σ : State) : Op → Prop
  | .assign dst src => TypedE σ src ∧ src.bits = dst.bits
  | .store index src => TypedE σ index ∧ TypedE σ src ∧ index.bits ≤ 64 ∧ src.bits % 8 = 0
  | .load dst index => TypedE σ index ∧ index.bits ≤ 64 ∧ dst.bits % 8 = 0 ∧ 1 ≤ dst.bits ∧ dst.bits < 2 ^ 64
  | .branch t => TypedE σ t ∧ t.bits ≤ 64
  | .intrinsic _ => True
  | .nop => True

instance (σ : State) (op : Op) : Decidable (TypedOp σ op) := by
  cases op <;> unfold TypedOp <;> exact inferInstance

def TypedGuard (σ : State) : Option Expr → Prop
  | none => True
  | some g => TypedE σ g ∧ g.bits = 1

instance (σ : State) (g : Option Expr) : Decidable (TypedGuard σ g) := by
  cases g <;> unfold TypedGuard <;> exact inferInstance

/-! typing of a whole program against a width assignment `Γ` (one width per scalar NAME — the executor's
   states are keyed by name only), and of states against `Γ`; this is the form of the premise that is
   preserved by execution -/

abbrev Ctx := String → Nat

def TypedEΓ (Γ : Ctx) : Expr → Prop
  | .scalar s => 1 ≤ s.bits ∧ s.bits < 2 ^ 64 ∧ Γ s.name = s.bits
  | .const c => ConstOK c
  | .bin _ l r => TypedEΓ Γ l ∧ TypedEΓ Γ r ∧ l.bits = r.bits
  | .ext op m e => TypedEΓ Γ e ∧ 1 ≤ m ∧ m < 2 ^ 64 ∧ ExtOK op m e.bits
  | .ite c t e => TypedEΓ Γ c ∧ TypedEΓ Γ t ∧ TypedEΓ Γ e ∧ c.bits = 1 ∧ t.bits = e.bits

def TypedOpΓ (Γ : Ctx) : Op → Prop
  | .assign dst src => TypedEΓ Γ src ∧ src.bits = dst.bits ∧ Γ dst.name = dst.bits
  | .store index src => TypedEΓ Γ index ∧ TypedEΓ Γ src ∧ index.bits ≤ 64 ∧ src.bits % 8 = 0
  | .load dst index =>
      TypedEΓ Γ index ∧ index.bits ≤ 64 ∧ dst.bits % 8 = 0 ∧ 1 ≤ dst.bits ∧ dst.bits < 2 ^ 64 ∧ Γ dst.name = dst.bits
  | .branch t => TypedEΓ Γ t ∧ t.bits ≤ 64
  | .intrinsic _ => True
  | .nop => True

def TypedGuardΓ (Γ : Ctx) : Option Expr → Prop
  | none => True
  | some g => TypedEΓ Γ g ∧ g.bits = 1

def ProgTyped (Γ : Ctx) (P : Program) : Prop :=
  ∀ f ∈ P.functions,
    (∀ b ∈ f.cfg.blocks, ∀ i ∈ b.instrs, TypedOpΓ Γ i.op) ∧ (∀ e ∈ f.cfg.edges, TypedGuardΓ Γ e.cond)

def StateTyped (Γ : Ctx) (σ : State) : Prop :=
  ∀ n c, σ.get n = some c → c.bits = Γ n ∧ c.val < 2 ^ c.bits

/-- the guard has a value, and it is not one -/
def guardFalse (σ : State) : Option Expr → Prop
  | none => False
  | some g => ∃ c, value σ g = .ok c ∧ c.val ≠ 1

instance (σ : State) (g : Option Expr) : Decidable (guardFalse σ g) :=
  match g with
  | none => isFalse id
  | some g =>
    match h : value σ g with
    | .ok c => if hv : c.val = 1 then isFalse (fun ⟨c', h', hv'⟩ => by rw [h] at h'; cases h'; exact hv' hv)
               else isTrue ⟨c, h, hv⟩
    | .err _ => isFalse (fun ⟨c', h', _⟩ => by rw [h] at h'; cases h')
    | .panic => isFalse (fun ⟨c', h', _⟩ => by rw [h] at h'; cases h')

/-- the guards of one block's out-edges, read in one state -/
def GuardsOKAt (σ : State) (es : List Edge) : Prop :=
  (∀ e, es = [e] → guardTrue σ e.cond) ∧
  (2 ≤ es.length →
    (∀ e ∈ es, e.cond.isSome) ∧
    (∀ e ∈ es, guardTrue σ e.cond → ∀ e' ∈ es, e' ≠ e → guardFalse σ e'.cond))

instance (σ : State) (es : List Edge) : Decidable (GuardsOKAt σ es) := by
  unfold GuardsOKAt
  have : Decidable (∀ e, es = [e] → guardTrue σ e.cond) :=
    match es with
    | [e] => if h : guardTrue σ e.cond then isTrue (fun e' he => by cases he; exact h)
             else isFalse (fun hh => h (hh e rfl))
    | [] => isTrue (fun e he => by cases he)
    | _ :: _ :: _ => isTrue (fun e he => by cases he)
  exact inferInstance

/-- every function's every block: guards fine in every state that is typed against `Γ` -/
def GuardsOK (Γ : Ctx) (P : Program) : Prop :=
  ∀ f ∈ P.functions, ∀ b ∈ f.cfg.blocks, ∀ σ : State, StateTyped Γ σ → GuardsOKAt σ (f.cfg.edgesOut b.index)

def GuardsExhaustive (Γ : Ctx) (P : Program) : Prop :=
  ∀ f ∈ P.functions, ∀ b ∈ f.cfg.blocks, ∀ σ : State, StateTyped Γ σ →
    let es := f.cfg.edgesOut b.index
    es ≠ [] → (∀ e ∈ es, guardTrue σ e.cond ∨ guardFalse σ e.cond) → ∃ e ∈ es, guardTrue σ e.cond

/-- instruction indices are distinct inside every block -/
def WFBlock (b : Block) : Prop := (b.instrs.map (·.index)).Nodup

instance (b : Block) : Decidable (WFBlock b) := inferInstanceAs (Decidable (List.Nodup _))

def WFProg (P : Program) : Prop := ∀ f ∈ P.functions, ∀ b ∈ f.cfg.blocks, WFBlock b

/-- an `empty` location names an empty block -/
def LocOK (P : Program) (l : Loc) : Prop :=
  match l.pos with
  | .empty bi => ∀ fi f b, l.fn = some fi → P.function fi = some f → f.block bi = some b → b.instrs = []
  | _ => True

/-! ### executable forms -/

/-- `OpSem` as a partial function -/
def opSem (σ : State) : Op → Option (State × Succ)
  | .assign dst src =>
    match value σ src with
    | .ok v => some (σ.set dst.name v, .fallThrough)
    | _ => none
  | .store index src =>
    match value σ src, value σ index with
    | .ok v, .ok i =>
      if Access i.val v.bits then
        some ({ σ with mem := σ.mem.write i.val (bytesOf σ.endian v) }, .fallThrough)
      else none
    | _, _ => none
  | .load dst index =>
    match value σ index with
    | .ok i =>
      if Access i.val dst.bits then
        match σ.mem.readBytes i.val (dst.bits / 8) with
        | some bs => some (σ.set dst.name (constOfBytes σ.endian bs), .fallThrough)
        | none => none
      else none
    | _ => none
  | .branch target =>
    match value σ target with
    | .ok a => if a.val < 2 ^ 64 then some (σ, .branch a.val) else none
    | _ => none
  | .intrinsic _ => none
  | .nop => some (σ, .fallThrough)

def enabled (σ : State) (es : List Edge) : List Edge := es.filter (fun e => decide (guardTrue σ e.cond))

/-- the positions of block `b` that location `.instr b.index idx` may denote -/
def positions (b : Block) (idx : Nat) : List (Nat × Instr) :=
  (b.instrs.zipIdx.filter (fun p => p.1.index == idx)).map (fun p => (p.2, p.1))

/-- successors of an instruction at position `k` -/
def succsAt (P : Program) (f : Function) (b : Block) (σ : State) (k : Nat) (i : Instr) : List (Loc × State) :=
  match opSem σ i.op with
  | none => []
  | some (σ', .fallThrough) =>
    match b.instrs[k + 1]? with
    | some j => [(⟨f.index, .instr b.index j.index⟩, σ')]
    | none => (enabled σ' (f.cfg.edgesOut b.index)).map (fun e => (edgeLoc f e, σ'))
  | some (σ', .branch a) =>
    match fromAddress P a with
    | some l' => [(l', σ')]
    | none => []

/-- all `Step`-successors of a configuration -/
def succs (P : Program) (d : Loc × State) : List (Loc × State) :=
  match d.1.fn with
  | none => []
  | some fi =>
    match P.function fi with
    | none => []
    | some f =>
      match d.1.pos with
      | .instr bi idx =>
        match f.block bi with
        | none => []
        | some b =>
          (positions b idx).flatMap (fun p => succsAt P f b d.2 p.1 p.2)
      | .edge h t =>
        match f.cfg.edge h t with
        | none => []
        | some e =>
          match f.block e.tail with
          | none => []
          | some b => [(⟨f.index, blockEntry b⟩, d.2)]
      | .empty bi =>
        match f.block bi with
        | none => []
        | some b =>
          if b.instrs.isEmpty then (enabled d.2 (f.cfg.edgesOut b.index)).map (fun e => (edgeLoc f e, d.2))
          else []

/-! ### why a configuration has no successor: the error kinds the property names -/

def valueErr (σ : State) (e : Expr) : List Err :=
  match value σ e with
  | .err k => [k]
  | _ => []

/-- error kinds applying at the end of a block: a guard without value, or no guard with value one -/
def edgeErrs (σ : State) (es : List Edge) : List Err :=
  (if (enabled σ es).isEmpty then [.noedge] else []) ++
  es.flatMap (fun e => match e.cond with | some g => valueErr σ g | none => [])

/-- the reasons (among scalar / div0 / unmapped / intrinsic / noedge) for which the operation at an
    instruction location, or the move after it, has no meaning; `none` = not one of these -/
def whyStuckAt (f : Function) (b : Block) (σ : State) (k : Nat) (i : Instr) : Option (List Err) :=
  match i.op with
  | .intrinsic _ => some [.intrinsic]
  | .assign _ src => match opSem σ i.op with
      | some (σ', _) => if b.instrs[k + 1]?.isNone then some (edgeErrs σ' (f.cfg.edgesOut b.index)) else none
      | none => some (valueErr σ src)
  | .nop => if b.instrs[k + 1]?.isNone then some (edgeErrs σ (f.cfg.edgesOut b.index)) else none
  | .store index src => match opSem σ i.op with
      | some (σ', _) => if b.instrs[k + 1]?.isNone then some (edgeErrs σ' (f.cfg.edgesOut b.index)) else none
      | none => some (valueErr σ src ++ valueErr σ index)
  | .load dst index => match opSem σ i.op with
      | some (σ', _) => if b.instrs[k + 1]?.isNone then some (edgeErrs σ' (f.cfg.edgesOut b.index)) else none
      | none =>
        match value σ index with
        | .ok a =>
          if Access a.val dst.bits ∧ σ.mem.readBytes a.val (dst.bits / 8) = none then some [.unmapped] else none
        | _ => some (valueErr σ index)
  | .branch t => match opSem σ i.op with
      | some _ => none
      | none => some (valueErr σ t)

def whyStuck (P : Program) (d : Loc × State) : Option (List Err) :=
  match d.1.fn with
  | none => none
  | some fi =>
    match P.function fi with
    | none => none
    | some f =>
      match d.1.pos with
      | .instr bi idx =>
        match f.block bi with
        | none => none
        | some b =>
          match positions b idx with
          | [(k, i)] => whyStuckAt f b d.2 k i
          | _ => none
      | .edge _ _ => none
      | .empty bi =>
        match f.block bi with
        | none => none
        | some b => if b.instrs.isEmpty then some (edgeErrs d.2 (f.cfg.edgesOut b.index)) else none

/-- the operation at `d` is an indirect branch whose target has a value, and no instruction of the program
    carries that address: the semantics has no successor inside `P`; the executor must hand the address to
    the translator (and must not continue at a location of `P`) -/
def leavesProgram (P : Program) (d : Loc × State) : Option Nat :=
  match d.1.fn with
  | none => none
  | some fi =>
    match P.function fi with
    | none => none
    | some f =>
      match d.1.pos with
      | .instr bi idx =>
        match f.block bi with
        | none => none
        | some b =>
          match positions b idx with
          | [(_, i)] =>
            match opSem d.2 i.op with
            | some (_, .branch a) => if (fromAddress P a).isNone then some a else none
            | _ => none
          | _ => none
      | _ => none

/-- everything the configuration's next step reads is typed in `σ`, its block is well-formed, and the
    guards it may evaluate are fine in the state they are evaluated in (decidable; used by the driver) -/
def inDomain (P : Program) (d : Loc × State) : Bool :=
  match d.1.fn with
  | none => false
  | some fi =>
    match P.function fi with
    | none => false
    | some f =>
      match d.1.pos with
      | .instr bi idx =>
        match f.block bi with
        | none => false
        | some b =>
          decide (WFBlock b) &&
          match b.instruction idx with
          | none => false
          | some i =>
            decide (TypedOp d.2 i.op) &&
            match opSem d.2 i.op with
            | some (σ', .fallThrough) =>
              let es := f.cfg.edgesOut b.index
              es.all (fun e => decide (TypedGuard σ' e.cond)) && decide (GuardsOKAt σ' es)
            | _ => true
      | .edge _ _ => true
      | .empty bi =>
        match f.block bi with
        | none => false
        | some b =>
          let es := f.cfg.edgesOut b.index
          b.instrs.isEmpty && es.all (fun e => decide (TypedGuard d.2 e.cond)) && decide (GuardsOKAt d.2 es)

end Sem
end Falcon
