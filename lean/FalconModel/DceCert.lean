/-
  FalconModel.DceCert — the verified checker of property C14 (DESIGN §6 C14, pattern P3).

  `dceCheck f g : Bool` judges one output `g` of `analysis::dead_code_elimination` on the input `f`:

  * shape: same function header, same edges, blocks pairwise with the same index / phi nodes /
    instruction indices and addresses; an instruction of `g` either carries the operation of `f` or is
    `nop` where `f` has an `assign` or a `load`;
  * the dead-set certificate: a map `cert : block ↦ D` (names whose value may differ between the run of
    `f` and the run of `g` when control enters the block).  Inside a block the set is pushed forward over
    the instruction pairs (`stepD`): a removed `x := …` adds `x`, a kept write of `x` deletes `x`; a kept
    instruction must not read a name of the set, and the set must be empty in front of every branch and
    every intrinsic.  At the end of the block no out-edge guard reads a name of the set, the set is
    included in the certificate of every successor, and it is empty when the block has no successor.

  The certificate is *computed* by unverified code (`computeCert`, a round-robin iteration with fuel)
  and only *checked* by `certOk`; `FalconProofs/Props/C14.lean` proves `certOk f g cert = true →` the
  run of `g` simulates every fault-free run of `f` (for every certificate, every state, every length).

  Names are compared as the executor's state does: by `name` only (`State` is keyed by the name).
-/
import FalconModel.Exec

namespace Falcon
namespace Dce

abbrev Names := List String

/-- block index ↦ dead set on entry of the block; absent = empty -/
abbrev Cert := List (Nat × Names)

def exprNames (e : Expr) : Names := e.scalars.map (·.name)

def guardNames : Option Expr → Names
  | none => []
  | some e => exprNames e

/-- no element of `xs` is in `D` -/
def disjoint (xs D : Names) : Bool := xs.all (fun x => !D.contains x)

def subset (xs ys : Names) : Bool := xs.all (fun x => ys.contains x)

def Cert.din (cert : Cert) (b : Nat) : Names := (cert.lookup b).getD []

/-- One instruction pair (`i` of the input, `j` of the output) in front of which the dead set is `D`:
    `none` = rejected, `some D'` = accepted, the dead set behind it is `D'`. -/
def stepD (D : Names) (i j : Instr) : Option Names :=
  if i.index ≠ j.index ∨ i.addr ≠ j.addr then none
  else if i.op = j.op then
    match j.op with
    | .assign d src => if disjoint (exprNames src) D then some (D.filter (· != d.name)) else none
    | .store a s => if disjoint (exprNames a ++ exprNames s) D then some D else none
    | .load d a => if disjoint (exprNames a) D then some (D.filter (· != d.name)) else none
    | .branch _ => if D.isEmpty then some D else none
    | .intrinsic _ => if D.isEmpty then some D else none
    | .nop => some D
  else if j.op = .nop then
    match i.op with
    | .assign d _ => some (d.name :: D)
    | .load d _ => some (d.name :: D)
    | _ => none
  else none

/-- the whole instruction lists of a block pair: the dead set at the end of the block -/
def walk : Names → List Instr → List Instr → Option Names
  | D, [], [] => some D
  | D, i :: is, j :: js => (stepD D i j).bind (fun D' => walk D' is js)
  | _, _, _ => none

/-- the dead set after the first `p` instruction pairs -/
def walkTo : Names → List Instr → List Instr → Nat → Option Names
  | D, _, _, 0 => some D
  | D, i :: is, j :: js, p + 1 => (stepD D i j).bind (fun D' => walkTo D' is js p)
  | _, _, _, _ + 1 => none

/-- the condition at the end of block `b` whose final dead set is `Dend` -/
def endOk (g : Function) (cert : Cert) (b : Nat) (Dend : Names) : Bool :=
  let out := g.cfg.edgesOut b
  if out.isEmpty then Dend.isEmpty
  else out.all (fun e => disjoint (guardNames e.cond) Dend && subset Dend (cert.din e.tail))

def blockOk (g : Function) (cert : Cert) (bf bg : Block) : Bool :=
  bf.index == bg.index && bf.nextInstr == bg.nextInstr && decide (bf.phis = bg.phis) &&
  match walk (cert.din bg.index) bf.instrs bg.instrs with
  | none => false
  | some Dend => endOk g cert bg.index Dend

def blocksOk (g : Function) (cert : Cert) : List Block → List Block → Bool
  | [], [] => true
  | bf :: fs, bg :: gs => blockOk g cert bf bg && blocksOk g cert fs gs
  | _, _ => false

def headerOk (f g : Function) : Bool :=
  f.addr == g.addr && f.index == g.index && decide (f.cfg.edges = g.cfg.edges) &&
  f.cfg.entry == g.cfg.entry && f.cfg.exit == g.cfg.exit &&
  f.cfg.nextIndex == g.cfg.nextIndex && f.cfg.nextTemp == g.cfg.nextTemp

/-- the verified part: `g` is `f` with some assigns/loads replaced by `nop`, and `cert` is an
    inductive dead-set certificate for the pair -/
def certOk (f g : Function) (cert : Cert) : Bool :=
  headerOk f g && blocksOk g cert f.cfg.blocks g.cfg.blocks

/-- the dead set at position `p` of block `b` (what the theorems speak about) -/
def deadAt (f g : Function) (cert : Cert) (b p : Nat) : Names :=
  match f.block b, g.block b with
  | some bf, some bg => (walkTo (cert.din b) bf.instrs bg.instrs p).getD (cert.din b)
  | _, _ => cert.din b

-- ------------------------------------------------------------------ computing a certificate (unverified)

/-- `stepD` without the checks (what flows on, whether or not the pair is acceptable) -/
def transfer (D : Names) (i j : Instr) : Names :=
  if i.op = j.op then
    match j.op with
    | .assign d _ => D.filter (· != d.name)
    | .load d _ => D.filter (· != d.name)
    | _ => D
  else
    match i.op with
    | .assign d _ => if D.contains d.name then D else d.name :: D
    | .load d _ => if D.contains d.name then D else d.name :: D
    | _ => D

def flowInstrs : Names → List Instr → List Instr → Names
  | D, i :: is, j :: js => flowInstrs (transfer D i j) is js
  | D, _, _ => D

def union (xs ys : Names) : Names := xs ++ (ys.filter (fun y => !xs.contains y)).eraseDups

def Cert.add (cert : Cert) (b : Nat) (D : Names) : Cert :=
  if D.isEmpty then cert
  else if cert.any (·.1 == b) then cert.map (fun p => if p.1 == b then (p.1, union p.2 D) else p)
  else (b, D.eraseDups) :: cert

def Cert.size (cert : Cert) : Nat := cert.foldl (fun n p => n + 1 + p.2.length) 0

def flowBlock (g : Function) (cert : Cert) (bf bg : Block) : Cert :=
  let Dend := flowInstrs (cert.din bg.index) bf.instrs bg.instrs
  (g.cfg.edgesOut bg.index).foldl (fun c e => c.add e.tail Dend) cert

def flowRound (g : Function) : Cert → List Block → List Block → Cert
  | cert, bf :: fs, bg :: gs => flowRound g (flowBlock g cert bf bg) fs gs
  | cert, _, _ => cert

/-- rounds until the certificate stops growing (or the fuel is used up; `certOk` decides anyway) -/
def iterate (f g : Function) : Nat → Cert → Cert
  | 0, cert => cert
  | n + 1, cert =>
    let cert' := flowRound g cert f.cfg.blocks g.cfg.blocks
    if cert'.size == cert.size then cert' else iterate f g n cert'

/-- every round but the last adds a name to some block: (#blocks + 1) × (#removed instructions + 1) + 1
    rounds are enough -/
def fuelFor (f : Function) : Nat :=
  let instrs := f.cfg.blocks.foldl (fun n b => n + b.instrs.length) 0
  (f.cfg.blocks.length + 1) * (instrs + 1) + 2

def computeCert (f g : Function) : Cert := iterate f g (fuelFor f) []

/-- THE CHECKER of property C14 -/
def dceCheck (f g : Function) : Bool := certOk f g (computeCert f g)

-- ------------------------------------------------------------------ observations of a run

/-- the memory write an operation performs in state `σ` (address, bytes in memory order);
    `none` if the operation is not a store (or its operands do not evaluate) -/
def opStoreEvent (σ : State) : Op → Option (Nat × List UInt8)
  | .store index src =>
    match σ.evalIn src, σ.evalIn index with
    | .ok v, .ok a => some (a.val, bytesOf σ.endian v)
    | _, _ => none
  | _ => none

/-- the memory write performed by the step that leaves configuration `c`, `none` if that step is not a
    store -/
def storeEvent (f : Function) (c : Config) : Option (Nat × List UInt8) :=
  match f.block c.block with
  | none => none
  | some b =>
    match b.instrs[c.pos]? with
    | some i => opStoreEvent c.state i.op
    | none => none

/-- the operations at which the whole scalar state is observable: indirect branches and intrinsics -/
def isObservable : Op → Bool
  | .branch _ => true
  | .intrinsic _ => true
  | _ => false

/-- the operation in front of which configuration `c` stands -/
def opAt (f : Function) (c : Config) : Option Op :=
  match f.block c.block with
  | none => none
  | some b => (b.instrs[c.pos]?).map (·.op)

/-- `c` stands at the end of a block without successors -/
def atExit (f : Function) (c : Config) : Bool :=
  match f.block c.block with
  | none => false
  | some b => c.pos == b.instrs.length && (f.cfg.edgesOut c.block).isEmpty

end Dce
end Falcon
