/-
  FalconModel.WfIL — the well-formedness checker for lifted IL (property C05): width rules of every
  expression and operation, entry/exit/edges of every instruction graph, and *edge determinism*: the
  out-edge guards of every block (and the successor guards of the lifted block) are recognised as a
  partition — in every state exactly one is enabled.  `FalconProofs/Props/C05.lean` proves the checker
  sound; the driver runs it on what the real translators returned.
-/
import FalconModel.Lift

namespace Falcon

namespace Expr

/-- the width rules the smart constructors enforce, checked on the whole tree -/
def wellSorted : Expr → Bool
  | .scalar s => decide (0 < s.bits) && decide (s.bits < 2 ^ 64)
  | .const c => decide (0 < c.bits) && decide (c.bits < 2 ^ 64) && decide (c.val < 2 ^ c.bits)
  | .bin _ l r => l.wellSorted && r.wellSorted && decide (l.bits = r.bits)
  | .ext .trun m e => e.wellSorted && decide (0 < m) && decide (m < e.bits)
  | .ext _ m e => e.wellSorted && decide (e.bits < m) && decide (m < 2 ^ 64)
  | .ite c t e => c.wellSorted && t.wellSorted && e.wellSorted && decide (c.bits = 1) && decide (t.bits = e.bits)

end Expr

/-- one-bit constant -/
def isBitConst (e : Expr) (v : Nat) : Bool :=
  match e with
  | .const c => c.bits == 1 && c.val == v
  | _ => false

/-- `h` is `g == 0:1` or `g != 1:1` -/
def isNegOf (g h : Expr) : Bool :=
  match h with
  | .bin .cmpeq a b => a == g && isBitConst b 0
  | .bin .cmpneq a b => a == g && isBitConst b 1
  | _ => false

/-- the recognised complementary pairs (the shapes the seven lifters emit; anything else is reported,
    never silently accepted):
      S1  `g` / `g == 0`, `g` / `g != 1`   (either order of the pair)
      S2  `x == 0` / `x == 1`       for a 1-bit `x` (either order)
      S3  `a == b` / `a != b`       (either order) -/
def isComplement (g h : Expr) : Bool :=
  isNegOf g h || isNegOf h g ||
  (match g, h with
   | .bin .cmpeq a b, .bin .cmpeq a' b' =>
       a == a' && a.bits == 1 && ((isBitConst b 0 && isBitConst b' 1) || (isBitConst b 1 && isBitConst b' 0))
   | .bin .cmpeq a b, .bin .cmpneq a' b' => a == a' && b == b'
   | .bin .cmpneq a b, .bin .cmpeq a' b' => a == a' && b == b'
   | _, _ => false)

/-- the guards of the out-edges of one block are recognised as "exactly one enabled in every state" -/
def guardsPartition : List (Option Expr) → Bool
  | [] => true                       -- no successor: nothing to choose
  | [none] => true
  | [some g, some h] => g.bits == 1 && h.bits == 1 && isComplement g h
  | _ => false

structure WfCtx where
  addrBits : Nat

def opWf (cx : WfCtx) : Op → Bool
  | .assign d s => s.wellSorted && decide (s.bits = d.bits) && decide (0 < d.bits)
  -- an address-size override legitimately yields a narrower effective address (16 bits on x86,
  -- 32 bits on amd64); what the operation requires is an address that fits the architecture's
  | .store i s => i.wellSorted && s.wellSorted && decide (s.bits % 8 = 0) && decide (0 < s.bits)
      && decide (i.bits ≤ cx.addrBits)
  | .load d i => i.wellSorted && decide (d.bits % 8 = 0) && decide (0 < d.bits) && decide (i.bits ≤ cx.addrBits)
  | .branch t => t.wellSorted && decide (t.bits = cx.addrBits)
  | .intrinsic _ => true
  | .nop => true

def guardWf : Option Expr → Bool
  | none => true
  | some g => g.wellSorted && decide (g.bits = 1)

/-- reachability inside a small graph by `n` rounds of closure -/
def reachRounds (es : List Edge) : Nat → List Nat → List Nat
  | 0, seen => seen
  | k + 1, seen =>
    let new := es.filterMap (fun e => if seen.contains e.head && !seen.contains e.tail then some e.tail else none)
    reachRounds es k (seen ++ new.eraseDups)

def firstFalse (xs : List (String × Bool)) : Option String :=
  (xs.find? (fun p => !p.2)).map (·.1)

/-- why an instruction graph is ill-formed, `none` if well-formed -/
def graphIll (cx : WfCtx) (f : Function) : Option String :=
  let c := f.cfg
  let opsOk := c.blocks.all (fun b => b.instrs.all (fun i => opWf cx i.op))
  let guardsOk := c.edges.all (fun e => guardWf e.cond)
  let edgesOk := c.edges.all (fun e => c.hasBlock e.head && c.hasBlock e.tail)
  let entryOk := match c.entry with | some e => c.hasBlock e | none => false
  let exitOk := match c.exit with | some e => c.hasBlock e | none => false
  let reachOk := match c.entry, c.exit with
    | some en, some ex => (reachRounds c.edges c.blocks.length [en]).contains ex
    | _, _ => false
  let detOk := c.blocks.all (fun b => guardsPartition ((c.edgesOut b.index).map (·.cond)))
  -- "in every state exactly one outgoing edge of each block is enabled": a block other than the exit without any
  -- outgoing edge is a dead end, and control leaves the graph at the exit, not through an edge out of it
  -- (blocks that no path from the entry reaches are junk, not dead ends: the AArch64 lifter leaves an empty orphan block
  -- in the graph of an unsupported instruction)
  let reached := match c.entry with | some en => reachRounds c.edges c.blocks.length [en] | none => []
  let deadEndOk := c.blocks.all (fun b =>
    c.exit == some b.index || !(c.edgesOut b.index).isEmpty || !reached.contains b.index)
  let exitLastOk := match c.exit with | some ex => (c.edgesOut ex).isEmpty | none => true
  let badGuards : String :=
    match c.blocks.find? (fun b => !guardsPartition ((c.edgesOut b.index).map (·.cond))) with
    | some b => " [" ++ " | ".intercalate ((c.edgesOut b.index).map (fun e =>
        match e.cond with | some g => Fil.exprStr g | none => "-")) ++ "]"
    | none => ""
  let badOp : String :=
    match c.blocks.findSome? (fun b => b.instrs.find? (fun i => !opWf cx i.op)) with
    | some i => " " ++ Fil.opStr i.op
    | none => ""
  firstFalse [("operation-width" ++ badOp, opsOk), ("guard-width", guardsOk), ("dangling-edge", edgesOk),
    ("no-entry", entryOk), ("no-exit", exitOk), ("exit-unreachable", reachOk),
    ("edge-determinism" ++ badGuards, detOk), ("dead-end-block", deadEndOk), ("edge-out-of-exit", exitLastOk)]

/-- scalar names used at two different widths anywhere in the lifted block -/
def scalarsOf (r : BTR) : List Scalar :=
  let ofOp : Op → List Scalar := fun o => (o.scalarsRead.getD []) ++ (o.scalarsWritten.getD [])
  r.instrs.flatMap (fun f =>
    f.cfg.blocks.flatMap (fun b => b.instrs.flatMap (fun i => ofOp i.op))
    ++ f.cfg.edges.flatMap (fun e => match e.cond with | some g => g.scalars | none => []))
  ++ r.succs.flatMap (fun s => match s.2 with | some g => g.scalars | none => [])

def widthClash (ss : List Scalar) : Option String :=
  (ss.find? (fun s => ss.any (fun t => t.name == s.name && t.bits != s.bits))).map (·.name)

def btrIll (cx : WfCtx) (r : BTR) : Option String :=
  match r.instrs.findSome? (fun f => (graphIll cx f).map (fun w => w ++ "@" ++ Fil.hex f.addr)) with
  | some w => some w
  | none =>
    if !(r.succs.all (fun s => guardWf s.2)) then some "successor-guard-width"
    else if !(guardsPartition (r.succs.map (·.2))) && !r.succs.isEmpty then some "successor-determinism"
    else match widthClash (scalarsOf r) with
      | some n => some ("scalar-width-clash:" ++ n)
      | none => none

def addrBitsOf (arch : String) : Nat :=
  if arch = "amd64" ∨ arch = "aarch64" ∨ arch = "aarch64eb" then 64 else 32

end Falcon
