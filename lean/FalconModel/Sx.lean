/-
  FalconModel.Sx — S-expressions: the concrete syntax of the line protocol ("FIL", DESIGN §2.2).
  Total functions only (a stack-based reader), so that drivers need no `partial`.
-/
import FalconModel.Basic

namespace Falcon

inductive Sx where
  | atom (s : String)
  | list (xs : List Sx)
  deriving Repr, Inhabited

namespace Sx

/-- split into tokens: `(`, `)`, and maximal runs of non-space, non-paren characters -/
def tokens (s : String) : List String :=
  let step := fun (st : List String × List Char) (c : Char) =>
    let (acc, cur) := st
    let flush : List String := if cur.isEmpty then acc else String.ofList cur.reverse :: acc
    if c = '(' then ("(" :: flush, [])
    else if c = ')' then (")" :: flush, [])
    else if c = ' ' ∨ c = '\t' ∨ c = '\n' ∨ c = '\r' then (flush, [])
    else (acc, c :: cur)
  let (acc, cur) := s.toList.foldl step ([], [])
  let acc := if cur.isEmpty then acc else String.ofList cur.reverse :: acc
  acc.reverse

/-- reader state: a stack of partially read lists (innermost first, each reversed) -/
def readToks : List String → List (List Sx) → Option (List Sx)
  | [], [top] => some top.reverse
  | [], _ => none
  | "(" :: ts, st => readToks ts ([] :: st)
  | ")" :: ts, cur :: parent :: st => readToks ts ((Sx.list cur.reverse :: parent) :: st)
  | ")" :: _, _ => none
  | t :: ts, cur :: st => readToks ts ((Sx.atom t :: cur) :: st)
  | _ :: _, [] => none

/-- all top-level S-expressions of a line -/
def parseAll (s : String) : Option (List Sx) := readToks (tokens s) [[]]

def hexVal (c : Char) : Option Nat :=
  if '0' ≤ c ∧ c ≤ '9' then some (c.toNat - '0'.toNat)
  else if 'a' ≤ c ∧ c ≤ 'f' then some (c.toNat - 'a'.toNat + 10)
  else if 'A' ≤ c ∧ c ≤ 'F' then some (c.toNat - 'A'.toNat + 10)
  else none

def parseHex (cs : List Char) : Option Nat :=
  if cs.isEmpty then none
  else cs.foldl (fun acc c => do let a ← acc; let d ← hexVal c; pure (a * 16 + d)) (some 0)

/-- decimal or `0x…` hexadecimal natural number -/
def parseNat (s : String) : Option Nat :=
  match s.toList with
  | '0' :: 'x' :: rest => parseHex rest
  | _ => s.toNat?

def nat? : Sx → Option Nat
  | atom s => parseNat s
  | _ => none

def atom? : Sx → Option String
  | atom s => some s
  | _ => none

partial def toStr : Sx → String
  | atom s => s
  | list xs => "(" ++ " ".intercalate (xs.map toStr) ++ ")"

end Sx
end Falcon
