/-
  FalconModel.DriverLoop — the stdin/stdout loop shared by all native drivers: one request line in,
  one answer line out.  Stateless drivers pass a pure function; stateful ones thread a state.
-/
import FalconModel.Basic

namespace Falcon

partial def driverLoopS {σ : Type} (step : σ → String → σ × String) (init : σ) : IO Unit := do
  let stdin ← IO.getStdin
  let stdout ← IO.getStdout
  let rec go (s : σ) : IO Unit := do
    let line ← stdin.getLine
    if line.isEmpty then
      stdout.flush
      return ()
    let line := (line.dropEndWhile (fun c => c = '\n' || c = '\r')).toString
    let (s', out) := step s line
    stdout.putStrLn out
    go s'
  go init

def driverLoop (f : String → String) : IO Unit :=
  driverLoopS (fun (_ : Unit) l => ((), f l)) ()

end Falcon
