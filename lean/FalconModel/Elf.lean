/-
  FalconModel.Elf — ELF loading as the property C19 states it (pattern P2: the model IS the definition).

  The input is a *structured description* `ElfDesc` of one ELF object: what the external parser
  (the `goblin` crate) hands to falcon — header fields, program headers together with the file bytes
  each one covers, the two symbol tables with resolved names, the dynamic entries, the DT_NEEDED
  names and the three relocation tables.  Parsing the file is an external call (DESIGN §3); the
  harness checks on every case that goblin's view of the generated file equals the description.

  Anchors: /repo/lib/loader/elf/elf.rs (Elf::new, memory, function_entries, symbols,
  exported_symbols, program_entry), /repo/lib/loader/elf/elf_linker.rs (load_elf, relocations_x86,
  relocations_mips).

    image d B a          byte and permissions at address `a` when `d` is loaded at base `B`
                         (the most recent PT_LOAD segment covering `a`: file bytes, zero fill, R/W/X)
    arch d               architecture name and endianness named by the header
    entries d B users    function entries (sorted by address, one per address)
    symbols d B          symbols (sorted by (address, name), without duplicates)
    programEntry d B     e_entry + B
    link files main      several objects: load order and bases, exported-symbol table (first wins),
                         the relocations the linker implements (x86, MIPS o32)

  Machine arithmetic: falcon computes every address in `u64` with overflow checks (the harness
  builds it that way); the `…Res` variants return `Res.panic` when a sum leaves `u64`; the pure
  functions above are what the theorems talk about, under the side condition that it does not.
-/
import FalconModel.Basic

namespace Falcon.Elf

def U64 : Nat := 18446744073709551616
def U32 : Nat := 4294967296

/-! ## the description -/

inductive Cls where | c32 | c64
  deriving DecidableEq, Repr, Inhabited

inductive Enc where | lsb | msb
  deriving DecidableEq, Repr, Inhabited

/-- A program header plus the file bytes `[offset, offset + filesz)` it covers. -/
structure PHdr where
  ptype : Nat
  flags : Nat
  offset : Nat
  vaddr : Nat
  filesz : Nat
  memsz : Nat
  bytes : List UInt8
  paddr : Nat      -- p_paddr: carried by the description, never used (the image is at the VIRTUAL address)
  align : Nat      -- p_align: likewise
  deriving Repr, Inhabited

/-- A symbol-table entry with its name resolved through the string table. -/
structure Sym where
  name : String
  value : Nat
  size : Nat
  info : Nat
  other : Nat
  shndx : Nat
  deriving Repr, Inhabited

/-- A relocation (`addend` is 0 for REL tables). -/
structure Rel where
  offset : Nat
  sym : Nat
  rtype : Nat
  addend : Nat
  deriving Repr, Inhabited

structure ElfDesc where
  name : String            -- file name (the key DT_NEEDED entries refer to)
  cls : Cls
  enc : Enc
  machine : Nat
  etype : Nat
  entry : Nat
  phdrs : List PHdr
  syms : List Sym          -- .symtab, index 0 (the null symbol) included when the table exists
  dynsyms : List Sym       -- .dynsym, likewise
  dyns : List (Nat × Nat)  -- (d_tag, d_val) in file order
  needed : List String     -- the DT_NEEDED names, in order
  relas : List Rel         -- DT_RELA
  rels : List Rel          -- DT_REL
  plt : List Rel           -- DT_JMPREL
  deriving Repr, Inhabited

def PT_LOAD : Nat := 1
def STT_FUNC : Nat := 2
def STB_GLOBAL : Nat := 1
def STB_WEAK : Nat := 2

def EM_386 : Nat := 3
def EM_MIPS : Nat := 8
def EM_PPC : Nat := 20
def EM_X86_64 : Nat := 62
def EM_AARCH64 : Nat := 183

def Sym.stType (s : Sym) : Nat := s.info % 16
def Sym.stBind (s : Sym) : Nat := s.info / 16

/-! ## the memory image -/

/-- falcon's `MemoryPermissions` bits (READ = 1, WRITE = 2, EXECUTE = 4) from `p_flags`
    (PF_X = 1, PF_W = 2, PF_R = 4). -/
def permOf (flags : Nat) : Nat :=
  (if flags.testBit 2 then 1 else 0) + (if flags.testBit 1 then 2 else 0) + (if flags.testBit 0 then 4 else 0)

def PHdr.isLoad (p : PHdr) : Bool := p.ptype == PT_LOAD

/-- `a` lies in the memory range of the loadable segment `p` rebased by `B`. -/
def PHdr.covers (p : PHdr) (B a : Nat) : Bool :=
  p.isLoad && decide (p.vaddr + B ≤ a) && decide (a < p.vaddr + B + p.memsz)

/-- byte `i` of the segment: the file byte below `filesz`, zero above. -/
def PHdr.byteAt (p : PHdr) (i : Nat) : UInt8 :=
  if i < p.filesz then p.bytes.getD i 0 else 0

/-- An image: for every address, nothing, or a byte with its permissions. -/
abbrev Img := Nat → Option (UInt8 × Nat)

/-- Later program headers are mapped later, so they win where segments overlap. -/
def imageOf : List PHdr → Nat → Img
  | [], _, _ => none
  | p :: ps, B, a =>
    match imageOf ps B a with
    | some x => some x
    | none => if p.covers B a then some (p.byteAt (a - (p.vaddr + B)), permOf p.flags) else none

def image (d : ElfDesc) (B : Nat) : Img := imageOf d.phdrs B

/-- `Elf::memory` with the `u64` side condition made explicit: `p_vaddr + base` is computed for
    every PT_LOAD header. -/
def memoryRes (d : ElfDesc) (B : Nat) : Res Img :=
  if d.phdrs.all (fun p => !p.isLoad || decide (p.vaddr + B < U64)) then .ok (image d B) else .panic

/-! ## architecture -/

structure Arch where
  name : String
  big : Bool
  deriving DecidableEq, Repr, Inhabited

/-- `Elf::new`: machine and data encoding select the architecture; anything else is an error. -/
def arch (d : ElfDesc) : Res Arch :=
  if d.machine = EM_386 then .ok ⟨"x86", false⟩
  else if d.machine = EM_MIPS then
    match d.enc with
    | .msb => .ok ⟨"mips", true⟩
    | .lsb => .ok ⟨"mipsel", false⟩
  else if d.machine = EM_PPC then
    match d.enc with
    | .msb => .ok ⟨"ppc", true⟩
    | .lsb => .err .other
  else if d.machine = EM_X86_64 then .ok ⟨"amd64", false⟩
  else if d.machine = EM_AARCH64 then
    match d.enc with
    | .msb => .ok ⟨"aarch64eb", true⟩
    | .lsb => .ok ⟨"aarch64", false⟩
  else .err .other

/-- The header names the architecture consistently: the combinations the property quantifies over. -/
def headerConsistent (d : ElfDesc) : Bool :=
  (d.machine == EM_386 && d.cls == .c32 && d.enc == .lsb) ||
  (d.machine == EM_X86_64 && d.cls == .c64 && d.enc == .lsb) ||
  (d.machine == EM_MIPS && d.cls == .c32) ||
  (d.machine == EM_PPC && d.cls == .c32 && d.enc == .msb) ||
  (d.machine == EM_AARCH64 && d.cls == .c64)

/-! ## function entries -/

abbrev Entry := Nat × Option String

/-- `BTreeMap::insert`: sorted by key, the new value replaces an old one. -/
def insertKV (k : Nat) (v : Option String) : List Entry → List Entry
  | [] => [(k, v)]
  | (k', v') :: t =>
    if k < k' then (k, v) :: (k', v') :: t
    else if k = k' then (k, v) :: t
    else (k', v') :: insertKV k v t

/-- `entry(k).or_insert(v)` / `if !contains_key(k) { insert(k, v) }`: an old value stays. -/
def insertAbsent (k : Nat) (v : Option String) : List Entry → List Entry
  | [] => [(k, v)]
  | (k', v') :: t =>
    if k < k' then (k, v) :: (k', v') :: t
    else if k = k' then (k', v') :: t
    else (k', v') :: insertAbsent k v t

/-- a defined function symbol: `is_function() && st_value != 0 && st_shndx > 0`. -/
def Sym.isFuncDef (s : Sym) : Bool := s.stType == STT_FUNC && s.value != 0 && s.shndx != 0

def hexDigits (n : Nat) : String := String.ofList (Nat.toDigits 16 n)

def userName (u : Nat) : String := "user_function_" ++ hexDigits u

def addSyms (tab : List Sym) (m : List Entry) : List Entry :=
  tab.foldl (fun m s => if s.isFuncDef then insertKV s.value (some s.name) m else m) m

def addUsers (users : List Nat) (m : List Entry) : List Entry :=
  users.foldl (fun m u => insertAbsent u (some (userName u)) m) m

/-- the map of `function_entries`, keyed by the un-rebased address. -/
def entriesRaw (d : ElfDesc) (users : List Nat) : List Entry :=
  addUsers users (insertAbsent d.entry none (addSyms d.syms (addSyms d.dynsyms [])))

def shiftEntry (B : Nat) (e : Entry) : Entry := (e.1 + B, e.2)

def entries (d : ElfDesc) (B : Nat) (users : List Nat) : List Entry :=
  (entriesRaw d users).map (shiftEntry B)

def entriesRes (d : ElfDesc) (B : Nat) (users : List Nat) : Res (List Entry) :=
  if (d.dynsyms ++ d.syms).all (fun s => !s.isFuncDef || decide (s.value + B < U64))
      && decide (d.entry + B < U64) && users.all (fun u => decide (u + B < U64))
  then .ok (entries d B users) else .panic

/-! ## symbols -/

abbrev Symbol := Nat × String      -- falcon's `Symbol { address, name }`, ordered in this order

def symLt (x y : Symbol) : Bool := decide (x.1 < y.1) || (x.1 == y.1 && decide (x.2 < y.2))

/-- insertion into a strictly sorted list; an equal element is not added (`sort(); dedup()`). -/
def insertSym (x : Symbol) : List Symbol → List Symbol
  | [] => [x]
  | y :: t =>
    if symLt x y then x :: y :: t
    else if x.1 == y.1 && x.2 == y.2 then y :: t
    else y :: insertSym x t

def sortDedup (l : List Symbol) : List Symbol := l.foldl (fun acc x => insertSym x acc) []

def tableSyms (tab : List Sym) (B : Nat) : List Symbol :=
  (tab.filter (fun s => s.value != 0)).map (fun s => (s.value + B, s.name))

/-- one symbol per PLT relocation whose symbol index exists: the imported name at the slot. -/
def pltSyms (d : ElfDesc) (B : Nat) : List Symbol :=
  d.plt.filterMap (fun r => (d.dynsyms[r.sym]?).map (fun s => (r.offset + B, s.name)))

def symList (d : ElfDesc) (B : Nat) : List Symbol :=
  tableSyms d.dynsyms B ++ tableSyms d.syms B ++ pltSyms d B

def symbols (d : ElfDesc) (B : Nat) : List Symbol := sortDedup (symList d B)

def symbolsRes (d : ElfDesc) (B : Nat) : Res (List Symbol) :=
  if (d.dynsyms ++ d.syms).all (fun s => s.value == 0 || decide (s.value + B < U64))
      && d.plt.all (fun r => (d.dynsyms[r.sym]?).isNone || decide (r.offset + B < U64))
  then .ok (symbols d B) else .panic

/-- `exported_symbols`: defined global or weak dynamic symbols. -/
def exported (d : ElfDesc) (B : Nat) : List Symbol :=
  (d.dynsyms.filter (fun s => s.value != 0 && s.shndx != 0 && (s.stBind == STB_GLOBAL || s.stBind == STB_WEAK))).map
    (fun s => (s.value + B, s.name))

/-! ## program entry -/

def programEntry (d : ElfDesc) (B : Nat) : Nat := d.entry + B

def programEntryRes (d : ElfDesc) (B : Nat) : Res Nat :=
  if d.entry + B < U64 then .ok (programEntry d B) else .panic

/-! ## well-formedness (the property's "well-formed ELF file") -/

def PHdr.wf (p : PHdr) : Bool :=
  !p.isLoad || (p.bytes.length == p.filesz && decide (p.filesz ≤ p.memsz))

/-- the memory ranges of two loadable segments do not meet -/
def PHdr.disjoint (p q : PHdr) : Bool :=
  !p.isLoad || !q.isLoad || decide (p.vaddr + p.memsz ≤ q.vaddr) || decide (q.vaddr + q.memsz ≤ p.vaddr)

def pairwiseDisjoint : List PHdr → Bool
  | [] => true
  | p :: ps => ps.all (fun q => p.disjoint q) && pairwiseDisjoint ps

def ElfDesc.wf (d : ElfDesc) : Bool := d.phdrs.all PHdr.wf && pairwiseDisjoint d.phdrs

/-- every address the loader reports stays inside `u64` at base `B`. -/
def fits (d : ElfDesc) (B : Nat) (users : List Nat) : Bool :=
  d.phdrs.all (fun p => !p.isLoad || decide (p.vaddr + B + p.memsz < U64))
  && (d.dynsyms ++ d.syms).all (fun s => decide (s.value + B < U64))
  && d.plt.all (fun r => decide (r.offset + B < U64))
  && decide (d.entry + B < U64) && users.all (fun u => decide (u + B < U64))

/-! ## several objects: `ElfLinker` -/

def DEFAULT_LIB_BASE : Nat := 0x40000000
def LIB_BASE_STEP : Nat := 0x02000000

def DT_PLTGOT : Nat := 3
def DT_MIPS_LOCAL_GOTNO : Nat := 0x7000000a
def DT_MIPS_GOTSYM : Nat := 0x70000013
def DT_MIPS_SYMTABNO : Nat := 0x70000011

def R_386_32 : Nat := 1
def R_386_GLOB_DAT : Nat := 6
def R_386_JMP_SLOT : Nat := 7
def R_386_RELATIVE : Nat := 8
def R_MIPS_REL32 : Nat := 3

/-- byte `i` (memory order) of the 32-bit word `v`. -/
def byte32 (big : Bool) (v i : Nat) : UInt8 :=
  UInt8.ofNat ((v / 256 ^ (if big then 3 - i else i)) % 256)

/-- `set32` on an image: the four bytes change, permissions stay. -/
def write32 (m : Img) (big : Bool) (a v : Nat) : Img := fun x =>
  if a ≤ x ∧ x < a + 4 then (m x).map (fun c => (byte32 big v (x - a), c.2)) else m x

def read32 (m : Img) (big : Bool) (a : Nat) : Option Nat :=
  match m a, m (a + 1), m (a + 2), m (a + 3) with
  | some b0, some b1, some b2, some b3 =>
    if big then some (b0.1.toNat * 16777216 + b1.1.toNat * 65536 + b2.1.toNat * 256 + b3.1.toNat)
    else some (b3.1.toNat * 16777216 + b2.1.toNat * 65536 + b1.1.toNat * 256 + b0.1.toNat)
  | _, _, _, _ => none

/-- the four bytes `[a, a+4)` lie in one loadable segment of `d` loaded at `B`
    (`set32`/`get32` need them in one section). -/
def siteOk (d : ElfDesc) (B a : Nat) : Bool :=
  d.phdrs.any (fun p => p.isLoad && decide (p.vaddr + B ≤ a) && decide (a + 4 ≤ p.vaddr + B + p.memsz))

/-- the linker's symbol table: name ↦ address; `List.lookup` finds the first entry, so appending
    implements "an existing name is kept". -/
abbrev SymTab := List (String × Nat)

def exportedTab (d : ElfDesc) (B : Nat) : SymTab := (exported d B).map (fun s => (s.2, s.1))

def symName (d : ElfDesc) (i : Nat) : Option String := (d.dynsyms[i]?).map (·.name)

/-- one x86 relocation of object `d` at base `B` (elf_linker.rs `relocations_x86`). -/
def relocX86 (d : ElfDesc) (B : Nat) (tab : SymTab) (m : Img) (r : Rel) : Res Img :=
  let site := r.offset + B
  if r.rtype = R_386_32 ∨ r.rtype = R_386_GLOB_DAT ∨ r.rtype = R_386_JMP_SLOT then
    match symName d r.sym with
    | none => .panic                                   -- expect("Unable to resolve relocation symbol")
    | some n =>
      match tab.lookup n with
      | none => if r.rtype = R_386_GLOB_DAT then .ok m else .err .other
      | some v =>
        if site ≥ U64 then .panic
        else if (m site).isNone then .panic            -- set32: "Address … has no section"
        else if !siteOk d B site then .err .other      -- section not big enough
        else .ok (write32 m false site (v % U32))
  else if r.rtype = R_386_RELATIVE then
    if site ≥ U64 then .panic
    else if !siteOk d B site then .err .other          -- get32 answers None
    else match read32 m false site with
      | none => .err .other
      | some v =>
        if B % U32 + v ≥ U32 then .panic                -- `base as u32 + value` with overflow checks
        else .ok (write32 m false site (B % U32 + v))
  else .err .other

def relocsX86 (d : ElfDesc) (B : Nat) (tab : SymTab) (m : Img) : Res Img :=
  (d.relas ++ d.rels ++ d.plt).foldl (fun acc r => acc.bind (fun m => relocX86 d B tab m r)) (.ok m)

def getDyn (d : ElfDesc) (tag : Nat) : Option Nat := d.dyns.lookup tag

/-- add the base to GOT entries `i .. n-1` -/
def mipsGotBase (d : ElfDesc) (B : Nat) (big : Bool) (pltgot : Nat) : Nat → Nat → Img → Res Img
  | 0, _, m => .ok m
  | k + 1, i, m =>
    let a := B + i * 4 + pltgot
    if a ≥ U64 then .panic
    else if !siteOk d B a then .err .other
    else match read32 m big a with
      | none => .err .other
      | some v => mipsGotBase d B big pltgot k (i + 1) (write32 m big a ((v + B % U32) % U32))

/-- external GOT entries: undefined symbols get the linker's address -/
def mipsGotSyms (d : ElfDesc) (B : Nat) (big : Bool) (tab : SymTab) : Nat → Nat → Nat → Img → Res Img
  | 0, _, _, m => .ok m
  | k + 1, i, a, m =>
    match d.dynsyms[i]? with
    | none => .err .other
    | some s =>
      if s.shndx = 0 then
        match tab.lookup s.name with
        | none => .err .other
        | some v =>
          if (m a).isNone then .panic
          else if !siteOk d B a then .err .other
          else mipsGotSyms d B big tab k (i + 1) (a + 4) (write32 m big a (v % U32))
      else mipsGotSyms d B big tab k (i + 1) (a + 4) m

def relocMipsRel (d : ElfDesc) (B : Nat) (big : Bool) (m : Img) (r : Rel) : Res Img :=
  if r.rtype = R_MIPS_REL32 then
    let site := r.offset + B
    if site ≥ U64 then .panic
    else if !siteOk d B site then .err .other
    else match read32 m big site with
      | none => .err .other
      | some v =>
        if v + B % U32 ≥ U32 then .panic
        else .ok (write32 m big site (v + B % U32))
  else .ok m

/-- elf_linker.rs `relocations_mips`. -/
def relocsMips (d : ElfDesc) (B : Nat) (big : Bool) (tab : SymTab) (m : Img) : Res Img :=
  match getDyn d DT_MIPS_LOCAL_GOTNO, getDyn d DT_MIPS_GOTSYM, getDyn d DT_MIPS_SYMTABNO, getDyn d DT_PLTGOT with
  | some localGotno, some gotsym, some symtabno, some pltgot =>
    if symtabno < gotsym then .panic
    else
      (mipsGotBase d B big pltgot (localGotno + (symtabno - gotsym)) 0 m).bind fun m =>
      (mipsGotSyms d B big tab (symtabno - gotsym) gotsym (pltgot + B + localGotno * 4) m).bind fun m =>
      d.rels.foldl (fun acc r => acc.bind (fun m => relocMipsRel d B big m r)) (.ok m)
  | _, _, _, _ => .err .other

def relocs (d : ElfDesc) (B : Nat) (big : Bool) (tab : SymTab) (m : Img) : Res Img :=
  if d.machine = EM_386 then relocsX86 d B tab m
  else if d.machine = EM_MIPS then relocsMips d B big tab m
  else .err .other

/-- later loads are mapped over earlier ones. -/
def overlay (top bottom : Img) : Img := fun a =>
  match top a with
  | some x => some x
  | none => bottom a

/-- The state of an `ElfLinker`.  `placed` lists every placement (object, base) in the order the
    objects were mapped; loading a name again places it again (the `loaded` map of the Rust struct
    keeps the latest placement per name, see `latestByName`). -/
structure LinkState where
  placed : List (ElfDesc × Nat)
  mem : Img
  tab : SymTab
  next : Nat

def LinkState.empty : LinkState := { placed := [], mem := fun _ => none, tab := [], next := DEFAULT_LIB_BASE }

/-- `ElfLinker::load_elf_and_dependencies`, the part that decides WHAT is placed WHERE: the object,
    then (depth first) the DT_NEEDED objects whose names are not placed yet, each at the next library
    base.  The accumulator is (all placements so far, next library address). -/
def planLoad (files : List ElfDesc) :
    Nat → String → Nat → List (ElfDesc × Nat) × Nat → Res (List (ElfDesc × Nat) × Nat)
  | 0, _, _, _ => .err .other
  | fuel + 1, name, B, acc =>
    match files.find? (fun d => d.name == name) with
    | none => .err .other                               -- the file does not exist
    | some d =>
      match arch d with
      | .err e => .err e
      | .panic => .panic
      | .ok _ =>
      match memoryRes d B with
      | .err e => .err e
      | .panic => .panic
      | .ok _ =>
        d.needed.foldl (fun (r : Res (List (ElfDesc × Nat) × Nat)) n => r.bind (fun s =>
            if s.1.any (fun x => x.1.name == n) then .ok s
            else planLoad files fuel n (s.2 + LIB_BASE_STEP) (s.1, s.2 + LIB_BASE_STEP)))
          (.ok (acc.1 ++ [(d, B)], acc.2))

/-- every new placement is mapped over what is there (later on top) -/
def mapAll (newly : List (ElfDesc × Nat)) (m : Img) : Img :=
  newly.foldl (fun m x => overlay (image x.1 x.2) m) m

/-- the exported symbols of the placements, in order (the first definition of a name wins) -/
def globalTab (placed : List (ElfDesc × Nat)) : SymTab :=
  placed.flatMap (fun x => exportedTab x.1 x.2)

/-- each new placement is relocated, in load order, against the same table -/
def relocAll (newly : List (ElfDesc × Nat)) (big : Bool) (tab : SymTab) (m : Img) : Res Img :=
  newly.foldl (fun (acc : Res Img) x => acc.bind (fun m => relocs x.1 x.2 big tab m)) (.ok m)

/-- the second half of `load_elf`: the new placements are mapped, their exported symbols join the
    table (existing names are kept), and they - only they - are relocated, once. -/
def finishLoad (st : LinkState) (newly : List (ElfDesc × Nat)) (next : Nat) (big : Bool) : Res LinkState :=
  let tab1 := st.tab ++ globalTab newly
  (relocAll newly big tab1 (mapAll newly st.mem)).map
    (fun m => { placed := st.placed ++ newly, mem := m, tab := tab1, next := next })

/-- the public `ElfLinker::load_elf(name, base)` (relocations enabled). -/
def callLoad (files : List ElfDesc) (big : Bool) (st : LinkState) (name : String) (B : Nat) : Res LinkState :=
  (planLoad files (files.length + 1) name B (st.placed, st.next)).bind fun r =>
    finishLoad st (r.1.drop st.placed.length) r.2 big

/-- a history of `load_elf` calls on one linker -/
def runCalls (files : List ElfDesc) (big : Bool) : LinkState → List (String × Nat) → Res LinkState
  | st, [] => .ok st
  | st, c :: cs => (callLoad files big st c.1 c.2).bind (fun st' => runCalls files big st' cs)

/-- `ElfLinker::new(main)`: the memory's endianness is the main file's; `load_elf(main, 0)`. -/
def link (files : List ElfDesc) (main : String) : Res LinkState :=
  match files.find? (fun d => d.name == main) with
  | none => .err .other
  | some d0 => callLoad files (d0.enc == .msb) LinkState.empty main 0

/-- the `loaded` map of the Rust struct: the latest placement of every name -/
def latestByName (placed : List (ElfDesc × Nat)) : List (ElfDesc × Nat) :=
  placed.foldl (fun acc x => acc.filter (fun y => y.1.name != x.1.name) ++ [x]) []

/-! ### the definition the property states for linked objects

  All objects are mapped (`placed`: load order with bases), the symbol table is the first definition
  in load order, and every symbol-naming relocation word holds that address. -/

def baseImage : List (ElfDesc × Nat) → Img
  | [] => fun _ => none
  | (d, B) :: rest => overlay (baseImage rest) (image d B)

/-- the relocations of `d` that name a symbol and store its address (x86). -/
def Rel.namesSymbolX86 (r : Rel) : Bool :=
  r.rtype == R_386_32 || r.rtype == R_386_GLOB_DAT || r.rtype == R_386_JMP_SLOT

/-- all x86 relocations of all placed objects, applied over the complete symbol table. -/
def linkSpecX86 (placed : List (ElfDesc × Nat)) : Res Img :=
  let tab := globalTab placed
  placed.foldl (fun acc x => acc.bind (fun m => relocsX86 x.1 x.2 tab m)) (.ok (baseImage placed))

/-- the same for either machine the linker supports (used by the driver's specification column). -/
def linkSpec (placed : List (ElfDesc × Nat)) (big : Bool) : Res Img :=
  let tab := globalTab placed
  placed.foldl (fun acc x => acc.bind (fun m => relocs x.1 x.2 big tab m)) (.ok (baseImage placed))

end Falcon.Elf
