/-
  FalconModel.FixedPoint — the work-list solver of `lib/analysis/fixed_point.rs`
  (`fixed_point_forward_options`, `fixed_point_backward_options`), generic over the type of locations `L`,
  the type of states `S` and a record of the operations the loop uses.

  Literal mirror of the loop body:
    * FIFO queue, `contains` before `push_back` (`pushAll`);
    * the input state is the fold of `join` over the predecessors that already have a state, in the order
      the predecessors are listed (`joinIn`); an `Err` of `join` inside the fold is `unwrap`ped (panic);
    * `partial_cmp` of the new state against the stored one: `Equal` ⇒ `continue`; with `force` the new state
      is joined with the stored one (an `Err` is returned), otherwise `Greater` ⇒ store and
      `Less`/`None` ⇒ `FixedPointOrdering`;
    * the step budget: `steps > max_analysis_steps` is tested at the top of each iteration with a non-empty
      queue, so exactly `max + 1` iterations may run: `fpLoop` is called with `max + 1` units of fuel and
      answers `maxSteps` when it needs more.  The backward solver uses `DEFAULT_MAX_ANALYSIS_STEPS` the same
      way (since the `fix:` commit recorded in known_findings.d/C09.json; before it the loop had no budget and
      ran for ever on a non-monotone analysis with `force`).
  `HashMap<location, State>` is an association list (`alGet`, `alSet`).
-/
import FalconModel.Location

namespace Falcon

/-- outcome of a solver run -/
inductive FPOut (L S : Type) where
  | ok (st : List (L × S))
  | maxSteps                          -- Error::FixedPointMaxSteps
  | ordering (less : Bool) (l : L)    -- Error::FixedPointOrdering("less" | "no relation", location)
  | noRoot                            -- Error::FixedPointRequiresEntry / FixedPointRequiresExit
  | err                               -- any other returned `Err`
  | panic
  deriving Repr, Inhabited, DecidableEq

structure FPParams (L S : Type) where
  /-- where a change of state propagates (forward solver: `forward()`, backward solver: `backward()`) -/
  succs : L → Res (List L)
  /-- whose states are joined (forward solver: `backward()`, backward solver: `forward()`) -/
  preds : L → Res (List L)
  trans : L → Option S → Res S
  join : S → S → Res S
  /-- `new.partial_cmp(old)` -/
  cmp : S → S → Option Ordering

section
variable {L S : Type} [DecidableEq L]

def alGet : List (L × S) → L → Option S
  | [], _ => none
  | (k, v) :: r, l => if k = l then some v else alGet r l

/-- `states.insert(l, s)`: the older entry for `l` (if any) is dropped -/
def alSet (st : List (L × S)) (l : L) (s : S) : List (L × S) :=
  (l, s) :: st.filter (fun kv => decide (kv.1 ≠ l))

/-- `for successor in … { if !queue.contains(&successor) { queue.push_back(successor) } }` -/
def pushAll (q : List L) : List L → List L
  | [] => q
  | s :: ss => pushAll (if s ∈ q then q else q ++ [s]) ss

/-- the fold over the predecessors: states that are present are joined left to right -/
def joinIn (P : FPParams L S) (st : List (L × S)) : List L → Option S → Res (Option S)
  | [], acc => .ok acc
  | p :: ps, acc =>
    match alGet st p with
    | none => joinIn P st ps acc
    | some inS =>
      match acc with
      | none => joinIn P st ps (some inS)
      | some s =>
        match P.join s inS with
        | .ok s' => joinIn P st ps (some s')
        | _ => .panic

inductive StepRes (L S : Type) where
  | done (out : FPOut L S)
  | next (st : List (L × S)) (q : List L)

/-- `states.insert(location, state); for successor in location.forward()? { … }` -/
def fpStore (P : FPParams L S) (st : List (L × S)) (l : L) (q : List L) (s : S) : StepRes L S :=
  match P.succs l with
  | .ok ss => .next (alSet st l s) (pushAll q ss)
  | .err _ => .done .err
  | .panic => .done .panic

/-- one iteration of the `while` loop, `l` being the popped location -/
def fpStep (P : FPParams L S) (force : Bool) (st : List (L × S)) (l : L) (q : List L) : StepRes L S :=
  match P.preds l with
  | .err _ => .done .err
  | .panic => .done .panic
  | .ok ps =>
    match joinIn P st ps none with
    | .err _ => .done .err
    | .panic => .done .panic
    | .ok inS =>
      match P.trans l inS with
      | .err _ => .done .err
      | .panic => .done .panic
      | .ok s =>
        match alGet st l with
        | none => fpStore P st l q s
        | some old =>
          match P.cmp s old with
          | some .eq => .next st q
          | c =>
            if force then
              match P.join s old with
              | .ok s' => fpStore P st l q s'
              | .err _ => .done .err
              | .panic => .done .panic
            else
              match c with
              | some .gt => fpStore P st l q s
              | some .lt => .done (.ordering true l)
              | _ => .done (.ordering false l)

/-- the `while !queue.is_empty()` loop with `fuel` iterations available -/
def fpLoop (P : FPParams L S) (force : Bool) : Nat → List (L × S) → List L → FPOut L S
  | _, st, [] => .ok st
  | 0, _, _ :: _ => .maxSteps
  | n + 1, st, l :: q =>
    match fpStep P force st l q with
    | .done o => o
    | .next st' q' => fpLoop P force n st' q'

/-- successors / predecessors as plain lists (an error has none) -/
def FPParams.succL (P : FPParams L S) (l : L) : List L :=
  match P.succs l with
  | .ok ss => ss
  | _ => []

def FPParams.predL (P : FPParams L S) (l : L) : List L :=
  match P.preds l with
  | .ok ps => ps
  | _ => []

end

/-! ## The two solvers over the location model of C18 -/

/-- a user analysis: `trans(location, Option<State>)`, `join(state0, &state1)`, `partial_cmp` -/
structure Analysis (S : Type) where
  trans : PLoc → Option S → Res S
  join : S → S → Res S
  cmp : S → S → Option Ordering

/-- forward solver: queue and map hold *owned* locations; every iteration starts with
    `location.function_location().apply(function).unwrap()` -/
def fwdParams {S : Type} (f : Function) (A : Analysis S) : FPParams OFLoc S where
  succs o := match o.apply f with
    | .ok l => (l.forward f).map (·.map FLoc.toOwned)
    | _ => .panic
  preds o := match o.apply f with
    | .ok l => (l.backward f).map (·.map FLoc.toOwned)
    | _ => .panic
  trans o s := match o.apply f with
    | .ok l => A.trans ⟨f, l⟩ s
    | _ => .panic
  join := A.join
  cmp := A.cmp

/-- `fixed_point_forward_options(analysis, function, force, max_analysis_steps)` -/
def fixedPointForward {S : Type} (f : Function) (A : Analysis S) (force : Bool) (maxSteps : Nat) : FPOut OFLoc S :=
  match f.cfg.entry with
  | none => .noRoot
  | some en =>
    match f.cfg.block en with
    | none => .err
    | some b => fpLoop (fwdParams f A) force (maxSteps + 1) [] [b.firstLoc.toOwned]

/-- backward solver: queue and map hold `RefProgramLocation`s of the one function -/
def bwdParams {S : Type} (f : Function) (A : Analysis S) : FPParams FLoc S where
  succs l := l.backward f
  preds l := l.forward f
  trans l s := A.trans ⟨f, l⟩ s
  join := A.join
  cmp := A.cmp

/-- `DEFAULT_MAX_ANALYSIS_STEPS` -/
def defaultMaxSteps : Nat := 250000

/-- `fixed_point_backward_options(analysis, function, force)` -/
def fixedPointBackward {S : Type} (f : Function) (A : Analysis S) (force : Bool) : FPOut FLoc S :=
  match f.cfg.exit with
  | none => .noRoot
  | some ex =>
    match f.cfg.block ex with
    | none => .err
    | some b => fpLoop (bwdParams f A) force (defaultMaxSteps + 1) [] [b.lastLoc]

/-! ## Specification side: the least solution by Kleene iteration (an independent algorithm) -/

section
variable {L S : Type} [DecidableEq L]

/-- `trans l (⨆ states of the predecessors)` when everything succeeds -/
def FPParams.recompute (P : FPParams L S) (st : List (L × S)) (l : L) : Option S :=
  match joinIn P st (P.predL l) none with
  | .ok inS =>
    match P.trans l inS with
    | .ok s => some s
    | _ => none
  | _ => none

/-- one Jacobi round over `keys`: every state is recomputed from the previous map -/
def kleeneRound (P : FPParams L S) (keys : List L) (st : List (L × S)) : Option (List (L × S)) :=
  keys.foldr (fun l acc =>
    match acc, P.recompute st l with
    | some r, some s => some ((l, s) :: r)
    | _, _ => none) (some [])

/-- iterate rounds from the empty map until nothing changes -/
def kleene [DecidableEq S] (P : FPParams L S) (keys : List L) : Nat → List (L × S) → Option (List (L × S))
  | 0, _ => none
  | n + 1, st =>
    match kleeneRound P keys st with
    | none => none
    | some st' => if st' = st then some st else kleene P keys n st'

/-- `st` satisfies the data-flow equation at `l`: `st l = trans l (⨆ {st p | p ∈ preds l, p has a state})` -/
def eqnB [DecidableEq S] (P : FPParams L S) (st : List (L × S)) (l : L) : Bool :=
  match P.preds l with
  | .ok ps =>
    match joinIn P st ps none with
    | .ok inS =>
      match P.trans l inS with
      | .ok s => alGet st l == some s
      | _ => false
    | _ => false
  | _ => false

end
end Falcon
