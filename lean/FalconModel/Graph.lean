/-
  FalconModel.Graph — mirror of the container part of `falcon::graph::Graph` (lib/graph/mod.rs):
  the four views `vertices`, `edges`, `successors`, `predecessors` and the editing operations
  `insert_vertex`, `insert_edge`, `remove_edge`, `remove_vertex`, `remove_unreachable_vertices`
  with their error cases.  BTreeMaps/BTreeSets are association lists / lists (order is irrelevant for
  every observable answer; the driver prints everything sorted).  Every `unwrap()`/index of the Rust
  code is an explicit `.panic` here, so "the edits never panic" is a theorem, not a convention.

  The vertex/edge payloads (`V`, `E` type parameters) are not modelled: only indices matter for C11.
-/
import FalconModel.Reach

namespace Falcon.G
open Falcon.Reach

/-- errors of `falcon::graph` as far as they can be told apart from outside -/
inductive GErr where
  | vnf (v : Nat)          -- Error::GraphVertexNotFound(v)
  | enf (h t : Nat)        -- Error::GraphEdgeNotFound(h, t)
  | dup                    -- Error::Custom("duplicate vertex index" / "duplicate edge" / "Graph contains a loop")
  deriving DecidableEq, Repr, Inhabited

def GErr.toString : GErr → String
  | .vnf v => s!"err:vnf:{v}"
  | .enf h t => s!"err:enf:{h}>{t}"
  | .dup => "err:custom"

instance : ToString GErr := ⟨GErr.toString⟩

/-- outcome of a call: value, returned `Err`, or Rust panic -/
inductive GRes (α : Type) where
  | ok (a : α)
  | err (e : GErr)
  | panic
  deriving Repr, Inhabited

abbrev AMap := List (Nat × List Nat)

/-- `BTreeMap::get` -/
def AMap.get (m : AMap) (k : Nat) : Option (List Nat) := List.lookup k m
/-- `BTreeMap::remove` -/
def AMap.del (m : AMap) (k : Nat) : AMap := m.filter (fun e => e.1 ≠ k)
/-- `BTreeMap::insert` (overwrites) -/
def AMap.put (m : AMap) (k : Nat) (s : List Nat) : AMap := (k, s) :: m.del k
/-- `*get_mut(k).unwrap() = f(..)` once the key is known to exist -/
def AMap.upd (m : AMap) (k : Nat) (f : List Nat → List Nat) : AMap :=
  m.map (fun e => if e.1 = k then (e.1, f e.2) else e)

/-- `BTreeSet::insert` -/
def setIns (x : Nat) (s : List Nat) : List Nat := if x ∈ s then s else x :: s
/-- `BTreeSet::remove` -/
def setDel (x : Nat) (s : List Nat) : List Nat := s.filter (fun y => y ≠ x)

/-- keep the last occurrence of every element (hash-set semantics for a list of pairs) -/
def dedupP : List (Nat × Nat) → List (Nat × Nat)
  | [] => []
  | x :: xs => if x ∈ xs then dedupP xs else x :: dedupP xs

structure Graph where
  verts : List Nat
  edges : List (Nat × Nat)
  succ : AMap
  pred : AMap
  deriving Repr, Inhabited

namespace Graph

def empty : Graph := ⟨[], [], [], []⟩

/-- successors of `v` as a set (empty when `v` has no entry) -/
def succOf (g : Graph) (v : Nat) : List Nat := (g.succ.get v).getD []
def predOf (g : Graph) (v : Nat) : List Nat := (g.pred.get v).getD []

/-- every vertex id that occurs anywhere: sizes the fuel of `reach` -/
def univ (g : Graph) : List Nat :=
  g.verts ++ g.succ.flatMap (fun e => e.2) ++ g.pred.flatMap (fun e => e.2)

def hasVertex (g : Graph) (v : Nat) : Bool := decide (v ∈ g.verts)
def hasEdge (g : Graph) (h t : Nat) : Bool := decide ((h, t) ∈ g.edges)

def insertVertex (g : Graph) (v : Nat) : GRes Graph :=
  if v ∈ g.verts then .err .dup
  else .ok { g with verts := v :: g.verts, succ := g.succ.put v [], pred := g.pred.put v [] }

def insertEdge (g : Graph) (h t : Nat) : GRes Graph :=
  if (h, t) ∈ g.edges then .err .dup
  else if h ∉ g.verts then .err (.vnf h)
  else if t ∉ g.verts then .err (.vnf t)
  else match g.succ.get h, g.pred.get t with
    | some _, some _ =>
      .ok { g with edges := (h, t) :: g.edges,
                   succ := g.succ.upd h (setIns t), pred := g.pred.upd t (setIns h) }
    | _, _ => .panic

def removeEdge (g : Graph) (h t : Nat) : GRes Graph :=
  if (h, t) ∉ g.edges then .err (.enf h t)
  else match g.pred.get t, g.succ.get h with
    | some _, some _ =>
      .ok { g with edges := g.edges.filter (fun e => e ≠ (h, t)),
                   pred := g.pred.upd t (setDel h), succ := g.succ.upd h (setDel t) }
    | _, _ => .panic

/-- `for edge in edges { self.remove_edge(edge.0, edge.1)?; }` -/
def removeEdges (g : Graph) : List (Nat × Nat) → GRes Graph
  | [] => .ok g
  | (h, t) :: es =>
    match g.removeEdge h t with
    | .ok g' => removeEdges g' es
    | .err e => .err e
    | .panic => .panic

/-- the edges `remove_vertex` collects in its hash set (a set: a self-loop is listed once) -/
def incident (g : Graph) (v : Nat) : List (Nat × Nat) :=
  dedupP ((g.succOf v).map (fun s => (v, s)) ++ (g.predOf v).map (fun p => (p, v)))

def removeVertex (g : Graph) (v : Nat) : GRes Graph :=
  if v ∉ g.verts then .err (.vnf v)
  else
    let g1 := { g with verts := g.verts.filter (fun x => x ≠ v) }
    match g1.removeEdges (g.incident v) with
    | .ok g2 => .ok { g2 with pred := g2.pred.del v, succ := g2.succ.del v }
    | .err e => .err e
    | .panic => .panic

/-- `reachable_vertices`: `Err` for a missing vertex, panic when a visited vertex has no successor entry -/
def reachableVertices (g : Graph) (r : Nat) : GRes (List Nat) :=
  if r ∉ g.verts then .err (.vnf r)
  else
    let out := reach g.succOf g.univ r
    if out.all (fun v => (g.succ.get v).isSome) then .ok out else .panic

def unreachableVertices (g : Graph) (r : Nat) : GRes (List Nat) :=
  match g.reachableVertices r with
  | .ok out => .ok (g.verts.filter (fun v => v ∉ out))
  | .err e => .err e
  | .panic => .panic

/-- `.for_each(|vertex| self.remove_vertex(*vertex).unwrap())` -/
def removeVertices (g : Graph) : List Nat → GRes Graph
  | [] => .ok g
  | v :: vs =>
    match g.removeVertex v with
    | .ok g' => removeVertices g' vs
    | _ => .panic

def removeUnreachable (g : Graph) (r : Nat) : GRes Graph :=
  match g.unreachableVertices r with
  | .ok us => g.removeVertices us
  | .err e => .err e
  | .panic => .panic

/-! ### the public per-vertex / per-edge queries, as the code answers them from its four maps -/

/-- `vertex(v)` -/
def qVertex (g : Graph) (v : Nat) : GRes Unit := if v ∈ g.verts then .ok () else .err (.vnf v)
/-- `successor_indices(v)`: vertex test, then `self.successors[&v]` (index: panics without the key) -/
def qSuccIdx (g : Graph) (v : Nat) : GRes (List Nat) :=
  if v ∉ g.verts then .err (.vnf v) else match g.succ.get v with | some l => .ok l | none => .panic
def qPredIdx (g : Graph) (v : Nat) : GRes (List Nat) :=
  if v ∉ g.verts then .err (.vnf v) else match g.pred.get v with | some l => .ok l | none => .panic
/-- `successors(v)`: additionally `self.vertices.get(index).unwrap()` for every successor -/
def qSuccessors (g : Graph) (v : Nat) : GRes (List Nat) :=
  if v ∉ g.verts then .err (.vnf v)
  else match g.succ.get v with
    | some l => if l.all (fun s => decide (s ∈ g.verts)) then .ok l else .panic
    | none => .panic
def qPredecessors (g : Graph) (v : Nat) : GRes (List Nat) :=
  if v ∉ g.verts then .err (.vnf v)
  else match g.pred.get v with
    | some l => if l.all (fun s => decide (s ∈ g.verts)) then .ok l else .panic
    | none => .panic
/-- `edges_out(v)`: decided by the *successors* map alone (`.get(&v)…ok_or(GraphVertexNotFound)`),
    each edge fetched by `self.edges[&(v, succ)]` (index: panics when missing) -/
def qEdgesOut (g : Graph) (v : Nat) : GRes (List Nat) :=
  match g.succ.get v with
  | none => .err (.vnf v)
  | some l => if l.all (fun s => decide ((v, s) ∈ g.edges)) then .ok l else .panic
def qEdgesIn (g : Graph) (v : Nat) : GRes (List Nat) :=
  match g.pred.get v with
  | none => .err (.vnf v)
  | some l => if l.all (fun p => decide ((p, v) ∈ g.edges)) then .ok l else .panic
/-- `edge(h, t)` -/
def qEdge (g : Graph) (h t : Nat) : GRes Unit := if (h, t) ∈ g.edges then .ok () else .err (.enf h t)

/-- the successor/predecessor maps describe exactly the edge set, and have exactly the keys `W` -/
structure Core (W : List Nat) (g : Graph) : Prop where
  enodup : g.edges.Nodup
  succ_dom : ∀ v, v ∈ W ↔ (g.succ.get v).isSome = true
  pred_dom : ∀ v, v ∈ W ↔ (g.pred.get v).isSome = true
  succ_eq : ∀ h t, t ∈ g.succOf h ↔ (h, t) ∈ g.edges
  pred_eq : ∀ h t, h ∈ g.predOf t ↔ (h, t) ∈ g.edges

/-- the four views agree (what the property calls "mutually consistent"): no duplicate vertex or edge,
    the successor and predecessor maps have exactly the vertices as keys, `t ∈ successors[h]` iff
    `(h, t)` is an edge iff `h ∈ predecessors[t]`; hence (theorem `Consistent.edges_in`) every edge
    joins two vertices of the graph -/
structure Consistent (g : Graph) : Prop where
  vnodup : g.verts.Nodup
  core : Core g.verts g

end Graph

/-- an editing operation of the public API -/
inductive Op where
  | iv (v : Nat) | ie (h t : Nat) | re (h t : Nat) | rv (v : Nat) | ru (r : Nat)
  deriving Repr, DecidableEq

def Op.apply (g : Graph) : Op → GRes Graph
  | .iv v => g.insertVertex v
  | .ie h t => g.insertEdge h t
  | .re h t => g.removeEdge h t
  | .rv v => g.removeVertex v
  | .ru r => g.removeUnreachable r

/-- run a history; a failing operation (Err) leaves the graph unchanged, as the harness does with the
    real code (falcon's failing edits return before mutating when the graph is consistent);
    `none` = a panic happened -/
def runOps (g : Graph) : List Op → Option Graph
  | [] => some g
  | op :: ops =>
    match op.apply g with
    | .ok g' => runOps g' ops
    | .err _ => runOps g ops
    | .panic => none

/-! ### The specification side of the container: a graph is a set of vertices and a set of edges -/

structure SGraph where
  V : List Nat
  E : List (Nat × Nat)
  deriving Repr, Inhabited

namespace SGraph
def empty : SGraph := ⟨[], []⟩
def succOf (s : SGraph) (v : Nat) : List Nat := (s.E.filter (fun e => e.1 = v)).map (fun e => e.2)
def predOf (s : SGraph) (v : Nat) : List Nat := (s.E.filter (fun e => e.2 = v)).map (fun e => e.1)
def univ (s : SGraph) : List Nat := s.V ++ s.E.map (fun e => e.1) ++ s.E.map (fun e => e.2)

def apply (s : SGraph) : Op → GRes SGraph
  | .iv v => if v ∈ s.V then .err .dup else .ok { s with V := v :: s.V }
  | .ie h t =>
    if (h, t) ∈ s.E then .err .dup
    else if h ∉ s.V then .err (.vnf h)
    else if t ∉ s.V then .err (.vnf t)
    else .ok { s with E := (h, t) :: s.E }
  | .re h t => if (h, t) ∉ s.E then .err (.enf h t) else .ok { s with E := s.E.filter (fun e => e ≠ (h, t)) }
  | .rv v =>
    if v ∉ s.V then .err (.vnf v)
    else .ok ⟨s.V.filter (fun x => x ≠ v), s.E.filter (fun e => e.1 ≠ v ∧ e.2 ≠ v)⟩
  | .ru r =>
    if r ∉ s.V then .err (.vnf r)
    else
      let out := reach s.succOf s.univ r
      .ok ⟨s.V.filter (fun x => x ∈ out), s.E.filter (fun e => e.1 ∈ out ∧ e.2 ∈ out)⟩
end SGraph

/-- the abstract graph a consistent container represents -/
def Graph.abs (g : Graph) : SGraph := ⟨g.verts, g.edges⟩

end Falcon.G
