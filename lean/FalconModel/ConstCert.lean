/-
  FalconModel.ConstCert — the certificate checker for property C13 (constant propagation,
  `lib/analysis/constants.rs`) and the model of `Constants::eval`.

  falcon's `constants(&function)` returns, for every location it visited, the abstract state *before* that
  location executes (the out-states of the fixed point are re-mapped through `backward()`), a map
  scalar ↦ `Top | Constant(c)`; a scalar that no path to the location has assigned has no entry.

  The checker does not re-run the analysis.  It takes the reported map `R` (with, per location, a set
  `must` of names that are certainly assigned there — a certificate computed by unverified code in the
  driver and only *checked* here) and accepts when `R` is closed under the checker's own abstract step
  along every edge of the location graph:

      entry:  every location of the entry point is in `R` and has `must = []`
      l → l': `R l = some F`  ⇒  `R l' = some F'` and `absStep (operation at l) F ⊑ F'`

  The meaning of a fact `F` at a location, for a concrete state `σ` and the list `A` of names the function
  has assigned so far on this execution (`Describes F σ A`):
      · every name of `F.must` is in `A`;                      (definitely assigned)
      · every name of `A` has an entry in `F.vals`;             (absent = assigned on no path)
      · `F.vals x = const c` and `x ∈ A`  ⇒  `σ x = c`.        (the property's claim)
  `FalconProofs/Props/C13.lean` proves `constCheck f R = true → ` the claim for every run from the entry.

  Names, not (name, width) pairs, are the keys: falcon's executor state is keyed by name, the generated
  functions use one width per name, and the driver refuses anything else as outside the domain.
-/
import FalconModel.Exec

namespace Falcon
namespace ConstCert

/-- `il::FunctionLocation` -/
inductive Loc where
  | instr (block index : Nat)
  | edge (head tail : Nat)
  | empty (block : Nat)
  deriving DecidableEq, Repr, Inhabited

def Loc.str : Loc → String
  | .instr b i => s!"i:{b}:{i}"
  | .edge h t => s!"e:{h}:{t}"
  | .empty b => s!"b:{b}"

/-- the analysis' lattice value (falcon's `Bottom` is never produced) -/
inductive AVal where
  | top
  | const (c : Const)
  deriving DecidableEq, Repr, Inhabited

abbrev AState := List (String × AVal)

namespace AState

/-- first entry with that name -/
def get : AState → String → Option AVal
  | [], _ => none
  | (k, v) :: rest, x => if x = k then some v else get rest x

/-- shadowing update -/
def set (s : AState) (x : String) (v : AVal) : AState := (x, v) :: s

/-- `Constants::top`: every existing entry becomes `Top` -/
def topAll (s : AState) : AState := s.map (fun p => (p.1, AVal.top))

def setTop (s : AState) (xs : List String) : AState := xs.foldl (fun s x => set s x .top) s

end AState

/-- what is claimed before a location executes -/
structure Fact where
  vals : AState := []
  must : List String := []
  deriving Repr, Inhabited

abbrev Report := Loc → Option Fact

/-- the known constants of the names of `e`, as an executor state -/
def envOf (F : Fact) (e : Expr) : State :=
  { scalars := e.scalars.filterMap (fun s =>
      match F.vals.get s.name with
      | some (.const c) => some (s.name, c)
      | _ => none) }

/-- every scalar of `e` is certainly assigned and reported constant -/
def allKnown (F : Fact) (e : Expr) : Bool :=
  e.scalars.all (fun s => F.must.contains s.name &&
    match F.vals.get s.name with
    | some (.const _) => true
    | _ => false)

/-- value of an assignment's source under the known constants: the executor's own `symbolize_and_eval`
    on the state that holds exactly those constants -/
def absEval (F : Fact) (e : Expr) : AVal :=
  if allKnown F e then
    match (envOf F e).evalIn e with
    | .ok c => .const c
    | _ => .top
  else .top

def scalarNames (es : List Expr) : List String := (es.flatMap Expr.scalars).map (·.name)

/-- the checker's abstract step -/
def absStep (op : Op) (F : Fact) : Fact :=
  match op with
  | .assign dst src => { vals := F.vals.set dst.name (absEval F src), must := dst.name :: F.must }
  | .load dst _ => { vals := F.vals.set dst.name .top, must := dst.name :: F.must }
  | .store _ _ => F
  | .nop => F
  | .branch _ => { F with vals := F.vals.topAll }
  | .intrinsic i =>
    match i.written with
    | some ws => { F with vals := F.vals.setTop (scalarNames ws) }
    | none => { F with vals := F.vals.topAll }

/-- `F1 ⊑ F2`: everything `F2` claims follows from `F1` -/
def le (F1 F2 : Fact) : Bool :=
  F2.must.all (fun x => F1.must.contains x) &&
  F1.vals.all (fun p => (F2.vals.get p.1).isSome) &&
  F2.vals.all (fun p =>
    match p.2 with
    | .top => true
    | .const c =>
      match F1.vals.get p.1 with
      | none => true
      | some v => v == .const c)

def flows (F : Fact) (R : Report) (l' : Loc) : Bool :=
  match R l' with
  | none => false
  | some F' => le F F'

/-- the locations whose claims hold at the configuration (block, position):
    the instruction there; the empty block; or, at the end of a non-empty block, its out-edges -/
def primary (f : Function) (bk : Block) (pos : Nat) : List Loc :=
  match bk.instrs[pos]? with
  | some i => [.instr bk.index i.index]
  | none =>
    if bk.instrs.isEmpty then [.empty bk.index]
    else (f.cfg.edgesOut bk.index).map (fun e => .edge bk.index e.tail)

def entryOk (f : Function) (R : Report) : Bool :=
  match f.cfg.entry with
  | none => true
  | some e =>
    match f.block e with
    | none => true
    | some bk => (primary f bk 0).all (fun l =>
        match R l with
        | some F => F.must.isEmpty
        | none => false)

def instrOk (f : Function) (R : Report) (bk : Block) (pos : Nat) : Bool :=
  match bk.instrs[pos]? with
  | none => true
  | some i =>
    match R (.instr bk.index i.index) with
    | none => true
    | some F => (primary f bk (pos + 1)).all (flows (absStep i.op F) R)

def emptyOk (f : Function) (R : Report) (bk : Block) : Bool :=
  if bk.instrs.isEmpty then
    match R (.empty bk.index) with
    | none => true
    | some F => (f.cfg.edgesOut bk.index).all (fun e => flows F R (.edge bk.index e.tail))
  else true

def edgeOk (f : Function) (R : Report) (bk : Block) (e : Edge) : Bool :=
  match R (.edge bk.index e.tail) with
  | none => true
  | some F =>
    match f.block e.tail with
    | none => true
    | some tb => (primary f tb 0).all (flows F R)

def blockOk (f : Function) (R : Report) (bk : Block) : Bool :=
  (List.range bk.instrs.length).all (instrOk f R bk) &&
  emptyOk f R bk &&
  (f.cfg.edgesOut bk.index).all (edgeOk f R bk)

/-- the verified checker -/
def constCheck (f : Function) (R : Report) : Bool :=
  entryOk f R && f.cfg.blocks.all (blockOk f R)

/-- names written by an operation that falls through (what "the function itself has assigned") -/
def opWrites : Op → List String
  | .assign dst _ => [dst.name]
  | .load dst _ => [dst.name]
  | _ => []

/-- names assigned by the step taken from configuration `c` -/
def writesAt (f : Function) (c : Config) : List String :=
  match f.block c.block with
  | none => []
  | some bk =>
    match bk.instrs[c.pos]? with
    | some i => opWrites i.op
    | none => []

/-- runs inside `f` annotated with the names the function has assigned so far -/
inductive ARun (f : Function) : Config → Config → List String → Prop where
  | refl (c : Config) : ARun f c c []
  | step {a b c : Config} {A : List String} : ARun f a b A → FStep f b c → ARun f a c (writesAt f b ++ A)

/-- the execution is about to execute location `l` -/
inductive AtLoc (f : Function) (c : Config) : Loc → Prop where
  | instr {bk : Block} {i : Instr} :
      f.block c.block = some bk → bk.instrs[c.pos]? = some i → AtLoc f c (.instr c.block i.index)
  | empty {bk : Block} :
      f.block c.block = some bk → bk.instrs = [] → c.pos = 0 → AtLoc f c (.empty c.block)
  | edge {bk : Block} {e : Edge} :
      f.block c.block = some bk → c.pos = bk.instrs.length → e ∈ f.cfg.edgesOut c.block →
      guardHolds c.state e.cond → AtLoc f c (.edge c.block e.tail)

/-- the meaning of a fact -/
structure Describes (F : Fact) (σ : State) (A : List String) : Prop where
  must : ∀ x, x ∈ F.must → x ∈ A
  dom : ∀ x, x ∈ A → (F.vals.get x).isSome = true
  vals : ∀ x c, F.vals.get x = some (.const c) → x ∈ A → σ.get x = some c

-- ------------------------------------------------------------------ model of `Constants::eval`

/-- every node passes the sort check of its smart constructor (`Expression::add …`) -/
def wfExpr : Expr → Bool
  | .scalar _ => true
  | .const _ => true
  | .bin op l r => wfExpr l && wfExpr r && (Expr.mkBin op l r).isOk
  | .ext op b e => wfExpr e && (Expr.mkExt op b e).isOk
  | .ite c t e => wfExpr c && wfExpr t && wfExpr e && (Expr.mkIte c t e).isOk

/-- the `try_fold` of `Constants::eval`: one `replace_scalar` per occurrence listed by `scalars()`;
    `none` = decline: a scalar without a known constant, or (since the repair; it was an `unwrap` panic) a
    rebuild that fails its sort check -/
def substKnown (vals : AState) : List Scalar → Expr → Res (Option Expr)
  | [], e => .ok (some e)
  | s :: rest, e =>
    match vals.get s.name with
    | some (.const c) =>
      match Expr.replaceScalar s (.const c) e with
      | .ok e' => substKnown vals rest e'
      | _ => .ok none
    | _ => .ok none

/-- `Constants::eval` -/
def constEval (vals : AState) (e : Expr) : Res (Option Const) :=
  match substKnown vals e.scalars e with
  | .ok (some e') =>
    match e'.eval with
    | .ok c => .ok (some c)
    | _ => .ok none
  | .ok none => .ok none
  | .err x => .err x
  | .panic => .panic

-- ------------------------------------------------------------------ unverified helpers for the driver

def dedup (xs : List String) : List String := xs.foldl (fun acc x => if acc.contains x then acc else acc ++ [x]) []

def inter (a b : List String) : List String := a.filter (b.contains ·)

/-- all locations of a function with the operation executed there (`none` for edges and empty blocks) -/
def allLocs (f : Function) : List (Loc × Option Op) :=
  f.cfg.blocks.flatMap (fun bk =>
    (if bk.instrs.isEmpty then [(Loc.empty bk.index, none)]
     else bk.instrs.map (fun i => (Loc.instr bk.index i.index, some i.op))) ++
    (f.cfg.edgesOut bk.index).map (fun e => (Loc.edge bk.index e.tail, none)))

/-- the flow relation the checker walks: (l, operation at l, l') -/
def flowEdges (f : Function) : List (Loc × Option Op × Loc) :=
  f.cfg.blocks.flatMap (fun bk =>
    ((List.range bk.instrs.length).flatMap (fun pos =>
      match bk.instrs[pos]? with
      | none => []
      | some i => (primary f bk (pos + 1)).map (fun l' => (Loc.instr bk.index i.index, some i.op, l')))) ++
    (if bk.instrs.isEmpty then
      (f.cfg.edgesOut bk.index).map (fun e => (Loc.empty bk.index, none, Loc.edge bk.index e.tail))
     else []) ++
    (f.cfg.edgesOut bk.index).flatMap (fun e =>
      match f.block e.tail with
      | none => []
      | some tb => (primary f tb 0).map (fun l' => (Loc.edge bk.index e.tail, none, l'))))

def entryLocs (f : Function) : List Loc :=
  match f.cfg.entry with
  | none => []
  | some e =>
    match f.block e with
    | none => []
    | some bk => primary f bk 0

abbrev MustMap := List (Loc × Option (List String))   -- `none` = ⊤ (not reached yet)

def MustMap.get (m : MustMap) (l : Loc) : Option (List String) :=
  match m.find? (fun p => p.1 == l) with
  | some p => p.2
  | none => none

def writesOfOp : Option Op → List String
  | some op => opWrites op
  | none => []

/-- one round of the must-assigned propagation (intersection over predecessors) -/
def mustRound (flows : List (Loc × Option Op × Loc)) (m : MustMap) : MustMap :=
  flows.foldl (fun m (l, op, l') =>
    match m.get l with
    | none => m
    | some a =>
      let out := dedup (writesOfOp op ++ a)
      m.map (fun p =>
        if p.1 == l' then
          match p.2 with
          | none => (p.1, some out)
          | some b => (p.1, some (inter b out))
        else p)) m

def mustSize (m : MustMap) : Nat :=
  m.foldl (fun n p => match p.2 with | none => n + 1000 | some a => n + a.length) 0

def mustIter (flows : List (Loc × Option Op × Loc)) : Nat → MustMap → MustMap
  | 0, m => m
  | k + 1, m =>
    let m' := mustRound flows m
    if mustSize m' == mustSize m then m' else mustIter flows k m'

/-- names certainly assigned before each location reachable in the location graph; `none` = unreachable -/
def mustAssigned (f : Function) : MustMap :=
  let locs := (allLocs f).map (·.1)
  let ent := entryLocs f
  let init : MustMap := locs.map (fun l => (l, if ent.contains l then some [] else none))
  mustIter (flowEdges f) (locs.length * 40 + 10) init

/-- scalars read when the location executes (an intrinsic's undeclared reads count as none) -/
def readsAt (f : Function) : Loc → List String
  | .instr b i =>
    match (f.block b).bind (·.instruction i) with
    | some ins => ((ins.op.scalarsRead).getD []).map (·.name)
    | none => []
  | .edge h t =>
    match f.cfg.edge h t with
    | some e => match e.cond with
      | some g => g.scalars.map (·.name)
      | none => []
    | none => []
  | .empty _ => []

/-- the premise of the completion clause: no location reachable in the location graph reads a scalar
    that is not certainly assigned before it -/
def noReadBeforeAssign (f : Function) (m : MustMap) : Bool :=
  m.all (fun p =>
    match p.2 with
    | none => true
    | some a => (readsAt f p.1).all (a.contains ·))

end ConstCert
end Falcon
