/-
  FalconModel.GraphAlg — *definitional* executable models of the graph algorithms of
  `falcon::graph::Graph` (pattern P2 of DESIGN §5) and verified *checkers* for the order-valued
  functions (pattern P3).

  A graph is a vertex list `V` and an edge list `E : List (Nat × Nat)` (head, tail) = (source, target).
  Everything is built on the one verified reachability function `Falcon.Reach.reach`:

    dominates V E r d v   v is reachable from r and not reachable once d is deleted
    doms / idom / domTree / frontier / backEdges / loopNodes / loops / loopTree
    reducible, acyclic, hasCycle, tpreds
    checkers: isTopo, dfsReplay / isPreorder / isPostorder, checkAcyclicGraph

  The theorems saying that each of them IS the textbook (path-based) object are in
  FalconProofs/Props/C11.lean.  The definitions are parametrised by the pieces they share (`R` the
  reachable set, `dom` the dominance relation) so that the driver evaluates those once per request
  (`analyse`); `analyse_*` theorems tie the shared evaluation to the plain definitions.
  core Lean only.
-/
import FalconModel.Graph

namespace Falcon.GA
open Falcon.Reach Falcon.G

abbrev EL := List (Nat × Nat)

def succE (E : EL) (u : Nat) : List Nat := (E.filter (fun e => e.1 = u)).map (fun e => e.2)
def predE (E : EL) (v : Nat) : List Nat := (E.filter (fun e => e.2 = v)).map (fun e => e.1)
def univE (V : List Nat) (E : EL) : List Nat := V ++ E.map (fun e => e.1) ++ E.map (fun e => e.2)
/-- all edges reversed -/
def revE (E : EL) : EL := E.map (fun e => (e.2, e.1))
/-- the graph with vertex `d` deleted -/
def avoidE (E : EL) (d : Nat) : EL := E.filter (fun e => e.1 ≠ d ∧ e.2 ≠ d)

/-- vertices reachable from `r` -/
def reachE (V : List Nat) (E : EL) (r : Nat) : List Nat := reach (succE E) (univE V E) r

/-- vertices reachable from `r` without ever touching `d` (empty when `r = d`) -/
def reachAvoid (V : List Nat) (E : EL) (r d : Nat) : List Nat :=
  if r = d then [] else reach (succE (avoidE E d)) (univE V E) r

/-- `d` dominates `v` (w.r.t. root `r`): `v` is reachable, and unreachable once `d` is deleted -/
def dominates (V : List Nat) (E : EL) (r d v : Nat) : Bool :=
  decide (v ∈ reachE V E r) && !decide (v ∈ reachAvoid V E r d)

/-! #### objects derived from a reachable set `R` and a dominance relation `dom` -/

def sdomOf (dom : Nat → Nat → Bool) (d v : Nat) : Bool := decide (d ≠ v) && dom d v

/-- the dominators of `v` -/
def domsOf (R : List Nat) (dom : Nat → Nat → Bool) (v : Nat) : List Nat := R.filter (fun d => dom d v)

/-- the immediate dominator: the strict dominator that every strict dominator dominates -/
def idomOf (R : List Nat) (dom : Nat → Nat → Bool) (v : Nat) : Option Nat :=
  (R.filter (fun d => sdomOf dom d v)).find?
    (fun d => (R.filter (fun e => sdomOf dom e v)).all (fun e => dom e d))

/-- edges (idom v, v) -/
def domTreeOf (R : List Nat) (dom : Nat → Nat → Bool) : EL :=
  R.filterMap (fun v => (idomOf R dom v).map (fun d => (d, v)))

/-- dominance frontier of `n`: `w` with a predecessor dominated by `n`, not strictly dominated by `n` -/
def frontierOf (E : EL) (R : List Nat) (dom : Nat → Nat → Bool) (n : Nat) : List Nat :=
  R.filter (fun w => (predE E w).any (fun p => dom n p) && !sdomOf dom n w)

/-- back edges: edges (t, h) whose target dominates their source -/
def backEdgesOf (E : EL) (dom : Nat → Nat → Bool) : EL := E.filter (fun e => dom e.2 e.1)

def dedup : List Nat → List Nat
  | [] => []
  | x :: xs => if x ∈ xs then dedup xs else x :: dedup xs

def headersOf (E : EL) (dom : Nat → Nat → Bool) : List Nat := dedup ((backEdgesOf E dom).map (fun e => e.2))

/-- natural loop of header `h`: `h` and the reachable vertices that reach a back-edge source of `h`
    without passing through `h` -/
def loopNodesOf (V : List Nat) (E : EL) (R : List Nat) (dom : Nat → Nat → Bool) (h : Nat) : List Nat :=
  let tails := ((backEdgesOf E dom).filter (fun e => e.2 = h)).map (fun e => e.1)
  let back := reachL (succE (revE (avoidE E h))) (univE V E) tails
  h :: R.filter (fun v => decide (v ≠ h) && decide (v ∈ back))

def loopsOf (V : List Nat) (E : EL) (R : List Nat) (dom : Nat → Nat → Bool) : List (Nat × List Nat) :=
  (headersOf E dom).map (fun h => (h, loopNodesOf V E R dom h))

/-- loop nesting (`Loop::is_nesting`): (h1, h2) with h1 ≠ h2 and h2 inside the loop of h1 -/
def loopTreeOf (ls : List (Nat × List Nat)) : EL :=
  ls.flatMap (fun l1 => (ls.filter (fun l2 => decide (l1.1 ≠ l2.1) && decide (l2.1 ∈ l1.2))).map (fun l2 => (l1.1, l2.1)))

/-- no vertex of `R` lies on a cycle of `E` (`rs s` = vertices reachable from `s`) -/
def acyclicOf (E : EL) (R : List Nat) (rs : Nat → List Nat) : Bool :=
  R.all (fun v => (succE E v).all (fun s => !decide (v ∈ rs s)))

/-- transitive predecessors of `v`: vertices with a path of length ≥ 1 to `v` -/
def tpredsOf (V : List Nat) (E : EL) (rs : Nat → List Nat) (v : Nat) : List Nat :=
  (univE V E).filter (fun u => (succE E u).any (fun s => decide (v ∈ rs s)))

/-! #### the plain definitional models -/

def doms (V : List Nat) (E : EL) (r v : Nat) : List Nat := domsOf (reachE V E r) (dominates V E r) v
def idom (V : List Nat) (E : EL) (r v : Nat) : Option Nat := idomOf (reachE V E r) (dominates V E r) v
def domTree (V : List Nat) (E : EL) (r : Nat) : EL := domTreeOf (reachE V E r) (dominates V E r)
def frontier (V : List Nat) (E : EL) (r n : Nat) : List Nat := frontierOf E (reachE V E r) (dominates V E r) n
def backEdges (V : List Nat) (E : EL) (r : Nat) : EL := backEdgesOf E (dominates V E r)
def loopNodes (V : List Nat) (E : EL) (r h : Nat) : List Nat := loopNodesOf V E (reachE V E r) (dominates V E r) h
def loops (V : List Nat) (E : EL) (r : Nat) : List (Nat × List Nat) := loopsOf V E (reachE V E r) (dominates V E r)
def loopTree (V : List Nat) (E : EL) (r : Nat) : EL := loopTreeOf (loops V E r)
/-- no cycle through a vertex reachable from `r` -/
def acyclic (V : List Nat) (E : EL) (r : Nat) : Bool := acyclicOf E (reachE V E r) (reachE V E)
/-- the graph without its back edges -/
def fwdEdges (V : List Nat) (E : EL) (r : Nat) : EL := E.filter (fun e => !dominates V E r e.2 e.1)
/-- reducible: the forward-edge graph has no cycle through a vertex reachable from `r` -/
def reducible (V : List Nat) (E : EL) (r : Nat) : Bool :=
  acyclicOf (fwdEdges V E r) (reachE V E r) (reachE V (fwdEdges V E r))
def tpreds (V : List Nat) (E : EL) (v : Nat) : List Nat := tpredsOf V E (reachE V E) v
/-- some cycle anywhere in the graph -/
def hasCycle (V : List Nat) (E : EL) : Bool := !acyclicOf E (univE V E) (reachE V E)

/-! #### checkers for the order-valued functions -/

/-- `xs` is a topological order of (V, E): a duplicate-free listing of exactly `V` in which every edge
    goes forward -/
def isTopo (V : List Nat) (E : EL) (xs : List Nat) : Bool :=
  decide xs.Nodup && V.all (fun v => decide (v ∈ xs)) && xs.all (fun x => decide (x ∈ V))
    && E.all (fun e => decide (xs.idxOf e.1 < xs.idxOf e.2))

/-- pop finished vertices off the DFS stack until the top has an edge to `x`;
    a popped vertex must have no unvisited successor.  Returns the new stack and post list. -/
def popUntil (succ : Nat → List Nat) (x : Nat) (vis : List Nat) : List Nat → List Nat → Option (List Nat × List Nat)
  | [], _ => none
  | u :: stk, post =>
    if x ∈ succ u then some (u :: stk, post)
    else if (succ u).all (fun s => decide (s ∈ vis)) then popUntil succ x vis stk (post ++ [u])
    else none

/-- pop everything at the end: every vertex on the stack must be finished -/
def popAll (succ : Nat → List Nat) (vis : List Nat) : List Nat → List Nat → Option (List Nat)
  | [], post => some post
  | u :: stk, post =>
    if (succ u).all (fun s => decide (s ∈ vis)) then popAll succ vis stk (post ++ [u]) else none

/-- replay a depth-first search that discovers the vertices in the order `pre`;
    returns the post order of that search, `none` if no depth-first search discovers in this order -/
def dfsGo (succ : Nat → List Nat) : List Nat → List Nat → List Nat → List Nat → Option (List Nat)
  | [], stk, vis, post => popAll succ vis stk post
  | x :: rest, stk, vis, post =>
    if x ∈ vis then none
    else match popUntil succ x vis stk post with
      | none => none
      | some (stk', post') => dfsGo succ rest (x :: stk') (x :: vis) post'

def dfsReplay (succ : Nat → List Nat) (r : Nat) : List Nat → Option (List Nat)
  | [] => none
  | x :: rest => if x = r then dfsGo succ rest [r] [r] [] else none

def sameSet (xs ys : List Nat) : Bool := xs.all (fun x => decide (x ∈ ys)) && ys.all (fun y => decide (y ∈ xs))

/-- `pre` is the discovery order of a depth-first search from `r` -/
def isPreorder (V : List Nat) (E : EL) (r : Nat) (pre : List Nat) : Bool :=
  (dfsReplay (succE E) r pre).isSome && decide pre.Nodup && sameSet pre (reachE V E r)

/-- `post` is the finishing order of the depth-first search whose discovery order is the certificate `pre` -/
def isPostorderWith (V : List Nat) (E : EL) (r : Nat) (pre post : List Nat) : Bool :=
  (dfsReplay (succE E) r pre == some post) && decide post.Nodup && sameSet post (reachE V E r)

/-- what `compute_acyclic` promises: same vertices, a duplicate-free subset of the edges, no cycle,
    the same set reachable from `r` -/
def checkAcyclicGraph (V : List Nat) (E : EL) (r : Nat) (V' : List Nat) (E' : EL) : Bool :=
  sameSet V' V && decide E'.Nodup && E'.all (fun e => decide (e ∈ E)) && !hasCycle V E'
    && sameSet (reachE V E' r) (reachE V E r)

/-! #### certificate search (unverified; its results are only ever *checked* by the functions above) -/

/-- recursive depth-first search, successors in the order given by `ord`; returns (visited, pre, post) -/
def dfsRec (succ : Nat → List Nat) (ord : List Nat → List Nat) :
    Nat → Nat → (List Nat × List Nat × List Nat) → (List Nat × List Nat × List Nat)
  | 0, _, st => st
  | fuel + 1, v, (vis, pre, post) =>
    if v ∈ vis then (vis, pre, post)
    else
      let st := (ord (succ v)).foldl (fun st s => dfsRec succ ord fuel s st) (v :: vis, pre ++ [v], post)
      (st.1, st.2.1, st.2.2 ++ [v])

def insertSorted (x : Nat) : List Nat → List Nat
  | [] => [x]
  | y :: ys => if x ≤ y then x :: y :: ys else y :: insertSorted x ys
def sortAsc (xs : List Nat) : List Nat := xs.foldr insertSorted []

/-- candidate discovery orders tried as certificates for a post order -/
def preCandidates (V : List Nat) (E : EL) (r : Nat) : List (List Nat) :=
  let n := (univE V E).length + 1
  [ (dfsRec (succE E) sortAsc n r ([], [], [])).2.1,
    (dfsRec (succE E) (fun l => (sortAsc l).reverse) n r ([], [], [])).2.1,
    (dfsRec (succE E) id n r ([], [], [])).2.1 ]

def isPostorder (V : List Nat) (E : EL) (r : Nat) (post : List Nat) : Bool :=
  (preCandidates V E r).any (fun pre => isPostorderWith V E r pre post)

/-! #### shared evaluation for the driver -/

structure Analysis where
  R : List Nat
  dom : Nat → Nat → Bool
  rs : Nat → List Nat

def analyse (V : List Nat) (E : EL) (r : Nat) : Analysis :=
  let U := dedup (univE V E)
  let R := reachE V E r
  let avTab := mkTab (reachAvoid V E r) U
  let rsTab := mkTab (reachE V E) U
  { R := R
    dom := fun d v => decide (v ∈ R) && !decide (v ∈ tabGet avTab (reachAvoid V E r) d)
    rs := fun s => tabGet rsTab (reachE V E) s }

end Falcon.GA
