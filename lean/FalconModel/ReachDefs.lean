/-
  FalconModel.ReachDefs — property C12: reaching definitions, use-def and def-use chains.

  Pattern P2 (DESIGN §5): nothing here mirrors falcon's work-list algorithm.  The file contains

  * the *location graph* of a function: the successor relation between program locations exactly as
    `RefFunctionLocation::forward` (lib/il/location.rs) induces it — an instruction is followed by the next
    instruction of its block, the last instruction / an empty block by the out-edges of the block, an edge by
    the first instruction of its tail block (or by the empty-block location);
  * a small reachability function `reach` on any finite graph given by a successor function
    (`reach_spec`, proved in FalconProofs/C12/Reach.lean: if it answers, the answer is the set of `Reaches`);
  * the definitional sets of the property, computed with `reach` on the location graph with the killing
    locations deleted:
      `mustInclude T f l x`  writers of `x` (assign, load, intrinsic declaring `x` written) that are reachable
                            from the entry and reach `l` along a path on which nothing after them writes `x`;
      `mayInclude T f l x`   assignments / loads of `x` that reach `l` along a path without an intervening
                            assignment / load of `x`;
      `useDefMust T f u`     for every scalar read by `u`, `mustInclude` at the predecessors of `u`;
    (`T : Tables` holds the reachability sets, computed once per function by `tables f`);
  * the specification side: which locations a run of `FStep` (FalconModel/Exec.lean) executes (`FRunT`, a run
    together with its trace of locations; `frunT_iff` in Props/C12 shows it is `FRun` with a trace attached),
    `lastWriter`, and the checks the driver runs on falcon's three outputs.

  A location is `instr b p` (block index, POSITION in the block's instruction list), `edge h t`, `empty b`.
  falcon names an instruction by (block index, instruction index); the driver translates with
  `Block.instrs[p].index`, a bijection when the instruction indices of a block are distinct (which the
  driver checks and falcon's constructors maintain).

  Scalars are compared as falcon compares them (`Scalar: PartialEq` = name, width and SSA version).
-/
import FalconModel.Exec

namespace Falcon
namespace RD

/-! ## reachability on a graph given by a successor function -/

section Reach
variable {α : Type} [DecidableEq α]

def insertNew (acc : List α) (b : α) : List α := if b ∈ acc then acc else b :: acc

/-- every successor of a member is a member -/
def closed (succ : α → List α) (vis : List α) : Bool := vis.all (fun a => (succ a).all (fun b => decide (b ∈ vis)))

/-- one closure round -/
def grow (succ : α → List α) (vis : List α) : List α := (vis.flatMap succ).foldl insertNew vis

/-- closure rounds until closed; `none` when the fuel runs out (never an answer) -/
def reach (succ : α → List α) : Nat → List α → Option (List α)
  | 0, vis => if closed succ vis then some vis else none
  | n + 1, vis => if closed succ vis then some vis else reach succ n (grow succ vis)

/-- the textbook definition: `b` is reachable from `a` by following successors (zero or more steps) -/
inductive Reaches (succ : α → List α) : α → α → Prop where
  | refl (a : α) : Reaches succ a a
  | tail {a b c : α} : Reaches succ a b → c ∈ succ b → Reaches succ a c

/-- `l` is a path: consecutive elements are related by `succ` -/
def IsPath (succ : α → List α) : List α → Prop
  | [] => True
  | [_] => True
  | a :: b :: rest => b ∈ succ a ∧ IsPath succ (b :: rest)

/-- `g k` for every key, failing if one fails -/
def buildM {κ β : Type} (g : κ → Option β) : List κ → Option (List (κ × β))
  | [] => some []
  | k :: ks =>
    match g k, buildM g ks with
    | some v, some r => some ((k, v) :: r)
    | _, _ => none

end Reach

/-! ## locations and the location graph -/

inductive Loc where
  | instr (b p : Nat)
  | edge (h t : Nat)
  | empty (b : Nat)
  deriving DecidableEq, Repr, Inhabited

def instrAt (f : Function) (b p : Nat) : Option Instr := (f.block b).bind (fun B => B.instrs[p]?)

def outEdges (f : Function) (b : Nat) : List Loc := (f.cfg.edgesOut b).map (fun e => Loc.edge b e.tail)

/-- the location at which block `b` is entered -/
def enterLoc (f : Function) (b : Nat) : List Loc :=
  match f.block b with
  | none => []
  | some B => if B.instrs.isEmpty then [Loc.empty b] else [Loc.instr b 0]

/-- `RefProgramLocation::forward` -/
def succ (f : Function) : Loc → List Loc
  | .instr b p =>
    match f.block b with
    | none => []
    | some B =>
      if p + 1 < B.instrs.length then [Loc.instr b (p + 1)]
      else if p + 1 = B.instrs.length then outEdges f b
      else []
  | .empty b =>
    match f.block b with
    | none => []
    | some B => if B.instrs.isEmpty then outEdges f b else []
  | .edge _ t => enterLoc f t

/-- the location where the fixed-point engine (and every run) starts -/
def entryLoc (f : Function) : List Loc :=
  match f.cfg.entry with
  | none => []
  | some e => enterLoc f e

def blockLocs (B : Block) : List Loc :=
  if B.instrs.isEmpty then [Loc.empty B.index] else (List.range B.instrs.length).map (Loc.instr B.index)

/-- `Function::locations` (as a set) -/
def allLocs (f : Function) : List Loc :=
  f.cfg.blocks.flatMap blockLocs ++ f.cfg.edges.map (fun e => Loc.edge e.head e.tail)

/-! ## what a location writes and reads -/

/-- `Operation::scalars_written`, undeclared (`None`) = nothing -/
def writtenBy (f : Function) : Loc → List Scalar
  | .instr b p =>
    match instrAt f b p with
    | some i => (i.op.scalarsWritten).getD []
    | none => []
  | _ => []

/-- the scalar an assignment / load defines -/
def defOf (f : Function) : Loc → Option Scalar
  | .instr b p =>
    match instrAt f b p with
    | some i =>
      match i.op with
      | .assign d _ => some d
      | .load d _ => some d
      | _ => none
    | none => none
  | _ => none

/-- `Operation::scalars_read` for instructions (undeclared = nothing), the guard's scalars for edges -/
def readBy (f : Function) : Loc → List Scalar
  | .instr b p =>
    match instrAt f b p with
    | some i => (i.op.scalarsRead).getD []
    | none => []
  | .edge h t =>
    match f.cfg.edge h t with
    | some e =>
      match e.cond with
      | some c => c.scalars
      | none => []
    | none => []
  | .empty _ => []

/-- `l` writes `x`: assign/load of `x`, or an intrinsic that declares `x` written -/
def writes (f : Function) (l : Loc) (x : Scalar) : Bool := decide (x ∈ writtenBy f l)

/-- `l` is an assignment or a load of `x` -/
def isDef (f : Function) (l : Loc) (x : Scalar) : Bool := decide (defOf f l = some x)

/-- the location graph with the writers of `x` deleted (as targets) -/
def succNoW (f : Function) (x : Scalar) (l : Loc) : List Loc := (succ f l).filter (fun l' => !writes f l' x)

/-- the location graph with the assignments / loads of `x` deleted (as targets) -/
def succNoDef (f : Function) (x : Scalar) (l : Loc) : List Loc := (succ f l).filter (fun l' => !isDef f l' x)

/-! ## the definitional sets -/

def fuel (f : Function) : Nat := (allLocs f).length + 1

/-- locations reachable from the entry -/
def reachable (f : Function) : Option (List Loc) := reach (succ f) (fuel f) (entryLoc f)

/-- the locations the write of `x` at `d` reaches with no later write of `x` (`d` itself included) -/
def flows (f : Function) (dx : Loc × Scalar) : Option (List Loc) := reach (succNoW f dx.2) (fuel f) [dx.1]

/-- the locations the definition of `x` at `d` reaches with no later assignment / load of `x` -/
def mayFlows (f : Function) (dx : Loc × Scalar) : Option (List Loc) := reach (succNoDef f dx.2) (fuel f) [dx.1]

structure Tables where
  /-- reachable from the entry -/
  reach : List Loc
  /-- `(d, x) ↦ flows f (d, x)` for every reachable `d` and every `x` it writes -/
  must : List ((Loc × Scalar) × List Loc)
  /-- `(d, x) ↦ mayFlows f (d, x)` for every assignment / load `d` of `x` in the function -/
  may : List ((Loc × Scalar) × List Loc)
  deriving DecidableEq, Repr, Inhabited

def mustKeys (f : Function) (r : List Loc) : List (Loc × Scalar) :=
  r.flatMap (fun d => (writtenBy f d).map (fun x => (d, x)))

def mayKeys (f : Function) : List (Loc × Scalar) :=
  (allLocs f).filterMap (fun d => (defOf f d).map (fun x => (d, x)))

/-- all reachability computations of one function, done once -/
def tables (f : Function) : Option Tables :=
  match reachable f with
  | none => none
  | some r =>
    match buildM (flows f) (mustKeys f r), buildM (mayFlows f) (mayKeys f) with
    | some mu, some ma => some { reach := r, must := mu, may := ma }
    | _, _ => none

def select (tab : List ((Loc × Scalar) × List Loc)) (l : Loc) (x : Scalar) : List Loc :=
  (tab.filter (fun e => decide (e.1.2 = x) && decide (l ∈ e.2))).map (fun e => e.1.1)

/-- what the reaching definitions of `l` MUST contain for scalar `x` -/
def mustInclude (T : Tables) (l : Loc) (x : Scalar) : List Loc := select T.must l x

/-- the assignments / loads of `x` the reaching definitions of `l` MAY contain -/
def mayInclude (T : Tables) (l : Loc) (x : Scalar) : List Loc := select T.may l x

/-- predecessors of `u` that a run can come from -/
def predsOf (T : Tables) (f : Function) (u : Loc) : List Loc := T.reach.filter (fun p => decide (u ∈ succ f p))

/-- what the use-definition chain of `u` must contain -/
def useDefMust (T : Tables) (f : Function) (u : Loc) : List Loc :=
  (readBy f u).flatMap (fun x => (predsOf T f u).flatMap (fun p => mustInclude T p x))

/-! ## the specification side: runs with the trace of executed locations -/

/-- the locations that count as executed when control enters block `b`: an empty block has nothing to run -/
def enterTrace (f : Function) (b : Nat) : List Loc :=
  match f.block b with
  | some B => if B.instrs.isEmpty then [Loc.empty b] else []
  | none => []

/-- `FRun` of FalconModel/Exec.lean with the list of executed locations (oldest first) attached -/
inductive FRunT (f : Function) (a : Config) : List Loc → Config → Prop where
  | refl : FRunT f a [] a
  | instr {c : Config} {tr : List Loc} {b : Block} {i : Instr} {σ' : State} :
      FRunT f a tr c →
      f.block c.block = some b → b.instrs[c.pos]? = some i →
      execute c.state i.op = .ok (σ', .fallThrough) →
      FRunT f a (tr ++ [Loc.instr c.block c.pos]) ⟨c.block, c.pos + 1, σ'⟩
  | edge {c : Config} {tr : List Loc} {b : Block} {e : Edge} :
      FRunT f a tr c →
      f.block c.block = some b → c.pos = b.instrs.length →
      e ∈ f.cfg.edgesOut c.block → guardHolds c.state e.cond →
      FRunT f a (tr ++ Loc.edge c.block e.tail :: enterTrace f e.tail) ⟨e.tail, 0, c.state⟩

/-- the locations executed by a run from the function's entry: entering the entry block, then the steps -/
def entryTrace (f : Function) : List Loc :=
  match f.cfg.entry with
  | some e => enterTrace f e
  | none => []

/-- the most recent location of the trace that wrote `x` -/
def lastWriter (f : Function) (x : Scalar) (tr : List Loc) : Option Loc := tr.reverse.find? (fun l => writes f l x)

/-! ## the checks run on falcon's outputs (finite relations as association lists) -/

abbrev Rel := List (Loc × List Loc)

def Rel.get (r : Rel) (l : Loc) : List Loc := (r.lookup l).getD []

/-- first `(l, d)` with `d` in some must-set of `l` but not in `rd l` -/
def checkMust (T : Tables) (rd : Rel) : Option (Loc × Loc × Scalar) :=
  T.must.findSome? (fun e => (e.2.find? (fun l => !decide (e.1.1 ∈ rd.get l))).map (fun l => (l, e.1.1, e.1.2)))

/-- first reported assignment / load `d ∈ rd l` that cannot reach `l` -/
def checkMay (T : Tables) (f : Function) (rd : Rel) : Option (Loc × Loc) :=
  rd.findSome? (fun e => (e.2.find? (fun d =>
    match defOf f d with
    | some x => !decide (d ∈ mayInclude T e.1 x)
    | none => false)).map (fun d => (e.1, d)))

/-- first `(u, d)` with `d` required in the use-def chain of a reachable `u` but absent -/
def checkUseDef (T : Tables) (f : Function) (ud : Rel) : Option (Loc × Loc) :=
  T.reach.findSome? (fun u => ((useDefMust T f u).find? (fun d => !decide (d ∈ ud.get u))).map (fun d => (u, d)))

/-- first pair on which `du` is not the inverse of `ud` -/
def checkInverse (ud du : Rel) : Option (Loc × Loc) :=
  match ud.findSome? (fun e => ((ud.get e.1).find? (fun d => !decide (e.1 ∈ du.get d))).map (fun d => (d, e.1))) with
  | some p => some p
  | none => du.findSome? (fun e => ((du.get e.1).find? (fun u => !decide (e.1 ∈ ud.get u))).map (fun u => (e.1, u)))

end RD
end Falcon
