/-
  FalconModel.Basic — the result type shared by every model.

  falcon's functions return `Result<T, Error>` and may panic (`unwrap`, indexing, checked
  arithmetic).  Both are outcomes the properties talk about, so the model has both:
  `Res.err e` for a returned `Err(e)` and `Res.panic` for a Rust panic.
-/

namespace Falcon

/-- The small error enumeration the line protocol uses (DESIGN §2.2). -/
inductive Err where
  | sort        -- Error::Sort
  | div0        -- Error::DivideByZero
  | scalar      -- Error::ExecutorScalar
  | unmapped    -- Error::AccessUnmappedMemory / load returned None
  | intrinsic   -- Error::UnhandledIntrinsic
  | noedge      -- Error::ExecutorNoValidLocation / "Failed to get edge condition"
  | addrbits    -- address does not fit u64
  | other       -- anything else
  deriving DecidableEq, Repr, Inhabited

def Err.toString : Err → String
  | .sort => "err:sort" | .div0 => "err:div0" | .scalar => "err:scalar"
  | .unmapped => "err:unmapped" | .intrinsic => "err:intrinsic" | .noedge => "err:noedge"
  | .addrbits => "err:addrbits" | .other => "err:other"

instance : ToString Err := ⟨Err.toString⟩

/-- Outcome of a falcon call: a value, a returned error, or a Rust panic. -/
inductive Res (α : Type u) where
  | ok (a : α)
  | err (e : Err)
  | panic
  deriving Repr, Inhabited, DecidableEq

namespace Res

@[inline] def bind (x : Res α) (f : α → Res β) : Res β :=
  match x with
  | .ok a => f a
  | .err e => .err e
  | .panic => .panic

@[inline] def map (f : α → β) (x : Res α) : Res β :=
  match x with
  | .ok a => .ok (f a)
  | .err e => .err e
  | .panic => .panic

instance : Monad Res where
  pure := Res.ok
  bind := Res.bind

@[simp] theorem bind_ok (a : α) (f : α → Res β) : (Res.ok a >>= f) = f a := rfl
@[simp] theorem bind_err (e : Err) (f : α → Res β) : (Res.err e >>= f) = Res.err e := rfl
@[simp] theorem bind_panic (f : α → Res β) : ((Res.panic : Res α) >>= f) = Res.panic := rfl
@[simp] theorem pure_eq (a : α) : (pure a : Res α) = Res.ok a := rfl

def isOk : Res α → Bool
  | .ok _ => true
  | _ => false

def show_ [ToString α] : Res α → String
  | .ok a => toString a
  | .err e => toString e
  | .panic => "panic"

end Res
end Falcon
