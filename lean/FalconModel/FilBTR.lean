/-
  FalconModel.FilBTR — the FIL PRINTER of a block translation result, the inverse of `Fil.btr?` (Lift.lean):

    btr := (btr <addr> <length> (fn <ins addr> - <entry> <exit> <n> 0 blk* edge*)* (succ <addr> <-|cond>)*)

  It prints what `harness/src/lift.rs::btr_str` prints for the same data (functions through `Fil.functionStr`,
  the printer that `Drivers/FilTest.lean` round-trips against the Rust reader).  Used by the drivers of C01/C02/C03
  to hand the MIRROR's IL to `tools/il_equiv.py` when it differs syntactically from falcon's (design/06_smt_tie.md);
  `Drivers/FilTest.lean` checks `btr? ∘ parse ∘ btrStr = id` on every BTR it is given.
-/
import FalconModel.Lift

namespace Falcon
namespace Fil

def succStr (s : Nat × Option Expr) : String :=
  let c := match s.2 with | none => "-" | some x => exprStr x
  s!"(succ {hex s.1} {c})"

def btrStr (r : BTR) : String :=
  " ".intercalate (["(btr", hex r.addr, toString r.length] ++ r.instrs.map functionStr ++ r.succs.map succStr) ++ ")"

/-- structural equality of two results (BTR carries no `DecidableEq` instance of its own) -/
def btrSame (a b : BTR) : Bool :=
  a.addr == b.addr && a.length == b.length && decide (a.instrs = b.instrs) && decide (a.succs = b.succs)

/-- read a BTR from its text -/
def readBTR (s : String) : Option BTR :=
  match Sx.parseAll s with
  | some [x] => btr? x
  | _ => none

/-- `parse ∘ print = id` on this value -/
def btrRoundTrips (r : BTR) : Bool :=
  match readBTR (btrStr r) with
  | some r' => btrSame r r'
  | none => false

end Fil
end Falcon
