/-
  FalconModel.IL — the data of falcon's IL above expressions: operations, instructions, phi nodes,
  blocks, edges, control-flow graphs, functions, programs (`lib/il/*.rs`).

  `BTreeMap<usize, Block>` and `BTreeMap<(usize,usize), Edge>` are association lists kept sorted by key
  (iteration order is behaviour: `blocks()`, `edges()`, `edges_out()` are all in key order).
-/
import FalconModel.Expr

namespace Falcon

structure Intrinsic where
  mnemonic : String
  args : List Expr := []
  written : Option (List Expr) := none
  read : Option (List Expr) := none
  deriving DecidableEq, Repr, Inhabited

inductive Op where
  | assign (dst : Scalar) (src : Expr)
  | store (index src : Expr)
  | load (dst : Scalar) (index : Expr)
  | branch (target : Expr)
  | intrinsic (i : Intrinsic)
  | nop
  deriving DecidableEq, Repr, Inhabited

structure Instr where
  index : Nat
  addr : Option Nat := none
  op : Op
  deriving DecidableEq, Repr, Inhabited

structure Phi where
  out : Scalar
  /-- `incoming: BTreeMap<usize, Scalar>`, sorted by predecessor index -/
  incoming : List (Nat × Scalar) := []
  entry : Option Scalar := none
  deriving DecidableEq, Repr, Inhabited

structure Block where
  index : Nat
  /-- `next_instruction_index` -/
  nextInstr : Nat := 0
  instrs : List Instr := []
  phis : List Phi := []
  deriving DecidableEq, Repr, Inhabited

structure Edge where
  head : Nat
  tail : Nat
  cond : Option Expr := none
  deriving DecidableEq, Repr, Inhabited

structure Cfg where
  /-- sorted by `index`, indices pairwise distinct -/
  blocks : List Block := []
  /-- sorted by `(head, tail)`, pairs pairwise distinct -/
  edges : List Edge := []
  entry : Option Nat := none
  exit : Option Nat := none
  nextIndex : Nat := 0
  nextTemp : Nat := 0
  deriving DecidableEq, Repr, Inhabited

structure Function where
  addr : Nat
  cfg : Cfg
  index : Option Nat := none
  deriving DecidableEq, Repr, Inhabited

structure Program where
  /-- sorted by `Function.index` -/
  functions : List Function := []
  deriving DecidableEq, Repr, Inhabited

namespace Intrinsic
/-- `Intrinsic::scalars_written` -/
def scalarsWritten (i : Intrinsic) : Option (List Scalar) := i.written.map (·.flatMap Expr.scalars)
/-- `Intrinsic::scalars_read` -/
def scalarsRead (i : Intrinsic) : Option (List Scalar) := i.read.map (·.flatMap Expr.scalars)
end Intrinsic

namespace Op
/-- `Operation::scalars_read` -/
def scalarsRead : Op → Option (List Scalar)
  | assign _ src => some src.scalars
  | store index src => some (index.scalars ++ src.scalars)
  | load _ index => some index.scalars
  | branch t => some t.scalars
  | intrinsic i => i.scalarsRead
  | nop => some []

/-- `Operation::scalars_written` -/
def scalarsWritten : Op → Option (List Scalar)
  | assign dst _ | load dst _ => some [dst]
  | store .. | branch _ => some []
  | intrinsic i => i.scalarsWritten
  | nop => some []
end Op

namespace Block
/-- `Block::instruction(index)`: first instruction with that index -/
def instruction (b : Block) (idx : Nat) : Option Instr := b.instrs.find? (·.index == idx)
def isEmpty (b : Block) : Bool := b.instrs.isEmpty
/-- `Block::address` -/
def address (b : Block) : Option Nat := b.instrs.head?.bind (·.addr)
end Block

namespace Cfg
/-- `ControlFlowGraph::block(index)` -/
def block (c : Cfg) (i : Nat) : Option Block := c.blocks.find? (·.index == i)
def hasBlock (c : Cfg) (i : Nat) : Bool := c.blocks.any (·.index == i)
/-- `ControlFlowGraph::edge(head, tail)` -/
def edge (c : Cfg) (h t : Nat) : Option Edge := c.edges.find? (fun e => e.head == h && e.tail == t)
/-- `edges_out(index)`: in increasing order of the tail (the `successors` BTreeSet) -/
def edgesOut (c : Cfg) (i : Nat) : List Edge := c.edges.filter (·.head == i)
/-- `edges_in(index)`: in increasing order of the head (the `predecessors` BTreeSet) -/
def edgesIn (c : Cfg) (i : Nat) : List Edge := c.edges.filter (·.tail == i)
def successorIndices (c : Cfg) (i : Nat) : List Nat := (c.edgesOut i).map (·.tail)
def predecessorIndices (c : Cfg) (i : Nat) : List Nat := (c.edgesIn i).map (·.head)
end Cfg

namespace Function
def block (f : Function) (i : Nat) : Option Block := f.cfg.block i
def blocks (f : Function) : List Block := f.cfg.blocks
def edges (f : Function) : List Edge := f.cfg.edges
end Function

namespace Program
/-- `Program::function(index)` -/
def function (p : Program) (i : Nat) : Option Function := p.functions.find? (·.index == some i)
end Program

end Falcon
