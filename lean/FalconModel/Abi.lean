/-
  FalconModel.Abi — the SPECIFICATION side of property C20: the platform ABIs falcon's default calling
  conventions claim to describe, as a hand-written table, and the predicates the property states.

  * `ArchDesc`   what falcon publishes for one architecture (descriptor + `calling_convention()`) and what its
                 translator was observed to emit on the register sweep.  Values of this type are REGENERATED
                 (`Generated/Arch.lean`, written by `harness/target/release/c20 table`); nothing here depends
                 on them.
  * `AbiSpec`    what the platform documents require.  Sources:
        x86       System V ABI, Intel386 Architecture Processor Supplement (4th ed.), ch. 3 "Function Calling
                  Sequence": all arguments on the stack, first at 4(%esp) on entry, return address at 0(%esp),
                  result in %eax, %ebx %esi %edi %ebp %esp callee-saved.
        amd64     System V ABI, AMD64 Architecture Processor Supplement, §3.2.3: INTEGER arguments in %rdi %rsi
                  %rdx %rcx %r8 %r9, result in %rax, return address at 0(%rsp), memory arguments from 8(%rsp)
                  in eightbytes.
        mips(el)  System V ABI, MIPS RISC Processor Supplement (3rd ed., o32), ch. 3: $4..$7 (a0..a3), a 16-byte
                  home area for them at 0($sp), so the fifth word is at 16($sp); result in $2 (v0); return
                  address in $31 (ra).  Big-endian (mips) and little-endian (mipsel) variants.
        ppc       System V ABI, PowerPC Processor Supplement (32 bit), ch. 3: r3..r10, result in r3, return
                  address in LR; at entry r1 points at the caller's frame header (back chain at 0(r1), LR save
                  word at 4(r1)) and the parameter list area starts at 8(r1).  Big-endian.
        aarch64*  Procedure Call Standard for the Arm 64-bit Architecture (AAPCS64) §6: general-purpose
                  arguments in x0..x7 (NGRN), floating-point/SIMD arguments in v0..v7 (NSRN, a SEPARATE
                  sequence), further arguments at the NSAA = SP on entry in slots of 8 bytes (rule C.16: "if the
                  size of the argument is less than 8 bytes then the size of the argument is set to 8 bytes"),
                  result in x0, return address in x30 (LR); "a subroutine invocation must preserve the contents
                  of the registers r19-r29 and SP".  A64 instructions are always little-endian in memory;
                  data endianness is little (aarch64) or big (aarch64eb).
    Registers are written with the names and widths of falcon's lifters (the ABI documents' `%eax`, `$4`, `r3`,
    `x0`), because the property is about these tables talking about the scalars the lifted code uses.
  * the predicates `SpEmitted … StackArgOffsetAbi`: one per clause of the property; all decidable, so on a
    closed `ArchDesc` they are proved by kernel evaluation (`decide`).
  * the QUERIES `CallingConvention::argument_type / is_preserved / is_trashed` are code, not table entries, so
    their answers are part of the regenerated `ArchDesc` too (`argTypes`, `isPreserved`, `isTrashed`) and have
    their own clauses: `ArgTypesAbi` (the ABI's integer registers in order, then `Stack(abi offset + word bytes *
    (n - k))`), `StackArgsWordApart` (successive stack arguments exactly one machine word apart, whatever
    registers precede them), `QueriesAgree` (Some(true)/Some(false)/None according to the two sets, never both
    Some(true), on every convention register, every sweep scalar and one register in neither set).
  * `fieldStr`/`specStr`: the line-protocol texts of `Drivers/C20.lean` (same text as `harness/src/bin/c20.rs`).

  Core Lean only (this file is linked into the native driver).
-/
namespace Falcon.Abi

/-- a register as the IL sees it: scalar name and width in bits -/
abbrev Reg := String × Nat

/-- where the return address is at function entry -/
inductive RetAddr where
  | reg (r : Reg)
  | stack (offset : Nat)
  deriving DecidableEq, Repr

/-- an answer of `CallingConvention::argument_type` -/
inductive ArgType where
  | reg (r : Reg)
  | stack (offset : Nat)
  deriving DecidableEq, Repr

/-- what falcon says (first block), what its translator does (second block) and what its queries answer (third
    block), for one architecture -/
structure ArchDesc where
  name : String
  endian : String                 -- "little" | "big"           Architecture::endian()
  wordSize : Nat                  -- bits                       Architecture::word_size()
  sp : Reg                        --                            Architecture::stack_pointer()
  args : List Reg                 -- in order                   CallingConvention::argument_registers()
  preserved : List Reg            -- sorted                     preserved_registers()
  trashed : List Reg              -- sorted                     trashed_registers()
  stackArgOffset : Nat            -- bytes                      stack_argument_offset()
  stackArgLen : Nat               -- bytes                      stack_argument_length()
  retAddr : RetAddr               --                            return_address_type()
  retReg : Reg                    --                            return_register()
  emitted : List Reg              -- sorted; the scalars in the IL of the register sweep
  fetchEndian : String            -- byte order in which the translator decodes an instruction word / immediate
  storeBytes : String             -- bytes a lifted 32-bit store of 0x11223344 leaves in Memory::new(endian())
  loadAddrBits : Nat              -- width of the address expression of a lifted load
  storeAddrBits : Nat             -- … of a lifted store
  sweepFailed : List String       -- sweep encodings the translator rejected (information only)
  argTypes : List ArgType         -- argument_type(n) for n = 0 ..= (number of argument registers + 6)
  isPreserved : List (Reg × Option Bool)   -- is_preserved(r) for every probe register r (sorted), see `probes`
  isTrashed : List (Reg × Option Bool)     -- is_trashed(r) for the same probes

/-- what the platform ABI requires -/
structure AbiSpec where
  abi : String
  dataEndian : String
  insnEndian : String
  wordBits : Nat
  sp : String
  /-- registers for INTEGER-class arguments, in order (what `argument_type n` is asked about) -/
  intArgs : List String
  /-- the separate floating-point/SIMD argument sequence with its width in falcon's lifter (AAPCS64 only:
      the only table that lists such registers; used by the `_partial` statement) -/
  fpArgs : List Reg
  retReg : String
  /-- `none`: on the stack at offset 0 from the stack pointer at entry; `some r`: in register `r` -/
  retAddrReg : Option String
  /-- offset of the first stack-passed argument from the stack pointer at function entry, bytes -/
  stackArgOffset : Nat

def sysvI386 : AbiSpec where
  abi := "System V i386 (cdecl)"
  dataEndian := "little"
  insnEndian := "little"
  wordBits := 32
  sp := "esp"
  intArgs := []
  fpArgs := []
  retReg := "eax"
  retAddrReg := none
  stackArgOffset := 4

def sysvAmd64 : AbiSpec where
  abi := "System V AMD64"
  dataEndian := "little"
  insnEndian := "little"
  wordBits := 64
  sp := "rsp"
  intArgs := ["rdi", "rsi", "rdx", "rcx", "r8", "r9"]
  fpArgs := []
  retReg := "rax"
  retAddrReg := none
  stackArgOffset := 8

def mipsO32 (endian : String) : AbiSpec where
  abi := "MIPS o32 (" ++ endian ++ "-endian)"
  dataEndian := endian
  insnEndian := endian
  wordBits := 32
  sp := "$sp"
  intArgs := ["$a0", "$a1", "$a2", "$a3"]
  fpArgs := []
  retReg := "$v0"
  retAddrReg := some "$ra"
  stackArgOffset := 16

def sysvPpc32 : AbiSpec where
  abi := "System V PowerPC 32-bit"
  dataEndian := "big"
  insnEndian := "big"
  wordBits := 32
  sp := "r1"
  intArgs := ["r3", "r4", "r5", "r6", "r7", "r8", "r9", "r10"]
  fpArgs := []
  retReg := "r3"
  retAddrReg := some "lr"
  stackArgOffset := 8

def aapcs64 (dataEndian : String) : AbiSpec where
  abi := "AAPCS64 (" ++ dataEndian ++ "-endian data)"
  dataEndian := dataEndian
  insnEndian := "little"
  wordBits := 64
  sp := "sp"
  intArgs := ["x0", "x1", "x2", "x3", "x4", "x5", "x6", "x7"]
  fpArgs := [("v0", 128), ("v1", 128), ("v2", 128), ("v3", 128), ("v4", 128), ("v5", 128), ("v6", 128), ("v7", 128)]
  retReg := "x0"
  retAddrReg := some "x30"
  stackArgOffset := 0

/-- the ABI each of falcon's seven architectures defaults to -/
def abiOf : String → Option AbiSpec
  | "x86" => some sysvI386
  | "amd64" => some sysvAmd64
  | "mips" => some (mipsO32 "big")
  | "mipsel" => some (mipsO32 "little")
  | "ppc" => some sysvPpc32
  | "aarch64" => some (aapcs64 "little")
  | "aarch64eb" => some (aapcs64 "big")
  | _ => none

/-- the seven names, in the order of `fvh::lift::ARCHS` -/
def archNames : List String := ["x86", "amd64", "mips", "mipsel", "ppc", "aarch64", "aarch64eb"]

namespace AbiSpec

def wordReg (a : AbiSpec) (n : String) : Reg := (n, a.wordBits)

def retAddr (a : AbiSpec) : RetAddr :=
  match a.retAddrReg with
  | none => .stack 0
  | some r => .reg (a.wordReg r)

/-- the bytes of the 32-bit value 0x11223344 in the ABI's data byte order -/
def storeBytes (a : AbiSpec) : String :=
  if a.dataEndian = "big" then "11223344" else "44332211"

end AbiSpec

namespace ArchDesc

/-- every register the convention names: arguments, preserved, trashed, return-address register, return register -/
def ccRegs (d : ArchDesc) : List Reg :=
  d.args ++ d.preserved ++ d.trashed ++
    (match d.retAddr with
     | .reg r => [r]
     | .stack _ => []) ++ [d.retReg]

/-- convention registers the sweep never produced with that width (order of `ccRegs`, duplicates removed) -/
def ccNotEmitted (d : ArchDesc) : List Reg :=
  (d.ccRegs.filter (fun r => !d.emitted.contains r)).eraseDups

/-- register NAMES that are listed both as preserved and as trashed (whatever the widths) -/
def preservedAndTrashed (d : ArchDesc) : List String :=
  ((d.preserved.filter (fun p => d.trashed.any (fun t => t.1 == p.1))).map (·.1)).eraseDups

/-- the registers `is_preserved` / `is_trashed` were asked about -/
def probes (d : ArchDesc) : List Reg := d.isPreserved.map (·.1)

/-- the offsets of the stack answers of `argument_type` in the swept range, in order -/
def stackOffsets (d : ArchDesc) : List Nat :=
  d.argTypes.filterMap (fun t => match t with | .stack o => some o | .reg _ => none)

/-- what `is_preserved` is documented to answer, given the two sets: `Some(true)` for a preserved register,
    `Some(false)` for a trashed one, `None` for a register the convention does not mention -/
def expectPreserved (d : ArchDesc) (r : Reg) : Option Bool :=
  if d.preserved.contains r then some true else if d.trashed.contains r then some false else none

/-- the same for `is_trashed` -/
def expectTrashed (d : ArchDesc) (r : Reg) : Option Bool :=
  if d.trashed.contains r then some true else if d.preserved.contains r then some false else none

end ArchDesc

/-- the made-up register the harness adds to the probes: in neither set by construction -/
def noSuchRegister : String := "c20_no_such_register"

/-- how many answers beyond the argument registers the harness sweeps (n = 0 ..= registers + 6) -/
def extraArgs : Nat := 6

/-- the answers `argument_type 0 … count-1` must give when the argument registers are `regs`, the first stack
    argument is at `off` and a stack slot is `word` bytes: the registers in order, then successive stack
    slots exactly one machine word apart -/
def expectedArgTypes (regs : List Reg) (off word count : Nat) : List ArgType :=
  (List.range count).map fun n =>
    if h : n < regs.length then .reg regs[n] else .stack (off + word * (n - regs.length))

/-! ### The clauses of the property (one predicate each) -/

/-- the stack-pointer scalar is one the translator produces, with that width, and that width is the word size -/
def SpEmitted (d : ArchDesc) : Prop := d.sp ∈ d.emitted ∧ d.sp.2 = d.wordSize

/-- the word size is the width of the addresses of lifted loads and stores, and the ABI's -/
def WordSizeAgrees (d : ArchDesc) (a : AbiSpec) : Prop :=
  d.wordSize = d.loadAddrBits ∧ d.wordSize = d.storeAddrBits ∧ d.wordSize = a.wordBits

/-- the descriptor's endianness is the ABI's data endianness, a lifted store run on a memory built from the
    descriptor leaves the bytes in that order, and the translator decodes instruction words in the ABI's
    instruction byte order -/
def EndianAgrees (d : ArchDesc) (a : AbiSpec) : Prop :=
  d.endian = a.dataEndian ∧ d.storeBytes = a.storeBytes ∧ d.fetchEndian = a.insnEndian

/-- every register named by the convention is a scalar the translator produces, with that width -/
def CcRegsEmitted (d : ArchDesc) : Prop := ∀ r ∈ d.ccRegs, r ∈ d.emitted

/-- no register (name) is both preserved and trashed -/
def PreservedTrashedDisjoint (d : ArchDesc) : Prop := ∀ p ∈ d.preserved, ∀ t ∈ d.trashed, p.1 ≠ t.1

/-- the stack pointer is preserved -/
def SpPreserved (d : ArchDesc) : Prop := d.sp ∈ d.preserved

/-- the stack pointer is the ABI's -/
def SpAbi (d : ArchDesc) (a : AbiSpec) : Prop := d.sp = a.wordReg a.sp

/-- the argument registers are the ABI's integer argument registers, in order, word-sized -/
def ArgsInAbiOrder (d : ArchDesc) (a : AbiSpec) : Prop := d.args = a.intArgs.map a.wordReg

/-- weaker (used where the full statement is a recorded finding): the list STARTS with the ABI's integer
    sequence in order, and what follows is exactly the ABI's floating-point/SIMD sequence in order -/
def ArgsIntThenFp (d : ArchDesc) (a : AbiSpec) : Prop :=
  d.args = a.intArgs.map a.wordReg ++ a.fpArgs

def ReturnRegAbi (d : ArchDesc) (a : AbiSpec) : Prop := d.retReg = a.wordReg a.retReg

def ReturnAddrAbi (d : ArchDesc) (a : AbiSpec) : Prop := d.retAddr = a.retAddr

/-- a stack argument slot is one machine word -/
def StackArgLenIsWord (d : ArchDesc) (a : AbiSpec) : Prop :=
  d.stackArgLen * 8 = d.wordSize ∧ d.stackArgLen * 8 = a.wordBits

def StackArgOffsetAbi (d : ArchDesc) (a : AbiSpec) : Prop := d.stackArgOffset = a.stackArgOffset

/-- `argument_type n`, for every n of the swept range (at least `extraArgs + 1` answers beyond the table's
    argument registers): the first k answers are the ABI's integer argument registers in order, every later
    answer is `Stack(abi offset + (word bytes) * (n - k))` -/
def ArgTypesAbi (d : ArchDesc) (a : AbiSpec) : Prop :=
  d.argTypes.length = d.args.length + extraArgs + 1 ∧
  d.argTypes = expectedArgTypes (a.intArgs.map a.wordReg) a.stackArgOffset (a.wordBits / 8) d.argTypes.length

/-- weaker (used where `ArgsInAbiOrder` is a recorded finding): the same with the register sequence
    "ABI integer sequence, then ABI floating-point/SIMD sequence" -/
def ArgTypesIntThenFp (d : ArchDesc) (a : AbiSpec) : Prop :=
  d.argTypes.length = d.args.length + extraArgs + 1 ∧
  d.argTypes = expectedArgTypes (a.intArgs.map a.wordReg ++ a.fpArgs) a.stackArgOffset (a.wordBits / 8)
    d.argTypes.length

/-- the stack answers of `argument_type` by themselves (independent of which registers precede them): there are
    at least `extraArgs + 1` of them in the swept range, the first is at the ABI's offset, successive ones are
    exactly one machine word apart, and after the first stack answer no register answer follows -/
def StackArgsWordApart (d : ArchDesc) (a : AbiSpec) : Prop :=
  extraArgs + 1 ≤ d.stackOffsets.length ∧
  d.stackOffsets = (List.range d.stackOffsets.length).map (fun i => a.stackArgOffset + (a.wordBits / 8) * i) ∧
  d.argTypes.drop (d.argTypes.length - d.stackOffsets.length) = d.stackOffsets.map .stack

/-- `is_preserved` / `is_trashed` agree with the two sets on every probe (Some(true) / Some(false) / None as
    documented), are never both Some(true), and the probes cover every register of preserved ∪ trashed ∪
    arguments ∪ return register ∪ stack pointer, every scalar of the sweep, and a register in neither set -/
def QueriesAgree (d : ArchDesc) : Prop :=
  d.isPreserved = d.probes.map (fun r => (r, d.expectPreserved r)) ∧
  d.isTrashed = d.probes.map (fun r => (r, d.expectTrashed r)) ∧
  (∀ r ∈ d.ccRegs ++ [d.sp] ++ d.emitted ++ [(noSuchRegister, d.wordSize)], r ∈ d.probes) ∧
  (noSuchRegister, d.wordSize) ∉ d.preserved ++ d.trashed ∧
  (∀ r ∈ d.probes, ¬ (d.isPreserved.lookup r = some (some true) ∧ d.isTrashed.lookup r = some (some true)))

/-- every clause of the property for one architecture; the argument clause in the form that holds for all
    seven (`ArgsIntThenFp`, which IS `ArgsInAbiOrder` wherever the ABI table has no SIMD sequence) -/
def Holds (d : ArchDesc) (a : AbiSpec) : Prop :=
  SpEmitted d ∧ SpAbi d a ∧ WordSizeAgrees d a ∧ EndianAgrees d a ∧ CcRegsEmitted d ∧
  PreservedTrashedDisjoint d ∧ SpPreserved d ∧ ArgsIntThenFp d a ∧ ReturnRegAbi d a ∧ ReturnAddrAbi d a ∧
  StackArgLenIsWord d a ∧ StackArgOffsetAbi d a ∧
  ArgTypesIntThenFp d a ∧ StackArgsWordApart d a ∧ QueriesAgree d

instance (d : ArchDesc) : Decidable (SpEmitted d) := inferInstanceAs (Decidable (_ ∧ _))
instance (d : ArchDesc) (a : AbiSpec) : Decidable (WordSizeAgrees d a) := inferInstanceAs (Decidable (_ ∧ _))
instance (d : ArchDesc) (a : AbiSpec) : Decidable (EndianAgrees d a) := inferInstanceAs (Decidable (_ ∧ _))
instance (d : ArchDesc) : Decidable (CcRegsEmitted d) := inferInstanceAs (Decidable (∀ r ∈ d.ccRegs, r ∈ d.emitted))
instance (d : ArchDesc) : Decidable (PreservedTrashedDisjoint d) :=
  inferInstanceAs (Decidable (∀ p ∈ d.preserved, ∀ t ∈ d.trashed, p.1 ≠ t.1))
instance (d : ArchDesc) : Decidable (SpPreserved d) := inferInstanceAs (Decidable (_ ∈ _))
instance (d : ArchDesc) (a : AbiSpec) : Decidable (SpAbi d a) := inferInstanceAs (Decidable (_ = _))
instance (d : ArchDesc) (a : AbiSpec) : Decidable (ArgsInAbiOrder d a) := inferInstanceAs (Decidable (_ = _))
instance (d : ArchDesc) (a : AbiSpec) : Decidable (ArgsIntThenFp d a) := inferInstanceAs (Decidable (_ = _))
instance (d : ArchDesc) (a : AbiSpec) : Decidable (ReturnRegAbi d a) := inferInstanceAs (Decidable (_ = _))
instance (d : ArchDesc) (a : AbiSpec) : Decidable (ReturnAddrAbi d a) := inferInstanceAs (Decidable (_ = _))
instance (d : ArchDesc) (a : AbiSpec) : Decidable (StackArgLenIsWord d a) := inferInstanceAs (Decidable (_ ∧ _))
instance (d : ArchDesc) (a : AbiSpec) : Decidable (StackArgOffsetAbi d a) := inferInstanceAs (Decidable (_ = _))

instance (d : ArchDesc) (a : AbiSpec) : Decidable (ArgTypesAbi d a) := inferInstanceAs (Decidable (_ ∧ _))
instance (d : ArchDesc) (a : AbiSpec) : Decidable (ArgTypesIntThenFp d a) := inferInstanceAs (Decidable (_ ∧ _))
instance (d : ArchDesc) (a : AbiSpec) : Decidable (StackArgsWordApart d a) := inferInstanceAs (Decidable (_ ∧ _ ∧ _))
instance (d : ArchDesc) : Decidable (QueriesAgree d) :=
  inferInstanceAs (Decidable (_ ∧ _ ∧ (∀ r ∈ _, r ∈ _) ∧ _ ∧ (∀ r ∈ _, ¬ (_ ∧ _))))

/-! ### Line protocol texts (mirrors `harness/src/bin/c20.rs`) -/

def regStr (r : Reg) : String := r.1 ++ ":" ++ toString r.2

def listStr (l : List String) : String :=
  if l.isEmpty then "none" else " ".intercalate l

def regsStr (l : List Reg) : String := listStr (l.map regStr)

def yes (b : Bool) : String := if b then "yes" else "no"

def retAddrStr : RetAddr → String
  | .stack o => "stack:" ++ toString o
  | .reg r => "reg:" ++ regStr r

def argTypeStr : ArgType → String
  | .stack o => "stack:" ++ toString o
  | .reg r => "reg:" ++ regStr r

def triStr : Option Bool → String
  | some true => "yes"
  | some false => "no"
  | none => "none"

def answersStr (l : List (Reg × Option Bool)) : String :=
  listStr (l.map (fun x => regStr x.1 ++ "=" ++ triStr x.2))

def fields : List String :=
  ["endian", "word_size", "stack_pointer", "args", "preserved", "trashed", "stack_arg_offset", "stack_arg_len",
   "return_addr", "return_reg", "emitted", "fetch_endian", "store_bytes", "load_addr_bits", "store_addr_bits",
   "sweep_failed", "sp_emitted", "cc_not_emitted", "preserved_and_trashed", "sp_preserved",
   "arg_types", "stack_arg_offsets", "is_preserved", "is_trashed"]

/-- the value of a field according to the (regenerated) table -/
def fieldStr (d : ArchDesc) : String → Option String
  | "endian" => some d.endian
  | "word_size" => some (toString d.wordSize)
  | "stack_pointer" => some (regStr d.sp)
  | "args" => some (regsStr d.args)
  | "preserved" => some (regsStr d.preserved)
  | "trashed" => some (regsStr d.trashed)
  | "stack_arg_offset" => some (toString d.stackArgOffset)
  | "stack_arg_len" => some (toString d.stackArgLen)
  | "return_addr" => some (retAddrStr d.retAddr)
  | "return_reg" => some (regStr d.retReg)
  | "emitted" => some (regsStr d.emitted)
  | "fetch_endian" => some d.fetchEndian
  | "store_bytes" => some d.storeBytes
  | "load_addr_bits" => some (toString d.loadAddrBits)
  | "store_addr_bits" => some (toString d.storeAddrBits)
  | "sweep_failed" => some (listStr d.sweepFailed)
  | "sp_emitted" => some (yes (d.emitted.contains d.sp))
  | "cc_not_emitted" => some (regsStr d.ccNotEmitted)
  | "preserved_and_trashed" => some (listStr d.preservedAndTrashed)
  | "sp_preserved" => some (yes (d.preserved.contains d.sp))
  | "arg_types" => some (" ".intercalate (d.argTypes.map argTypeStr))
  | "stack_arg_offsets" => some (listStr (d.stackOffsets.map toString))
  | "is_preserved" => some (answersStr d.isPreserved)
  | "is_trashed" => some (answersStr d.isTrashed)
  | _ => none

/-- the value the property requires (`-`: the ABI/property has no opinion on this field by itself).  For the
    query fields the requirement is relative to the table: as many answers as were swept, the probes that were
    asked, and — for `is_preserved`/`is_trashed` — the table's own two sets. -/
def specStr (d : ArchDesc) (a : AbiSpec) : String → String
  | "endian" => a.dataEndian
  | "word_size" => toString a.wordBits
  | "stack_pointer" => regStr (a.wordReg a.sp)
  | "args" => regsStr (a.intArgs.map a.wordReg)
  | "stack_arg_offset" => toString a.stackArgOffset
  | "stack_arg_len" => toString (a.wordBits / 8)
  | "return_addr" => retAddrStr a.retAddr
  | "return_reg" => regStr (a.wordReg a.retReg)
  | "fetch_endian" => a.insnEndian
  | "store_bytes" => a.storeBytes
  | "load_addr_bits" => toString a.wordBits
  | "store_addr_bits" => toString a.wordBits
  | "sp_emitted" => "yes"
  | "cc_not_emitted" => "none"
  | "preserved_and_trashed" => "none"
  | "sp_preserved" => "yes"
  | "arg_types" => " ".intercalate ((expectedArgTypes (a.intArgs.map a.wordReg) a.stackArgOffset (a.wordBits / 8)
      d.argTypes.length).map argTypeStr)
  | "stack_arg_offsets" => listStr ((List.range d.stackOffsets.length).map
      (fun i => toString (a.stackArgOffset + (a.wordBits / 8) * i)))
  | "is_preserved" => answersStr (d.probes.map (fun r => (r, d.expectPreserved r)))
  | "is_trashed" => answersStr (d.probes.map (fun r => (r, d.expectTrashed r)))
  | _ => "-"

/-- one request `<arch> <field>` against a table: `<model>\t<spec>` -/
def handle (table : List ArchDesc) (line : String) : String :=
  match line.splitOn " " with
  | [arch, field] =>
    match table.find? (fun d => d.name == arch), abiOf arch with
    | some d, some a =>
      match fieldStr d field with
      | some m => m ++ "\t" ++ specStr d a field
      | none => "bad-request\t-"
    | _, _ => "bad-request\t-"
  | _ => "bad-request\t-"

end Falcon.Abi
