/-
  FalconModel.Assemble — mirror of `Translator::translate_function_extended` (`lib/translator/mod.rs`):
  the work-list phase (`discover`) and the assembly of the translation results into one control-flow graph
  (`assembleCore`, `assemble`), on top of the C15 model of `ControlFlowGraph::{insert, unconditional_edge,
  conditional_edge, set_entry, merge}` (`FalconModel/CfgEdit.lean`).

  `translation_results: BTreeMap<u64, BlockTranslationResult>` is a list of (address, result) sorted by
  address (its iteration order); `instruction_indices` / `block_indices: BTreeMap<u64, (usize, usize)>` are
  association lists (`List.lookup` on a consed list = `BTreeMap::insert` overwriting; `instruction_indices`
  is only ever inserted into when the key is vacant, so it doubles as the log of the `insert` calls: one
  (address, (entry, exit)) triple per inserted instruction graph).  Every `?` of the Rust code is an early
  return that drops the graph, so the phases return `Res`; `block_indices[&…]` on a missing key is `panic`.
-/
import FalconModel.CfgEdit
import FalconModel.Lift

namespace Falcon
namespace Assemble
open CfgEdit

/-- `translator::ManualEdge` -/
structure ManualEdge where
  head : Nat
  tail : Nat
  cond : Option Expr := none
  deriving Repr, Inhabited

abbrev IdxMap := List (Nat × (Nat × Nat))

structure AsmState where
  cfg : Cfg := {}
  /-- `instruction_indices`; also the log of the `insert` calls, most recent first -/
  instrIdx : IdxMap := []
  /-- `block_indices` -/
  blockIdx : IdxMap := []
  deriving Inhabited

/-- lift a `Step` whose graph is dropped on failure -/
def stepRes {α : Type} (s : Step α) : Res (Cfg × α) :=
  match s.res with
  | .ok a => .ok (s.cfg, a)
  | .err e => .err e
  | .panic => .panic

/-- "Have we already inserted this instruction?": the (entry, exit) of the instruction graph at `g.addr` -/
def placeInstr (st : AsmState) (g : Function) : Res (AsmState × Nat × Nat) :=
  match st.instrIdx.lookup g.addr with
  | some (en, ex) => .ok (st, en, ex)
  | none =>
    match stepRes (CfgEdit.insert st.cfg g.cfg) with
    | .ok (c, (en, ex)) => .ok ({ st with cfg := c, instrIdx := (g.addr, (en, ex)) :: st.instrIdx }, en, ex)
    | .err e => .err e
    | .panic => .panic

/-- `if control_flow_graph.edge(h, t).is_err() { control_flow_graph.unconditional_edge(h, t)?; }` and its
    conditional variant -/
def linkIfAbsent (c : Cfg) (h t : Nat) (cond : Option Expr) : Res Cfg :=
  if hasEdge c h t then .ok c
  else
    match stepRes (match cond with
      | some g => conditionalEdge c h t g
      | none => unconditionalEdge c h t) with
    | .ok (c', _) => .ok c'
    | .err e => .err e
    | .panic => .panic

/-- `*edge = Edge::new(h, t, cond)` through `edge_mut(h, t)` -/
def setEdgeCond (c : Cfg) (h t : Nat) (cond : Option Expr) : Cfg :=
  { c with edges := c.edges.map (fun e => if e.head == h && e.tail == t then { e with cond := cond } else e) }

/-- the successor loop (repaired: "two successors leading to the same block keep both guards"): an edge that
    already joins the two blocks absorbs the new guard — both guarded: `Expression::or(existing, new)` unless they
    are syntactically equal; existing guarded, new unguarded: the edge becomes unconditional; existing
    unconditional: unchanged.  Otherwise the edge is created. -/
def linkOrMerge (c : Cfg) (h t : Nat) (cond : Option Expr) : Res Cfg :=
  match c.edge h t with
  | some e =>
    match e.cond, cond with
    | some ex, some g =>
      if ex ≠ g then
        match Expr.mkBin .or ex g with
        | .ok m => .ok (setEdgeCond c h t (some m))
        | .err x => .err x
        | .panic => .panic
      else .ok c
    | some _, none => .ok (setEdgeCond c h t none)
    | none, _ => .ok c
  | none => linkIfAbsent c h t cond

/-- the loop over the instructions of one translation result; `be`/`bx` = `block_entry`/`block_exit`
    (both start as 0), `prev` = `previous_exit` -/
def blockLoop : AsmState → Nat → Nat → Option Nat → List Function → Res (AsmState × Nat × Nat)
  | st, be, bx, _, [] => .ok (st, be, bx)
  | st, be, _, prev, g :: gs =>
    match placeInstr st g with
    | .ok (st1, en, ex) =>
      match prev with
      | some p =>
        match linkIfAbsent st1.cfg p en none with
        | .ok c => blockLoop { st1 with cfg := c } be ex (some ex) gs
        | .err e => .err e
        | .panic => .panic
      | none => blockLoop st1 en ex (some ex) gs
    | .err e => .err e
    | .panic => .panic

/-- `for result in &translation_results { … block_indices.insert(*result.0, (block_entry, block_exit)); }` -/
def resultsLoop : AsmState → List (Nat × BTR) → Res AsmState
  | st, [] => .ok st
  | st, (a, r) :: rest =>
    match blockLoop st 0 0 none r.instrs with
    | .ok (st1, be, bx) => resultsLoop { st1 with blockIdx := (a, (be, bx)) :: st1.blockIdx } rest
    | .err e => .err e
    | .panic => .panic

/-- "Start with edges for our manual edges" -/
def manualLoop : AsmState → List ManualEdge → Res AsmState
  | st, [] => .ok st
  | st, m :: ms =>
    match st.blockIdx.lookup m.head, st.blockIdx.lookup m.tail with
    | some (_, eh), some (et, _) =>
      match linkIfAbsent st.cfg eh et m.cond with
      | .ok c => manualLoop { st with cfg := c } ms
      | .err e => .err e
      | .panic => .panic
    | _, _ => .panic

/-- the successors of one translation result -/
def succLoop (bx : Nat) : AsmState → List (Nat × Option Expr) → Res AsmState
  | st, [] => .ok st
  | st, (sa, sc) :: rest =>
    match st.blockIdx.lookup sa with
    | some (be, _) =>
      match linkOrMerge st.cfg bx be sc with
      | .ok c => succLoop bx { st with cfg := c } rest
      | .err e => .err e
      | .panic => .panic
    | none => .panic

/-- "For every block translation result" -/
def succsLoop : AsmState → List (Nat × BTR) → Res AsmState
  | st, [] => .ok st
  | st, (a, r) :: rest =>
    match st.blockIdx.lookup a with
    | some (_, bx) =>
      match succLoop bx st r.succs with
      | .ok st1 => succsLoop st1 rest
      | .err e => .err e
      | .panic => .panic
    | none => .panic

/-- everything between the work list and `set_entry`: the graph before entry and merge, with the two maps -/
def assembleCore (tb : List (Nat × BTR)) (manual : List ManualEdge) : Res AsmState :=
  match resultsLoop {} tb with
  | .ok st1 =>
    match manualLoop st1 manual with
    | .ok st2 => succsLoop st2 tb
    | .err e => .err e
    | .panic => .panic
  | .err e => .err e
  | .panic => .panic

/-- `set_entry(block_indices[&function_address].0)?` on the assembled graph -/
def withEntry (st : AsmState) (fnAddr : Nat) : Res Cfg :=
  match st.blockIdx.lookup fnAddr with
  | some (be, _) =>
    match stepRes (setEntry st.cfg be) with
    | .ok (c, _) => .ok c
    | .err e => .err e
    | .panic => .panic
  | none => .panic

/-- the part of `translate_function_extended` after the work list -/
def assemble (tb : List (Nat × BTR)) (manual : List ManualEdge) (fnAddr : Nat) : Res Function :=
  match assembleCore tb manual with
  | .ok st =>
    match withEntry st fnAddr with
    | .ok c =>
      match stepRes (merge c) with
      | .ok (c', _) => .ok { addr := fnAddr, cfg := c' }
      | .err e => .err e
      | .panic => .panic
    | .err e => .err e
    | .panic => .panic
  | .err e => .err e
  | .panic => .panic

-- ------------------------------------------------------------------------------------------------
-- the work list

/-- the translation result falcon makes up when `get_bytes` returns nothing: one empty block that is
    entry and exit, no successors -/
def emptyResult (a : Nat) : BTR :=
  { addr := a, length := 0,
    instrs := [{ addr := a, cfg := { blocks := [{ index := 0 }], entry := some 0, exit := some 0, nextIndex := 1 } }],
    succs := [] }

/-- `BTreeMap::insert` of a key that is not present -/
def insertResult (a : Nat) (r : BTR) : List (Nat × BTR) → List (Nat × BTR)
  | [] => [(a, r)]
  | (b, s) :: rest => if a < b then (a, r) :: (b, s) :: rest else (b, s) :: insertResult a r rest

/-- "enqueue all successors": `if !translation_queue.contains(&successor.0) { push_back }` -/
def enqueue : List Nat → List (Nat × Option Expr) → List Nat
  | q, [] => q
  | q, (a, _) :: rest => enqueue (if q.contains a then q else q ++ [a]) rest

/-- the `while !translation_queue.is_empty()` loop.  `oracle a` = what `translate_block(get_bytes(a, 64), a)`
    returns: `none` when `get_bytes` is empty.  Out of fuel is reported as `panic` (the loop would not end). -/
def discoverLoop (oracle : Nat → Option (Res BTR)) : Nat → List Nat → List (Nat × BTR) → Res (List (Nat × BTR))
  | _, [], results => .ok results
  | 0, _ :: _, _ => .panic
  | fuel + 1, a :: queue, results =>
    if (results.lookup a).isSome then discoverLoop oracle fuel queue results
    else
      match oracle a with
      | none => discoverLoop oracle fuel queue (insertResult a (emptyResult a) results)
      | some (.ok r) => discoverLoop oracle fuel (enqueue queue r.succs) (insertResult a r results)
      | some (.err e) => .err e
      | some .panic => .panic

/-- the work-list phase: the queue starts with the function address, then heads and tails of the manual edges -/
def discover (oracle : Nat → Option (Res BTR)) (manual : List ManualEdge) (fnAddr : Nat) (fuel : Nat) :
    Res (List (Nat × BTR)) :=
  discoverLoop oracle fuel (fnAddr :: manual.flatMap (fun m => [m.head, m.tail])) []

/-- `translate_function_extended` -/
def translateFunction (oracle : Nat → Option (Res BTR)) (manual : List ManualEdge) (fnAddr : Nat) (fuel : Nat) :
    Res Function :=
  match discover oracle manual fnAddr fuel with
  | .ok tb => assemble tb manual fnAddr
  | .err e => .err e
  | .panic => .panic

-- ------------------------------------------------------------------------------------------------
-- the reference: "one lifted instruction at a time", and the coherence hypothesis (semantic clause of C06)

/-- all instruction graphs of all results, in iteration order -/
def allInstrs (tb : List (Nat × BTR)) : List Function := tb.flatMap (fun p => p.2.instrs)

/-- THE instruction graph at address `a` (the first one in iteration order; under coherence every copy is equal) -/
def graphAt (tb : List (Nat × BTR)) (a : Nat) : Option Cfg :=
  ((allInstrs tb).find? (fun g => g.addr == a)).map (·.cfg)

/-- consecutive pairs of a list -/
def pairs : List Nat → List (Nat × Nat)
  | a :: b :: t => (a, b) :: pairs (b :: t)
  | _ => []

def firstAddr (r : BTR) : Option Nat := r.instrs.head?.map (·.addr)
def lastAddr (r : BTR) : Option Nat := r.instrs.getLast?.map (·.addr)

/-- inside a translation result an instruction is followed by the next one -/
def reqLinks (tb : List (Nat × BTR)) : List (Nat × Nat × Option Expr) :=
  tb.flatMap (fun p => (pairs (p.2.instrs.map (·.addr))).map (fun q => (q.1, q.2, none)))

/-- a manual edge leaves the last instruction of the result at its head address and enters the first
    instruction of the result at its tail address -/
def reqManual (tb : List (Nat × BTR)) (manual : List ManualEdge) : List (Nat × Nat × Option Expr) :=
  manual.filterMap (fun m =>
    match tb.lookup m.head, tb.lookup m.tail with
    | some h, some t =>
      match lastAddr h, firstAddr t with
      | some a, some b => some (a, b, m.cond)
      | _, _ => none
    | _, _ => none)

/-- the successors of a result leave its last instruction -/
def reqSuccs (tb : List (Nat × BTR)) : List (Nat × Nat × Option Expr) :=
  tb.flatMap (fun p => p.2.succs.filterMap (fun s =>
    match tb.lookup s.1 with
    | some t =>
      match lastAddr p.2, firstAddr t with
      | some a, some b => some (a, b, s.2)
      | _, _ => none
    | none => none))

/-- what the translation results and the manual edges say about control flow between instructions:
    (a, b, guard) = "after the instruction at `a`, when `guard` holds, comes the instruction at `b`" -/
def reqList (tb : List (Nat × BTR)) (manual : List ManualEdge) : List (Nat × Nat × Option Expr) :=
  reqLinks tb ++ reqManual tb manual ++ reqSuccs tb

/-- configuration of the reference: inside the instruction graph at `addr`, at `block`/`pos`, in `state` -/
structure RConfig where
  addr : Nat
  block : Nat
  pos : Nat
  state : State

/-- one step of the reference machine: IL steps inside the instruction graph at the current address (the IL
    operational semantics `FStep` of Exec.lean on that graph alone), and, at the end of its exit block, the
    transfer to the entry of the instruction graph at a successor address whose guard holds -/
inductive RStep (tb : List (Nat × BTR)) (manual : List ManualEdge) : RConfig → RConfig → Prop where
  | instr {x : RConfig} {g : Cfg} {b : Block} {i : Instr} {σ' : State} :
      graphAt tb x.addr = some g → g.block x.block = some b → b.instrs[x.pos]? = some i →
      execute x.state i.op = .ok (σ', .fallThrough) →
      RStep tb manual x ⟨x.addr, x.block, x.pos + 1, σ'⟩
  | edge {x : RConfig} {g : Cfg} {b : Block} {e : Edge} :
      graphAt tb x.addr = some g → g.block x.block = some b → x.pos = b.instrs.length →
      e ∈ g.edgesOut x.block → guardHolds x.state e.cond →
      RStep tb manual x ⟨x.addr, e.tail, 0, x.state⟩
  | next {x : RConfig} {g g' : Cfg} {b : Block} {a' en : Nat} {c : Option Expr} :
      graphAt tb x.addr = some g → g.exit = some x.block → g.block x.block = some b →
      x.pos = b.instrs.length → (x.addr, a', c) ∈ reqList tb manual → guardHolds x.state c →
      graphAt tb a' = some g' → g'.entry = some en →
      RStep tb manual x ⟨a', en, 0, x.state⟩

inductive RRun (tb : List (Nat × BTR)) (manual : List ManualEdge) : RConfig → RConfig → Prop where
  | refl (x : RConfig) : RRun tb manual x x
  | step {x y z : RConfig} : RRun tb manual x y → RStep tb manual y z → RRun tb manual x z

/-- a configuration that is inside its instruction graph -/
def RValid (tb : List (Nat × BTR)) (x : RConfig) : Prop :=
  ∃ g b, graphAt tb x.addr = some g ∧ g.block x.block = some b ∧ x.pos ≤ b.instrs.length

/-- **coherence of the translation results** (the hypothesis of `asm_refines`; every clause is decidable and the
    driver evaluates `coherenceProblems` on the dumped results of every generated case):
    * `keys`     results are keyed by distinct addresses (it is a `BTreeMap`);
    * `first`    the result at address `k` starts with the instruction at `k` (in particular it is not empty);
    * `same`     an address has the same instruction graph in every result that contains it (wherever the window
                 started, whichever block it was lifted in);
    * `exitOut`  the exit block of an instruction graph has no out-edge inside the graph (leaving the exit block
                 means leaving the instruction);
    * `reqFun`   two control transfers between the same two instructions carry the same guard (the assembly keeps
                 only the first edge between two blocks). -/
structure Coherent (tb : List (Nat × BTR)) (manual : List ManualEdge) : Prop where
  keys : (tb.map (·.1)).Nodup
  first : ∀ p ∈ tb, firstAddr p.2 = some p.1
  same : ∀ g₁ ∈ allInstrs tb, ∀ g₂ ∈ allInstrs tb, g₁.addr = g₂.addr → g₁.cfg = g₂.cfg
  exitOut : ∀ g ∈ allInstrs tb, ∀ x, g.cfg.exit = some x → g.cfg.edgesOut x = []
  reqFun : ∀ q₁ ∈ reqList tb manual, ∀ q₂ ∈ reqList tb manual, q₁.1 = q₂.1 → q₁.2.1 = q₂.2.1 → q₁.2.2 = q₂.2.2

instance (tb : List (Nat × BTR)) (manual : List ManualEdge) : Decidable (Coherent tb manual) :=
  if h : (tb.map (·.1)).Nodup ∧ (∀ p ∈ tb, firstAddr p.2 = some p.1) ∧
      (∀ g₁ ∈ allInstrs tb, ∀ g₂ ∈ allInstrs tb, g₁.addr = g₂.addr → g₁.cfg = g₂.cfg) ∧
      (∀ g ∈ allInstrs tb, ∀ x, g.cfg.exit = some x → g.cfg.edgesOut x = []) ∧
      (∀ q₁ ∈ reqList tb manual, ∀ q₂ ∈ reqList tb manual, q₁.1 = q₂.1 → q₁.2.1 = q₂.2.1 → q₁.2.2 = q₂.2.2)
  then isTrue ⟨h.1, h.2.1, h.2.2.1, h.2.2.2.1, h.2.2.2.2⟩
  else isFalse (fun c => h ⟨c.keys, c.first, c.same, c.exitOut, c.reqFun⟩)

/-- the clauses of `Coherent` that fail, by name (driver) -/
def coherenceProblems (tb : List (Nat × BTR)) (manual : List ManualEdge) : List String :=
  (if (tb.map (·.1)).Nodup then [] else ["keys"]) ++
  (match tb.find? (fun p => firstAddr p.2 != some p.1) with | some p => [s!"first@{p.1}"] | none => []) ++
  (match (allInstrs tb).find? (fun g₁ => (allInstrs tb).any (fun g₂ => g₁.addr == g₂.addr && g₁.cfg != g₂.cfg)) with
    | some g => [s!"same@{g.addr}"] | none => []) ++
  (match (allInstrs tb).find? (fun g => match g.cfg.exit with | some x => !(g.cfg.edgesOut x).isEmpty | none => false) with
    | some g => [s!"exitOut@{g.addr}"] | none => []) ++
  (match (reqList tb manual).find? (fun q₁ => (reqList tb manual).any (fun q₂ => q₁.1 == q₂.1 && q₁.2.1 == q₂.2.1 && q₁.2.2 != q₂.2.2)) with
    | some q => [s!"reqFun@{q.1}->{q.2.1}"] | none => [])

/-- **successor determinism against a per-instruction view of the machine code.**  `single pc` = what lifting the ONE
    instruction at `pc` gives: its instruction graphs (one; a MIPS branch unit has the branch, its delay slot and the
    branch's own graph) and its successors.  The translation results agree with it when, for every unit, the
    transfers they request out of each graph's address (manual edges aside) are exactly: to the next graph of the
    unit, and out of the last graph the unit's successors — whatever window or block the address was lifted in.
    The driver evaluates this on the units the reference run executes (verdict `incoherent continuation@…`). -/
def SingleCoherent (tb : List (Nat × BTR)) (single : Nat → Option (List Function × List (Nat × Option Expr))) : Prop :=
  ∀ pc gs succs, single pc = some (gs, succs) →
    (∀ g ∈ gs, graphAt tb g.addr = some g.cfg) ∧
    (∀ q ∈ pairs (gs.map (·.addr)), ∀ b c, (q.1, b, c) ∈ reqLinks tb ++ reqSuccs tb ↔ (b = q.2 ∧ c = none)) ∧
    (∀ g, gs.getLast? = some g → ∀ b c, (g.addr, b, c) ∈ reqLinks tb ++ reqSuccs tb ↔ (b, c) ∈ succs)

-- ------------------------------------------------------------------------------------------------
-- differently guarded transfers between the same two instructions (merged by OR since falcon fed1e64)

/-- `c` evaluates in `σ` to a 0/1 constant of width one (what the guards of the lifters do wherever their flags
    are defined; cf. C05's `guards_exactly_one`) -/
def GuardBit (σ : State) (c : Expr) : Prop :=
  ∃ e, σ.symbolize c = .ok e ∧ e.bits = 1 ∧ ∃ a, e.eval = .ok a ∧ a.bits = 1 ∧ a.val ≤ 1

/-- every guard of a requested transfer is a bit in `σ` -/
def GuardsTyped (tb : List (Nat × BTR)) (manual : List ManualEdge) (σ : State) : Prop :=
  ∀ q ∈ reqList tb manual, ∀ g, q.2.2 = some g → GuardBit σ g

/-- executable form of `GuardBit` (driver) -/
def guardBitB (σ : State) (c : Expr) : Bool :=
  match σ.symbolize c with
  | .ok e => e.bits == 1 && (match e.eval with | .ok a => a.bits == 1 && decide (a.val ≤ 1) | _ => false)
  | _ => false

/-- what `linkOrMerge` does to the guard of an existing edge -/
def mergeGuard (existing new : Option Expr) : Option Expr :=
  match existing, new with
  | some e, some c => if e = c then some e else some (.bin .or e c)
  | some _, none => none
  | none, _ => none

/-- successors of one result with duplicate targets merged the way the successor loop merges their edges: the
    first occurrence of a target keeps its place and absorbs the guards of the later ones -/
def normSuccsAux : Nat → List (Nat × Option Expr) → List (Nat × Option Expr)
  | 0, _ => []
  | _ + 1, [] => []
  | fuel + 1, (s, c) :: rest =>
    let same := rest.filter (fun q => q.1 == s)
    let others := rest.filter (fun q => q.1 != s)
    (s, same.foldl (fun g q => mergeGuard g q.2) c) :: normSuccsAux fuel others

def normSuccs (l : List (Nat × Option Expr)) : List (Nat × Option Expr) := normSuccsAux l.length l

/-- the normalised table: same results, duplicate successor targets merged -/
def normalize (tb : List (Nat × BTR)) : List (Nat × BTR) :=
  tb.map (fun p => (p.1, { p.2 with succs := normSuccs p.2.succs }))

/-- `g` is a disjunction (any nesting) of guards satisfying `R`; `ls` = those guards, left to right -/
inductive OrTree (R : Expr → Prop) : Expr → List Expr → Prop where
  | leaf {c : Expr} : R c → OrTree R c [c]
  | node {l r : Expr} {ls rs : List Expr} : OrTree R l ls → OrTree R r rs → OrTree R (.bin .or l r) (ls ++ rs)

/-- executable decomposition of a disjunction into guards from the list `R` -/
def orLeaves (R : List Expr) : Expr → Option (List Expr)
  | .bin op l r =>
    if R.contains (.bin op l r) then some [.bin op l r]
    else match op with
      | .or => (match orLeaves R l, orLeaves R r with
          | some a, some b => some (a ++ b)
          | _, _ => none)
      | _ => none
  | e => if R.contains e then some [e] else none

/-- the guards requested for the pair (a, b) -/
def pairGuards (r : List (Nat × Nat × Option Expr)) (a b : Nat) : List Expr :=
  (r.filter (fun q => q.1 == a && q.2.1 == b)).filterMap (·.2.2)

/-- `tb'` requests the same transfers as `tb`, except that differently guarded requests of `tb` for one pair of
    instructions may appear in `tb'` as a request guarded by a disjunction of them (any nesting), or by nothing -/
structure MergedOf (tb tb' : List (Nat × BTR)) (manual : List ManualEdge) : Prop where
  /-- an unconditional request of `tb'` is one of `tb`; a guarded one is a disjunction of guards requested by `tb` -/
  back : ∀ q ∈ reqList tb' manual,
    (q.2.2 = none → q ∈ reqList tb manual) ∧
    (∀ g, q.2.2 = some g → ∃ ls, OrTree (fun c => (q.1, q.2.1, some c) ∈ reqList tb manual) g ls)
  /-- every request of `tb` is absorbed by an unconditional request of `tb'` or is a disjunct of a request of `tb'` -/
  forth : ∀ q ∈ reqList tb manual, (q.1, q.2.1, none) ∈ reqList tb' manual ∨
    ∃ c g ls, q.2.2 = some c ∧ (q.1, q.2.1, some g) ∈ reqList tb' manual ∧
      OrTree (fun c => (q.1, q.2.1, some c) ∈ reqList tb manual) g ls ∧ c ∈ ls

/-- executable form of `MergedOf` (driver) -/
def mergedOfB (tb tb' : List (Nat × BTR)) (manual : List ManualEdge) : Bool :=
  let r := reqList tb manual
  let r' := reqList tb' manual
  r'.all (fun q =>
    match q.2.2 with
    | none => r.contains q
    | some g => (orLeaves (pairGuards r q.1 q.2.1) g).isSome) &&
  r.all (fun q => r'.contains (q.1, q.2.1, none) ||
    (match q.2.2 with
     | some c => r'.any (fun q' => q'.1 == q.1 && q'.2.1 == q.2.1 &&
         (match q'.2.2 with
          | some g => (match orLeaves (pairGuards r q.1 q.2.1) g with | some ls => ls.contains c | none => false)
          | none => false))
     | none => false))

/-- the guard falcon's assembly ends up with on the edge for the pair (a, b): among link and manual requests the
    first wins, successor requests are merged in -/
def finalGuard (tb : List (Nat × BTR)) (manual : List ManualEdge) (a b : Nat) : Option (Option Expr) :=
  let same := fun (q : Nat × Nat × Option Expr) => q.1 == a && q.2.1 == b
  let early := (reqLinks tb ++ reqManual tb manual).filter same
  let late := (reqSuccs tb).filter same
  late.foldl (fun acc q => match acc with
    | none => some q.2.2
    | some g => some (mergeGuard g q.2.2)) (early.head?.map (·.2.2))

/-- the table in which every successor carries the final guard of its transfer (so that no two requests for one
    pair differ any more) -/
def canonTable (tb : List (Nat × BTR)) (manual : List ManualEdge) : List (Nat × BTR) :=
  tb.map (fun p => (p.1, { p.2 with succs := p.2.succs.map (fun s =>
    match lastAddr p.2, (tb.lookup s.1).bind firstAddr with
    | some a, some b => (s.1, (finalGuard tb manual a b).getD s.2)
    | _, _ => s) }))

end Assemble
end Falcon
