/-
  FalconModel.Assemble — mirror of `Translator::translate_function_extended` (`lib/translator/mod.rs`):
  the work-list phase (`discover`) and the assembly of the translation results into one control-flow graph
  (`assembleCore`, `assemble`), on top of the C15 model of `ControlFlowGraph::{insert, unconditional_edge,
  conditional_edge, set_entry, merge}` (`FalconModel/CfgEdit.lean`).

  `translation_results: BTreeMap<u64, BlockTranslationResult>` is a list of (address, result) sorted by
  address (its iteration order); `instruction_indices` / `block_indices: BTreeMap<u64, (usize, usize)>` are
  association lists (`List.lookup` on a consed list = `BTreeMap::insert` overwriting; `instruction_indices`
  is only ever inserted into when the key is vacant, so it doubles as the log of the `insert` calls: one
  (address, (entry, exit)) triple per inserted instruction graph).  Every `?` of the Rust code is an early
  return that drops the graph, so the phases return `Res`; `block_indices[&…]` on a missing key is `panic`.
-/
import FalconModel.CfgEdit
import FalconModel.Lift

namespace Falcon
namespace Assemble
open CfgEdit

/-- `translator::ManualEdge` -/
structure ManualEdge where
  head : Nat
  tail : Nat
  cond : Option Expr := none
  deriving Repr, Inhabited

abbrev IdxMap := List (Nat × (Nat × Nat))

structure AsmState where
  cfg : Cfg := {}
  /-- `instruction_indices`; also the log of the `insert` calls, most recent first -/
  instrIdx : IdxMap := []
  /-- `block_indices` -/
  blockIdx : IdxMap := []
  deriving Inhabited

/-- lift a `Step` whose graph is dropped on failure -/
def stepRes {α : Type} (s : Step α) : Res (Cfg × α) :=
  match s.res with
  | .ok a => .ok (s.cfg, a)
  | .err e => .err e
  | .panic => .panic

/-- "Have we already inserted this instruction?": the (entry, exit) of the instruction graph at `g.addr` -/
def placeInstr (st : AsmState) (g : Function) : Res (AsmState × Nat × Nat) :=
  match st.instrIdx.lookup g.addr with
  | some (en, ex) => .ok (st, en, ex)
  | none =>
    match stepRes (CfgEdit.insert st.cfg g.cfg) with
    | .ok (c, (en, ex)) => .ok ({ st with cfg := c, instrIdx := (g.addr, (en, ex)) :: st.instrIdx }, en, ex)
    | .err e => .err e
    | .panic => .panic

/-- `if control_flow_graph.edge(h, t).is_err() { control_flow_graph.unconditional_edge(h, t)?; }` and its
    conditional variant -/
def linkIfAbsent (c : Cfg) (h t : Nat) (cond : Option Expr) : Res Cfg :=
  if hasEdge c h t then .ok c
  else
    match stepRes (match cond with
      | some g => conditionalEdge c h t g
      | none => unconditionalEdge c h t) with
    | .ok (c', _) => .ok c'
    | .err e => .err e
    | .panic => .panic

/-- the loop over the instructions of one translation result; `be`/`bx` = `block_entry`/`block_exit`
    (both start as 0), `prev` = `previous_exit` -/
def blockLoop : AsmState → Nat → Nat → Option Nat → List Function → Res (AsmState × Nat × Nat)
  | st, be, bx, _, [] => .ok (st, be, bx)
  | st, be, _, prev, g :: gs =>
    match placeInstr st g with
    | .ok (st1, en, ex) =>
      match prev with
      | some p =>
        match linkIfAbsent st1.cfg p en none with
        | .ok c => blockLoop { st1 with cfg := c } be ex (some ex) gs
        | .err e => .err e
        | .panic => .panic
      | none => blockLoop st1 en ex (some ex) gs
    | .err e => .err e
    | .panic => .panic

/-- `for result in &translation_results { … block_indices.insert(*result.0, (block_entry, block_exit)); }` -/
def resultsLoop : AsmState → List (Nat × BTR) → Res AsmState
  | st, [] => .ok st
  | st, (a, r) :: rest =>
    match blockLoop st 0 0 none r.instrs with
    | .ok (st1, be, bx) => resultsLoop { st1 with blockIdx := (a, (be, bx)) :: st1.blockIdx } rest
    | .err e => .err e
    | .panic => .panic

/-- "Start with edges for our manual edges" -/
def manualLoop : AsmState → List ManualEdge → Res AsmState
  | st, [] => .ok st
  | st, m :: ms =>
    match st.blockIdx.lookup m.head, st.blockIdx.lookup m.tail with
    | some (_, eh), some (et, _) =>
      match linkIfAbsent st.cfg eh et m.cond with
      | .ok c => manualLoop { st with cfg := c } ms
      | .err e => .err e
      | .panic => .panic
    | _, _ => .panic

/-- the successors of one translation result -/
def succLoop (bx : Nat) : AsmState → List (Nat × Option Expr) → Res AsmState
  | st, [] => .ok st
  | st, (sa, sc) :: rest =>
    match st.blockIdx.lookup sa with
    | some (be, _) =>
      match linkIfAbsent st.cfg bx be sc with
      | .ok c => succLoop bx { st with cfg := c } rest
      | .err e => .err e
      | .panic => .panic
    | none => .panic

/-- "For every block translation result" -/
def succsLoop : AsmState → List (Nat × BTR) → Res AsmState
  | st, [] => .ok st
  | st, (a, r) :: rest =>
    match st.blockIdx.lookup a with
    | some (_, bx) =>
      match succLoop bx st r.succs with
      | .ok st1 => succsLoop st1 rest
      | .err e => .err e
      | .panic => .panic
    | none => .panic

/-- everything between the work list and `set_entry`: the graph before entry and merge, with the two maps -/
def assembleCore (tb : List (Nat × BTR)) (manual : List ManualEdge) : Res AsmState :=
  match resultsLoop {} tb with
  | .ok st1 =>
    match manualLoop st1 manual with
    | .ok st2 => succsLoop st2 tb
    | .err e => .err e
    | .panic => .panic
  | .err e => .err e
  | .panic => .panic

/-- `set_entry(block_indices[&function_address].0)?` on the assembled graph -/
def withEntry (st : AsmState) (fnAddr : Nat) : Res Cfg :=
  match st.blockIdx.lookup fnAddr with
  | some (be, _) =>
    match stepRes (setEntry st.cfg be) with
    | .ok (c, _) => .ok c
    | .err e => .err e
    | .panic => .panic
  | none => .panic

/-- the part of `translate_function_extended` after the work list -/
def assemble (tb : List (Nat × BTR)) (manual : List ManualEdge) (fnAddr : Nat) : Res Function :=
  match assembleCore tb manual with
  | .ok st =>
    match withEntry st fnAddr with
    | .ok c =>
      match stepRes (merge c) with
      | .ok (c', _) => .ok { addr := fnAddr, cfg := c' }
      | .err e => .err e
      | .panic => .panic
    | .err e => .err e
    | .panic => .panic
  | .err e => .err e
  | .panic => .panic

-- ------------------------------------------------------------------------------------------------
-- the work list

/-- the translation result falcon makes up when `get_bytes` returns nothing: one empty block that is
    entry and exit, no successors -/
def emptyResult (a : Nat) : BTR :=
  { addr := a, length := 0,
    instrs := [{ addr := a, cfg := { blocks := [{ index := 0 }], entry := some 0, exit := some 0, nextIndex := 1 } }],
    succs := [] }

/-- `BTreeMap::insert` of a key that is not present -/
def insertResult (a : Nat) (r : BTR) : List (Nat × BTR) → List (Nat × BTR)
  | [] => [(a, r)]
  | (b, s) :: rest => if a < b then (a, r) :: (b, s) :: rest else (b, s) :: insertResult a r rest

/-- "enqueue all successors": `if !translation_queue.contains(&successor.0) { push_back }` -/
def enqueue : List Nat → List (Nat × Option Expr) → List Nat
  | q, [] => q
  | q, (a, _) :: rest => enqueue (if q.contains a then q else q ++ [a]) rest

/-- the `while !translation_queue.is_empty()` loop.  `oracle a` = what `translate_block(get_bytes(a, 64), a)`
    returns: `none` when `get_bytes` is empty.  Out of fuel is reported as `panic` (the loop would not end). -/
def discoverLoop (oracle : Nat → Option (Res BTR)) : Nat → List Nat → List (Nat × BTR) → Res (List (Nat × BTR))
  | _, [], results => .ok results
  | 0, _ :: _, _ => .panic
  | fuel + 1, a :: queue, results =>
    if (results.lookup a).isSome then discoverLoop oracle fuel queue results
    else
      match oracle a with
      | none => discoverLoop oracle fuel queue (insertResult a (emptyResult a) results)
      | some (.ok r) => discoverLoop oracle fuel (enqueue queue r.succs) (insertResult a r results)
      | some (.err e) => .err e
      | some .panic => .panic

/-- the work-list phase: the queue starts with the function address, then heads and tails of the manual edges -/
def discover (oracle : Nat → Option (Res BTR)) (manual : List ManualEdge) (fnAddr : Nat) (fuel : Nat) :
    Res (List (Nat × BTR)) :=
  discoverLoop oracle fuel (fnAddr :: manual.flatMap (fun m => [m.head, m.tail])) []

/-- `translate_function_extended` -/
def translateFunction (oracle : Nat → Option (Res BTR)) (manual : List ManualEdge) (fnAddr : Nat) (fuel : Nat) :
    Res Function :=
  match discover oracle manual fnAddr fuel with
  | .ok tb => assemble tb manual fnAddr
  | .err e => .err e
  | .panic => .panic

end Assemble
end Falcon
