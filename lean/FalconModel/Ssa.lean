/-
  FalconModel.Ssa — property C10: the meaning of an IL function in SSA form, and the validator `ssaCheck`.

  * `SState`, `SState.evalIn`, `executeS`, `SStep`, `sstep`: the SSA executor.  Scalars are keyed by
    (name, version); an instruction executes as in `Exec.lean`; traversing an edge `p → s` performs the
    PARALLEL assignment of the phi nodes of `s`, each selecting its operand for `p` (at function entry: its
    `entry` operand).  A phi node without an operand for the edge taken makes the run stuck (no step):
    nothing is totalised.  falcon's own executor ignores phi nodes, so this executor exists only here.
  * `eraseF`: forget versions and phi nodes.
  * `Cert`, `certOk`, `computeCert`, `ssaCheck`: the validator of DESIGN §6 C10.  The certificate (the set of
    blocks reachable from the entry, and for every such block the map `Vin : name → Known version | ⊤`) is
    computed by a plain forward iteration over the SSA function with fuel (`computeCert`, NOT trusted) and
    then checked inductive by `certOk` (trusted through the theorems of FalconProofs/Props/C10.lean).

  Core Lean only (links into the native driver `fvd_c10`).
-/
import FalconModel.Exec

namespace Falcon
namespace Ssa

-- ------------------------------------------------------------------ SSA state

/-- a scalar of the SSA form is identified by its name and its version (`none` = unversioned: the value the
    name had on entry to the function) -/
abbrev Key := String × Option Nat

def key (s : Scalar) : Key := (s.name, s.ssa)

structure SState where
  scalars : Key → Option Const
  mem : ByteMem := ByteMem.empty
  endian : Endian := .little

namespace SState

def get (τ : SState) (k : Key) : Option Const := τ.scalars k

/-- `put k (some v)` binds, `put k none` unbinds (a phi node copying an unbound operand) -/
def put (τ : SState) (k : Key) (v : Option Const) : SState :=
  { τ with scalars := fun k' => if k' = k then v else τ.scalars k' }

/-- the SSA state at function entry: every name is held by its unversioned scalar -/
def ofState (σ : State) : SState :=
  { scalars := fun k => match k.2 with
      | none => σ.get k.1
      | some _ => none,
    mem := σ.mem, endian := σ.endian }

/-- `State::symbolize_expression` with the lookup by (name, version) -/
def symbolize (τ : SState) : Expr → Res Expr
  | .scalar s => match τ.get (key s) with
      | some c => .ok (.const c)
      | none => .ok (.scalar s)
  | .const c => .ok (.const c)
  | .bin op l r => do
      let l' ← symbolize τ l
      let r' ← symbolize τ r
      Expr.mkBin op l' r'
  | .ext op b e => do
      let e' ← symbolize τ e
      Expr.mkExt op b e'
  | .ite c t e => do
      let c' ← symbolize τ c
      let t' ← symbolize τ t
      let e' ← symbolize τ e
      Expr.mkIte c' t' e'

def evalIn (τ : SState) (e : Expr) : Res Const := do
  let e' ← τ.symbolize e
  e'.eval

end SState

/-- `State::execute` on the SSA state (same text as `Falcon.execute`, writes go to (name, version)) -/
def executeS (τ : SState) : Op → Res (SState × Succ)
  | .assign dst src => do
      let v ← τ.evalIn src
      .ok (τ.put (key dst) (some v), .fallThrough)
  | .store index src => do
      let v ← τ.evalIn src
      let i ← τ.evalIn index
      let a ← addrOf i
      if v.bits % 8 ≠ 0 ∨ v.bits = 0 then .err .other
      else if a + v.bits / 8 > 2 ^ 64 then .panic
      else .ok ({ τ with mem := τ.mem.write a (bytesOf τ.endian v) }, .fallThrough)
  | .load dst index => do
      let i ← τ.evalIn index
      let a ← addrOf i
      if dst.bits % 8 ≠ 0 ∨ dst.bits = 0 then .err .other
      else if a + dst.bits / 8 > 2 ^ 64 then .panic
      else match τ.mem.readBytes a (dst.bits / 8) with
        | some bs => .ok (τ.put (key dst) (some (constOfBytes τ.endian bs)), .fallThrough)
        | none => .err .unmapped
  | .branch target => do
      let t ← τ.evalIn target
      let a ← addrOf t
      .ok (τ, .branch a)
  | .intrinsic _ => .err .intrinsic
  | .nop => .ok (τ, .fallThrough)

/-- a guard is enabled: unconditional, or it evaluates to a constant that `is_one` -/
def guardOkS (τ : SState) : Option Expr → Bool
  | none => true
  | some g => match τ.evalIn g with
    | .ok c => c.val == 1
    | _ => false

/-- the operand a phi node selects: by predecessor block, or the `entry` operand at function entry -/
def phiSelect (p : Option Nat) (φ : Phi) : Option Scalar :=
  match p with
  | none => φ.entry
  | some b => φ.incoming.lookup b

/-- the parallel assignment of a list of phi nodes: operands are read in `τ₀` (the state before the edge),
    outputs are written into the accumulator; `none` = some phi node has no operand for this edge -/
def applyPhis (τ₀ : SState) (p : Option Nat) : List Phi → SState → Option SState
  | [], acc => some acc
  | φ :: φs, acc =>
    match phiSelect p φ with
    | none => none
    | some o => applyPhis τ₀ p φs (acc.put (key φ.out) (τ₀.get (key o)))

/-- enter block `s` coming from `p` (`none` = function entry) -/
def enterBlock (g : Function) (p : Option Nat) (s : Nat) (τ : SState) : Option SState :=
  match g.block s with
  | none => none
  | some b => applyPhis τ p b.phis τ

structure SConfig where
  block : Nat
  pos : Nat
  state : SState

/-- one step of the SSA form -/
inductive SStep (g : Function) : SConfig → SConfig → Prop where
  | instr {b : Block} {i : Instr} {c : SConfig} {τ' : SState} :
      g.block c.block = some b → b.instrs[c.pos]? = some i →
      executeS c.state i.op = .ok (τ', .fallThrough) →
      SStep g c ⟨c.block, c.pos + 1, τ'⟩
  | edge {b : Block} {e : Edge} {c : SConfig} {τ' : SState} :
      g.block c.block = some b → c.pos = b.instrs.length →
      e ∈ g.cfg.edgesOut c.block → guardOkS c.state e.cond = true →
      enterBlock g (some c.block) e.tail c.state = some τ' →
      SStep g c ⟨e.tail, 0, τ'⟩

/-- the initial configuration: the phi nodes of the entry block select their `entry` operand -/
def sinitial (g : Function) (σ : State) : Option SConfig :=
  match g.cfg.entry with
  | none => none
  | some e => (enterBlock g none e (SState.ofState σ)).map (fun τ => ⟨e, 0, τ⟩)

def enabledEdgesS (g : Function) (c : SConfig) : List Edge :=
  (g.cfg.edgesOut c.block).filter (fun e => guardOkS c.state e.cond)

/-- executable step (first enabled edge, as `Falcon.fstep`) -/
def sstep (g : Function) (c : SConfig) : Option SConfig :=
  match g.block c.block with
  | none => none
  | some b =>
    match b.instrs[c.pos]? with
    | some i =>
      match executeS c.state i.op with
      | .ok (τ', .fallThrough) => some ⟨c.block, c.pos + 1, τ'⟩
      | _ => none
    | none =>
      if c.pos = b.instrs.length then
        match enabledEdgesS g c with
        | e :: _ => (enterBlock g (some c.block) e.tail c.state).map (fun τ' => ⟨e.tail, 0, τ'⟩)
        | [] => none
      else none

-- ------------------------------------------------------------------ what is observed at a configuration

/-- the expressions an operation evaluates, in a fixed order -/
def opExprs : Op → List Expr
  | .assign _ src => [src]
  | .store index src => [index, src]
  | .load _ index => [index]
  | .branch t => [t]
  | .intrinsic _ => []
  | .nop => []

/-- outcome of an instruction without the successor state -/
def outcome {α : Type} : Res (α × Succ) → Res Succ
  | .ok (_, s) => .ok s
  | .err e => .err e
  | .panic => .panic

/-- what a run shows at one configuration: where it is, the value of every expression evaluated there
    (operands of the instruction; at the end of a block the guard of every out-edge, in edge order), the
    outcome of the instruction (fall through / branch target / error kind / panic) -/
structure Obs where
  block : Nat
  pos : Nat
  vals : List (Res Const)
  outcome : Option (Res Succ)
  deriving DecidableEq, Repr

def guardExprs (f : Function) (b : Nat) : List Expr :=
  (f.cfg.edgesOut b).filterMap (·.cond)

def obsF (f : Function) (c : Config) : Obs :=
  match f.block c.block with
  | none => ⟨c.block, c.pos, [], none⟩
  | some b =>
    match b.instrs[c.pos]? with
    | some i => ⟨c.block, c.pos, (opExprs i.op).map c.state.evalIn, some (outcome (execute c.state i.op))⟩
    | none => ⟨c.block, c.pos, (guardExprs f c.block).map c.state.evalIn, none⟩

def obsS (g : Function) (c : SConfig) : Obs :=
  match g.block c.block with
  | none => ⟨c.block, c.pos, [], none⟩
  | some b =>
    match b.instrs[c.pos]? with
    | some i => ⟨c.block, c.pos, (opExprs i.op).map c.state.evalIn, some (outcome (executeS c.state i.op))⟩
    | none => ⟨c.block, c.pos, (guardExprs g c.block).map c.state.evalIn, none⟩

/-- `n` steps of the deterministic executors -/
def frunN (f : Function) : Nat → Config → Option Config
  | 0, c => some c
  | n + 1, c => (fstep f c).bind (frunN f n)

def srunN (g : Function) : Nat → SConfig → Option SConfig
  | 0, c => some c
  | n + 1, c => (sstep g c).bind (srunN g n)

-- ------------------------------------------------------------------ erasing versions

def eraseS (s : Scalar) : Scalar := { s with ssa := none }

def eraseE : Expr → Expr
  | .scalar s => .scalar (eraseS s)
  | .const c => .const c
  | .bin op l r => .bin op (eraseE l) (eraseE r)
  | .ext op b e => .ext op b (eraseE e)
  | .ite c t e => .ite (eraseE c) (eraseE t) (eraseE e)

def eraseI (i : Intrinsic) : Intrinsic :=
  { i with args := i.args.map eraseE, written := i.written.map (·.map eraseE), read := i.read.map (·.map eraseE) }

def eraseOp : Op → Op
  | .assign d s => .assign (eraseS d) (eraseE s)
  | .store i s => .store (eraseE i) (eraseE s)
  | .load d i => .load (eraseS d) (eraseE i)
  | .branch t => .branch (eraseE t)
  | .intrinsic i => .intrinsic (eraseI i)
  | .nop => .nop

def eraseIns (i : Instr) : Instr := { i with op := eraseOp i.op }
def eraseB (b : Block) : Block := { b with instrs := b.instrs.map eraseIns, phis := [] }
def eraseEdge (e : Edge) : Edge := { e with cond := e.cond.map eraseE }
def eraseF (g : Function) : Function :=
  { g with cfg := { g.cfg with blocks := g.cfg.blocks.map eraseB, edges := g.cfg.edges.map eraseEdge } }

-- ------------------------------------------------------------------ version maps

/-- `name ↦ Known version`; a name that is not listed is `⊤` (no version is known to hold its value) -/
abbrev VMap := List (String × Option Nat)

def VMap.set (m : VMap) (name : String) (v : Option Nat) : VMap := (name, v) :: m

/-- every scalar read carries exactly the `Known` version of its name -/
def readsOk (m : VMap) (ss : List Scalar) : Bool := ss.all (fun s => m.lookup s.name == some s.ssa)

def setAll (m : VMap) (ss : List Scalar) : VMap := ss.foldl (fun m s => m.set s.name s.ssa) m

/-- the scalars an operation reads (an intrinsic: the declared ones) -/
def opReads : Op → List Scalar
  | .assign _ src => src.scalars
  | .store index src => index.scalars ++ src.scalars
  | .load _ index => index.scalars
  | .branch t => t.scalars
  | .intrinsic i => (i.scalarsRead).getD []
  | .nop => []

/-- the scalars an operation writes (an intrinsic: the declared ones) -/
def opWrites : Op → List Scalar
  | .assign d _ => [d]
  | .load d _ => [d]
  | .intrinsic i => (i.scalarsWritten).getD []
  | _ => []

/-- abstract execution of one operation: `none` = a read does not carry the Known version -/
def stepV (m : VMap) (op : Op) : Option VMap :=
  if readsOk m (opReads op) then some (setAll m (opWrites op)) else none

def walkV (m : VMap) : List Instr → Option VMap
  | [] => some m
  | i :: is => match stepV m i.op with
    | none => none
    | some m' => walkV m' is

/-- phi outputs, as one parallel assignment, on top of the map holding on entry -/
def phiStart (m : VMap) (phis : List Phi) : VMap := phis.foldl (fun m φ => m.set φ.out.name φ.out.ssa) m

def hasPhi (phis : List Phi) (name : String) : Bool := phis.any (fun φ => φ.out.name == name)

structure Cert where
  /-- blocks reachable from the entry -/
  reach : List Nat
  /-- per block: the Known versions on entry (before its phi nodes) -/
  vin : List (Nat × VMap)

def Cert.vinOf (c : Cert) (b : Nat) : VMap := (c.vin.lookup b).getD []

/-- the map at position 0 of block `b` -/
def Cert.start (c : Cert) (b : Block) : VMap := phiStart (c.vinOf b.index) b.phis

-- ------------------------------------------------------------------ the checks

/-- the operand of `φ` for the edge from `p` exists, has the name of the output, and carries the version
    known at the end of `p` -/
def phiOperandOk (vout : VMap) (p : Nat) (φ : Phi) : Bool :=
  match φ.incoming.lookup p with
  | none => false
  | some o => o.name == φ.out.name && vout.lookup o.name == some o.ssa

/-- flow along the edge `p → s`: phi operands, and every name Known on entry to `s` without a phi node there
    is Known with the same version at the end of `p` -/
def edgeFlowOk (cert : Cert) (vout : VMap) (p : Nat) (s : Block) : Bool :=
  s.phis.all (phiOperandOk vout p) &&
  (cert.vinOf s.index).all (fun nv => hasPhi s.phis nv.1 || vout.lookup nv.1 == some nv.2)

/-- everything demanded of one reachable block -/
def blockFlowOk (g : Function) (cert : Cert) (b : Block) : Bool :=
  match walkV (cert.start b) b.instrs with
  | none => false
  | some vout =>
    (g.cfg.edgesOut b.index).all (fun e =>
      readsOk vout (match e.cond with | none => [] | some c => c.scalars) &&
      cert.reach.contains e.tail &&
      match g.block e.tail with
      | none => false
      | some s => s.index == e.tail && edgeFlowOk cert vout b.index s)

/-- function entry: every name is held by its unversioned scalar -/
def entryOk (g : Function) (cert : Cert) : Bool :=
  match g.cfg.entry with
  | none => false
  | some e =>
    cert.reach.contains e &&
    match g.block e with
    | none => false
    | some b =>
      b.phis.all (fun φ => match φ.entry with
        | none => false
        | some o => o.name == φ.out.name && o.ssa == none) &&
      (cert.vinOf b.index).all (fun nv => hasPhi b.phis nv.1 || nv.2 == none)

def flowOk (g : Function) (cert : Cert) : Bool :=
  entryOk g cert &&
  cert.reach.all (fun i => match g.block i with
    | none => false
    | some b => b.index == i && blockFlowOk g cert b)

/-- phi nodes: exactly one operand per CFG predecessor (the incoming map lists exactly the predecessor
    indices, in order), the `entry` operand iff the block is the entry -/
def phiShapeOk (g : Function) : Bool :=
  g.cfg.blocks.all (fun b => b.phis.all (fun φ =>
    φ.incoming.map (·.1) == g.cfg.predecessorIndices b.index &&
    (φ.entry.isSome == (g.cfg.entry == some b.index))))

/-- a definition site: block, phi node or instruction, its place in the block's list, for an instruction the
    place among the scalars it writes, the scalar defined -/
structure DefSite where
  block : Nat
  phi : Bool
  pos : Nat
  sub : Nat
  scalar : Scalar
  deriving DecidableEq, Repr

def blockDefs (b : Block) : List DefSite :=
  b.phis.zipIdx.map (fun (φ, k) => ⟨b.index, true, k, 0, φ.out⟩) ++
  b.instrs.zipIdx.flatMap (fun (i, k) => (opWrites i.op).zipIdx.map (fun (s, j) => ⟨b.index, false, k, j, s⟩))

/-- the definition sites in the blocks reachable from the entry -/
def reachDefs (g : Function) (cert : Cert) : List DefSite :=
  (g.cfg.blocks.filter (fun b => cert.reach.contains b.index)).flatMap blockDefs

/-- single assignment: every definition in a reachable block carries a version, and no (name, version) is
    defined at two sites -/
def singleOk (g : Function) (cert : Cert) : Bool :=
  let ds := reachDefs g cert
  ds.all (fun d => d.scalar.ssa.isSome) && decide ((ds.map (fun d => key d.scalar)).Nodup)

def shapeOk (f g : Function) : Bool := decide (eraseF g = f) && phiShapeOk g

def certOk (f g : Function) (cert : Cert) : Bool :=
  shapeOk f g && singleOk g cert && flowOk g cert

-- ------------------------------------------------------------------ computing the certificate (untrusted)

/-- `none` = ⊤ -/
abbrev AMap := List (String × Option (Option Nat))

def stepA (m : AMap) (op : Op) : AMap :=
  (opWrites op).foldl (fun m s => (s.name, some s.ssa) :: m.filter (·.1 != s.name)) m

def blockOutA (b : Block) (m : AMap) : AMap :=
  let m0 := b.phis.foldl (fun m φ => (φ.out.name, some φ.out.ssa) :: m.filter (·.1 != φ.out.name)) m
  b.instrs.foldl (fun m i => stepA m i.op) m0

def joinA (old new : AMap) : AMap :=
  old.map (fun (n, v) => match v, new.lookup n with
    | some a, some (some b) => if a = b then (n, some a) else (n, none)
    | _, _ => (n, none))

def insertA (st : List (Nat × AMap)) (s : Nat) (m : AMap) : List (Nat × AMap) :=
  match st.lookup s with
  | none => st ++ [(s, m)]
  | some old => st.map (fun (k, o) => if k == s then (k, joinA old m) else (k, o))

def roundA (g : Function) (st : List (Nat × AMap)) : List (Nat × AMap) :=
  st.foldl (fun acc (p, _) =>
    match g.block p, acc.lookup p with
    | some b, some m =>
      let out := blockOutA b m
      (g.cfg.edgesOut p).foldl (fun acc e => insertA acc e.tail out) acc
    | _, _ => acc) st

def iterA (g : Function) : Nat → List (Nat × AMap) → List (Nat × AMap)
  | 0, st => st
  | n + 1, st =>
    let st' := roundA g st
    if st' == st then st else iterA g n st'

def scalarsOfFunction (g : Function) : List Scalar :=
  g.cfg.blocks.flatMap (fun b =>
    b.phis.flatMap (fun φ => φ.out :: (φ.entry.toList ++ φ.incoming.map (·.2))) ++
    b.instrs.flatMap (fun i => opReads i.op ++ opWrites i.op)) ++
  g.cfg.edges.flatMap (fun e => match e.cond with | none => [] | some c => c.scalars)

def namesOf (g : Function) : List String := ((scalarsOfFunction g).map (·.name)).eraseDups

def computeCert (g : Function) : Cert :=
  match g.cfg.entry with
  | none => ⟨[], []⟩
  | some e =>
    let names := namesOf g
    let init : List (Nat × AMap) := [(e, names.map (fun n => (n, some none)))]
    let fuel := (g.cfg.blocks.length + 1) * (2 * names.length + 2) + 2
    let st := iterA g fuel init
    { reach := st.map (·.1),
      vin := st.map (fun (b, m) =>
        let phis := match g.block b with | some blk => blk.phis | none => []
        (b, m.filterMap (fun (n, v) => match v with
          | some k => if hasPhi phis n then none else some (n, k)
          | none => none))) }

/-- THE VALIDATOR -/
def ssaCheck (f g : Function) : Bool := certOk f g (computeCert g)

end Ssa
end Falcon
