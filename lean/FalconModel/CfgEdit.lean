/-
  FalconModel.CfgEdit — mirror of the construction / editing operations of `il::ControlFlowGraph`
  (`lib/il/control_flow_graph.rs`), `il::Block` (`lib/il/block.rs`) and of the part of the graph container
  they use (`lib/graph/mod.rs`: insert_vertex, insert_edge, remove_vertex), on top of `Cfg` (IL.lean).

  Representation.  `Graph<V,E>` keeps four BTreeMaps (vertices, edges, successors, predecessors); the
  model keeps the first two as association lists sorted by key and *derives* the successor / predecessor
  queries from the edge list (`Cfg.edgesOut`, `Cfg.edgesIn`, IL.lean).  That the two redundant maps of the
  real container agree with the edge map is the container invariant of property C11; here it is tied to
  the code by the correspondence check, which prints falcon's own `successor_indices` /
  `predecessor_indices` for every block after every operation next to the model's derived ones.

  Outcomes.  Every `&mut self` operation returns a `Step`: the graph after the call *and* the result,
  because a call that returns `Err` half-way leaves its partial effects in the graph (that state is
  observable and part of the "all histories" quantifier).  `Res.panic` marks the places where the Rust
  code would panic (`block_map[&…]` on a missing key, `edges_in(successor).unwrap()`); the graph
  component of a panicking step is unspecified (the harness restores the snapshot taken before the
  call) and the theorems show that no panic occurs on well-formed graphs.

  Not modelled: `usize`/`u64` overflow of the three counters (2^64 calls), instruction comments.
-/
import FalconModel.IL
import FalconModel.FilIL
import Std.Data.HashSet

namespace Falcon
namespace CfgEdit

structure Step (α : Type) where
  cfg : Cfg
  res : Res α
  deriving Repr

/-- continue with the graph of a container call, or stop with its error -/
@[inline] def Step.ofRes (fallback : Cfg) (r : Res Cfg) (v : α) : Step α :=
  match r with
  | .ok c => ⟨c, .ok v⟩
  | .err e => ⟨fallback, .err e⟩
  | .panic => ⟨fallback, .panic⟩

-- ------------------------------------------------------------------------------------------------
-- container (lib/graph/mod.rs)

/-- `BTreeMap<usize, Block>::insert` of a key that is not present -/
def insertBlockSorted (b : Block) : List Block → List Block
  | [] => [b]
  | x :: xs => if b.index < x.index then b :: x :: xs else x :: insertBlockSorted b xs

/-- order of the keys of `BTreeMap<(usize, usize), Edge>` -/
def edgeLt (a b : Edge) : Bool := a.head < b.head || (a.head == b.head && a.tail < b.tail)

def insertEdgeSorted (e : Edge) : List Edge → List Edge
  | [] => [e]
  | x :: xs => if edgeLt e x then e :: x :: xs else x :: insertEdgeSorted e xs

def hasEdge (c : Cfg) (h t : Nat) : Bool := c.edges.any (fun e => e.head == h && e.tail == t)

/-- `Graph::insert_vertex` -/
def insertVertex (c : Cfg) (b : Block) : Res Cfg :=
  if c.hasBlock b.index then .err .other
  else .ok { c with blocks := insertBlockSorted b c.blocks }

/-- `Graph::insert_edge` -/
def insertEdge (c : Cfg) (e : Edge) : Res Cfg :=
  if hasEdge c e.head e.tail then .err .other
  else if !c.hasBlock e.head then .err .other
  else if !c.hasBlock e.tail then .err .other
  else .ok { c with edges := insertEdgeSorted e c.edges }

/-- `Graph::remove_vertex`: the vertex and every edge it is an end of -/
def removeVertex (c : Cfg) (i : Nat) : Res Cfg :=
  if !c.hasBlock i then .err .other
  else .ok { c with blocks := c.blocks.filter (fun b => b.index != i),
                    edges := c.edges.filter (fun e => e.head != i && e.tail != i) }

/-- `*graph.vertex_mut(b.index) = b` -/
def setBlock (c : Cfg) (b : Block) : Cfg :=
  { c with blocks := c.blocks.map (fun x => if x.index == b.index then b else x) }

-- ------------------------------------------------------------------------------------------------
-- Block (lib/il/block.rs)

/-- `Block::assign/store/load/branch/intrinsic/nop`: `new_instruction_index` then `push` -/
def blockPush (b : Block) (op : Op) : Block :=
  { b with nextInstr := b.nextInstr + 1, instrs := b.instrs ++ [{ index := b.nextInstr, op := op }] }

/-- the loop of `Block::append`: each instruction is cloned with a fresh index -/
def appendInstrs (b : Block) : List Instr → Block
  | [] => b
  | i :: is =>
    appendInstrs { b with nextInstr := b.nextInstr + 1, instrs := b.instrs ++ [{ i with index := b.nextInstr }] } is

/-- `Block::append` (phi nodes of `other` are not copied, as in the code) -/
def blockAppend (b other : Block) : Block := appendInstrs b other.instrs

/-- `Block::remove_instruction`: the first instruction carrying that index -/
def blockRemoveInstruction (b : Block) (idx : Nat) : Res Block :=
  match b.instrs.findIdx? (fun i => i.index == idx) with
  | some k => .ok { b with instrs := b.instrs.eraseIdx k }
  | none => .err .other

-- ------------------------------------------------------------------------------------------------
-- ControlFlowGraph: simple operations

/-- `ControlFlowGraph::new` -/
def new : Cfg := {}

/-- `ControlFlowGraph::new_block`; answers the index of the new block -/
def newBlock (c : Cfg) : Step Nat :=
  let c1 := { c with nextIndex := c.nextIndex + 1 }
  Step.ofRes c1 (insertVertex c1 { index := c.nextIndex }) c.nextIndex

/-- `ControlFlowGraph::unconditional_edge` -/
def unconditionalEdge (c : Cfg) (h t : Nat) : Step Unit :=
  Step.ofRes c (insertEdge c { head := h, tail := t, cond := none }) ()

/-- `ControlFlowGraph::conditional_edge` -/
def conditionalEdge (c : Cfg) (h t : Nat) (g : Expr) : Step Unit :=
  Step.ofRes c (insertEdge c { head := h, tail := t, cond := some g }) ()

/-- `ControlFlowGraph::set_entry` -/
def setEntry (c : Cfg) (i : Nat) : Step Unit :=
  if c.hasBlock i then ⟨{ c with entry := some i }, .ok ()⟩ else ⟨c, .err .other⟩

/-- `ControlFlowGraph::set_exit` -/
def setExit (c : Cfg) (i : Nat) : Step Unit :=
  if c.hasBlock i then ⟨{ c with exit := some i }, .ok ()⟩ else ⟨c, .err .other⟩

/-- `ControlFlowGraph::temp` -/
def temp (c : Cfg) (bits : Nat) : Step Scalar :=
  ⟨{ c with nextTemp := c.nextTemp + 1 }, .ok { name := "temp_" ++ toString c.nextTemp, bits := bits }⟩

/-- `cfg.block_mut(i)?.assign(..)` etc. -/
def blockOp (c : Cfg) (i : Nat) (op : Op) : Step Unit :=
  match c.block i with
  | some b => ⟨setBlock c (blockPush b op), .ok ()⟩
  | none => ⟨c, .err .other⟩

/-- `let o = d.block(j)?.clone(); c.block_mut(i)?.append(&o)` -/
def blockAppendOp (c : Cfg) (i : Nat) (d : Cfg) (j : Nat) : Step Unit :=
  match d.block j, c.block i with
  | some o, some b => ⟨setBlock c (blockAppend b o), .ok ()⟩
  | _, _ => ⟨c, .err .other⟩

/-- `cfg.block_mut(i)?.remove_instruction(idx)` -/
def removeInstruction (c : Cfg) (i idx : Nat) : Step Unit :=
  match c.block i with
  | some b =>
    match blockRemoveInstruction b idx with
    | .ok b' => ⟨setBlock c b', .ok ()⟩
    | .err e => ⟨c, .err e⟩
    | .panic => ⟨c, .panic⟩
  | none => ⟨c, .err .other⟩

-- ------------------------------------------------------------------------------------------------
-- merge

/-- The `for block in self.blocks()` loop of one round of `merge`: the pairs (block, successor) chosen,
    in the order of the code.  `being` = `blocks_being_merged`.  `bs` runs over `c.blocks`. -/
def collect (c : Cfg) : List Block → List Nat → Res (List (Nat × Nat))
  | [], _ => .ok []
  | b :: bs, being =>
    if being.contains b.index then collect c bs being else
    match c.edgesOut b.index with
    | [e] =>
      if e.cond.isSome then collect c bs being
      else
        let s := e.tail
        -- repaired (fix: commit "merge skips a block whose only successor is itself")
        if s == b.index then collect c bs being
        else if c.entry == some s then collect c bs being
        else if being.contains s then collect c bs being
        -- `self.graph.edges_in(successor).unwrap()`
        else if !c.hasBlock s then .panic
        else if (c.edgesIn s).length != 1 then collect c bs being
        else (collect c bs (b.index :: s :: being)).map (fun r => (b.index, s) :: r)
    | _ => collect c bs being

/-- `for edge in new_edges { self.graph.insert_edge(edge)?; }` -/
def insertEdges : Cfg → List Edge → Step Unit
  | c, [] => ⟨c, .ok ()⟩
  | c, e :: es =>
    match insertEdge c e with
    | .ok c' => insertEdges c' es
    | .err x => ⟨c, .err x⟩
    | .panic => ⟨c, .panic⟩

/-- body of `for (merge_index, successor_index) in merges` -/
def mergeStep (c : Cfg) (m s : Nat) : Step Unit :=
  match c.block s with
  | none => ⟨c, .err .other⟩
  | some sb =>
    match c.block m with
    | none => ⟨c, .err .other⟩
    | some mb =>
      let c1 := setBlock c (blockAppend mb sb)
      let newEdges := (c1.edgesOut s).map (fun e => { head := m, tail := e.tail, cond := e.cond : Edge })
      match insertEdges c1 newEdges with
      | ⟨c2, .ok ()⟩ =>
        match removeVertex c2 s with
        | .ok c3 =>
          -- repaired (fix: commit "merge moves exit to the surviving block")
          ⟨if c3.exit == some s then { c3 with exit := some m } else c3, .ok ()⟩
        | .err x => ⟨c2, .err x⟩
        | .panic => ⟨c2, .panic⟩
      | ⟨c2, .err x⟩ => ⟨c2, .err x⟩
      | ⟨c2, .panic⟩ => ⟨c2, .panic⟩

def applyMerges : Cfg → List (Nat × Nat) → Step Unit
  | c, [] => ⟨c, .ok ()⟩
  | c, (m, s) :: rest =>
    match mergeStep c m s with
    | ⟨c', .ok ()⟩ => applyMerges c' rest
    | r => r

/-- the outer `loop` of `merge`, with fuel; every round that does not end the loop removes a vertex, so
    `blocks.length + 1` rounds are enough (`merge`); running out of fuel is reported as `panic`
    (the Rust code would not return). -/
def mergeLoop : Nat → Cfg → Step Unit
  | 0, c => ⟨c, .panic⟩
  | fuel + 1, c =>
    match collect c c.blocks [] with
    | .ok [] => ⟨c, .ok ()⟩
    | .ok merges =>
      match applyMerges c merges with
      | ⟨c', .ok ()⟩ => mergeLoop fuel c'
      | r => r
    | .err e => ⟨c, .err e⟩
    | .panic => ⟨c, .panic⟩

/-- `ControlFlowGraph::merge` -/
def merge (c : Cfg) : Step Unit := mergeLoop (c.blocks.length + 1) c

-- ------------------------------------------------------------------------------------------------
-- append / insert

/-- "Bring in new blocks": clone with index `next_index`, record the mapping, bump `next_index`, insert.
    The map is a `BTreeMap` keyed by the old index; `List.lookup` on the consed list finds the most
    recent insertion, which is `BTreeMap::insert`'s overwrite. -/
def copyBlocks : Cfg → List (Nat × Nat) → List Block → Step (List (Nat × Nat))
  | c, m, [] => ⟨c, .ok m⟩
  | c, m, b :: bs =>
    let c1 := { c with nextIndex := c.nextIndex + 1 }
    match insertVertex c1 { b with index := c.nextIndex } with
    | .ok c2 => copyBlocks c2 ((b.index, c.nextIndex) :: m) bs
    | .err e => ⟨c1, .err e⟩
    | .panic => ⟨c1, .panic⟩

/-- "Now set all new edges": `block_map[&edge.head()]` panics on a missing key -/
def copyEdges (m : List (Nat × Nat)) : Cfg → List Edge → Step Unit
  | c, [] => ⟨c, .ok ()⟩
  | c, e :: es =>
    match m.lookup e.head, m.lookup e.tail with
    | some h, some t =>
      match insertEdge c { head := h, tail := t, cond := e.cond } with
      | .ok c' => copyEdges m c' es
      | .err x => ⟨c, .err x⟩
      | .panic => ⟨c, .panic⟩
    | _, _ => ⟨c, .panic⟩

/-- `ControlFlowGraph::append` -/
def append (c d : Cfg) : Step Unit :=
  let isEmpty := c.blocks.isEmpty
  if !isEmpty && (c.entry.isNone || c.exit.isNone) then ⟨c, .err .other⟩
  else
    match d.entry, d.exit with
    | some dEntry, some dExit =>
      match copyBlocks c [] d.blocks with
      | ⟨c1, .ok m⟩ =>
        match copyEdges m c1 d.edges with
        | ⟨c2, .ok ()⟩ =>
          -- `block_map[&other.entry().unwrap()]` is evaluated in both branches, before `exit` is set
          match m.lookup dEntry with
          | none => ⟨c2, .panic⟩
          | some en =>
            let r : Step Unit :=
              if isEmpty then ⟨{ c2 with entry := some en }, .ok ()⟩
              else
                match c2.exit with
                | some ex => Step.ofRes c2 (insertEdge c2 { head := ex, tail := en, cond := none }) ()
                | none => ⟨c2, .panic⟩
            match r with
            | ⟨c3, .ok ()⟩ =>
              match m.lookup dExit with
              | some x => ⟨{ c3 with exit := some x }, .ok ()⟩
              | none => ⟨c3, .panic⟩
            | r => r
        | ⟨c2, .err x⟩ => ⟨c2, .err x⟩
        | ⟨c2, .panic⟩ => ⟨c2, .panic⟩
      | ⟨c1, .err x⟩ => ⟨c1, .err x⟩
      | ⟨c1, .panic⟩ => ⟨c1, .panic⟩
    | _, _ => ⟨c, .err .other⟩

/-- `ControlFlowGraph::insert`; answers (entry, exit) of the inserted copy -/
def insert (c d : Cfg) : Step (Nat × Nat) :=
  match d.entry, d.exit with
  | some dEntry, some dExit =>
    let c0 := { c with entry := none, exit := none }
    match copyBlocks c0 [] d.blocks with
    | ⟨c1, .ok m⟩ =>
      match copyEdges m c1 d.edges with
      | ⟨c2, .ok ()⟩ =>
        -- `entry_index` / `exit_index` are set while the blocks are copied: the image of the (last)
        -- block of `other` whose index is `other.entry()` / `other.exit()`
        match m.lookup dEntry, m.lookup dExit with
        | some en, some ex => ⟨c2, .ok (en, ex)⟩
        | _, _ => ⟨c2, .err .other⟩
      | ⟨c2, .err x⟩ => ⟨c2, .err x⟩
      | ⟨c2, .panic⟩ => ⟨c2, .panic⟩
    | ⟨c1, .err x⟩ => ⟨c1, .err x⟩
    | ⟨c1, .panic⟩ => ⟨c1, .panic⟩
  | _, _ => ⟨c, .err .other⟩

-- ------------------------------------------------------------------------------------------------
-- well-formedness (the invariant of property C15); decidable, so the driver evaluates the very
-- predicate the theorems are about

def BlockWF (b : Block) : Prop :=
  (b.instrs.map (·.index)).Nodup ∧ ∀ i ∈ b.instrs, i.index < b.nextInstr

instance (b : Block) : Decidable (BlockWF b) := by unfold BlockWF; exact inferInstance

def edgeKey (e : Edge) : Nat × Nat := (e.head, e.tail)

structure WF (c : Cfg) : Prop where
  /-- block indices are the keys of a map -/
  blocksNodup : (c.blocks.map (·.index)).Nodup
  /-- (head, tail) pairs are the keys of a map -/
  edgesNodup : (c.edges.map edgeKey).Nodup
  /-- every edge joins existing blocks -/
  edgesJoin : ∀ e ∈ c.edges, c.hasBlock e.head = true ∧ c.hasBlock e.tail = true
  /-- block indices are below the fresh-index counter -/
  indexLt : ∀ b ∈ c.blocks, b.index < c.nextIndex
  /-- instruction indices are unique within each block and below the block's counter -/
  blocksWF : ∀ b ∈ c.blocks, BlockWF b
  /-- entry and exit, when reported, name existing blocks -/
  entryOk : ∀ i, c.entry = some i → c.hasBlock i = true
  exitOk : ∀ i, c.exit = some i → c.hasBlock i = true

def wfProblems (c : Cfg) : List String :=
  (if (c.blocks.map (·.index)).Nodup then [] else ["dup-block"]) ++
  (if (c.edges.map edgeKey).Nodup then [] else ["dup-edge"]) ++
  (if c.edges.all (fun e => c.hasBlock e.head && c.hasBlock e.tail) then [] else ["edge-dangling"]) ++
  (if c.blocks.all (fun b => b.index < c.nextIndex) then [] else ["index>=next"]) ++
  (if c.blocks.all (fun b => decide (BlockWF b)) then [] else ["instr-index"]) ++
  (match c.entry with | some i => if c.hasBlock i then [] else ["entry-dangling"] | none => []) ++
  (match c.exit with | some i => if c.hasBlock i then [] else ["exit-dangling"] | none => [])

/-- sortedness of the two association lists (iteration order of the BTreeMaps) -/
def Sorted (c : Cfg) : Prop :=
  c.blocks.Pairwise (fun a b => a.index < b.index) ∧ c.edges.Pairwise (fun a b => edgeLt a b = true)

-- ------------------------------------------------------------------------------------------------
-- BlockTranslationResult::blockify (lib/translator/block_translation_result.rs)

/-- the graph `blockify` has built before the appends: one empty block that is entry and exit -/
def blockifyInit : Cfg := { blocks := [{ index := 0 }], entry := some 0, exit := some 0, nextIndex := 1 }

/-- `for (_, cfg) in &self.instructions { control_flow_graph.append(cfg)?; }` -/
def blockifyAppends : Cfg → List Cfg → Step Unit
  | c, [] => ⟨c, .ok ()⟩
  | c, d :: ds =>
    match append c d with
    | ⟨c', .ok ()⟩ => blockifyAppends c' ds
    | r => r

/-- `blockify`: a new graph with one block that is entry and exit, the instruction graphs appended in
    order, then `merge`; every `?` of the code is an early return that drops the graph -/
def blockify (ds : List Cfg) : Res Cfg :=
  let s0 := newBlock new
  match s0.res with
  | .ok i =>
    let s1 := setEntry s0.cfg i
    match s1.res with
    | .ok () =>
      let s2 := setExit s1.cfg i
      match s2.res with
      | .ok () =>
        match blockifyAppends s2.cfg ds with
        | ⟨c, .ok ()⟩ =>
          let m := merge c
          match m.res with
          | .ok () => .ok m.cfg
          | .err e => .err e
          | .panic => .panic
        | ⟨_, .err e⟩ => .err e
        | ⟨_, .panic⟩ => .panic
      | .err e => .err e
      | .panic => .panic
    | .err e => .err e
    | .panic => .panic
  | .err e => .err e
  | .panic => .panic

-- ------------------------------------------------------------------------------------------------
-- histories: the operations as data, over any number of graphs (the driver and `ops_wf` share `run`)

inductive EditOp where
  | newBlock (g : Nat)
  | uedge (g h t : Nat)
  | cedge (g h t : Nat) (guard : Expr)
  | entry (g i : Nat)
  | exit (g i : Nat)
  | merge (g : Nat)
  | append (g h : Nat)
  | insert (g h : Nat)
  | op (g b : Nat) (o : Op)
  | bappend (g b h j : Nat)
  | rmins (g b idx : Nat)
  | temp (g bits : Nat)
  /-- `g := BlockTranslationResult::new(instructions = the graphs hs, ..).blockify()?` -/
  | blockify (g : Nat) (hs : List Nat)
  deriving Repr

/-- what a call returns besides the new graph -/
inductive Outcome where
  | unit
  | index (i : Nat)
  | pair (entry exit : Nat)
  | scalar (s : Scalar)
  deriving Repr

abbrev Graphs := Nat → Cfg

def Graphs.set (s : Graphs) (g : Nat) (c : Cfg) : Graphs := fun i => if i = g then c else s i

/-- the graph the operation edits -/
def EditOp.target : EditOp → Nat
  | .newBlock g | .uedge g .. | .cedge g .. | .entry g _ | .exit g _ | .merge g | .append g _ | .insert g _
  | .op g .. | .bappend g .. | .rmins g .. | .temp g _ | .blockify g _ => g

/-- the call on the graphs, as a `Step` on the target graph -/
def EditOp.step (s : Graphs) : EditOp → Step Outcome
  | .newBlock g => let r := CfgEdit.newBlock (s g); ⟨r.cfg, r.res.map .index⟩
  | .uedge g h t => let r := unconditionalEdge (s g) h t; ⟨r.cfg, r.res.map (fun _ => .unit)⟩
  | .cedge g h t e => let r := conditionalEdge (s g) h t e; ⟨r.cfg, r.res.map (fun _ => .unit)⟩
  | .entry g i => let r := setEntry (s g) i; ⟨r.cfg, r.res.map (fun _ => .unit)⟩
  | .exit g i => let r := setExit (s g) i; ⟨r.cfg, r.res.map (fun _ => .unit)⟩
  | .merge g => let r := CfgEdit.merge (s g); ⟨r.cfg, r.res.map (fun _ => .unit)⟩
  | .append g h => let r := CfgEdit.append (s g) (s h); ⟨r.cfg, r.res.map (fun _ => .unit)⟩
  | .insert g h => let r := CfgEdit.insert (s g) (s h); ⟨r.cfg, r.res.map (fun p => .pair p.1 p.2)⟩
  | .op g b o => let r := blockOp (s g) b o; ⟨r.cfg, r.res.map (fun _ => .unit)⟩
  | .bappend g b h j => let r := blockAppendOp (s g) b (s h) j; ⟨r.cfg, r.res.map (fun _ => .unit)⟩
  | .rmins g b i => let r := removeInstruction (s g) b i; ⟨r.cfg, r.res.map (fun _ => .unit)⟩
  | .temp g n => let r := CfgEdit.temp (s g) n; ⟨r.cfg, r.res.map .scalar⟩
  | .blockify g hs =>
    match CfgEdit.blockify (hs.map s) with
    | .ok c => ⟨c, .ok .unit⟩
    | .err e => ⟨s g, .err e⟩
    | .panic => ⟨s g, .panic⟩

/-- one operation of a history; a panicking call leaves the graphs as they were (the harness restores
    its snapshot: the state after an unwinding `&mut self` call is unspecified) -/
def run (s : Graphs) (o : EditOp) : Graphs × Res Outcome :=
  let r := o.step s
  match r.res with
  | .panic => (s, .panic)
  | res => (s.set o.target r.cfg, res)

/-- the graphs after a history that starts from `ControlFlowGraph::new()` everywhere -/
def runAll (ops : List EditOp) : Graphs := ops.foldl (fun s o => (run s o).1) (fun _ => new)

-- ------------------------------------------------------------------------------------------------
-- the language of a graph (specification side of "merging / appending keep the meaning")

/-- what a path spells: operations of the blocks it runs through, guards of the conditional edges it takes
    (unconditional edges spell nothing) -/
inductive Sym where
  | op (o : Op)
  | guard (g : Expr)
  deriving DecidableEq, Repr

def blockWord (b : Block) : List Sym := b.instrs.map (fun i => Sym.op i.op)

def edgeWord (e : Edge) : List Sym :=
  match e.cond with
  | some g => [Sym.guard g]
  | none => []

/-- `Walk c a w z`: a walk in `c` that starts at the beginning of block `a`, ends at the end of block `z`
    and spells `w` -/
inductive Walk (c : Cfg) : Nat → List Sym → Nat → Prop where
  | single {a : Nat} {b : Block} : b ∈ c.blocks → b.index = a → Walk c a (blockWord b) a
  | cons {a : Nat} {b : Block} {e : Edge} {w : List Sym} {z : Nat} :
      b ∈ c.blocks → b.index = a → e ∈ c.edges → e.head = a → Walk c e.tail w z →
      Walk c a (blockWord b ++ edgeWord e ++ w) z

/-- the instruction/guard sequences that can be executed from the entry (prefix closed) -/
def Lang (c : Cfg) (w : List Sym) : Prop :=
  ∃ en z full, c.entry = some en ∧ Walk c en full z ∧ w <+: full

/-- the complete runs from the entry to (the end of) the exit block -/
def LangEE (c : Cfg) (w : List Sym) : Prop :=
  ∃ en ex, c.entry = some en ∧ c.exit = some ex ∧ Walk c en w ex

-- bounded, executable version (search support for the correspondence check only; no theorem uses it):
-- words of length ≤ K as lists of 64-bit hashes of the FIL text of each symbol

def fnv (s : String) : UInt64 :=
  s.toUTF8.foldl (fun h b => (h ^^^ b.toUInt64) * 0x100000001b3) 0xcbf29ce484222325

def symOp (o : Op) : UInt64 := fnv ("o" ++ Fil.opStr o)
def symGuard (g : Expr) : UInt64 := fnv ("g" ++ Fil.exprStr g)

structure Item where
  blk : Nat
  pos : Nat
  /-- reversed -/
  word : List UInt64
  deriving BEq, Hashable

def itemSucc (c : Cfg) (K : Nat) (it : Item) : List Item :=
  match c.block it.blk with
  | none => []
  | some b =>
    if it.pos < b.instrs.length then
      if it.word.length < K then
        match b.instrs[it.pos]? with
        | some i => [{ blk := it.blk, pos := it.pos + 1, word := symOp i.op :: it.word }]
        | none => []
      else []
    else (c.edgesOut it.blk).filterMap (fun e =>
      match e.cond with
      | none => some { blk := e.tail, pos := 0, word := it.word }
      | some g => if it.word.length < K then some { blk := e.tail, pos := 0, word := symGuard g :: it.word } else none)

def explore (c : Cfg) (K : Nat) : Nat → List Item → Std.HashSet Item → Option (Std.HashSet Item)
  | _, [], seen => some seen
  | 0, _ :: _, _ => none
  | f + 1, it :: work, seen =>
    let (work, seen) := (itemSucc c K it).foldl (fun (ws : List Item × Std.HashSet Item) x =>
      if ws.2.contains x then ws else (x :: ws.1, ws.2.insert x)) (work, seen)
    explore c K f work seen

def exploreFrom (c : Cfg) (K : Nat) : Option (List Item) :=
  match c.entry with
  | none => some []
  | some en =>
    if c.hasBlock en then
      let start : Item := { blk := en, pos := 0, word := [] }
      (explore c K 2000000 [start] (Std.HashSet.emptyWithCapacity.insert start)).map (·.toList)
    else some []

def dedupWords (ws : List (List UInt64)) : List (List UInt64) :=
  (ws.foldl (fun (s : Std.HashSet (List UInt64)) w => s.insert w) Std.HashSet.emptyWithCapacity).toList

/-- words (in order, not reversed) of length ≤ K of the prefix-closed language -/
def langK (c : Cfg) (K : Nat) : Option (List (List UInt64)) :=
  (exploreFrom c K).map (fun items => dedupWords (items.map (·.word.reverse)))

/-- words of length ≤ K of the entry→exit language -/
def langEEK (c : Cfg) (K : Nat) : Option (List (List UInt64)) :=
  match c.exit with
  | none => some []
  | some ex =>
    match c.block ex with
    | none => some []
    | some xb =>
      (exploreFrom c K).map (fun items =>
        dedupWords ((items.filter (fun it => it.blk == ex && it.pos == xb.instrs.length)).map (·.word.reverse)))

def concatK (K : Nat) (a b : List (List UInt64)) : List (List UInt64) :=
  dedupWords (a.flatMap (fun u => b.filterMap (fun v => if u.length + v.length ≤ K then some (u ++ v) else none)))

def wordHash (w : List UInt64) : UInt64 :=
  w.foldl (fun h s => (h ^^^ s) * 0x100000001b3) 0xcbf29ce484222325

def hex64 (n : UInt64) : String := String.ofList (Nat.toDigits 16 n.toNat)

/-- order-independent digest of a set of words: `<count>.<sum of word hashes>` -/
def digest : Option (List (List UInt64)) → String
  | none => "overflow"
  | some ws => toString ws.length ++ "." ++ hex64 (ws.foldl (fun a w => a + wordHash w) 0)

end CfgEdit
end Falcon
