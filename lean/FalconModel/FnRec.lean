/-
  FalconModel.FnRec — property C06 (function recovery reproduces sequential machine-code execution).

  * structural clauses on a recovered function: no dangling edge or entry, the entry block starts at the
    function address, every native instruction address occupies one contiguous run of one block;
  * `runFn`: execution of the recovered function the way falcon's executor walks it (`Driver::step`),
    recording the native addresses visited;
  * `runRef`: the single-step reference — at each program counter the lifted form of the ONE native
    instruction there (the oracle, dumped from the same translator) is executed, then its successor guards
    choose the next program counter.
  Property C06 says the two coincide (same address trace, same final state).
-/
import FalconModel.Lift

namespace Falcon
namespace FnRec

/-- native address of an IL instruction; on MIPS the lifter re-addresses a branch's own graph at `A+1`,
    which is not a native address -/
def nativeAddr (mips : Bool) (i : Instr) : Option Nat :=
  match i.addr with
  | some a => if mips && a % 4 != 0 then none else some a
  | none => none

structure Run where
  trace : List Nat      -- most recent first
  head : String         -- `0x…` (indirect branch target / cut address) or an error
  state : State

/-- execution of the recovered function as falcon's executor performs it -/
def runFn (f : Function) (mips : Bool) (steps : Nat) : Nat → Config → List Nat → Run
  | 0, c, tr => ⟨tr, "err:steps", c.state⟩
  | fuel + 1, c, tr =>
    match f.block c.block with
    | none => ⟨tr, "err:other", c.state⟩
    | some b =>
      match b.instrs[c.pos]? with
      | some i =>
        -- record the native address first (the harness does the same before looking at the operation)
        let (tr', cut) := match nativeAddr mips i with
          | some a => if tr.head? = some a then (tr, none)
                      else if tr.length ≥ steps then (tr, some a) else (a :: tr, none)
          | none => (tr, none)
        match cut with
        | some a => ⟨tr', Fil.hex a, c.state⟩
        | none =>
          match i.op with
          | .branch t =>
            match c.state.evalIn t with
            | .ok v => if v.val < 2 ^ 64 then ⟨tr', Fil.hex v.val, c.state⟩ else ⟨tr', "err:addrbits", c.state⟩
            | .err e => ⟨tr', toString e, c.state⟩
            | .panic => ⟨tr', "panic", c.state⟩
          | op =>
            match execute c.state op with
            | .ok (σ', _) =>
              -- `Driver::step` is atomic: executing the LAST instruction of a block includes choosing the
              -- out-edge; if that fails the step fails and the state is the one before the instruction
              if c.pos + 1 = b.instrs.length then
                match pickEdge σ' (f.cfg.edgesOut c.block) with
                | .ok (some e) => runFn f mips steps fuel ⟨e.tail, 0, σ'⟩ tr'
                | .ok none => ⟨tr', "err:noedge", c.state⟩
                | .err e => ⟨tr', toString e, c.state⟩
                | .panic => ⟨tr', "panic", c.state⟩
              else runFn f mips steps fuel ⟨c.block, c.pos + 1, σ'⟩ tr'
            | .err e => ⟨tr', toString e, c.state⟩
            | .panic => ⟨tr', "panic", c.state⟩
      | none =>
        match pickEdge c.state (f.cfg.edgesOut c.block) with
        | .ok (some e) => runFn f mips steps fuel ⟨e.tail, 0, c.state⟩ tr
        | .ok none => ⟨tr, "err:noedge", c.state⟩
        | .err e => ⟨tr, toString e, c.state⟩
        | .panic => ⟨tr, "panic", c.state⟩

/-- outcome of one native instruction of the reference -/
inductive StepOut where
  | next (σ : State) (pc : Nat)        -- direct successor chosen by the guards
  | indirect (σ : State) (head : String) -- `Operation::Branch`: the run ends with this target
  | stop (σ : State) (why : String)

/-- run one single-instruction lifted block -/
def stepBTR (r : BTR) (σ₀ : State) : StepOut :=
  let rec go : List Function → State → StepOut
    | [], σ =>
      let es : List Edge := r.succs.zipIdx.map (fun ((_, c), i) => { head := 0, tail := i, cond := c })
      match pickEdge σ es with
      | .ok (some e) =>
        match r.succs[e.tail]? with
        | some (a, _) => .next σ a
        | none => .stop σ "err:other"
      | .ok none => .stop σ "err:noedge"
      | .err e => .stop σ (toString e)
      | .panic => .stop σ "panic"
    | f :: rest, σ =>
      match f.cfg.entry with
      | none => .stop σ "err:other"
      | some en =>
        match runGraph f 4096 ⟨en, 0, σ⟩ with
        | .done σ' => go rest σ'
        | .branch σ' a => .indirect σ' (Fil.hex a)
        | .stop σ' why => .stop σ' why
  go r.instrs σ₀

/-- native addresses of a single-instruction block, in execution order (MIPS: branch, then delay slot) -/
def btrAddrs (mips : Bool) (r : BTR) : List Nat :=
  (r.instrs.filterMap (fun f => if mips && f.addr % 4 != 0 then none else some f.addr)).eraseDups

/-- the single-step reference run -/
def runRef (oracle : List (Nat × (BTR ⊕ String))) (mips : Bool) (steps : Nat) : Nat → Nat → State → List Nat → Run
  | 0, _, σ, tr => ⟨tr, "err:steps", σ⟩
  | fuel + 1, pc, σ, tr =>
    if tr.length ≥ steps then ⟨tr, Fil.hex pc, σ⟩
    else
      match oracle.lookup pc with
      | none => ⟨tr, "oracle-miss " ++ Fil.hex pc, σ⟩
      -- no bytes at `pc`: the recovered function has an empty block without successors there
      | some (.inr why) => ⟨tr, if why = "unmapped" then "err:noedge" else why, σ⟩
      | some (.inl r) =>
        let tr' := (btrAddrs mips r).foldl (fun acc a => if acc.head? = some a then acc else a :: acc) tr
        match stepBTR r σ with
        | .next σ' pc' => runRef oracle mips steps fuel pc' σ' tr'
        | .indirect σ' h => ⟨tr', h, σ'⟩
        | .stop σ' why => ⟨tr', why, σ'⟩

-- structural clauses ---------------------------------------------------------------------------------

def noDangling (f : Function) : Bool :=
  f.cfg.edges.all (fun e => f.cfg.hasBlock e.head && f.cfg.hasBlock e.tail) &&
  (match f.cfg.entry with | some e => f.cfg.hasBlock e | none => false)

def entryAtFunctionAddress (f : Function) : Bool :=
  match f.cfg.entry.bind f.cfg.block with
  | some b => b.address == some f.addr
  | none => false

/-- number of IL instructions carrying address `a` -/
def countIn (blocks : List Block) (a : Nat) : Nat :=
  (blocks.flatMap (·.instrs)).countP (fun i => i.addr == some a)

def countInBTR (r : BTR) (a : Nat) : Nat :=
  (r.instrs.map (fun f => countIn f.cfg.blocks a)).sum

/-- **every instruction exactly once**: an instruction is lifted to a small graph (x86 `jcc` has three blocks,
    two of them holding a `nop` with the instruction's address), so "once" is a count: the recovered function
    holds exactly as many IL instructions with address `a` as ONE copy of the lifted instruction at `a` does
    (on MIPS the branch's own graph is addressed `A+1` and belongs to the unit lifted at `A`). -/
def addressesOnce (f : Function) (oracle : List (Nat × (BTR ⊕ String))) (mips : Bool) : Option Nat :=
  let addrs := ((f.cfg.blocks.flatMap (·.instrs)).filterMap (·.addr)).eraseDups
  addrs.find? fun a =>
    let key := if mips then a - a % 4 else a
    match oracle.lookup key with
    | some (.inl r) => countIn f.cfg.blocks a != countInBTR r a
    | _ => true

def structureIll (f : Function) (oracle : List (Nat × (BTR ⊕ String))) (mips : Bool) : Option String :=
  if !noDangling f then some "dangling-edge-or-entry"
  else if !entryAtFunctionAddress f then some "entry-not-at-function-address"
  else match addressesOnce f oracle mips with
    | some a => some ("instruction-not-exactly-once " ++ Fil.hex a)
    | none => none

end FnRec
end Falcon
