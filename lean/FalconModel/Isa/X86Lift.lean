/-
  FalconModel.Isa.X86Lift — mirror in Lean of the parts of falcon's x86 lifter that the theorems of C01 talk about
  (`lib/translator/x86/{x86register,semantics,mode}.rs`, tree after the repairs listed in known_findings.d/C01.json):

    * `X86Register::get` / `set`            ↦ `regGet`, `regSetExpr`, `regSet`
    * `set_zf`, `set_sf`, `set_of`, `set_cf` ↦ `zfExpr`, `sfExpr`, `ofExpr`, `cfSubExpr`, `cfAddExpr`
    * `cc_condition`                         ↦ `ccExpr`
    * the builders `mov`, `add`, `sub`, `and`, `or`, `xor`, `cmp`, `test` for REGISTER operands, and the one-block
      instruction graph + `BlockTranslationResult` that `translate_block` wraps around them ↦ `liftRR`

  Everything is built with the same smart constructors (`Expr.mkBin`, `Expr.mkExt`: sort checks included) in the same
  order, so `liftRR` can be compared SYNTACTICALLY with the IL falcon dumps (the driver does so on every case of the
  class; a difference is a broken correspondence).
-/
import FalconModel.Isa.X86

namespace Falcon
namespace X86Lift
open X86

def sc (n : String) (b : Nat) : Expr := .scalar { name := n, bits := b }
def scalar (n : String) (b : Nat) : Scalar := { name := n, bits := b }

def fullName (mode : Mode) (idx : Nat) : String :=
  match mode with
  | .amd64 => gprNames.getD idx "?"
  | .x86 => regNames32.getD idx "?"

/-- `X86Register::get` -/
def regGet (mode : Mode) (r : GReg) : Res Expr :=
  let fb := mode.bits
  let full := sc (fullName mode r.idx) fb
  if r.bits = fb then .ok full
  else if r.off = 0 then Expr.mkExt .trun r.bits full
  else do
    let e ← Expr.mkBin .shr full (Expr.ec r.off fb)
    Expr.mkExt .trun r.bits e

/-- `!0 << bits` as a u64 -/
def lowMask (bits : Nat) : Nat := 2 ^ 64 - 2 ^ bits
/-- `!(((1 << bits) - 1) << offset)` as a u64 -/
def highMask (bits off : Nat) : Nat := 2 ^ 64 - 1 - (2 ^ bits - 1) * 2 ^ off

/-- `X86Register::set`: the expression assigned to the full register -/
def regSetExpr (mode : Mode) (r : GReg) (value : Expr) : Res Expr :=
  let fb := mode.bits
  let full := sc (fullName mode r.idx) fb
  if r.bits = fb then .ok value
  else if r.off = 0 then
    if r.bits < 32 then do
      let e ← Expr.mkBin .and full (Expr.ec (lowMask r.bits) fb)
      let z ← Expr.mkExt .zext fb value
      Expr.mkBin .or e z
    else Expr.mkExt .zext fb value
  else do
    let e ← Expr.mkBin .and full (Expr.ec (highMask r.bits r.off) fb)
    let z ← Expr.mkExt .zext fb value
    let s ← Expr.mkBin .shl z (Expr.ec r.off fb)
    Expr.mkBin .or e s

def regSet (mode : Mode) (r : GReg) (value : Expr) : Res Op := do
  let e ← regSetExpr mode r value
  pure (.assign (scalar (fullName mode r.idx) mode.bits) e)

/-- `set_zf` -/
def zfExpr (result : Expr) : Res Expr := Expr.mkBin .cmpeq result (Expr.ec 0 result.bits)

/-- `set_sf` -/
def sfExpr (result : Expr) : Res Expr := do
  let e ← Expr.mkBin .shr result (Expr.ec (result.bits - 1) result.bits)
  Expr.mkExt .trun 1 e

/-- `set_of` -/
def ofExpr (result lhs rhs : Expr) (subtract : Bool) : Res Expr := do
  let e0 ← Expr.mkBin .xor lhs rhs
  let e0 ← if subtract then pure e0 else Expr.mkBin .xor e0 (Expr.ec 0xffffffffffffffff lhs.bits)
  let e1 ← Expr.mkBin .xor lhs result
  let e ← Expr.mkBin .and e0 e1
  let e ← Expr.mkBin .shr e (Expr.ec (e.bits - 1) e.bits)
  Expr.mkExt .trun 1 e

/-- `set_cf` (subtraction) -/
def cfSubExpr (result lhs : Expr) : Res Expr := Expr.mkBin .cmpltu lhs result
/-- the carry of `add` -/
def cfAddExpr (result lhs : Expr) : Res Expr := Expr.mkBin .cmpltu result lhs

/-- `cc_condition` for the sixteen condition codes (numbered as in `X86.cond`) -/
def ccExpr (c : Nat) : Res Expr :=
  let f := fun (n : String) => sc n 1
  let is := fun (n : String) (v : Nat) => Expr.mkBin .cmpeq (f n) (Expr.ec v 1)
  match c with
  | 0 => is "OF" 1 | 1 => is "OF" 0
  | 2 => is "CF" 1 | 3 => is "CF" 0
  | 4 => is "ZF" 1 | 5 => is "ZF" 0
  | 6 => do Expr.mkBin .or (← is "CF" 1) (← is "ZF" 1)
  | 7 => do Expr.mkBin .and (← is "CF" 0) (← is "ZF" 0)
  | 8 => is "SF" 1 | 9 => is "SF" 0
  | 10 => is "PF" 1 | 11 => is "PF" 0
  | 12 => Expr.mkBin .cmpneq (f "SF") (f "OF")
  | 13 => Expr.mkBin .cmpeq (f "SF") (f "OF")
  | 14 => do Expr.mkBin .or (← Expr.mkBin .cmpneq (f "SF") (f "OF")) (← is "ZF" 1)
  | _ => do Expr.mkBin .and (← Expr.mkBin .cmpeq (f "SF") (f "OF")) (← is "ZF" 0)

/-- `Semantics::temp(subindex, bits)` -/
def temp (addr sub bits : Nat) : Scalar :=
  scalar ("temp_0x" ++ String.ofList ((Nat.toDigits 16 addr).map Char.toUpper) ++ "_" ++ toString sub) bits

/-- the operations of one two-operand instruction with a register destination, in emission order;
    `rhs` is the source operand's expression (`operand_load`) -/
def opsDS (mode : Mode) (m : String) (addr : Nat) (d : GReg) (rhs : Expr) : Res (List Op) := do
  let lhs ← regGet mode d
  let t := temp addr 0 lhs.bits
  let te : Expr := .scalar t
  let c0 : Op := .assign (scalar "CF" 1) (Expr.ec 0 1)
  let o0 : Op := .assign (scalar "OF" 1) (Expr.ec 0 1)
  match m with
  | "mov" => do pure [← regSet mode d rhs]
  | "add" => do
      let r ← Expr.mkBin .add lhs rhs
      pure [.assign t r, .assign (scalar "ZF" 1) (← zfExpr te), .assign (scalar "SF" 1) (← sfExpr te),
            .assign (scalar "OF" 1) (← ofExpr te lhs rhs false), .assign (scalar "CF" 1) (← cfAddExpr te lhs),
            ← regSet mode d te]
  | "sub" => do
      let r ← Expr.mkBin .sub lhs rhs
      pure [.assign t r, .assign (scalar "ZF" 1) (← zfExpr te), .assign (scalar "SF" 1) (← sfExpr te),
            .assign (scalar "OF" 1) (← ofExpr te lhs rhs true), .assign (scalar "CF" 1) (← cfSubExpr te lhs),
            ← regSet mode d te]
  | "cmp" => do
      let e ← Expr.mkBin .sub lhs rhs
      pure [.assign (scalar "ZF" 1) (← zfExpr e), .assign (scalar "SF" 1) (← sfExpr e),
            .assign (scalar "OF" 1) (← ofExpr e lhs rhs true), .assign (scalar "CF" 1) (← cfSubExpr e lhs)]
  | "and" | "or" | "xor" => do
      let op := if m = "and" then BinOp.and else if m = "or" then BinOp.or else BinOp.xor
      -- xor of an operand with itself is emitted as an assignment of zero
      let r ← if m = "xor" ∧ lhs = rhs then pure (Expr.ec 0 lhs.bits) else Expr.mkBin op lhs rhs
      pure [.assign t r, .assign (scalar "ZF" 1) (← zfExpr te), .assign (scalar "SF" 1) (← sfExpr te), c0, o0,
            ← regSet mode d te]
  | _ => .err .other

/-- register, register -/
def opsRR (mode : Mode) (m : String) (addr : Nat) (d s : GReg) : Res (List Op) := do
  let rhs ← regGet mode s
  opsDS mode m addr d rhs

/-- register, immediate of the destination's width (what capstone reports: the immediate already sign-extended):
    `operand_value` gives `expr_const(imm as u64, size * 8)` -/
def opsRI (mode : Mode) (m : String) (addr : Nat) (d : GReg) (v bytes : Nat) : Res (List Op) :=
  if 8 * bytes = d.bits then opsDS mode m addr d (Expr.ec v (8 * bytes)) else .err .other

/-- inc / dec / neg / not on a register -/
def opsUn (mode : Mode) (m : String) (addr : Nat) (d : GReg) : Res (List Op) := do
  let dst ← regGet mode d
  let w := dst.bits
  match m with
  | "inc" => do
      let e ← Expr.mkBin .add dst (Expr.ec 1 w)
      pure [.assign (scalar "ZF" 1) (← zfExpr e), .assign (scalar "SF" 1) (← sfExpr e),
            .assign (scalar "OF" 1) (← ofExpr e dst (Expr.ec 1 w) false), ← regSet mode d e]
  | "dec" => do
      let e ← Expr.mkBin .sub dst (Expr.ec 1 w)
      pure [.assign (scalar "ZF" 1) (← zfExpr e), .assign (scalar "SF" 1) (← sfExpr e),
            .assign (scalar "OF" 1) (← ofExpr e dst (Expr.ec 1 w) true), ← regSet mode d e]
  | "neg" => do
      let t := temp addr 0 w
      let te : Expr := .scalar t
      let c ← Expr.mkBin .cmpneq dst (Expr.ec 0 w)
      let r ← Expr.mkBin .sub (Expr.ec 0 w) dst
      pure [.assign (scalar "CF" 1) c, .assign t r, .assign (scalar "ZF" 1) (← zfExpr te), .assign (scalar "SF" 1) (← sfExpr te),
            .assign (scalar "OF" 1) (← ofExpr te (Expr.ec 0 w) dst true), ← regSet mode d te]
  | "not" => do
      let e ← Expr.mkBin .xor dst (Expr.ec 0xffffffffffffffff w)
      pure [← regSet mode d e]
  | _ => .err .other

/-! ### memory operands (`mode.rs`: `operand_value`, `operand_load`, `operand_store`) -/

/-- `Scalar::temp(instruction.address, bits)`: the temporary of `operand_load` (no sub-index) -/
def ltemp (addr bits : Nat) : Scalar :=
  scalar ("temp_0x" ++ String.ofList ((Nat.toDigits 16 addr).map Char.toUpper)) bits

/-- `get_register_expression` for an address register of the mode's address width -/
def aregE (mode : Mode) (addr len : Nat) : AReg → Res Expr
  | .ip => if mode = .amd64 then .ok (Expr.ec (addr + len) 64) else .err .other
  | .gpr r => if r.bits = mode.bits ∧ r.off = 0 then regGet mode r else .err .other

/-- `operand_value` of a memory operand without segment override whose address registers have the mode's width
    (`disp` is capstone's i64 displacement as a u64) -/
def memAddr (mode : Mode) (addr len : Nat) (base index : Option AReg) (scale disp : Nat) : Res Expr := do
  let fb := mode.bits
  let b : Option Expr ← match base with
    | some r => do pure (some (← aregE mode addr len r))
    | none => pure none
  let i : Option Expr ← match index with
    | some r => do pure (some (← aregE mode addr len r))
    | none => pure none
  let si : Option Expr ← match i with
    | some ix => do pure (some (← Expr.mkBin .mul ix (Expr.ec scale fb)))
    | none => pure none
  let op : Option Expr ← match b, si with
    | some b, some s => do pure (some (← Expr.mkBin .add b s))
    | some b, none => pure (some b)
    | none, s => pure s
  match op with
  | some o =>
    if disp = 0 then pure o
    else if disp < 2 ^ 63 then Expr.mkBin .add o (Expr.ec disp fb)
    else Expr.mkBin .sub o (Expr.ec (2 ^ 64 - disp) fb)
  | none => pure (Expr.ec disp fb)

/-- the body shared by the two-operand builders, for a destination whose value is `lhs` and which is written back by `wb` -/
def opsCore (m : String) (addr : Nat) (lhs rhs : Expr) (wb : Expr → Res Op) : Res (List Op) := do
  let t := temp addr 0 lhs.bits
  let te : Expr := .scalar t
  let c0 : Op := .assign (scalar "CF" 1) (Expr.ec 0 1)
  let o0 : Op := .assign (scalar "OF" 1) (Expr.ec 0 1)
  match m with
  | "add" => do
      let r ← Expr.mkBin .add lhs rhs
      pure [.assign t r, .assign (scalar "ZF" 1) (← zfExpr te), .assign (scalar "SF" 1) (← sfExpr te),
            .assign (scalar "OF" 1) (← ofExpr te lhs rhs false), .assign (scalar "CF" 1) (← cfAddExpr te lhs),
            ← wb te]
  | "sub" => do
      let r ← Expr.mkBin .sub lhs rhs
      pure [.assign t r, .assign (scalar "ZF" 1) (← zfExpr te), .assign (scalar "SF" 1) (← sfExpr te),
            .assign (scalar "OF" 1) (← ofExpr te lhs rhs true), .assign (scalar "CF" 1) (← cfSubExpr te lhs),
            ← wb te]
  | "cmp" => do
      let e ← Expr.mkBin .sub lhs rhs
      pure [.assign (scalar "ZF" 1) (← zfExpr e), .assign (scalar "SF" 1) (← sfExpr e),
            .assign (scalar "OF" 1) (← ofExpr e lhs rhs true), .assign (scalar "CF" 1) (← cfSubExpr e lhs)]
  | "and" | "or" | "xor" => do
      let op := if m = "and" then BinOp.and else if m = "or" then BinOp.or else BinOp.xor
      let r ← if m = "xor" ∧ lhs = rhs then pure (Expr.ec 0 lhs.bits) else Expr.mkBin op lhs rhs
      pure [.assign t r, .assign (scalar "ZF" 1) (← zfExpr te), .assign (scalar "SF" 1) (← sfExpr te), c0, o0,
            ← wb te]
  | _ => .err .other

/-- a memory operand as the mirror takes it -/
structure MemOp where
  bytes : Nat
  base : Option AReg
  index : Option AReg
  scale : Nat
  disp : Nat
  deriving DecidableEq, Repr

/-- `op r, [mem]`: the source is loaded into `ltemp` first -/
def opsRM (mode : Mode) (m : String) (addr len : Nat) (d : GReg) (mo : MemOp) : Res (List Op) := do
  let a ← memAddr mode addr len mo.base mo.index mo.scale mo.disp
  let lt := ltemp addr (8 * mo.bytes)
  if 8 * mo.bytes = d.bits then do
    let ops ← opsDS mode m addr d (.scalar lt)
    pure (.load lt a :: ops)
  else .err .other

/-- `op [mem], src` with `src` a register or an immediate of the operand's width (`rhs` its expression):
    `mov` stores; the others load the destination into `ltemp`, compute, and store the result back -/
def opsMS (mode : Mode) (m : String) (addr len : Nat) (mo : MemOp) (rhs : Expr) : Res (List Op) := do
  let a ← memAddr mode addr len mo.base mo.index mo.scale mo.disp
  let lt := ltemp addr (8 * mo.bytes)
  if m = "mov" then pure [.store a rhs]
  else do
    let ops ← opsCore m addr (.scalar lt) rhs (fun x => pure (.store a x))
    pure (.load lt a :: ops)

def opsMR (mode : Mode) (m : String) (addr len : Nat) (mo : MemOp) (s : GReg) : Res (List Op) := do
  if 8 * mo.bytes = s.bits then do
    let rhs ← regGet mode s
    opsMS mode m addr len mo rhs
  else .err .other

def opsMI (mode : Mode) (m : String) (addr len : Nat) (mo : MemOp) (v bytes : Nat) : Res (List Op) :=
  if bytes = mo.bytes then opsMS mode m addr len mo (Expr.ec v (8 * bytes)) else .err .other

/-- `lea r, [mem]`: the address, truncated to the destination -/
def opsLea (mode : Mode) (addr len : Nat) (d : GReg) (mo : MemOp) : Res (List Op) := do
  let a ← memAddr mode addr len mo.base mo.index mo.scale mo.disp
  let src ← if a.bits > d.bits then Expr.mkExt .trun d.bits a else pure a
  pure [← regSet mode d src]

/-- `setcc r8`: `operand_store(zext(8, cc_condition))` -/
def opsSetcc (mode : Mode) (c : Nat) (d : GReg) : Res (List Op) := do
  let cc ← ccExpr c
  let z ← Expr.mkExt .zext 8 cc
  pure [← regSet mode d z]

def mkInstrs (addr : Nat) : Nat → List Op → List Instr
  | _, [] => []
  | i, op :: rest => { index := i, addr := some addr, op := op } :: mkInstrs addr (i + 1) rest

/-- the one-block instruction graph of a straight-line instruction -/
def oneBlock (addr : Nat) (ops : List Op) : Function :=
  { addr := addr
    cfg := { blocks := [{ index := 0, nextInstr := ops.length, instrs := mkInstrs addr 0 ops }]
             edges := [], entry := some 0, exit := some 0, nextIndex := 1, nextTemp := 0 } }

/-- the `BlockTranslationResult` of a straight-line instruction: one graph with one block, fall-through successor -/
def straight (addr len : Nat) (ops : List Op) : BTR :=
  { addr := addr, length := len, instrs := [oneBlock addr ops], succs := [(addr + len, none)] }

/-- `test dst, src`: flags of `dst & src`, nothing stored (`lhs`, `rhs` the operand expressions) -/
def opsTest (lhs rhs : Expr) : Res (List Op) := do
  let e ← Expr.mkBin .and lhs rhs
  pure [.assign (scalar "ZF" 1) (← zfExpr e), .assign (scalar "SF" 1) (← sfExpr e),
        .assign (scalar "CF" 1) (Expr.ec 0 1), .assign (scalar "OF" 1) (Expr.ec 0 1)]

def opsTestRR (mode : Mode) (d s : GReg) : Res (List Op) := do
  opsTest (← regGet mode d) (← regGet mode s)

def opsTestRI (mode : Mode) (d : GReg) (v bytes : Nat) : Res (List Op) := do
  if 8 * bytes = d.bits then opsTest (← regGet mode d) (Expr.ec v (8 * bytes)) else .err .other

/-- `xchg a, b` on registers: `tmp := a; a := b; b := tmp` -/
def opsXchg (mode : Mode) (addr : Nat) (a b : GReg) : Res (List Op) := do
  let lhs ← regGet mode a
  let rhs ← regGet mode b
  let t := temp addr 0 lhs.bits
  pure [.assign t lhs, ← regSet mode a rhs, ← regSet mode b (.scalar t)]

/-- `movzx` / `movsx` / `movsxd` from a narrower register -/
def opsExtend (mode : Mode) (signed : Bool) (d s : GReg) : Res (List Op) := do
  let src ← regGet mode s
  if src.bits < d.bits then do
    let v ← Expr.mkExt (if signed then .sext else .zext) d.bits src
    pure [← regSet mode d v]
  else .err .other

/-! ### stack (64-bit mode): `push_value` / `pop_value` -/

def spE : Expr := sc "rsp" 64

/-- `push r64`: the value is stored below the stack pointer, then the stack pointer moves -/
def opsPush64 (r : GReg) : Res (List Op) := do
  let v ← regGet .amd64 r
  let nsp ← Expr.mkBin .sub spE (Expr.ec 8 64)
  pure [.store nsp v, .assign (scalar "rsp" 64) nsp]

/-- `pop r64` -/
def opsPop64 (addr : Nat) (r : GReg) : Res (List Op) := do
  let lt := ltemp addr 64
  let nsp ← Expr.mkBin .add spE (Expr.ec 8 64)
  pure [.load lt spE, .assign (scalar "rsp" 64) nsp, ← regSet .amd64 r (.scalar lt)]

/-- `ret` -/
def opsRet64 (addr : Nat) : Res (List Op) := do
  let lt := ltemp addr 64
  let nsp ← Expr.mkBin .add spE (Expr.ec 8 64)
  pure [.load lt spE, .assign (scalar "rsp" 64) nsp, .branch (.scalar lt)]

/-- `call rel32` (capstone gives the absolute target as a 64-bit immediate) -/
def opsCall64 (addr len target : Nat) : Res (List Op) := do
  let nsp ← Expr.mkBin .sub spE (Expr.ec 8 64)
  pure [.store nsp (Expr.ec (addr + len) 64), .assign (scalar "rsp" 64) nsp, .branch (Expr.ec target 64)]

/-- `ret imm16`: pop the return address, then `rsp += imm16` with the immediate ZERO-extended to 64 bits, branch -/
def opsRetImm64 (addr v : Nat) : Res (List Op) := do
  let lt := ltemp addr 64
  let nsp ← Expr.mkBin .add spE (Expr.ec 8 64)
  let nsp2 ← Expr.mkBin .add spE (Expr.ec (v % 2 ^ 16) 64)
  pure [.load lt spE, .assign (scalar "rsp" 64) nsp, .assign (scalar "rsp" 64) nsp2, .branch (.scalar lt)]

/-- `leave`: `rsp := rbp`, then pop into `rbp` -/
def opsLeave64 (addr : Nat) : Res (List Op) := do
  let lt := ltemp addr 64
  let nsp ← Expr.mkBin .add spE (Expr.ec 8 64)
  pure [.assign (scalar "rsp" 64) (sc "rbp" 64), .load lt spE, .assign (scalar "rsp" 64) nsp,
        .assign (scalar "rbp" 64) (.scalar lt)]

/-- `push imm` with a 64-bit operand (`v`: the decoder's sign-extended immediate as a u64) -/
def opsPushImm64 (v : Nat) : Res (List Op) := do
  let nsp ← Expr.mkBin .sub spE (Expr.ec 8 64)
  pure [.store nsp (Expr.ec v 64), .assign (scalar "rsp" 64) nsp]

/-- `call r64`: the target is copied to a temporary BEFORE the return address is pushed (`call rsp`) -/
def opsCallReg64 (addr len : Nat) (r : GReg) : Res (List Op) := do
  let v ← regGet .amd64 r
  let t := temp addr 0 64
  let nsp ← Expr.mkBin .sub spE (Expr.ec 8 64)
  pure [.assign t v, .store nsp (Expr.ec (addr + len) 64), .assign (scalar "rsp" 64) nsp, .branch (.scalar t)]

/-! ### graphs with a conditional: cmovcc and jcc -/

def blockOf (addr idx : Nat) (ops : List Op) : Block :=
  { index := idx, nextInstr := ops.length, instrs := mkInstrs addr 0 ops }

/-- `cmovcc`: head (0) → not-taken block (2) on `gF` / taken block (3) on `gT`; both fall to the tail (1), the exit -/
def diamondFn (addr : Nat) (headOps falseOps trueOps : List Op) (gF gT : Expr) : Function :=
  { addr := addr
    cfg := { blocks := [blockOf addr 0 headOps, blockOf addr 1 [], blockOf addr 2 falseOps, blockOf addr 3 trueOps]
             edges := [{ head := 0, tail := 2, cond := some gF }, { head := 0, tail := 3, cond := some gT },
                       { head := 2, tail := 1 }, { head := 3, tail := 1 }]
             entry := some 0, exit := some 1, nextIndex := 4, nextTemp := 0 } }

/-- `jcc`: head (0) → tail (1, the exit) on `gF` / the block holding the branch placeholder (2) on `gT`, which falls to the tail -/
def triFn (addr : Nat) (headOps trueOps : List Op) (gF gT : Expr) : Function :=
  { addr := addr
    cfg := { blocks := [blockOf addr 0 headOps, blockOf addr 1 [], blockOf addr 2 trueOps]
             edges := [{ head := 0, tail := 1, cond := some gF }, { head := 0, tail := 2, cond := some gT },
                       { head := 2, tail := 1 }]
             entry := some 0, exit := some 1, nextIndex := 3, nextTemp := 0 } }

/-- `cmovcc r, r`: in 64-bit mode a 32-bit destination is rewritten (zero-extended) on the not-taken path too -/
def liftCmov (mode : Mode) (c : Nat) (addr len : Nat) (d s : GReg) : Res BTR := do
  let cc ← ccExpr c
  let ncc ← Expr.mkBin .cmpeq cc (Expr.ec 0 1)
  let src ← regGet mode s
  let taken ← regSet mode d src
  let notTaken : List Op ← if mode = .amd64 ∧ d.bits = 32 then do pure [← regSet mode d (← regGet mode d)] else pure []
  pure { addr := addr, length := len, instrs := [diamondFn addr [.nop] notTaken [taken] ncc cc], succs := [(addr + len, none)] }

/-- `jcc target` (immediate target): the graph does nothing, the successors carry the condition -/
def liftJcc (c : Nat) (addr len target : Nat) : Res BTR := do
  let cc ← ccExpr c
  let ncc ← Expr.mkBin .cmpeq cc (Expr.ec 0 1)
  pure { addr := addr, length := len, instrs := [triFn addr [.nop] [.nop] ncc cc],
         succs := [(addr + len, some ncc), (target, some cc)] }

def liftRR (mode : Mode) (m : String) (addr len : Nat) (d s : GReg) : Res BTR := do
  let ops ← opsRR mode m addr d s
  pure (straight addr len ops)

def liftRI (mode : Mode) (m : String) (addr len : Nat) (d : GReg) (v bytes : Nat) : Res BTR := do
  let ops ← opsRI mode m addr d v bytes
  pure (straight addr len ops)

def liftUn (mode : Mode) (m : String) (addr len : Nat) (d : GReg) : Res BTR := do
  let ops ← opsUn mode m addr d
  pure (straight addr len ops)

def aluMnemonics : List String := ["mov", "add", "sub", "cmp", "and", "or", "xor"]
def unMnemonics : List String := ["inc", "dec", "neg", "not"]

/-- the memory operand of the mirrored classes: no segment override, address size = the mode's -/
def memOp? (i : Ins) : Opnd → Option MemOp
  | .mem bytes none base index scale disp =>
    if 8 * i.asz = i.mode.bits then some { bytes := bytes, base := base, index := index, scale := scale, disp := disp } else none
  | _ => none

def wrap (addr len : Nat) (ops : Res (List Op)) : Res BTR := do
  let o ← ops
  pure (straight addr len o)

/-- the mirror's output for an instruction of the mirrored classes (`none`: outside) -/
def liftIns (i : Ins) : Option (Res BTR) :=
  if i.lock then none
  else match i.ops with
  | [.reg d, .reg s] =>
    if aluMnemonics.contains i.mnem ∧ d.bits = s.bits then some (liftRR i.mode i.mnem i.addr i.len d s)
    else if i.mnem = "test" ∧ d.bits = s.bits then some (wrap i.addr i.len (opsTestRR i.mode d s))
    else if i.mnem = "xchg" ∧ d.bits = s.bits then some (wrap i.addr i.len (opsXchg i.mode i.addr d s))
    else if i.mnem = "movzx" ∧ s.bits < d.bits then some (wrap i.addr i.len (opsExtend i.mode false d s))
    else if (i.mnem = "movsx" ∨ i.mnem = "movsxd") ∧ s.bits < d.bits then some (wrap i.addr i.len (opsExtend i.mode true d s))
    else match splitCc i.mnem with
      | some ("cmov", c) => if d.bits = s.bits then some (liftCmov i.mode c i.addr i.len d s) else none
      | _ => none
  | [.imm t b] =>
    match splitCc i.mnem with
    | some ("j", c) => some (liftJcc c i.addr i.len t)
    | _ => if i.mnem = "call" ∧ i.mode = .amd64 then some (wrap i.addr i.len (opsCall64 i.addr i.len t))
           else if i.mnem = "ret" ∧ i.mode = .amd64 then
             some (do pure { addr := i.addr, length := i.len, instrs := [oneBlock i.addr (← opsRetImm64 i.addr t)], succs := [] })
           else if i.mnem = "push" ∧ i.mode = .amd64 ∧ b = 8 then some (wrap i.addr i.len (opsPushImm64 t))
           else none
  | [.reg d, .imm v bytes] =>
    if aluMnemonics.contains i.mnem ∧ 8 * bytes = d.bits then some (liftRI i.mode i.mnem i.addr i.len d v bytes)
    else if i.mnem = "test" ∧ 8 * bytes = d.bits then some (wrap i.addr i.len (opsTestRI i.mode d v bytes))
    else none
  | [] =>
    if i.mnem = "ret" ∧ i.mode = .amd64 then
      some (do pure { addr := i.addr, length := i.len, instrs := [oneBlock i.addr (← opsRet64 i.addr)], succs := [] })
    else if i.mnem = "leave" ∧ i.mode = .amd64 then some (wrap i.addr i.len (opsLeave64 i.addr))
    else none
  | [.reg d] =>
    if unMnemonics.contains i.mnem then some (liftUn i.mode i.mnem i.addr i.len d)
    else if i.mnem = "push" ∧ i.mode = .amd64 ∧ d.bits = 64 then some (wrap i.addr i.len (opsPush64 d))
    else if i.mnem = "pop" ∧ i.mode = .amd64 ∧ d.bits = 64 then some (wrap i.addr i.len (opsPop64 i.addr d))
    else if i.mnem = "call" ∧ i.mode = .amd64 ∧ d.bits = 64 then some (wrap i.addr i.len (opsCallReg64 i.addr i.len d))
    else match splitCc i.mnem with
      | some ("set", c) => if d.bits = 8 then some (wrap i.addr i.len (opsSetcc i.mode c d)) else none
      | _ => none
  | [.reg d, m@(.mem ..)] =>
    match memOp? i m with
    | some mo =>
      if i.mnem = "lea" then some (wrap i.addr i.len (opsLea i.mode i.addr i.len d mo))
      else if aluMnemonics.contains i.mnem ∧ 8 * mo.bytes = d.bits then some (wrap i.addr i.len (opsRM i.mode i.mnem i.addr i.len d mo))
      else none
    | none => none
  | [m@(.mem ..), .reg s] =>
    match memOp? i m with
    | some mo => if aluMnemonics.contains i.mnem ∧ 8 * mo.bytes = s.bits then some (wrap i.addr i.len (opsMR i.mode i.mnem i.addr i.len mo s)) else none
    | none => none
  | [m@(.mem ..), .imm v bytes] =>
    match memOp? i m with
    | some mo => if aluMnemonics.contains i.mnem ∧ bytes = mo.bytes then some (wrap i.addr i.len (opsMI i.mode i.mnem i.addr i.len mo v bytes)) else none
    | none => none
  | _ => none

end X86Lift
end Falcon
