import FalconModel.Isa.Ppc
namespace Falcon.Isa.Ppc
def liftBTR (_ws : List (BitVec 32)) (_addr : Nat) : Option BTR := none
end Falcon.Isa.Ppc
