/-
  FalconModel.Isa.PpcLift — the Lean mirror of what `lib/translator/ppc/{mod,semantics}.rs` emits (option (A) of the
  lifter brief), for every mnemonic the PPC dispatcher accepts except `bc`/`bdnzl`/`bclr` (differential only):
  addi/li, addis/lis, add, subf, addze, mr (`or` with rs = rb), nop, rlwinm/slwi, srawi, cmpwi, cmplwi, lbz, lwz, lwzu, stw,
  stwu, stmw, mflr, mtlr, mtctr, b, bl, blr, bctr — with the record forms (`Rc = 1`) where the lifter has them.
  The driver compares falcon's dumped IL with `liftBTR` syntactically; `FalconProofs/C02/Ppc*.lean` proves the mirror
  against `Isa.Ppc`.  The graph builders (`g1`, `mkGraph`, `tempName`) are those of the MIPS mirror.
-/
import FalconModel.Isa.Ppc
import FalconModel.Isa.MipsLift
namespace Falcon.Isa.Ppc
open Falcon.Isa.Mips (g1 mkGraph tempName c32 c1)

/-- `rlwinm_`: `from_mb = 0xffffffff >> mb; to_me = (0xffffffff << (31 - me)) & 0xffffffff;
    mask = if mb <= me { from_mb & to_me } else { from_mb | to_me }` (u64 arithmetic) -/
def maskLifter (mb me : Nat) : Nat :=
  let fromMb := 0xffffffff >>> mb
  let toMe := (0xffffffff <<< (31 - me)) &&& 0xffffffff
  if mb ≤ me then fromMb &&& toMe else fromMb ||| toMe

def gsc (i : Reg) : Scalar := { name := gprName i, bits := 32 }
def gx (i : Reg) : Expr := .scalar (gsc i)
def lrS : Scalar := { name := nm 32, bits := 32 }
def ctrS : Scalar := { name := nm 33, bits := 32 }
def caS : Scalar := { name := nm 34, bits := 1 }
def crS (i : Nat) : Scalar := { name := crName i, bits := 1 }

/-- `set_condition_register_signed/unsigned(block, crN, lhs, rhs)`: lt, gt, eq — the so bit is not written -/
def setCrOps (cmp : BinOp) (bf : Nat) (l r : Expr) : List Op :=
  [.assign (crS (4 * bf)) (.bin cmp l r), .assign (crS (4 * bf + 1)) (.bin cmp r l), .assign (crS (4 * bf + 2)) (.bin .cmpeq l r)]

/-- `record_cr0`: the record forms compare the RESULT REGISTER with zero -/
def recordOps (rc : Bool) (dst : Reg) : List Op := if rc then setCrOps .cmplts 0 (gx dst) (c32 0) else []

def sextNat (i : BitVec 16) : Nat := (i.signExtend 32).toNat
def eaX (ra : Reg) (d : BitVec 16) : Expr := .bin .add (c32 (sextNat d)) (gx ra)

/-- `Expression::rotl(e, c sh)` -/
def rotlX (e : Expr) (sh : Nat) : Expr :=
  let s := Expr.bin .modu (c32 sh) (c32 32)
  .bin .or (.bin .shl e s) (.bin .shr e (.bin .sub (c32 32) s))

/-- `stmw`: one store per register from `rs` up to `r31`, the offsets advancing by 4 modulo 2^32 -/
def stmwOps (ra : Reg) (d : Nat) : Nat → Nat → List Op
  | 0, _ => []
  | n + 1, k => .store (.bin .add (c32 ((d + 4 * k) % 2 ^ 32)) (gx ra)) (gx (BitVec.ofNat 5 (32 - (n + 1)))) :: stmwOps ra d n (k + 1)

/-- capstone prints these `rlwinm` encodings under other mnemonics (srwi, clrlwi, rotlwi), which the dispatcher rejects;
    `slwi` is accepted and lifted as the same `rlwinm` -/
def rlwinmRejected (sh mb me : BitVec 5) : Bool :=
  (me == 31 && sh.toNat + mb.toNat == 32 && mb != 0)      -- srwi n
  || (sh == 0 && me == 31)                                -- clrlwi n
  || (mb == 0 && me == 31)                                -- rotlwi n

def liftI (i : Instr) (a : Nat) : Option Function :=
  match i with
  | .addi rt ra si =>
    some (g1 a [.assign (gsc rt) (if ra = 0 then c32 (sextNat si) else .bin .add (gx ra) (c32 (sextNat si)))])
  | .addis rt ra si =>
    some (g1 a [.assign (gsc rt) (if ra = 0 then .bin .shl (c32 (sextNat si)) (c32 16)
                                   else .bin .add (gx ra) (c32 (si.toNat * 65536)))])
  | .add rt ra rb rc => some (g1 a (.assign (gsc rt) (.bin .add (gx ra) (gx rb)) :: recordOps rc rt))
  | .subf rt ra rb rc =>
    some (g1 a (.assign (gsc rt) (.bin .add (.bin .add (.bin .xor (gx ra) (c32 0xffffffff)) (gx rb)) (c32 1)) :: recordOps rc rt))
  | .addze rt ra rc =>
    let t : Scalar := { name := tempName a, bits := 32 }
    some (g1 a ([.assign t (.bin .add (gx ra) (.ext .zext 32 (.scalar caS))),
                 .assign caS (.bin .cmpltu (.scalar t) (gx ra)),
                 .assign (gsc rt) (.scalar t)] ++ recordOps rc rt))
  | .or_ ra rs rb rc => if rs = rb ∧ rc = false then some (g1 a [.assign (gsc ra) (gx rs)]) else none     -- `mr`; `or`, `or.`: rejected
  | .ori ra rs ui => if ra = 0 ∧ rs = 0 ∧ ui = 0 then some (g1 a [.nop]) else none
  | .rlwinm ra rs sh mb me rc =>
    if rlwinmRejected sh mb me then none
    else some (g1 a (.assign (gsc ra) (.bin .and (rotlX (gx rs) sh.toNat) (c32 (maskLifter mb.toNat me.toNat))) :: recordOps rc ra))
  | .srawi ra rs sh rc =>
    some (g1 a ([.assign caS (.bin .and (.bin .cmplts (gx rs) (c32 0))
                                (.bin .cmpneq (.bin .and (gx rs) (c32 (2 ^ sh.toNat - 1))) (c32 0))),
                 .assign (gsc ra) (.bin .ashr (gx rs) (c32 sh.toNat))] ++ recordOps rc ra))
  -- with cr0 capstone omits the field operand and the lifter fails on the operand kinds: rejected
  | .cmpi bf ra si => if bf = 0 then none else some (g1 a (setCrOps .cmplts bf.toNat (gx ra) (c32 (sextNat si))))
  | .cmpli bf ra ui => if bf = 0 then none else some (g1 a (setCrOps .cmpltu bf.toNat (gx ra) (c32 ui.toNat)))
  -- memory forms with RA = 0 (base "0"): rejected by the lifter's register lookup
  | .lbz rt ra d =>
    let t : Scalar := { name := tempName a, bits := 8 }
    if ra = 0 then none else some (g1 a [.load t (eaX ra d), .assign (gsc rt) (.ext .zext 32 (.scalar t))])
  | .lwz rt ra d => if ra = 0 then none else some (g1 a [.load (gsc rt) (eaX ra d)])
  | .lwzu rt ra d => if ra = 0 then none else some (g1 a [.load (gsc rt) (eaX ra d), .assign (gsc ra) (eaX ra d)])
  | .stw rs ra d => if ra = 0 then none else some (g1 a [.store (eaX ra d) (gx rs)])
  | .stwu rs ra d => if ra = 0 then none else some (g1 a [.store (eaX ra d) (gx rs), .assign (gsc ra) (eaX ra d)])
  | .stmw rs ra d => if ra = 0 then none else some (g1 a (stmwOps ra (sextNat d) (32 - rs.toNat) 0))
  | .mflr rt => some (g1 a [.assign (gsc rt) (.scalar lrS)])
  | .mtlr rs => some (g1 a [.assign lrS (gx rs)])
  | .mtctr rs => some (g1 a [.assign ctrS (gx rs)])
  | _ => none

def relTarget (pc : Word) (li : BitVec 24) : Word := pc + ((li ++ (0 : BitVec 2)).signExtend 32)

/-- the `BlockTranslationResult` of one instruction word at `addr` -/
def liftInstr (i : Instr) (addr : Nat) : Option BTR :=
  match i with
  | .b li false =>
    some { addr := addr, length := 0, instrs := [g1 addr [.nop]], succs := [((relTarget (BitVec.ofNat 32 addr) li).toNat, none)] }
  | .b li true =>
    some { addr := addr, length := 4,
           instrs := [g1 addr [.assign lrS (c32 ((addr + 4) % 2 ^ 32)), .branch (c32 (relTarget (BitVec.ofNat 32 addr) li).toNat)]],
           succs := [(addr + 4, none)] }
  | .bclr bo bi false =>
    if bo = 20 ∧ bi = 0 then
      some { addr := addr, length := 0, instrs := [g1 addr [.branch (.bin .and (.scalar lrS) (c32 0xfffffffc))]], succs := [] }
    else none
  | .bcctr bo bi false =>
    if bo = 20 ∧ bi = 0 then
      some { addr := addr, length := 0, instrs := [g1 addr [.branch (.bin .and (.scalar ctrS) (c32 0xfffffffc))]], succs := [] }
    else none
  | i => (liftI i addr).map fun f => { addr := addr, length := 4, instrs := [f], succs := [(addr + 4, none)] }

def liftBTR (ws : List (BitVec 32)) (addr : Nat) : Option BTR :=
  match ws with
  | [w] => (decode w).bind fun i => liftInstr i addr
  | _ => none

end Falcon.Isa.Ppc
