/-
  FalconModel.Isa.PpcLift — the parts of the PowerPC lifter mirrored in Lean.  The PPC instruction classes are covered by
  the three-way differential only (option (C)); what is mirrored is the one non-trivial constant the lifter computes at
  lift time: the rotate mask of `rlwinm`/`slwi` (`rlwinm_` in lib/translator/ppc/semantics.rs).
-/
import FalconModel.Isa.Ppc
namespace Falcon.Isa.Ppc

/-- `rlwinm_`: `from_mb = 0xffffffff >> mb; to_me = (0xffffffff << (31 - me)) & 0xffffffff;
    mask = if mb <= me { from_mb & to_me } else { from_mb | to_me }` (u64 arithmetic) -/
def maskLifter (mb me : Nat) : Nat :=
  let fromMb := 0xffffffff >>> mb
  let toMe := (0xffffffff <<< (31 - me)) &&& 0xffffffff
  if mb ≤ me then fromMb &&& toMe else fromMb ||| toMe

/-- no PPC class is mirrored as IL -/
def liftBTR (_ws : List (BitVec 32)) (_addr : Nat) : Option BTR := none

end Falcon.Isa.Ppc
