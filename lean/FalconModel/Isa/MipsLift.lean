/-
  FalconModel.Isa.MipsLift — the tie between falcon's IL state and the MIPS machine state, and (option (A) of the
  lifter brief) the Lean mirror of what `lib/translator/mips/{mod,semantics}.rs` emits for each instruction class.

  * `regName`, `absState`: the scalars `$at … $ra`, `$hi`, `$lo` of an IL state are the register file; the scalar
    `$zero` is NOT part of it (the lifter reads `$zero` as the constant 0 and may write the scalar, which no later
    instruction can observe), `GPR[0]` is 0.
  * `liftI`: the instruction graphs the lifter builds, `liftBTR`: the `BlockTranslationResult` for one instruction
    (or a branch with its delay slot), to be compared SYNTACTICALLY with falcon's dumped IL by the driver, and proved
    against `Isa.Mips` in `FalconProofs/C02`.
-/
import FalconModel.Isa.Mips
import FalconModel.Lift

namespace Falcon.Isa.Mips

def regNames : List String :=
  ["$zero", "$at", "$v0", "$v1", "$a0", "$a1", "$a2", "$a3", "$t0", "$t1", "$t2", "$t3", "$t4", "$t5", "$t6", "$t7",
   "$s0", "$s1", "$s2", "$s3", "$s4", "$s5", "$s6", "$s7", "$t8", "$t9", "$k0", "$k1", "$gp", "$sp", "$fp", "$ra"]

def regName (i : Reg) : String := regNames.getD i.toNat ""

/-- the 32-bit value of a scalar (0 when absent) -/
def val32 (σ : State) (n : String) : Word :=
  match σ.get n with
  | some c => BitVec.ofNat 32 c.val
  | none => 0

/-- the machine state an IL state stands for -/
def absState (σ : State) : St :=
  { gpr := fun i => val32 σ (regName i)
    hi := val32 σ "$hi"
    lo := val32 σ "$lo"
    mem := σ.mem
    bigEndian := σ.endian == .big }

end Falcon.Isa.Mips

namespace Falcon.Isa.Mips
/-- placeholder until the mirror is written -/
def liftBTR (_big : Bool) (_ws : List Word) (_addr : Nat) : Option BTR := none
end Falcon.Isa.Mips
