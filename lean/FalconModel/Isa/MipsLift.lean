/-
  FalconModel.Isa.MipsLift — the tie between falcon's IL state and the MIPS machine state, and (option (A) of the
  lifter brief) the Lean mirror of what `lib/translator/mips/{mod,semantics}.rs` emits for each instruction class.

  * `regName`, `absState`: the scalars `$at … $ra`, `$hi`, `$lo` of an IL state are the register file; the scalar
    `$zero` is NOT part of it (the lifter reads `$zero` as the constant 0 and may write the scalar, which no later
    instruction can observe), `GPR[0]` is 0.
  * `liftI`: the instruction graphs the lifter builds, `liftBTR`: the `BlockTranslationResult` for one instruction
    (or a branch with its delay slot), to be compared SYNTACTICALLY with falcon's dumped IL by the driver, and proved
    against `Isa.Mips` in `FalconProofs/C02`.
-/
import FalconModel.Isa.Mips
import FalconModel.Lift

namespace Falcon.Isa.Mips

def regNames : List String :=
  ["$zero", "$at", "$v0", "$v1", "$a0", "$a1", "$a2", "$a3", "$t0", "$t1", "$t2", "$t3", "$t4", "$t5", "$t6", "$t7",
   "$s0", "$s1", "$s2", "$s3", "$s4", "$s5", "$s6", "$s7", "$t8", "$t9", "$k0", "$k1", "$gp", "$sp", "$fp", "$ra"]

def regName (i : Reg) : String := regNames.getD i.toNat ""

/-- the 32-bit value of a scalar (0 when absent) -/
def val32 (σ : State) (n : String) : Word :=
  match σ.get n with
  | some c => BitVec.ofNat 32 c.val
  | none => 0

/-- the machine state an IL state stands for -/
def absState (σ : State) : St :=
  { gpr := fun i => val32 σ (regName i)
    hi := val32 σ "$hi"
    lo := val32 σ "$lo"
    mem := σ.mem
    bigEndian := σ.endian == .big }

end Falcon.Isa.Mips

namespace Falcon.Isa.Mips

/-! ### the mirror of the lifter (option (A)) -/

def c32 (v : Nat) : Expr := .const ⟨32, v⟩
def c1 (v : Nat) : Expr := .const ⟨1, v⟩
/-- `MipsRegister::scalar` -/
def rsc (i : Reg) : Scalar := { name := regName i, bits := 32 }
/-- `MipsRegister::expression`: `$zero` is the constant 0 -/
def rx (i : Reg) : Expr := if i = 0 then c32 0 else .scalar (rsc i)

def bc : Scalar := { name := "branching_condition", bits := 1 }

/-- `Scalar::temp(address, bits)`: `temp_0x<ADDRESS IN UPPER-CASE HEX>` -/
def tempName (a : Nat) : String := "temp_0x" ++ String.ofList ((Nat.toDigits 16 a).map Char.toUpper)

def mkIns (a : Nat) (k : Nat) (o : Op) : Falcon.Instr := { index := k, addr := some a, op := o }

def mkBlock (a : Nat) (idx : Nat) (ops : List Op) : Block :=
  { index := idx, nextInstr := ops.length, instrs := ops.zipIdx.map fun (o, k) => mkIns a k o }

/-- an instruction graph: blocks `0, 1, …` with the given operations, edges, entry 0 -/
def mkGraph (a : Nat) (blocks : List (List Op)) (edges : List Edge) (exit : Nat) : Function :=
  { addr := a
    cfg := { blocks := blocks.zipIdx.map fun (ops, i) => mkBlock a i ops
             edges := edges, entry := some 0, exit := some exit, nextIndex := blocks.length } }

/-- the one-block graph most instructions get -/
def g1 (a : Nat) (ops : List Op) : Function := mkGraph a [ops] [] 0

def not1 (e : Expr) : Expr := .bin .cmpeq e (c1 0)

/-- head (nop) → `t` when `c`, `f` otherwise → empty tail: the shape of slt*, movn/movz -/
def diamond (a : Nat) (c : Expr) (t f : List Op) : Function :=
  mkGraph a [[.nop], t, f, []] [⟨0, 1, some c⟩, ⟨0, 2, some (not1 c)⟩, ⟨1, 3, none⟩, ⟨2, 3, none⟩] 3

/-- head (nop) → `ops` when `c` → empty tail, or head → tail when `nc`: the shape of movn/movz -/
def tri (a : Nat) (c nc : Expr) (ops : List Op) : Function :=
  mkGraph a [[.nop], ops, []] [⟨0, 1, some c⟩, ⟨0, 2, some nc⟩, ⟨1, 2, none⟩] 2

def hiS : Scalar := { name := "$hi", bits := 32 }
def loS : Scalar := { name := "$lo", bits := 32 }
def c64 (v : Nat) : Expr := .const ⟨64, v⟩

/-- the trapping arithmetic (add, addi, sub): head (nop) → the `IntegerOverflow` intrinsic when `ov`, → `op` otherwise → tail -/
def trapGraph (a : Nat) (ov : Expr) (op : Op) : Function :=
  mkGraph a [[.nop], [.intrinsic { mnemonic := "IntegerOverflow" }], [op], []]
    [⟨0, 1, some ov⟩, ⟨0, 2, some (not1 ov)⟩, ⟨1, 3, none⟩, ⟨2, 3, none⟩] 3

/-- "sign-extend both operands to 64 bits, add/subtract, overflow if bit 32 ≠ bit 31 of the result" -/
def ovExpr (op : BinOp) (l r : Expr) : Expr :=
  let t := Expr.bin op (.ext .sext 64 l) (.ext .sext 64 r)
  .bin .cmpneq (.ext .trun 1 (.bin .shr t (.const ⟨64, 32⟩))) (.ext .trun 1 (.bin .shr t (.const ⟨64, 31⟩)))

def sext16Nat (i : BitVec 16) : Nat := (i.signExtend 32).toNat

def r3Expr (op : R3) (rs rt : Reg) : Option Expr :=
  match op with
  | .addu => some (if rt = 0 then rx rs else .bin .add (rx rs) (rx rt))      -- capstone: `move rd, rs`
  | .or => some (if rt = 0 then rx rs else .bin .or (rx rs) (rx rt))         -- capstone: `move rd, rs`
  | .subu => some (.bin .sub (rx rs) (rx rt))                                  -- rs = 0 is `negu`, the same IL
  | .and => some (.bin .and (rx rs) (rx rt))
  | .xor => some (.bin .xor (rx rs) (rx rt))
  | .nor => if rt = 0 then none else some (.bin .xor (.bin .or (rx rs) (rx rt)) (c32 0xffffffff))   -- `not`: rejected
  | _ => none

def shOp : Sh → BinOp
  | .sll => .shl | .srl => .shr | .sra => .ashr

def immExpr (op : Imm) (rs : Reg) (i : BitVec 16) : Expr :=
  match op with
  | .addiu => .bin .add (rx rs) (c32 (sext16Nat i))
  | .slti => .bin .cmplts (rx rs) (c32 (sext16Nat i))
  | .sltiu => .bin .cmpltu (rx rs) (c32 (sext16Nat i))
  | .andi => .bin .and (rx rs) (c32 i.toNat)
  | .ori => .bin .or (rx rs) (c32 i.toNat)
  | .xori => .bin .xor (rx rs) (c32 i.toNat)

def eaExpr (base : Reg) (off : BitVec 16) : Expr := .bin .add (rx base) (c32 (sext16Nat off))

/-- the graph of one non-branch instruction at address `a`; `none`: not mirrored (or rejected by the dispatcher) -/
def liftI (i : Instr) (a : Nat) : Option Function :=
  match i with
  | .r3 .slt rd rs rt => some (diamond a (.bin .cmplts (rx rs) (rx rt)) [.assign (rsc rd) (c32 1)] [.assign (rsc rd) (c32 0)])
  | .r3 .sltu rd rs rt => some (diamond a (.bin .cmpltu (rx rs) (rx rt)) [.assign (rsc rd) (c32 1)] [.assign (rsc rd) (c32 0)])
  | .r3 .movn rd rs rt =>
    some (tri a (.bin .cmpneq (rx rt) (c32 0)) (.bin .cmpeq (rx rt) (c32 0)) [.assign (rsc rd) (rx rs)])
  | .r3 .movz rd rs rt =>
    some (tri a (.bin .cmpeq (rx rt) (c32 0)) (.bin .cmpneq (rx rt) (c32 0)) [.assign (rsc rd) (rx rs)])
  | .r3 .mul rd rs rt =>
    some (g1 a [.assign (rsc rd) (.ext .trun 32 (.bin .mul (.ext .sext 64 (rx rs)) (.ext .sext 64 (rx rt))))])
  | .r3 op rd rs rt => (r3Expr op rs rt).map fun e => g1 a [.assign (rsc rd) e]
  | .r3t .add rd rs rt => some (trapGraph a (ovExpr .add (rx rs) (rx rt)) (.assign (rsc rd) (.bin .add (rx rs) (rx rt))))
  | .r3t .sub rd rs rt =>      -- rs = $zero is capstone's `neg`: rejected
    if rs = 0 then none else some (trapGraph a (ovExpr .sub (rx rs) (rx rt)) (.assign (rsc rd) (.bin .sub (rx rs) (rx rt))))
  | .addi rt rs i =>
    some (trapGraph a (ovExpr .add (rx rs) (c32 (sext16Nat i))) (.assign (rsc rt) (.bin .add (rx rs) (c32 (sext16Nat i)))))
  | .mfhi rd => some (g1 a [.assign (rsc rd) (.scalar hiS)])
  | .mflo rd => some (g1 a [.assign (rsc rd) (.scalar loS)])
  | .mthi rs => some (g1 a [.assign hiS (rx rs)])
  | .mtlo rs => some (g1 a [.assign loS (rx rs)])
  | .muldiv .mult rs rt =>
    let t : Scalar := { name := tempName a, bits := 64 }
    some (g1 a [.assign t (.bin .mul (.ext .sext 64 (rx rs)) (.ext .sext 64 (rx rt))),
                .assign hiS (.ext .trun 32 (.bin .shr (.scalar t) (c64 32))), .assign loS (.ext .trun 32 (.scalar t))])
  | .muldiv .multu rs rt =>
    let t : Scalar := { name := tempName a, bits := 64 }
    some (g1 a [.assign t (.bin .mul (.ext .zext 64 (rx rs)) (.ext .zext 64 (rx rt))),
                .assign hiS (.ext .trun 32 (.bin .shr (.scalar t) (c64 32))), .assign loS (.ext .trun 32 (.scalar t))])
  -- div/divu: not mirrored (a zero divisor makes the IL's division fail where the manual completes: known finding)
  | .shi op rd rt sa =>
    if op = .sll ∧ rd = 0 ∧ rt = 0 then (if sa = 0 then some (g1 a [.nop]) else none)     -- nop; ssnop/ehb/pause: rejected
    else some (g1 a [.assign (rsc rd) (.bin (shOp op) (rx rt) (c32 sa.toNat))])
  | .shv op rd rt rs => some (g1 a [.assign (rsc rd) (.bin (shOp op) (rx rt) (.bin .and (rx rs) (c32 0x1f)))])
  | .imm .slti rt rs i => some (diamond a (immExpr .slti rs i) [.assign (rsc rt) (c32 1)] [.assign (rsc rt) (c32 0)])
  | .imm .sltiu rt rs i => some (diamond a (immExpr .sltiu rs i) [.assign (rsc rt) (c32 1)] [.assign (rsc rt) (c32 0)])
  | .imm op rt rs i => some (g1 a [.assign (rsc rt) (immExpr op rs i)])
  | .lui rt i => some (g1 a [.assign (rsc rt) (c32 (i.toNat * 65536))])
  | .load op rt base off =>
    let t8 : Scalar := { name := tempName a, bits := 8 }
    let t16 : Scalar := { name := tempName a, bits := 16 }
    match op with
    | .lb => some (g1 a [.load t8 (eaExpr base off), .assign (rsc rt) (.ext .sext 32 (.scalar t8))])
    | .lbu => some (g1 a [.load t8 (eaExpr base off), .assign (rsc rt) (.ext .zext 32 (.scalar t8))])
    | .lh => some (g1 a [.load t16 (eaExpr base off), .assign (rsc rt) (.ext .sext 32 (.scalar t16))])
    | .lhu => some (g1 a [.load t16 (eaExpr base off), .assign (rsc rt) (.ext .zext 32 (.scalar t16))])
    | .lw => some (g1 a [.load (rsc rt) (eaExpr base off)])
    | _ => none
  | .store op rt base off =>
    match op with
    | .sb => some (g1 a [.store (eaExpr base off) (.ext .trun 8 (rx rt))])
    | .sh => some (g1 a [.store (eaExpr base off) (.ext .trun 16 (rx rt))])
    | .sw => some (g1 a [.store (eaExpr base off) (rx rt)])
    | _ => none
  | _ => none

/-- `unaligned_bits(address, endian, from_left)`: the position of the addressed byte in its aligned word, counted from the
    most-significant end (`from_left`) or the other end, times 8 -/
def unalignedBits (big fromLeft : Bool) (addr : Expr) : Expr :=
  .bin .shl (if big == fromLeft then .bin .and addr (c32 3) else .bin .sub (c32 3) (.bin .and addr (c32 3))) (c32 3)

/-- lwl / lwr / swl / swr: the lifted IL depends on the byte order the translator was created for -/
def liftUnaligned (big : Bool) (i : Instr) (a : Nat) : Option Function :=
  let t : Scalar := { name := tempName a, bits := 32 }
  match i with
  | .load .lwl rt base off =>
    let addr := eaExpr base off
    let bits := unalignedBits big true addr
    some (g1 a [.load t (.bin .and (c32 0xfffffffc) addr),
                .assign (rsc rt) (.bin .or (.bin .shl (.scalar t) bits)
                  (.bin .and (rx rt) (.bin .sub (.bin .shl (c32 1) bits) (c32 1))))])
  | .load .lwr rt base off =>
    let addr := eaExpr base off
    let bits := unalignedBits big false addr
    some (g1 a [.load t (.bin .and (c32 0xfffffffc) addr),
                .assign (rsc rt) (.bin .or (.bin .shr (.scalar t) bits)
                  (.bin .and (rx rt) (.bin .sub (c32 0xffffffff) (.bin .shr (c32 0xffffffff) bits))))])
  | .store .swl rt base off =>
    let addr := eaExpr base off
    let bits := unalignedBits big true addr
    let aligned := Expr.bin .and (c32 0xfffffffc) addr
    some (g1 a [.load t aligned,
                .store aligned (.bin .or (.bin .and (.bin .sub (c32 0xffffffff) (.bin .shr (c32 0xffffffff) bits)) (.scalar t))
                  (.bin .shr (rx rt) bits))])
  | .store .swr rt base off =>
    let addr := eaExpr base off
    let bits := unalignedBits big false addr
    let aligned := Expr.bin .and (c32 0xfffffffc) addr
    some (g1 a [.load t aligned,
                .store aligned (.bin .or (.bin .and (.bin .sub (c32 0xffffffff) (.bin .shl (c32 0xffffffff) bits)) (.scalar t))
                  (.bin .shl (rx rt) bits))])
  | _ => none

/-- the `BlockTranslationResult` of lwl / lwr (proved in `FalconProofs/C02/Unaligned.lean`) -/
def liftUnalignedSingle (big : Bool) (i : Instr) (addr : Nat) : Option BTR :=
  match i with
  | .load _ _ _ _ =>
    (liftUnaligned big i addr).map fun f => { addr := addr, length := 4, instrs := [f], succs := [(addr + 4, none)] }
  | _ => none

/-- … and of swl / swr (mirrored for the syntactic comparison only: class (C)) -/
def liftUnalignedStoreSingle (big : Bool) (i : Instr) (addr : Nat) : Option BTR :=
  match i with
  | .store _ _ _ _ =>
    (liftUnaligned big i addr).map fun f => { addr := addr, length := 4, instrs := [f], succs := [(addr + 4, none)] }
  | _ => none

/-- the condition latched by a conditional branch, `none` for the unconditional forms -/
def brCond : Instr → Option (Option Expr)
  | .br2 .beq rs rt _ => some (if rs = 0 ∧ rt = 0 then none else some (.bin .cmpeq (rx rs) (rx rt)))     -- `b`
  | .br2 .bne rs rt _ => some (some (.bin .cmpneq (rx rs) (rx rt)))
  | .br1 .bgez rs _ => some (some (.bin .cmpeq (.bin .cmplts (rx rs) (c32 0)) (c1 0)))
  | .br1 .bgtz rs _ => some (some (.bin .cmplts (c32 0) (rx rs)))
  | .br1 .blez rs _ => some (some (.bin .or (.bin .cmplts (rx rs) (c32 0)) (.bin .cmpeq (rx rs) (c32 0))))
  | .br1 .bltz rs _ => some (some (.bin .cmplts (rx rs) (c32 0)))
  | .j _ => some none
  | _ => none

def brTarget (pc : Word) : Instr → Option Nat
  | .br2 _ _ _ off | .br1 _ _ off => some (relTarget pc off).toNat
  | .j idx => some (absTarget pc idx).toNat
  | _ => none

/-- the `BlockTranslationResult` of one non-branch instruction -/
def liftSingle (i : Instr) (addr : Nat) : Option BTR :=
  if i.isBranch then none
  else (liftI i addr).map fun f => { addr := addr, length := 4, instrs := [f], succs := [(addr + 4, none)] }

/-- the (empty) graph a direct branch leaves behind its delay slot, addressed `branch address + 1` -/
def tailGraph (addr : Nat) : Function := mkGraph (addr + 1) [[]] [] 0

/-- the `BlockTranslationResult` of a branch `b` at `addr` with `d` in its delay slot:
    `[nop | branching_condition := cond] @addr`, the slot's graph `@addr+4`, the branch's own graph `@addr+1` -/
def liftPair (b d : Instr) (addr : Nat) : Option BTR :=
  if d.isBranch then none
  else
    match liftI d (addr + 4) with
    | none => none
    | some slot =>
      match b with
      | .jr rs =>
        some { addr := addr, length := 4, instrs := [g1 addr [.nop], slot, g1 (addr + 1) [.branch (rx rs)]], succs := [] }
      | _ =>
        match brCond b, brTarget (BitVec.ofNat 32 addr) b with
        | some none, some t =>
          some { addr := addr, length := 4, instrs := [g1 addr [.nop], slot, tailGraph addr], succs := [(t, none)] }
        | some (some c), some t =>
          some { addr := addr, length := 4, instrs := [g1 addr [.assign bc c], slot, tailGraph addr],
                 succs := [(t, some (.scalar bc)), (addr + 8, some (not1 (.scalar bc)))] }
        | _, _ => none

/-- the `BlockTranslationResult` for one instruction word, or for a branch word and its delay-slot word -/
def liftBTR (big : Bool) (ws : List Word) (addr : Nat) : Option BTR :=
  match ws with
  | [w] => (decode w).bind fun i => (liftSingle i addr).orElse fun _ => liftUnalignedSingle big i addr
  | [wb, wd] => (decode wb).bind fun b => (decode wd).bind fun d => liftPair b d addr
  | _ => none

/-- what the driver compares falcon's IL with: `liftBTR` (all proved) plus the unproved swl / swr -/
def liftBTRall (big : Bool) (ws : List Word) (addr : Nat) : Option BTR :=
  (liftBTR big ws addr).orElse fun _ =>
    match ws with
    | [w] => (decode w).bind fun i => liftUnalignedStoreSingle big i addr
    | _ => none

end Falcon.Isa.Mips
