/-
  FalconModel.Isa.X86 — reference interpreter for the x86 / x86-64 instructions falcon lifts, written from the
  Intel SDM (vol. 2) operation sections, independently of how the lifter computes things: carries are the top
  bit of an (n+1)-bit sum, overflow is "the exact signed result does not fit", shift counts are masked the way
  the manual says, flags the manual leaves undefined are reported as undefined.

  x86 is not decoded here.  The interpreter takes the *normalised operand description* the harness derives from
  capstone's detail (harness/src/bin/c01/desc.rs):

      <mnemonic> len=<n> asz=<address bytes> pfx=<-|rep|repne|lock[+…]> <operand>*
      operand := r:<name> | i:<0xvalue as u64>:<bytes> | m:<bytes>:<seg|->:<base|->:<index|->:<scale>:<0xdisp as u64>

  so capstone's decoding is shared with the lifter; for amd64 the specification is validated on every case against
  the host processor executing the raw bytes (the correspondence check of C01).

  State: sixteen 64-bit general registers (32-bit mode uses the low halves of the first eight), CF PF ZF SF OF DF,
  sixteen xmm registers, six segment bases, byte memory.  `Out.trap` = the processor raises an exception
  (#DE, #UD, #GP/#PF on unmapped memory); `Out.unsupported` = outside this specification.
-/
import FalconModel.Lift

namespace Falcon
namespace X86

inductive Mode where
  | x86 | amd64
  deriving DecidableEq, Repr, Inhabited

def Mode.bits : Mode → Nat
  | .x86 => 32
  | .amd64 => 64

/-- a general register operand: hardware number of the full register, width, bit offset (8 for ah ch dh bh) -/
structure GReg where
  idx : Nat
  bits : Nat
  off : Nat := 0
  deriving DecidableEq, Repr, Inhabited

inductive AReg where
  | gpr (r : GReg)
  | ip
  deriving DecidableEq, Repr, Inhabited

inductive Opnd where
  | reg (r : GReg)
  | xmm (i : Nat)
  | imm (v : Nat) (bytes : Nat)
  | mem (bytes : Nat) (seg : Option Nat) (base index : Option AReg) (scale : Nat) (disp : Nat)
  | other (name : String)
  deriving DecidableEq, Repr, Inhabited

structure Ins where
  mode : Mode
  mnem : String
  len : Nat
  asz : Nat
  rep : Bool := false
  repne : Bool := false
  lock : Bool := false
  ops : List Opnd
  addr : Nat
  deriving Repr, Inhabited

structure St where
  gpr : Nat → BitVec 64
  cf : Bool
  pf : Bool
  zf : Bool
  sf : Bool
  of : Bool
  df : Bool
  xmm : Nat → BitVec 128
  /-- bases of cs ds es ss fs gs -/
  seg : Nat → BitVec 64
  mem : ByteMem

instance : Inhabited St := ⟨⟨fun _ => 0, false, false, false, false, false, false, fun _ => 0, fun _ => 0, ByteMem.empty⟩⟩

inductive Out where
  /-- normal completion: new state, next instruction address, names of flags/registers/`mem` left undefined -/
  | ok (σ : St) (next : Nat) (undef : List String)
  | trap
  | unsupported

instance : Inhabited Out := ⟨.unsupported⟩

/-! ### registers -/

/-- the value of a (sub-)register, zero-extended or truncated to `w` bits -/
def getReg (σ : St) (r : GReg) (w : Nat) : BitVec w :=
  (((σ.gpr r.idx) >>> r.off).setWidth r.bits).setWidth w

/-- the full register after writing the low `r.bits` bits of `v` to the (sub-)register `r`:
    a 64-bit write replaces it, a 32-bit write zero-extends, 16- and 8-bit writes leave the other bits -/
def mergeReg (old : BitVec 64) (r : GReg) (v : BitVec 64) : BitVec 64 :=
  if r.bits ≥ 64 then v
  else if r.bits = 32 then (v.setWidth 32).setWidth 64
  else
    let m : BitVec 64 := (BitVec.ofNat 64 (2 ^ r.bits - 1)) <<< r.off
    (old &&& ~~~m) ||| ((v <<< r.off) &&& m)

def setReg (σ : St) (r : GReg) (v : BitVec 64) : St :=
  { σ with gpr := fun i => if i = r.idx then mergeReg (σ.gpr i) r v else σ.gpr i }

def setXmm (σ : St) (k : Nat) (v : BitVec 128) : St :=
  { σ with xmm := fun i => if i = k then v else σ.xmm i }

/-- rax … r15 by width -/
def acc (bits : Nat) : GReg := ⟨0, bits, 0⟩
def rcx (bits : Nat) : GReg := ⟨1, bits, 0⟩
def rdx (bits : Nat) : GReg := ⟨2, bits, 0⟩
def rsp (bits : Nat) : GReg := ⟨4, bits, 0⟩
def rbp (bits : Nat) : GReg := ⟨5, bits, 0⟩
def rsi (bits : Nat) : GReg := ⟨6, bits, 0⟩
def rdi (bits : Nat) : GReg := ⟨7, bits, 0⟩
def ah : GReg := ⟨0, 8, 8⟩

/-! ### memory -/

def readMem (σ : St) (a : Nat) (bytes : Nat) : Option Nat :=
  (σ.mem.readBytes a bytes).map natOfLE

def writeMem (σ : St) (a : Nat) (bytes : Nat) (v : Nat) : Option St :=
  -- a store to unmapped memory faults
  match σ.mem.readBytes a bytes with
  | some _ => some { σ with mem := σ.mem.write a (bytesOfLE v bytes) }
  | none => none

/-- effective address of a memory operand: (base + index*scale + disp) truncated to the address size, plus the
    segment base (fs/gs in 64-bit mode, every segment in 32-bit mode), truncated to the mode's width -/
def effAddr (i : Ins) (σ : St) (seg : Option Nat) (base index : Option AReg) (scale disp : Nat) : Nat :=
  let rv : Option AReg → Nat := fun
    | some (.gpr r) => (getReg σ r 64).toNat
    | some .ip => i.addr + i.len
    | none => 0
  let raw := (rv base + rv index * scale + disp) % 2 ^ (8 * i.asz)
  let sb := match seg with
    | some k => if i.mode = .x86 ∨ k ≥ 4 then (σ.seg k).toNat else 0
    | none => 0
  (raw + sb) % 2 ^ i.mode.bits

/-! ### operands -/

def Opnd.bits : Opnd → Nat
  | .reg r => r.bits
  | .xmm _ => 128
  | .imm _ b => 8 * b
  | .mem b .. => 8 * b
  | .other _ => 0

/-- read an operand as a `w`-bit value (registers and immediates are truncated / zero-extended to `w`) -/
def readOp (i : Ins) (σ : St) (w : Nat) : Opnd → Option (BitVec w)
  | .reg r => some (getReg σ r w)
  | .xmm k => some ((σ.xmm k).setWidth w)
  | .imm v _ => some (BitVec.ofNat w v)
  | .mem _ seg base index scale disp =>
      (readMem σ (effAddr i σ seg base index scale disp) (w / 8)).map (BitVec.ofNat w)
  | .other _ => none

/-- write the low `w` bits of `v` to an operand -/
def writeOp (i : Ins) (σ : St) (w : Nat) (v : BitVec w) : Opnd → Option St
  | .reg r => some (setReg σ r (v.setWidth 64))
  | .xmm k => some (setXmm σ k (v.setWidth 128))
  | .mem _ seg base index scale disp =>
      writeMem σ (effAddr i σ seg base index scale disp) (w / 8) v.toNat
  | _ => none

/-! ### flags -/

def msb {w : Nat} (x : BitVec w) : Bool := x.msb

/-- SF and ZF from a result -/
def setSZ {w : Nat} (σ : St) (r : BitVec w) : St := { σ with sf := msb r, zf := r == 0 }

/-- carry out of `a + b + c`: the top bit of the (w+1)-bit sum of the zero-extended operands -/
def carryAdd {w : Nat} (a b : BitVec w) (c : Bool) : Bool :=
  (a.setWidth (w + 1) + b.setWidth (w + 1) + (BitVec.ofBool c).setWidth (w + 1)).msb

/-- signed overflow of `a + b + c`: the (w+1)-bit sum of the sign-extended operands is not the sign extension
    of its low w bits -/
def overflowAdd {w : Nat} (a b : BitVec w) (c : Bool) : Bool :=
  let s := a.signExtend (w + 1) + b.signExtend (w + 1) + (BitVec.ofBool c).setWidth (w + 1)
  s != (s.setWidth w).signExtend (w + 1)

/-- borrow of `a - b - c` -/
def borrowSub {w : Nat} (a b : BitVec w) (c : Bool) : Bool :=
  (a.setWidth (w + 1) - b.setWidth (w + 1) - (BitVec.ofBool c).setWidth (w + 1)).msb

def overflowSub {w : Nat} (a b : BitVec w) (c : Bool) : Bool :=
  let s := a.signExtend (w + 1) - b.signExtend (w + 1) - (BitVec.ofBool c).setWidth (w + 1)
  s != (s.setWidth w).signExtend (w + 1)

def addWith {w : Nat} (σ : St) (a b : BitVec w) (c : Bool) : BitVec w × St :=
  let r := a + b + (BitVec.ofBool c).setWidth w
  (r, setSZ { σ with cf := carryAdd a b c, of := overflowAdd a b c } r)

def subWith {w : Nat} (σ : St) (a b : BitVec w) (c : Bool) : BitVec w × St :=
  let r := a - b - (BitVec.ofBool c).setWidth w
  (r, setSZ { σ with cf := borrowSub a b c, of := overflowSub a b c } r)

def logic {w : Nat} (σ : St) (r : BitVec w) : St := setSZ { σ with cf := false, of := false } r

/-- the sixteen condition codes (SDM vol. 1 appendix B), by the low nibble of the opcode -/
def cond (σ : St) : Nat → Bool
  | 0 => σ.of | 1 => !σ.of
  | 2 => σ.cf | 3 => !σ.cf
  | 4 => σ.zf | 5 => !σ.zf
  | 6 => σ.cf || σ.zf | 7 => !σ.cf && !σ.zf
  | 8 => σ.sf | 9 => !σ.sf
  | 10 => σ.pf | 11 => !σ.pf
  | 12 => σ.sf != σ.of | 13 => σ.sf == σ.of
  | 14 => σ.zf || (σ.sf != σ.of) | _ => !σ.zf && (σ.sf == σ.of)

def ccNames : List (String × Nat) :=
  [("o", 0), ("no", 1), ("b", 2), ("ae", 3), ("e", 4), ("ne", 5), ("be", 6), ("a", 7), ("s", 8), ("ns", 9),
   ("p", 10), ("np", 11), ("l", 12), ("ge", 13), ("le", 14), ("g", 15)]

/-- the 48 conditional mnemonics, written out (a table of literals, so that it evaluates inside proofs) -/
def ccTable : List (String × (String × Nat)) :=
  [("cmovo", ("cmov", 0)), ("cmovno", ("cmov", 1)), ("cmovb", ("cmov", 2)), ("cmovae", ("cmov", 3)), ("cmove", ("cmov", 4)), ("cmovne", ("cmov", 5)), ("cmovbe", ("cmov", 6)), ("cmova", ("cmov", 7)), ("cmovs", ("cmov", 8)), ("cmovns", ("cmov", 9)), ("cmovp", ("cmov", 10)), ("cmovnp", ("cmov", 11)), ("cmovl", ("cmov", 12)), ("cmovge", ("cmov", 13)), ("cmovle", ("cmov", 14)), ("cmovg", ("cmov", 15))] ++
  [("seto", ("set", 0)), ("setno", ("set", 1)), ("setb", ("set", 2)), ("setae", ("set", 3)), ("sete", ("set", 4)), ("setne", ("set", 5)), ("setbe", ("set", 6)), ("seta", ("set", 7)), ("sets", ("set", 8)), ("setns", ("set", 9)), ("setp", ("set", 10)), ("setnp", ("set", 11)), ("setl", ("set", 12)), ("setge", ("set", 13)), ("setle", ("set", 14)), ("setg", ("set", 15))] ++
  [("jo", ("j", 0)), ("jno", ("j", 1)), ("jb", ("j", 2)), ("jae", ("j", 3)), ("je", ("j", 4)), ("jne", ("j", 5)), ("jbe", ("j", 6)), ("ja", ("j", 7)), ("js", ("j", 8)), ("jns", ("j", 9)), ("jp", ("j", 10)), ("jnp", ("j", 11)), ("jl", ("j", 12)), ("jge", ("j", 13)), ("jle", ("j", 14)), ("jg", ("j", 15))]

/-- `cmovne` ↦ ("cmov", 5) -/
def splitCc (m : String) : Option (String × Nat) := ccTable.lookup m

/-! ### shifts and rotates (SDM: SAL/SAR/SHL/SHR, RCL/RCR/ROL/ROR, SHLD, SHRD) -/

def countMask (w : Nat) : Nat := if w = 64 then 63 else 31

/-- result, CF, OF-if-count-is-one, CF undefined? -/
structure ShiftRes (w : Nat) where
  r : BitVec w
  cf : Bool
  of1 : Bool
  cfUndef : Bool := false

def shlSpec {w : Nat} (a : BitVec w) (c : Nat) : ShiftRes w :=
  let r := a <<< c
  let cf := (a.setWidth (w + 1) <<< c).msb           -- the last bit shifted out of the w-bit operand
  { r := r, cf := cf, of1 := r.msb != cf, cfUndef := c ≥ w + 1 ∨ c = w ∧ w < 32 ∨ c ≥ w }

def shrSpec {w : Nat} (a : BitVec w) (c : Nat) : ShiftRes w :=
  { r := a >>> c, cf := (a >>> (c - 1)).getLsbD 0, of1 := a.msb, cfUndef := c ≥ w }

def sarSpec {w : Nat} (a : BitVec w) (c : Nat) : ShiftRes w :=
  { r := a.sshiftRight c, cf := (a.sshiftRight (c - 1)).getLsbD 0, of1 := false }

def rolSpec {w : Nat} (a : BitVec w) (c : Nat) : ShiftRes w :=
  let r := a.rotateLeft (c % w)
  { r := r, cf := r.getLsbD 0, of1 := r.msb != r.getLsbD 0 }

def rorSpec {w : Nat} (a : BitVec w) (c : Nat) : ShiftRes w :=
  let r := a.rotateRight (c % w)
  { r := r, cf := r.msb, of1 := r.msb != r.getLsbD (w - 2) }

/-- shld: the destination shifted left, filled from the top of `src` -/
def shldSpec {w : Nat} (d s : BitVec w) (c : Nat) : ShiftRes w :=
  let cat := (d ++ s : BitVec (w + w))
  let r := ((cat <<< c) >>> w).setWidth w
  { r := r, cf := d.getLsbD (w - c), of1 := r.msb != d.msb }

def shrdSpec {w : Nat} (d s : BitVec w) (c : Nat) : ShiftRes w :=
  let cat := (s ++ d : BitVec (w + w))
  let r := (cat >>> c).setWidth w
  { r := r, cf := d.getLsbD (c - 1), of1 := r.msb != d.msb }

/-! ### helpers for the step function -/

def sext {w : Nat} (x : BitVec w) (n : Nat) : BitVec n := x.signExtend n

def opsz (i : Ins) : Nat := (i.ops.headD (.other "")).bits

/-- push `bytes` bytes (the stack pointer has the mode's width) -/
def push (i : Ins) (σ : St) (bytes : Nat) (v : Nat) : Option St :=
  let mb := i.mode.bits
  let sp := ((getReg σ (rsp mb) 64).toNat + 2 ^ mb - bytes) % 2 ^ mb
  (writeMem σ sp bytes (v % 2 ^ (8 * bytes))).map fun σ' => setReg σ' (rsp mb) (BitVec.ofNat 64 sp)

def pop (i : Ins) (σ : St) (bytes : Nat) : Option (Nat × St) :=
  let mb := i.mode.bits
  let sp := (getReg σ (rsp mb) 64).toNat
  (readMem σ sp bytes).map fun v => (v, setReg σ (rsp mb) (BitVec.ofNat 64 ((sp + bytes) % 2 ^ mb)))

def nextIp (i : Ins) : Nat := (i.addr + i.len) % 2 ^ i.mode.bits

def done (i : Ins) (σ : St) (undef : List String := []) : Out := .ok σ (nextIp i) undef

def orTrap (x : Option Out) : Out := x.getD .trap

/-- name (64-bit mode) of the full register a destination operand lives in — for `undefined` reports -/
def gprNames : List String :=
  ["rax", "rcx", "rdx", "rbx", "rsp", "rbp", "rsi", "rdi", "r8", "r9", "r10", "r11", "r12", "r13", "r14", "r15"]

def dstName : Opnd → List String
  | .reg r => [gprNames.getD r.idx "?"]
  | .xmm k => ["xmm" ++ toString k]
  | .mem .. => ["mem"]
  | _ => []

/-! ### one two-operand ALU instruction -/

/-- the second operand of a two-operand instruction: an immediate shorter than the destination is sign-extended
    (capstone already reports it so) -/
def srcVal (i : Ins) (σ : St) (w : Nat) : Opnd → Option (BitVec w)
  | .imm v bytes => some (sext (BitVec.ofNat (8 * bytes) v) w)
  | o => readOp i σ w o

def alu2 (i : Ins) (σ : St) (f : (w : Nat) → St → BitVec w → BitVec w → BitVec w × St) (store : Bool) : Out :=
  match i.ops with
  | [d, s] =>
    let w := d.bits
    orTrap do
      let a ← readOp i σ w d
      let b ← srcVal i σ w s
      let (r, σ') := f w σ a b
      let σ'' ← if store then writeOp i σ' w r d else some σ'
      pure (done i σ'')
  | _ => .unsupported

def unary (i : Ins) (σ : St) (f : (w : Nat) → St → BitVec w → BitVec w × St) : Out :=
  match i.ops with
  | [d] =>
    let w := d.bits
    orTrap do
      let a ← readOp i σ w d
      let (r, σ') := f w σ a
      let σ'' ← writeOp i σ' w r d
      pure (done i σ'')
  | _ => .unsupported

/-- shl/shr/sar/rol/ror with an immediate, cl or implicit-1 count -/
def shiftIns (i : Ins) (σ : St) (spec : (w : Nat) → BitVec w → Nat → ShiftRes w) (isRot : Bool) : Out :=
  match i.ops with
  | d :: rest =>
    let w := d.bits
    orTrap do
      let a ← readOp i σ w d
      let cnt ← match rest with
        | [] => some 1
        | [c] => (readOp i σ 8 c).map (·.toNat)
        | _ => none
      let c := cnt % (countMask w + 1)
      if c = 0 then
        -- no flag changes; the destination is still written (a 32-bit register is zero-extended in 64-bit mode)
        (writeOp i σ w a d).map (done i ·)
      else
        let res := spec w a c
        let σ1 := { σ with cf := res.cf, of := res.of1 }
        let σ2 := if isRot then σ1 else setSZ σ1 res.r
        let σ3 ← writeOp i σ2 w res.r d
        let undef := (if c ≠ 1 then ["OF"] else []) ++ (if res.cfUndef ∧ !isRot then ["CF"] else [])
        pure (done i σ3 undef)
  | _ => .unsupported

def dshiftIns (i : Ins) (σ : St) (spec : (w : Nat) → BitVec w → BitVec w → Nat → ShiftRes w) : Out :=
  match i.ops with
  | [d, s, c] =>
    let w := d.bits
    orTrap do
      let a ← readOp i σ w d
      let b ← readOp i σ w s
      let cnt ← (readOp i σ 8 c).map (·.toNat)
      let c := cnt % (countMask w + 1)
      if c = 0 then (writeOp i σ w a d).map (done i ·)
      else if c > w then
        -- SDM: count greater than the operand size: destination and flags undefined
        pure (done i σ (["CF", "OF", "SF", "ZF"] ++ dstName d))
      else
        let res := spec w a b c
        let σ1 := setSZ { σ with cf := res.cf, of := res.of1 } res.r
        let σ2 ← writeOp i σ1 w res.r d
        pure (done i σ2 (if c ≠ 1 then ["OF"] else []))
  | _ => .unsupported

/-! ### bit test -/

def bitIns (i : Ins) (σ : St) (f : Bool → Option Bool) : Out :=
  match i.ops with
  | [d, s] =>
    let w := d.bits
    match d, s with
    | .mem bytes seg base index scale disp, .reg r =>
      -- bit string: the offset is a signed bit index relative to the operand's address
      let off := (getReg σ r w).toInt
      let a := effAddr i σ seg base index scale disp
      let byteOff : Int := (off / w) * (w / 8)         -- floor division
      let bit := (off % w).toNat
      let addr := ((a : Int) + byteOff) % (2 ^ i.mode.bits : Nat)
      orTrap do
        let v ← readMem σ addr.toNat bytes
        let b := v.testBit bit
        let σ1 := { σ with cf := b }
        let σ2 ← match f b with
          | none => some σ1
          | some nb =>
            let v' := if nb then v ||| (1 <<< bit) else v &&& ((2 ^ w - 1) ^^^ (1 <<< bit))
            writeMem σ1 addr.toNat bytes v'
        pure (done i σ2 ["OF", "SF"])
    | _, _ =>
      orTrap do
        let a ← readOp i σ w d
        let o ← readOp i σ w s
        let bit := o.toNat % w
        let b := a.getLsbD bit
        let σ1 := { σ with cf := b }
        let σ2 ← match f b with
          | none => some σ1
          | some nb =>
            let m : BitVec w := 1#w <<< bit
            writeOp i σ1 w (if nb then a ||| m else a &&& ~~~m) d
        pure (done i σ2 ["OF", "SF"])
  | _ => .unsupported

/-! ### multiply / divide -/

def mulIns (i : Ins) (σ : St) (signed : Bool) : Out :=
  match i.ops with
  | [s] =>
    let w := s.bits
    orTrap do
      let b ← readOp i σ w s
      let a : BitVec w := getReg σ (acc w) w
      let full : BitVec (w + w) := if signed then a.signExtend (w + w) * b.signExtend (w + w)
                                   else a.setWidth (w + w) * b.setWidth (w + w)
      let lo : BitVec w := full.setWidth w
      let hi : BitVec w := (full >>> w).setWidth w
      let ov := if signed then full != lo.signExtend (w + w) else hi != 0
      let σ1 := if w = 8 then setReg σ (acc 16) (full.setWidth 64)
                else setReg (setReg σ (acc w) (lo.setWidth 64)) (rdx w) (hi.setWidth 64)
      pure (done i { σ1 with cf := ov, of := ov } ["SF", "ZF"])
  | _ => .unsupported

/-- imul r, r/m [, imm] -/
def imulIns (i : Ins) (σ : St) : Out :=
  let go (d a b : Opnd) : Out :=
    let w := d.bits
    orTrap do
      let x ← readOp i σ w a
      let y ← match b with
        | .imm v bytes => some (sext (BitVec.ofNat (8 * bytes) v) w)
        | _ => readOp i σ w b
      let full : BitVec (w + w) := x.signExtend (w + w) * y.signExtend (w + w)
      let lo : BitVec w := full.setWidth w
      let ov := full != lo.signExtend (w + w)
      let σ1 ← writeOp i σ w lo d
      pure (done i { σ1 with cf := ov, of := ov } ["SF", "ZF"])
  match i.ops with
  | [_] => mulIns i σ true
  | [d, s] => go d d s
  | [d, s, c] => go d s c
  | _ => .unsupported

def divIns (i : Ins) (σ : St) (signed : Bool) : Out :=
  match i.ops with
  | [s] =>
    let w := s.bits
    orTrap do
      let dv ← readOp i σ w s
      let lo : BitVec w := getReg σ (acc w) w
      let hi : BitVec w := if w = 8 then getReg σ ah w else getReg σ (rdx w) w
      let dividend : BitVec (w + w) := hi ++ lo
      if dv = 0 then pure Out.trap
      else
        let qr : Option (Nat × Nat) :=
          if signed then
            let q := Int.tdiv dividend.toInt dv.toInt
            let r := Int.tmod dividend.toInt dv.toInt
            if q < -(2 ^ (w - 1) : Int) ∨ q ≥ (2 ^ (w - 1) : Int) then none
            else some ((q % (2 ^ w : Nat)).toNat, (r % (2 ^ w : Nat)).toNat)
          else
            let q := dividend.toNat / dv.toNat
            if q ≥ 2 ^ w then none else some (q, dividend.toNat % dv.toNat)
        match qr with
        | none => pure Out.trap
        | some (q, r) =>
          let σ1 := setReg σ (acc w) (BitVec.ofNat 64 q)
          let σ2 := if w = 8 then setReg σ1 ah (BitVec.ofNat 64 r) else setReg σ1 (rdx w) (BitVec.ofNat 64 r)
          pure (done i σ2 ["CF", "OF", "SF", "ZF"])
  | _ => .unsupported

/-! ### string instructions -/

/-- one iteration of movs/cmps/stos/lods/scas with element size `n` bytes; address registers have the address size -/
def stringIter (i : Ins) (σ : St) (kind : String) (n : Nat) : Option St :=
  let ab := 8 * i.asz
  let w := 8 * n
  let si := (getReg σ (rsi ab) 64).toNat
  let di := (getReg σ (rdi ab) 64).toNat
  -- the source segment can be overridden, the destination is always es; flat model: every base is zero unless given
  let srcSeg : Nat := match i.ops.findSome? (fun | .mem _ (some k) (some (.gpr r)) _ _ _ => if r.idx = 6 then some k else none | _ => none) with
    | some k => if i.mode = .x86 ∨ k ≥ 4 then (σ.seg k).toNat else 0
    | none => 0
  let dstSeg : Nat := if i.mode = .x86 then (σ.seg 2).toNat else 0
  let srcA := (si + srcSeg) % 2 ^ i.mode.bits
  let dstA := (di + dstSeg) % 2 ^ i.mode.bits
  let step : Nat → Nat := fun p => if σ.df then (p + 2 ^ ab - n) % 2 ^ ab else (p + n) % 2 ^ ab
  let advS (σ : St) : St := setReg σ (rsi ab) (BitVec.ofNat 64 (step si))
  let advD (σ : St) : St := setReg σ (rdi ab) (BitVec.ofNat 64 (step di))
  match kind with
  | "movs" => do
      let v ← readMem σ srcA n
      let σ1 ← writeMem σ dstA n v
      pure (advD (advS σ1))
  | "stos" => do
      let σ1 ← writeMem σ dstA n ((getReg σ (acc w) w).toNat)
      pure (advD σ1)
  | "lods" => do
      let v ← readMem σ srcA n
      pure (advS (setReg σ (acc w) (BitVec.ofNat 64 v)))
  | "cmps" => do
      let a ← readMem σ srcA n
      let b ← readMem σ dstA n
      let (_, σ1) := subWith σ (BitVec.ofNat w a) (BitVec.ofNat w b) false
      pure (advD (advS σ1))
  | "scas" => do
      let b ← readMem σ dstA n
      let (_, σ1) := subWith σ (getReg σ (acc w) w) (BitVec.ofNat w b) false
      pure (advD σ1)
  | _ => none

def stringIns (i : Ins) (σ : St) (kind : String) (n : Nat) : Out :=
  let ab := 8 * i.asz
  if i.rep ∨ i.repne then
    let compares := kind = "cmps" ∨ kind = "scas"
    let rec loop : Nat → St → Option St
      | 0, _ => none
      | fuel + 1, σ =>
        let c := (getReg σ (rcx ab) 64).toNat
        if c = 0 then some σ
        else do
          let σ1 ← stringIter i σ kind n
          let σ2 := setReg σ1 (rcx ab) (BitVec.ofNat 64 (c - 1))
          if compares ∧ ((i.rep ∧ !σ2.zf) ∨ (i.repne ∧ σ2.zf)) then some σ2
          else loop fuel σ2
    orTrap ((loop 4096 σ).map (done i ·))
  else orTrap ((stringIter i σ kind n).map (done i ·))

/-! ### SSE helpers: lane-wise functions on 128-bit vectors -/

def lane (lw : Nat) (v : BitVec 128) (k : Nat) : BitVec lw := (v >>> (k * lw)).setWidth lw

def fromLanes (lw : Nat) (f : Nat → BitVec lw) : BitVec 128 :=
  (List.range (128 / lw)).foldl (fun acc k => acc ||| ((f k).setWidth 128 <<< (k * lw))) 0

def map2 (lw : Nat) (f : BitVec lw → BitVec lw → BitVec lw) (a b : BitVec 128) : BitVec 128 :=
  fromLanes lw fun k => f (lane lw a k) (lane lw b k)

def sse2 (i : Ins) (σ : St) (f : BitVec 128 → BitVec 128 → BitVec 128) : Out :=
  match i.ops with
  | [.xmm d, s] =>
    orTrap do
      let b ← readOp i σ 128 s
      pure (done i (setXmm σ d (f (σ.xmm d) b)))
  | _ => .unsupported

/-! ### the step function -/

def step (i : Ins) (σ : St) : Out :=
  let mb := i.mode.bits
  let m := i.mnem
  -- a lock prefix is only legal on a memory destination of a read-modify-write instruction
  if i.lock ∧ !(match i.ops.head? with | some (.mem ..) => true | _ => false) then .trap
  else
  match splitCc m with
  | some ("cmov", c) =>
    (match i.ops with
     | [d, s] =>
       let w := d.bits
       orTrap do
         let v ← readOp i σ w s
         let old ← readOp i σ w d
         -- the destination is written either way (a 32-bit destination is zero-extended in 64-bit mode)
         let σ1 ← writeOp i σ w (if cond σ c then v else old) d
         pure (done i σ1)
     | _ => .unsupported)
  | some ("set", c) =>
    (match i.ops with
     | [d] => orTrap ((writeOp i σ 8 (if cond σ c then 1#8 else 0#8) d).map (done i ·))
     | _ => .unsupported)
  | some ("j", c) =>
    (match i.ops with
     | [.imm t _] => .ok σ (if cond σ c then t % 2 ^ mb else nextIp i) []
     | _ => .unsupported)
  | _ =>
  match m with
  | "add" => alu2 i σ (fun _ σ a b => addWith σ a b false) true
  | "adc" => alu2 i σ (fun _ σ a b => addWith σ a b σ.cf) true
  | "sub" => alu2 i σ (fun _ σ a b => subWith σ a b false) true
  | "sbb" => alu2 i σ (fun _ σ a b => subWith σ a b σ.cf) true
  | "cmp" => alu2 i σ (fun _ σ a b => subWith σ a b false) false
  | "and" => alu2 i σ (fun _ σ a b => (a &&& b, logic σ (a &&& b))) true
  | "or" => alu2 i σ (fun _ σ a b => (a ||| b, logic σ (a ||| b))) true
  | "xor" => alu2 i σ (fun _ σ a b => (a ^^^ b, logic σ (a ^^^ b))) true
  | "test" => alu2 i σ (fun _ σ a b => (a &&& b, logic σ (a &&& b))) false
  | "inc" => unary i σ fun _ σ a =>
      let (r, σ') := addWith σ a 1 false
      (r, { σ' with cf := σ.cf })
  | "dec" => unary i σ fun _ σ a =>
      let (r, σ') := subWith σ a 1 false
      (r, { σ' with cf := σ.cf })
  | "neg" => unary i σ fun _ σ a =>
      let (r, σ') := subWith σ 0 a false
      (r, { σ' with cf := a != 0 })
  | "not" => unary i σ fun _ σ a => (~~~a, σ)
  | "mov" | "movabs" | "movnti" =>
    (match i.ops with
     | [d, s] => orTrap do
         let w := d.bits
         let v ← readOp i σ w s
         let σ1 ← writeOp i σ w v d
         pure (done i σ1)
     | _ => .unsupported)
  | "movzx" =>
    (match i.ops with
     | [d, s] => orTrap do
         let v ← readOp i σ s.bits s
         let σ1 ← writeOp i σ d.bits (v.setWidth d.bits) d
         pure (done i σ1)
     | _ => .unsupported)
  | "movsx" | "movsxd" =>
    (match i.ops with
     | [d, s] => orTrap do
         let v ← readOp i σ s.bits s
         let σ1 ← writeOp i σ d.bits (v.signExtend d.bits) d
         pure (done i σ1)
     | _ => .unsupported)
  | "lea" =>
    (match i.ops with
     | [d, .mem _ _ base index scale disp] =>
       -- no segment base, no memory access
       let a := effAddr i σ none base index scale disp
       orTrap ((writeOp i σ d.bits (BitVec.ofNat d.bits a) d).map (done i ·))
     | _ => .unsupported)
  | "xchg" =>
    (match i.ops with
     | [a, b] => orTrap do
         let w := a.bits
         let x ← readOp i σ w a
         let y ← readOp i σ w b
         let σ1 ← writeOp i σ w y a
         let σ2 ← writeOp i σ1 w x b
         pure (done i σ2)
     | _ => .unsupported)
  | "xadd" =>
    (match i.ops with
     | [d, s] => orTrap do
         let w := d.bits
         let x ← readOp i σ w d
         let y ← readOp i σ w s
         let (r, σ1) := addWith σ x y false
         -- SRC := DEST; DEST := TEMP.  The address of a memory destination is computed before any register changes.
         match d with
         | .mem .. => do
             let σ2 ← writeOp i σ1 w r d
             let σ3 ← writeOp i σ2 w x s
             pure (done i σ3)
         | _ => do
             let σ2 ← writeOp i σ1 w x s
             let σ3 ← writeOp i σ2 w r d
             pure (done i σ3)
     | _ => .unsupported)
  | "cmpxchg" =>
    (match i.ops with
     | [d, s] => orTrap do
         let w := d.bits
         let x ← readOp i σ w d
         let y ← readOp i σ w s
         let a : BitVec w := getReg σ (acc w) w
         let (_, σ1) := subWith σ a x false
         if a = x then do
           let σ2 ← writeOp i σ1 w y d
           pure (done i σ2)
         else
           -- the accumulator receives the destination (which keeps its value: a register destination is not rewritten)
           pure (done i (setReg σ1 (acc w) (x.setWidth 64)))
     | _ => .unsupported)
  | "bswap" =>
    (match i.ops with
     | [.reg r] =>
       let v := getReg σ r 64
       if r.bits = 32 ∨ r.bits = 64 then
         let n := r.bits / 8
         let bytes := (List.range n).map fun k => (v >>> (8 * k)).setWidth 8
         let sw : BitVec 64 := bytes.foldl (fun acc (b : BitVec 8) => (acc <<< 8) ||| b.setWidth 64) 0
         done i (setReg σ r sw)
       else done i σ [gprNames.getD r.idx "?"]
     | _ => .unsupported)
  | "cbw" => done i (setReg σ (acc 16) ((getReg σ (acc 8) 8).signExtend 64))
  | "cwde" => done i (setReg σ (acc 32) ((getReg σ (acc 16) 16).signExtend 64))
  | "cdqe" => done i (setReg σ (acc 64) ((getReg σ (acc 32) 32).signExtend 64))
  | "cwd" => done i (setReg σ (rdx 16) (if (getReg σ (acc 16) 16).msb then BitVec.allOnes 64 else 0))
  | "cdq" => done i (setReg σ (rdx 32) (if (getReg σ (acc 32) 32).msb then BitVec.allOnes 64 else 0))
  | "cqo" => done i (setReg σ (rdx 64) (if (getReg σ (acc 64) 64).msb then BitVec.allOnes 64 else 0))
  | "shl" | "sal" => shiftIns i σ (fun _ => shlSpec) false
  | "shr" => shiftIns i σ (fun _ => shrSpec) false
  | "sar" => shiftIns i σ (fun _ => sarSpec) false
  | "rol" => shiftIns i σ (fun _ => rolSpec) true
  | "ror" => shiftIns i σ (fun _ => rorSpec) true
  | "shld" => dshiftIns i σ (fun _ => shldSpec)
  | "shrd" => dshiftIns i σ (fun _ => shrdSpec)
  | "mul" => mulIns i σ false
  | "imul" => imulIns i σ
  | "div" => divIns i σ false
  | "idiv" => divIns i σ true
  | "bt" => bitIns i σ (fun _ => none)
  | "bts" => bitIns i σ (fun _ => some true)
  | "btr" => bitIns i σ (fun _ => some false)
  | "btc" => bitIns i σ (fun b => some (!b))
  | "bsf" | "bsr" =>
    (match i.ops with
     | [d, s] => orTrap do
         let w := d.bits
         let v ← readOp i σ w s
         if v = 0 then pure (done i { σ with zf := true } (["CF", "OF", "SF"] ++ dstName d))
         else
           let idx := if m = "bsf" then ((List.range w).find? (fun k => v.getLsbD k)).getD 0
                      else ((List.range w).reverse.find? (fun k => v.getLsbD k)).getD 0
           let σ1 ← writeOp i { σ with zf := false } w (BitVec.ofNat w idx) d
           pure (done i σ1 ["CF", "OF", "SF"])
     | _ => .unsupported)
  | "clc" => done i { σ with cf := false }
  | "stc" => done i { σ with cf := true }
  | "cmc" => done i { σ with cf := !σ.cf }
  | "cld" => done i { σ with df := false }
  | "std" => done i { σ with df := true }
  | "sahf" =>
    let a := getReg σ ah 8
    done i { σ with cf := a.getLsbD 0, pf := a.getLsbD 2, zf := a.getLsbD 6, sf := a.getLsbD 7 }
  | "nop" | "pause" | "wait" | "prefetcht0" | "prefetcht1" | "prefetcht2" | "prefetchnta" => done i σ
  | "push" =>
    (match i.ops with
     | [s] =>
       let bytes := match s with
         | .imm _ b => if b = 2 then 2 else mb / 8
         | o => o.bits / 8
       orTrap do
         let v ← match s with
           | .imm v b => some ((sext (BitVec.ofNat (8 * b) v) 64).toNat)
           | o => (readOp i σ (8 * bytes) o).map (·.toNat)
         let σ1 ← push i σ bytes v
         pure (done i σ1)
     | _ => .unsupported)
  | "pop" =>
    (match i.ops with
     | [d] =>
       let bytes := d.bits / 8
       orTrap do
         let (v, σ1) ← pop i σ bytes
         -- the destination address of a memory operand is computed after rsp was incremented
         let σ2 ← writeOp i σ1 (8 * bytes) (BitVec.ofNat (8 * bytes) v) d
         pure (done i σ2)
     | _ => .unsupported)
  | "leave" =>
    let σ1 := setReg σ (rsp mb) (getReg σ (rbp mb) 64)
    orTrap do
      let (v, σ2) ← pop i σ1 (mb / 8)
      pure (done i (setReg σ2 (rbp mb) (BitVec.ofNat 64 v)))
  | "call" =>
    (match i.ops with
     | [t] => orTrap do
         let target ← match t with
           | .imm v _ => some (v % 2 ^ mb)
           | o => (readOp i σ mb o).map (·.toNat)
         let σ1 ← push i σ (mb / 8) (nextIp i)
         pure (Out.ok σ1 target [])
     | _ => .unsupported)
  | "jmp" =>
    (match i.ops with
     | [t] => orTrap do
         let target ← match t with
           | .imm v _ => some (v % 2 ^ mb)
           | o => (readOp i σ mb o).map (·.toNat)
         pure (Out.ok σ target [])
     | _ => .unsupported)
  | "ret" =>
    orTrap do
      let (t, σ1) ← pop i σ (mb / 8)
      let extra := match i.ops with
        | [.imm v _] => v % 2 ^ 16
        | _ => 0
      let sp := ((getReg σ1 (rsp mb) 64).toNat + extra) % 2 ^ mb
      pure (Out.ok (setReg σ1 (rsp mb) (BitVec.ofNat 64 sp)) t [])
  | "loop" | "loope" | "loopne" | "jcxz" | "jecxz" | "jrcxz" =>
    (match i.ops with
     | [.imm t _] =>
       let ab := 8 * i.asz
       if m = "jcxz" ∨ m = "jecxz" ∨ m = "jrcxz" then
         .ok σ (if (getReg σ (rcx ab) 64) = 0 then t % 2 ^ mb else nextIp i) []
       else
         let c := (getReg σ (rcx ab) 64) - 1
         let σ1 := setReg σ (rcx ab) c
         let c' := getReg σ1 (rcx ab) 64
         let take := c' != 0 && (if m = "loope" then σ.zf else if m = "loopne" then !σ.zf else true)
         .ok σ1 (if take then t % 2 ^ mb else nextIp i) []
     | _ => .unsupported)
  | "movsb" | "movsw" | "movsq" | "cmpsb" | "cmpsw" | "cmpsq" | "stosb" | "stosw" | "stosd" | "stosq"
  | "lodsb" | "lodsw" | "lodsd" | "lodsq" | "scasb" | "scasw" | "scasd" | "scasq" | "cmpsd" =>
    let n := match (m.toList.getLast?).getD 'b' with | 'b' => 1 | 'w' => 2 | 'd' => 4 | _ => 8
    stringIns i σ ((m.take 4).toString) n
  | "movsd" =>
    if i.ops.any (fun | .xmm _ => true | _ => false) then .unsupported else stringIns i σ "movs" 4
  -- SSE subset
  | "movaps" | "movapd" | "movups" | "movdqa" | "movdqu" =>
    (match i.ops with
     | [d, s] => orTrap do
         let aligned := m = "movaps" ∨ m = "movapd" ∨ m = "movdqa"
         let misaligned : Opnd → Bool := fun
           | .mem _ seg base index scale disp => aligned ∧ effAddr i σ seg base index scale disp % 16 ≠ 0
           | _ => false
         if misaligned d ∨ misaligned s then pure Out.trap
         else
           let v ← readOp i σ 128 s
           let σ1 ← writeOp i σ 128 v d
           pure (done i σ1)
     | _ => .unsupported)
  | "movq" | "movd" =>
    (match i.ops with
     | [d, s] => orTrap do
         let w := if m = "movq" then 64 else (match d, s with | .xmm _, o => o.bits | o, _ => o.bits)
         let v ← readOp i σ w s
         let σ1 ← match d with
           | .xmm _ => writeOp i σ 128 (v.setWidth 128) d      -- upper bits zeroed
           | _ => writeOp i σ w v d
         pure (done i σ1)
     | _ => .unsupported)
  | "movlpd" | "movhpd" =>
    (match i.ops with
     | [.xmm d, s] => orTrap do
         let v ← readOp i σ 64 s
         let old := σ.xmm d
         let new : BitVec 128 := if m = "movlpd" then (old &&& (BitVec.allOnes 128 <<< 64)) ||| v.setWidth 128
                                 else (old &&& (BitVec.allOnes 128 >>> 64)) ||| (v.setWidth 128 <<< 64)
         pure (done i (setXmm σ d new))
     | [d, .xmm s] => orTrap do
         let v : BitVec 64 := if m = "movlpd" then (σ.xmm s).setWidth 64 else ((σ.xmm s) >>> 64).setWidth 64
         let σ1 ← writeOp i σ 64 v d
         pure (done i σ1)
     | _ => .unsupported)
  | "pxor" => sse2 i σ (· ^^^ ·)
  | "por" => sse2 i σ (· ||| ·)
  | "paddq" => sse2 i σ (map2 64 (· + ·))
  | "psubq" => sse2 i σ (map2 64 (· - ·))
  | "psubb" => sse2 i σ (map2 8 (· - ·))
  | "pcmpeqb" => sse2 i σ (map2 8 fun a b => if a = b then BitVec.allOnes 8 else 0)
  | "pcmpeqd" => sse2 i σ (map2 32 fun a b => if a = b then BitVec.allOnes 32 else 0)
  | "pminub" => sse2 i σ (map2 8 fun a b => if a.ult b then a else b)
  | "punpcklbw" => sse2 i σ fun a b => fromLanes 8 fun k => if k % 2 = 0 then lane 8 a (k / 2) else lane 8 b (k / 2)
  | "punpcklwd" => sse2 i σ fun a b => fromLanes 16 fun k => if k % 2 = 0 then lane 16 a (k / 2) else lane 16 b (k / 2)
  | "pmovmskb" =>
    (match i.ops with
     | [d, .xmm s] =>
       let v := σ.xmm s
       let mask : Nat := (List.range 16).foldl (fun acc k => if (lane 8 v k).msb then acc ||| (1 <<< k) else acc) 0
       orTrap ((writeOp i σ d.bits (BitVec.ofNat d.bits mask) d).map (done i ·))
     | _ => .unsupported)
  | "pshufd" =>
    (match i.ops with
     | [.xmm d, s, .imm sel _] => orTrap do
         let v ← readOp i σ 128 s
         pure (done i (setXmm σ d (fromLanes 32 fun k => lane 32 v ((sel >>> (2 * k)) % 4))))
     | _ => .unsupported)
  | "pslldq" | "psrldq" =>
    (match i.ops with
     | [.xmm d, .imm n _] =>
       let n := (n % 256)
       let n := if n > 15 then 16 else n
       let v := σ.xmm d
       done i (setXmm σ d (if m = "pslldq" then v <<< (8 * n) else v >>> (8 * n)))
     | _ => .unsupported)
  | _ => .unsupported

/-! ### text: operand description, state, result line -/

def gregNames64 : List (String × GReg) :=
  let r64 := gprNames
  let r32 := ["eax", "ecx", "edx", "ebx", "esp", "ebp", "esi", "edi", "r8d", "r9d", "r10d", "r11d", "r12d", "r13d", "r14d", "r15d"]
  let r16 := ["ax", "cx", "dx", "bx", "sp", "bp", "si", "di", "r8w", "r9w", "r10w", "r11w", "r12w", "r13w", "r14w", "r15w"]
  let r8 := ["al", "cl", "dl", "bl", "spl", "bpl", "sil", "dil", "r8b", "r9b", "r10b", "r11b", "r12b", "r13b", "r14b", "r15b"]
  let mk : List String → Nat → List (String × GReg) := fun ns bits => ns.zipIdx.map fun (n, k) => (n, { idx := k, bits := bits })
  mk r64 64 ++ mk r32 32 ++ mk r16 16 ++ mk r8 8 ++
    [("ah", ⟨0, 8, 8⟩), ("ch", ⟨1, 8, 8⟩), ("dh", ⟨2, 8, 8⟩), ("bh", ⟨3, 8, 8⟩)]

def segNames : List (String × Nat) := [("cs", 0), ("ds", 1), ("es", 2), ("ss", 3), ("fs", 4), ("gs", 5)]

def parseReg (n : String) : Opnd :=
  match gregNames64.lookup n with
  | some r => .reg r
  | none =>
    if n.startsWith "xmm" then
      match (n.drop 3).toString.toNat? with
      | some k => .xmm k
      | none => .other n
    else .other n

def parseAReg (n : String) : Option (Option AReg) :=
  if n = "-" then some none
  else if n = "rip" ∨ n = "eip" then some (some .ip)
  else (gregNames64.lookup n).map (fun r => some (.gpr r))

def parseOpnd (t : String) : Option Opnd :=
  match t.splitOn ":" with
  | ["r", n] => some (parseReg n)
  | ["i", v, b] => do pure (.imm (← Sx.parseNat v) (← b.toNat?))
  | ["m", b, seg, base, index, scale, disp] => do
      let seg ← if seg = "-" then some none else (segNames.lookup seg).map some
      let scale := (scale.toNat?).getD 1
      pure (.mem (← b.toNat?) seg (← parseAReg base) (← parseAReg index) scale (← Sx.parseNat disp))
  | _ => none

def parseIns (mode : Mode) (addr : Nat) (desc : String) : Option Ins :=
  match desc.splitOn " " with
  | m :: len :: asz :: pfx :: ops => do
      let num := fun (s : String) (p : String) => if s.startsWith p then (s.drop p.length).toString.toNat? else none
      let pf := ((pfx.drop 4).toString).splitOn "+"
      pure { mode := mode, mnem := m, len := (← num len "len="), asz := (← num asz "asz="),
             rep := pf.contains "rep", repne := pf.contains "repne", lock := pf.contains "lock",
             ops := (← ops.mapM parseOpnd), addr := addr }
  | _ => none

def regNames32 : List String := ["eax", "ecx", "edx", "ebx", "esp", "ebp", "esi", "edi"]

/-- the machine state of the line protocol as a specification state -/
def ofMach (mode : Mode) (ms : MachState) : St :=
  let look := fun (n : String) => ((ms.regs.lookup n).map (·.val)).getD 0
  let flag := fun (n : String) => look n == 1
  let names := if mode = .amd64 then gprNames else regNames32
  { gpr := fun k => BitVec.ofNat 64 (match names[k]? with | some n => look n | none => 0)
    cf := flag "CF", pf := flag "PF", zf := flag "ZF", sf := flag "SF", of := flag "OF", df := flag "DF"
    xmm := fun k => BitVec.ofNat 128 (look ("xmm" ++ toString k))
    seg := fun k => BitVec.ofNat 64 (match segNames.find? (·.2 == k) with | some (n, _) => look (n ++ "_base") | none => 0)
    mem := ms.toState.mem }

def hexC (v bits : Nat) : String := "0x" ++ Const.hexDigits v ++ ":" ++ toString bits

/-- the value of a watched name in a specification state -/
def showName (mode : Mode) (σ : St) (n : String) : String :=
  let flag := fun (b : Bool) => hexC (if b then 1 else 0) 1
  match n with
  | "CF" => flag σ.cf | "PF" => flag σ.pf | "ZF" => flag σ.zf | "SF" => flag σ.sf | "OF" => flag σ.of | "DF" => flag σ.df
  | _ =>
    match (if mode = .amd64 then gprNames else regNames32).idxOf? n with
    | some k => if mode = .amd64 then hexC (σ.gpr k).toNat 64 else hexC ((σ.gpr k).toNat % 2 ^ 32) 32
    | none =>
      if n.startsWith "xmm" then hexC (σ.xmm ((n.drop 3).toString.toNat?.getD 0)).toNat 128
      else "-"

/-- names by which `undef` entries (given with 64-bit register names) match watched names -/
def undefMatches (mode : Mode) (undef : List String) (n : String) : Bool :=
  undef.contains n ||
    (mode = .x86 && (match regNames32.idxOf? n with | some k => undef.contains (gprNames.getD k "") | none => false))

def postLine (mode : Mode) (out : Out) (watch : List String) (windows : List (Nat × Nat)) : String :=
  match out with
  | .trap => "next=trap"
  | .unsupported => "-"
  | .ok σ next undef =>
    let regs := watch.map fun n => n ++ "=" ++ (if undefMatches mode undef n then "?" else showName mode σ n)
    let mem := windows.map fun (a, len) =>
      Fil.hex a ++ ":" ++ (if undef.contains "mem" then "?" else
        MachState.bytesHex ((List.range len).map fun k => (σ.mem (a + k)).getD 0))
    "next=" ++ Fil.hex next ++ " ; " ++ ",".intercalate regs ++ " ; " ++ ",".intercalate mem

end X86
end Falcon
