/-
  FalconModel.Isa.A64 — the SPECIFICATION side of property C03: an interpreter for the A64 instruction
  classes falcon's AArch64 lifter accepts, written from the Arm Architecture Reference Manual's
  pseudocode (decode + operation of each class, `AddWithCarry`, `ShiftReg`, `ExtendReg`,
  `DecodeBitMasks`, `ConditionHolds`, `Mem[]` with `BigEndian()`), decoding the RAW 32-bit word by bit
  fields.  Nothing here looks at bad64, at falcon's IL or at how the lifter computes anything.

  The Arm ARM is not available in the sandbox: the text below is written from knowledge of it
  (DDI 0487, sections C4 "A64 instruction set encoding", C6 "A64 base instructions", C7 SIMD&FP
  load/store, J1 shared pseudocode).  Deviations of this file from the manual are defects of the
  specification, not of falcon; the three-way differential is what exposes either.

  Configuration modelled: EL0-style execution with alignment checking off (SCTLR_ELx.A = 0, SA = 0), so
  ordinary accesses may be unaligned and SP needs no alignment; load-acquire/store-release accesses must
  be naturally aligned (Alignment fault otherwise).  A translation fault is an access to an unmapped byte.
  Faults and CONSTRAINED UNPREDICTABLE encodings are explicit outcomes; nothing is totalised.
-/
import FalconModel.Exec

namespace Falcon
namespace A64

/-- architectural state visible to the supported classes -/
structure St where
  /-- X0..X30 (index 31 is never used: register number 31 is decoded as SP or XZR) -/
  x : Nat → BitVec 64
  sp : BitVec 64
  n : Bool
  z : Bool
  c : Bool
  v : Bool
  /-- V0..V31 -/
  q : Nat → BitVec 128
  mem : ByteMem
  /-- `BigEndian()`: data accesses are big-endian (SCTLR_ELx.EE / E0E); instruction fetch never is -/
  big : Bool
  pc : BitVec 64

inductive Outcome where
  /-- the instruction completed; `s.pc` is the address of the next instruction -/
  | ok (s : St)
  /-- not an instruction of the classes specified here (UNDEFINED / unallocated / other class) -/
  | unallocated
  /-- CONSTRAINED UNPREDICTABLE -/
  | unpredictable (why : String)
  /-- synchronous Data Abort -/
  | fault (why : String)

/-! ### bit fields -/

/-- `w<hi:lo>` as a number -/
def fld (w : BitVec 32) (hi lo : Nat) : Nat := (w.toNat >>> lo) % 2 ^ (hi + 1 - lo)

def bit (w : BitVec 32) (i : Nat) : Bool := w.toNat.testBit i

/-- `SignExtend(imm<bits-1:0> : Zeros(sh), 64)` -/
def sext64 (imm bits sh : Nat) : BitVec 64 :=
  (BitVec.ofNat bits imm).signExtend 64 <<< sh

/-! ### registers -/

/-- `X[n, N]` read: register 31 is the zero register -/
def X (s : St) (n N : Nat) : BitVec N := if n = 31 then 0 else (s.x n).setWidth N

/-- `X[d] = value` of width `N ≤ 64`: the upper bits of the 64-bit register are cleared; 31 discards -/
def setX (s : St) (d : Nat) {N : Nat} (val : BitVec N) : St :=
  if d = 31 then s else { s with x := fun i => if i = d then val.setWidth 64 else s.x i }

/-- `SP[]` read at width `N` -/
def SP (s : St) (N : Nat) : BitVec N := s.sp.setWidth N

/-- `SP[] = ZeroExtend(value, 64)` -/
def setSP (s : St) {N : Nat} (val : BitVec N) : St := { s with sp := val.setWidth 64 }

/-- register 31 = SP -/
def XSP (s : St) (n N : Nat) : BitVec N := if n = 31 then SP s N else X s n N

def setXSP (s : St) (d : Nat) {N : Nat} (val : BitVec N) : St :=
  if d = 31 then setSP s val else setX s d val

/-- `V[n, N]` read: the low `N` bits -/
def V (s : St) (n N : Nat) : BitVec N := (s.q n).setWidth N

/-- `V[n] = value`: the rest of the 128-bit register is cleared -/
def setV (s : St) (d : Nat) {N : Nat} (val : BitVec N) : St :=
  { s with q := fun i => if i = d then val.setWidth 128 else s.q i }

def next (s : St) : St := { s with pc := s.pc + 4 }

/-! ### shared pseudocode -/

/-- `AddWithCarry(x, y, carry_in)` = (result, N, Z, C, V) through the unbounded integer sums -/
def addWithCarry {N : Nat} (x y : BitVec N) (cin : Bool) : BitVec N × Bool × Bool × Bool × Bool :=
  let usum : Nat := x.toNat + y.toNat + cin.toNat
  let ssum : Int := x.toInt + y.toInt + (cin.toNat : Int)
  let r : BitVec N := BitVec.ofNat N usum
  (r, r.msb, r == 0, decide (r.toNat ≠ usum), decide (r.toInt ≠ ssum))

inductive ShiftType where
  | lsl | lsr | asr | ror

def decodeShift (op : Nat) : ShiftType :=
  match op with
  | 0 => .lsl | 1 => .lsr | 2 => .asr | _ => .ror

/-- `ShiftReg(reg, type, amount)` on the already read register value -/
def shiftReg {N : Nat} (val : BitVec N) (t : ShiftType) (amount : Nat) : BitVec N :=
  match t with
  | .lsl => val <<< amount
  | .lsr => val >>> amount
  | .asr => val.sshiftRight amount
  | .ror => val.rotateRight amount

/-- `ExtendReg`: `option` is the 3-bit extend type (UXTB UXTH UXTW UXTX SXTB SXTH SXTW SXTX);
    `len = Min(len, N - shift); Extend(val<len-1:0> : Zeros(shift), N, unsigned)` -/
def extendReg {N : Nat} (val : BitVec N) (option shift : Nat) : BitVec N :=
  let unsigned := option < 4
  let len0 := 8 <<< (option % 4)
  let len := min len0 (N - shift)
  let low : BitVec len := val.setWidth len
  let sh : BitVec (len + shift) := low ++ (0 : BitVec shift)
  if unsigned then sh.setWidth N else sh.signExtend N

/-- index of the highest set bit of `x` below `n` -/
def highestSetBit (x : Nat) : Nat → Option Nat
  | 0 => none
  | n + 1 => if x.testBit n then some n else highestSetBit x n

/-- `Replicate(x<esize-1:0>, M / esize)` as a number -/
def replicate (x esize : Nat) : Nat → Nat
  | 0 => 0
  | k + 1 => x + (replicate x esize k) <<< esize

/-- `DecodeBitMasks(immN, imms, immr, immediate = TRUE, M)`: the `wmask` result; `none` = UNDEFINED -/
def decodeBitMasks (immN imms immr M : Nat) : Option (BitVec M) :=
  match highestSetBit ((immN <<< 6) ||| ((63 - imms) % 64)) 7 with
  | none => none
  | some len =>
    if len < 1 then none
    else if M < 1 <<< len then none
    else
      let levels := (1 <<< len) - 1
      if imms &&& levels = levels then none
      else
        let S := imms &&& levels
        let R := immr &&& levels
        let esize := 1 <<< len
        let welem := (1 <<< (S + 1)) - 1
        let rot := ((welem >>> R) ||| (welem <<< (esize - R))) % 2 ^ esize
        some (BitVec.ofNat M (replicate rot esize (M / esize)))

/-- `ConditionHolds(cond)` -/
def conditionHolds (s : St) (cond : Nat) : Bool :=
  let base := match cond / 2 with
    | 0 => s.z
    | 1 => s.c
    | 2 => s.n
    | 3 => s.v
    | 4 => s.c && !s.z
    | 5 => s.n == s.v
    | 6 => (s.n == s.v) && !s.z
    | _ => true
  if cond % 2 = 1 && cond ≠ 15 then !base else base

/-! ### memory -/

def readLE (m : ByteMem) (a : BitVec 64) : Nat → Option Nat
  | 0 => some 0
  | k + 1 => do
      let b ← m a.toNat
      let rest ← readLE m (a + 1) k
      pure (b.toNat + 256 * rest)

def readBE (m : ByteMem) (a : BitVec 64) : Nat → Nat → Option Nat
  | 0, acc => some acc
  | k + 1, acc => do
      let b ← m a.toNat
      readBE m (a + 1) k (acc * 256 + b.toNat)

/-- `Mem[address, size]` read: `size` bytes, value assembled in the current data endianness -/
def memRead (s : St) (a : BitVec 64) (size : Nat) : Option (BitVec (8 * size)) :=
  (if s.big then readBE s.mem a size 0 else readLE s.mem a size).map (BitVec.ofNat (8 * size))

def writeLE (m : ByteMem) (a : BitVec 64) (v : Nat) : Nat → ByteMem
  | 0 => m
  | k + 1 =>
    let m' : ByteMem := fun i => if i = a.toNat then some (UInt8.ofNat (v % 256)) else m i
    writeLE m' (a + 1) (v / 256) k

def writeBE (m : ByteMem) (a : BitVec 64) (v : Nat) : Nat → ByteMem
  | 0 => m
  | k + 1 =>
    let m' : ByteMem := fun i => if i = a.toNat then some (UInt8.ofNat ((v >>> (8 * k)) % 256)) else m i
    writeBE m' (a + 1) v k

def mapped (m : ByteMem) (a : BitVec 64) : Nat → Bool
  | 0 => true
  | k + 1 => (m a.toNat).isSome && mapped m (a + 1) k

/-- `Mem[address, size] = value`; `none` = translation fault (some byte unmapped; nothing is written) -/
def memWrite (s : St) (a : BitVec 64) (size : Nat) (val : BitVec (8 * size)) : Option St :=
  if mapped s.mem a size then
    some { s with mem := if s.big then writeBE s.mem a val.toNat size else writeLE s.mem a val.toNat size }
  else none

def aligned (a : BitVec 64) (size : Nat) : Bool := a.toNat % size = 0

/-! ### data processing -/

/-- shared tail of ADD/ADDS/SUB/SUBS: `operand2` already formed -/
def addSub {N : Nat} (s : St) (sub setflags : Bool) (op1 op2 : BitVec N) : BitVec N × St :=
  let (r, n, z, c, v) := if sub then addWithCarry op1 (~~~op2) true else addWithCarry op1 op2 false
  (r, if setflags then { s with n := n, z := z, c := c, v := v } else s)

/-- ADD/ADDS/SUB/SUBS (immediate): `sf op S 100010 sh imm12 Rn Rd` -/
def addSubImm (s : St) (w : BitVec 32) (N : Nat) : Outcome :=
  let sub := bit w 30
  let setflags := bit w 29
  let d := fld w 4 0
  let n := fld w 9 5
  let imm : BitVec N := BitVec.ofNat N (if bit w 22 then fld w 21 10 <<< 12 else fld w 21 10)
  let op1 : BitVec N := XSP s n N
  let (r, s') := addSub s sub setflags op1 imm
  .ok (next (if d = 31 ∧ !setflags then setSP s' r else setX s' d r))

/-- ADD/ADDS/SUB/SUBS (shifted register): `sf op S 01011 shift 0 Rm imm6 Rn Rd` -/
def addSubShift (s : St) (w : BitVec 32) (N : Nat) : Outcome :=
  let shift := fld w 23 22
  let imm6 := fld w 15 10
  if shift = 3 then .unallocated
  else if N = 32 ∧ imm6 ≥ 32 then .unallocated
  else
    let op1 : BitVec N := X s (fld w 9 5) N
    let op2 : BitVec N := shiftReg (X s (fld w 20 16) N) (decodeShift shift) imm6
    let (r, s') := addSub s (bit w 30) (bit w 29) op1 op2
    .ok (next (setX s' (fld w 4 0) r))

/-- ADD/ADDS/SUB/SUBS (extended register): `sf op S 01011 00 1 Rm option imm3 Rn Rd` -/
def addSubExt (s : St) (w : BitVec 32) (N : Nat) : Outcome :=
  let imm3 := fld w 12 10
  if fld w 23 22 ≠ 0 then .unallocated
  else if imm3 > 4 then .unallocated
  else
    let setflags := bit w 29
    let d := fld w 4 0
    let op1 : BitVec N := XSP s (fld w 9 5) N
    let op2 : BitVec N := extendReg (X s (fld w 20 16) N) (fld w 15 13) imm3
    let (r, s') := addSub s (bit w 30) setflags op1 op2
    .ok (next (if d = 31 ∧ !setflags then setSP s' r else setX s' d r))

/-- ORR (shifted register), of which MOV (register) is the alias with Rn = 31, no shift:
    `sf 01 01010 shift 0 Rm imm6 Rn Rd` -/
def orrShift (s : St) (w : BitVec 32) (N : Nat) : Outcome :=
  let imm6 := fld w 15 10
  if N = 32 ∧ imm6 ≥ 32 then .unallocated
  else
    let op1 : BitVec N := X s (fld w 9 5) N
    let op2 : BitVec N := shiftReg (X s (fld w 20 16) N) (decodeShift (fld w 23 22)) imm6
    .ok (next (setX s (fld w 4 0) (op1 ||| op2)))

/-- ORR (immediate), of which MOV (bitmask immediate) is the alias with Rn = 31:
    `sf 01 100100 N immr imms Rn Rd`; the destination 31 is SP -/
def orrImm (s : St) (w : BitVec 32) (N : Nat) : Outcome :=
  if N = 32 ∧ bit w 22 then .unallocated
  else
    match decodeBitMasks (fld w 22 22) (fld w 15 10) (fld w 21 16) N with
    | none => .unallocated
    | some imm =>
      let op1 : BitVec N := X s (fld w 9 5) N
      .ok (next (setXSP s (fld w 4 0) (op1 ||| imm)))

/-- MOVN / MOVZ / MOVK: `sf opc 100101 hw imm16 Rd` -/
def moveWide (s : St) (w : BitVec 32) (N : Nat) : Outcome :=
  let opc := fld w 30 29
  let hw := fld w 22 21
  if opc = 1 then .unallocated
  else if N = 32 ∧ hw ≥ 2 then .unallocated
  else
    let pos := hw * 16
    let d := fld w 4 0
    let imm : BitVec N := BitVec.ofNat N (fld w 20 5) <<< pos
    let r : BitVec N :=
      if opc = 0 then ~~~imm
      else if opc = 2 then imm
      else (X s d N &&& ~~~(BitVec.ofNat N 0xffff <<< pos)) ||| imm
    .ok (next (setX s d r))

/-! ### branches -/

def branchTo (s : St) (t : BitVec 64) : St := { s with pc := t }

/-- B / BL: `op 00101 imm26` -/
def bImm (s : St) (w : BitVec 32) : Outcome :=
  let t := s.pc + sext64 (fld w 25 0) 26 2
  let s' := if bit w 31 then setX s 30 (s.pc + 4) else s
  .ok (branchTo s' t)

/-- B.cond: `0101010 0 imm19 0 cond` -/
def bCond (s : St) (w : BitVec 32) : Outcome :=
  if conditionHolds s (fld w 3 0) then .ok (branchTo s (s.pc + sext64 (fld w 23 5) 19 2))
  else .ok (next s)

/-- CBZ / CBNZ: `sf 011010 op imm19 Rt` -/
def cbz (s : St) (w : BitVec 32) (N : Nat) : Outcome :=
  let isZero := (X s (fld w 4 0) N) == 0
  let iszero := !bit w 24          -- op = 0: CBZ
  if isZero == iszero then .ok (branchTo s (s.pc + sext64 (fld w 23 5) 19 2)) else .ok (next s)

/-- TBZ / TBNZ: `b5 011011 op b40 imm14 Rt` -/
def tbz (s : St) (w : BitVec 32) : Outcome :=
  let bitpos := fld w 31 31 * 32 + fld w 23 19
  let N := if bit w 31 then 64 else 32
  let operand : BitVec N := X s (fld w 4 0) N
  let bitval := operand.getLsbD bitpos
  if bitval == bit w 24 then .ok (branchTo s (s.pc + sext64 (fld w 18 5) 14 2)) else .ok (next s)

/-- BR / BLR / RET: `1101011 opc 11111 000000 Rn 00000`, opc = 0000 / 0001 / 0010 -/
def brReg (s : St) (w : BitVec 32) : Outcome :=
  if fld w 20 16 ≠ 31 ∨ fld w 15 10 ≠ 0 ∨ fld w 4 0 ≠ 0 then .unallocated
  else
    let opc := fld w 24 21
    if opc > 2 then .unallocated
    else
      let target : BitVec 64 := X s (fld w 9 5) 64
      let s' := if opc = 1 then setX s 30 (s.pc + 4) else s
      .ok (branchTo s' target)

/-! ### loads and stores -/

inductive MemOp where
  | load | store | prefetch
  deriving DecidableEq

/-- the body shared by every single-register integer load/store once decoded:
    base register `n` (31 = SP), transfer register `t` (31 = ZR), `datasize` bits in memory,
    `regsize` bits in the register, `offset`, write-back mode -/
def ldstInt (s : St) (memop : MemOp) (signed : Bool) (size regsize n t : Nat) (offset : BitVec 64)
    (wback postindex : Bool) : Outcome :=
  if memop ≠ .prefetch ∧ wback ∧ n = t ∧ n ≠ 31 then .unpredictable "writeback-base-is-transfer-register"
  else
    let base : BitVec 64 := XSP s n 64
    let address := if postindex then base else base + offset
    let wb (s' : St) : St :=
      if wback then setXSP s' n (if postindex then address + offset else address) else s'
    match memop with
    | .prefetch => .ok (next (wb s))
    | .store =>
      match memWrite s address size (X s t (8 * size)) with
      | none => .fault "translation"
      | some s' => .ok (next (wb s'))
    | .load =>
      match memRead s address size with
      | none => .fault "translation"
      | some data =>
        let s' := if regsize = 32 then
            setX s t (if signed then data.signExtend 32 else data.setWidth 32)
          else setX s t (if signed then data.signExtend 64 else data.setWidth 64)
        .ok (next (wb s'))

/-- SIMD&FP single register load/store -/
def ldstVec (s : St) (load : Bool) (size n t : Nat) (offset : BitVec 64) (wback postindex : Bool) : Outcome :=
  let base : BitVec 64 := XSP s n 64
  let address := if postindex then base else base + offset
  let wb (s' : St) : St :=
    if wback then setXSP s' n (if postindex then address + offset else address) else s'
  if load then
    match memRead s address size with
    | none => .fault "translation"
    | some data => .ok (next (wb (setV s t data)))
  else
    match memWrite s address size (V s t (8 * size)) with
    | none => .fault "translation"
    | some s' => .ok (next (wb s'))

/-- decode of `size`/`opc` for the integer forms: (memop, signed, regsize) or UNDEFINED -/
def decodeSizeOpc (size opc : Nat) : Option (MemOp × Bool × Nat) :=
  if opc < 2 then
    some (if opc = 1 then .load else .store, false, if size = 3 then 64 else 32)
  else if size = 3 then
    if opc = 3 then none else some (.prefetch, false, 64)
  else if size = 2 ∧ opc = 3 then none
  else some (.load, true, if opc = 3 then 32 else 64)

/-- all the `size 111 V 0x opc …` single-register forms: unsigned offset, unscaled, post/pre-index,
    register offset -/
def ldstSingle (s : St) (w : BitVec 32) : Outcome :=
  let size := fld w 31 30
  let vec := bit w 26
  let opc := fld w 23 22
  let n := fld w 9 5
  let t := fld w 4 0
  let scale := if vec then (opc / 2) * 4 + size else size
  if vec ∧ scale > 4 then .unallocated
  else
    let go (offset : BitVec 64) (wback postindex : Bool) : Outcome :=
      if vec then ldstVec s (opc % 2 = 1) (1 <<< scale) n t offset wback postindex
      else
        match decodeSizeOpc size opc with
        | none => .unallocated
        | some (memop, signed, regsize) =>
          if memop = .prefetch ∧ wback then .unallocated
          else ldstInt s memop signed (1 <<< size) regsize n t offset wback postindex
    if fld w 25 24 = 1 then
      -- unsigned offset
      go (BitVec.ofNat 64 (fld w 21 10 <<< scale)) false false
    else if fld w 25 24 ≠ 0 then .unallocated
    else if !bit w 21 then
      let off := sext64 (fld w 20 12) 9 0
      match fld w 11 10 with
      | 0 => go off false false            -- unscaled
      | 1 => go off true true              -- post-index
      | 3 => go off true false             -- pre-index
      | _ => .unallocated                  -- unprivileged: not a supported class
    else if fld w 11 10 = 2 then
      -- register offset
      let option := fld w 15 13
      if option % 4 < 2 then .unallocated
      else
        let shift := if bit w 12 then scale else 0
        go (extendReg (X s (fld w 20 16) 64) option shift) false false
    else .unallocated

/-- LDR (literal), LDRSW (literal), PRFM (literal), SIMD&FP literal: `opc 011 V 00 imm19 Rt` -/
def ldLiteral (s : St) (w : BitVec 32) : Outcome :=
  let opc := fld w 31 30
  let t := fld w 4 0
  let address := s.pc + sext64 (fld w 23 5) 19 2
  if bit w 26 then
    if opc = 3 then .unallocated
    else
      match memRead s address (4 <<< opc) with
      | none => .fault "translation"
      | some data => .ok (next (setV s t data))
  else
    match opc with
    | 0 => match memRead s address 4 with
      | none => .fault "translation"
      | some data => .ok (next (setX s t data))
    | 1 => match memRead s address 8 with
      | none => .fault "translation"
      | some data => .ok (next (setX s t data))
    | 2 => match memRead s address 4 with
      | none => .fault "translation"
      | some data => .ok (next (setX s t (data.signExtend 64)))
    | _ => .ok (next s)

/-- LDP/STP/LDPSW/LDNP/STNP, integer and SIMD&FP: `opc 101 V mode L imm7 Rt2 Rn Rt` -/
def ldstPair (s : St) (w : BitVec 32) : Outcome :=
  let opc := fld w 31 30
  let vec := bit w 26
  let mode := fld w 25 23
  let load := bit w 22
  let t := fld w 4 0
  let n := fld w 9 5
  let t2 := fld w 14 10
  if mode > 3 ∨ opc = 3 then .unallocated
  else
    let wback := mode = 1 ∨ mode = 3
    let postindex := mode = 1
    let signed := !vec ∧ opc = 1
    if signed ∧ (!load ∨ mode = 0) then .unallocated       -- STGP / unallocated
    else
      let scale := if vec then 2 + opc else 2 + opc / 2
      let dbytes := 1 <<< scale
      let offset := sext64 (fld w 21 15) 7 scale
      if !vec ∧ wback ∧ (t = n ∨ t2 = n) ∧ n ≠ 31 then .unpredictable "writeback-base-is-transfer-register"
      else if load ∧ t = t2 then .unpredictable "ldp-rt-equals-rt2"
      else
        let base : BitVec 64 := XSP s n 64
        let address := if postindex then base else base + offset
        let wb (s' : St) : St :=
          if wback then setXSP s' n (if postindex then address + offset else address) else s'
        if load then
          match memRead s address dbytes, memRead s (address + BitVec.ofNat 64 dbytes) dbytes with
          | some d1, some d2 =>
            let s' :=
              if vec then setV (setV s t d1) t2 d2
              else if signed then setX (setX s t (d1.signExtend 64)) t2 (d2.signExtend 64)
              else setX (setX s t d1) t2 d2
            .ok (next (wb s'))
          | _, _ => .fault "translation"
        else
          let d1 : BitVec (8 * dbytes) := if vec then V s t _ else X s t _
          let d2 : BitVec (8 * dbytes) := if vec then V s t2 _ else X s t2 _
          if mapped s.mem address (2 * dbytes) then
            match memWrite s address dbytes d1 with
            | none => .fault "translation"
            | some s1 =>
              match memWrite s1 (address + BitVec.ofNat 64 dbytes) dbytes d2 with
              | none => .fault "translation"
              | some s2 => .ok (next (wb s2))
          else .fault "translation"

/-- LDAR/LDLAR/STLR/STLLR and their byte/halfword forms: `size 001000 1 L 0 Rs o0 Rt2 Rn Rt` -/
def ldstOrdered (s : St) (w : BitVec 32) : Outcome :=
  if !bit w 23 ∨ bit w 21 then .unallocated            -- exclusives, CAS: not supported classes
  else if fld w 20 16 ≠ 31 ∨ fld w 14 10 ≠ 31 then .unpredictable "should-be-one-fields"
  else
    let size := fld w 31 30
    let bytes := 1 <<< size
    let address : BitVec 64 := XSP s (fld w 9 5) 64
    let t := fld w 4 0
    if !aligned address bytes then .fault "alignment"
    else if bit w 22 then
      match memRead s address bytes with
      | none => .fault "translation"
      | some data => .ok (next (if size = 3 then setX s t (data.setWidth 64) else setX s t (data.setWidth 32)))
    else
      match memWrite s address bytes (X s t (8 * bytes)) with
      | none => .fault "translation"
      | some s' => .ok (next s')

/-- STLUR/STLURB/STLURH: `size 011001 00 0 imm9 00 Rn Rt` -/
def stlur (s : St) (w : BitVec 32) : Outcome :=
  if fld w 23 22 ≠ 0 ∨ bit w 21 ∨ fld w 11 10 ≠ 0 then .unallocated
  else
    let size := fld w 31 30
    let bytes := 1 <<< size
    let address : BitVec 64 := XSP s (fld w 9 5) 64 + sext64 (fld w 20 12) 9 0
    if !aligned address bytes then .fault "alignment"
    else
      match memWrite s address bytes (X s (fld w 4 0) (8 * bytes)) with
      | none => .fault "translation"
      | some s' => .ok (next s')

/-! ### top-level decode (C4.1: `op0 = w<28:25>`) -/

def step (w : BitVec 32) (s : St) : Outcome :=
  let N := if bit w 31 then 64 else 32
  if w.toNat = 0xd503201f then .ok (next s)                               -- NOP
  else if fld w 28 23 = 0b100010 then addSubImm s w N
  else if fld w 28 23 = 0b100100 then (if fld w 30 29 = 1 then orrImm s w N else .unallocated)
  else if fld w 28 23 = 0b100101 then moveWide s w N
  else if fld w 28 24 = 0b01011 then (if bit w 21 then addSubExt s w N else addSubShift s w N)
  else if fld w 28 24 = 0b01010 then
    (if fld w 30 29 = 1 ∧ !bit w 21 then orrShift s w N else .unallocated)
  else if fld w 30 26 = 0b00101 then bImm s w
  else if fld w 31 25 = 0b0101010 then (if bit w 24 ∨ bit w 4 then .unallocated else bCond s w)
  else if fld w 30 25 = 0b011010 then cbz s w N
  else if fld w 30 25 = 0b011011 then tbz s w
  else if fld w 31 25 = 0b1101011 then brReg s w
  else if fld w 29 27 = 0b111 ∧ !bit w 25 then ldstSingle s w
  else if fld w 29 27 = 0b011 ∧ fld w 25 24 = 0 then ldLiteral s w
  else if fld w 29 27 = 0b101 ∧ !bit w 25 then ldstPair s w
  else if fld w 29 24 = 0b001000 then ldstOrdered s w
  else if fld w 29 24 = 0b011001 then stlur s w
  else .unallocated

end A64
end Falcon
