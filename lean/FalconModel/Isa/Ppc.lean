import FalconModel.Lift
namespace Falcon.Isa.Ppc
def specLine (_bytes : List UInt8) (_addr : Nat) (_m : MachState) : String := "next=reserved ;  ; "
end Falcon.Isa.Ppc
