/-
  FalconModel.Isa.Ppc — reference interpreter for the 32-bit PowerPC instructions falcon's PPC dispatcher
  (`lib/translator/ppc/mod.rs`) accepts.  THIS FILE IS THE SPECIFICATION of property C02 for PowerPC, written from the
  instruction descriptions of the Power ISA (Book I) / PowerPC UISA (transcribed from memory: the manuals are not in the
  sandbox); it decodes the raw big-endian word by bit fields, independent of capstone and of falcon's IL.

  State: r0…r31, LR, CTR, XER[CA] (falcon's scalar `carry`), XER[SO] (the test state's `so`), the condition register as 32
  bits (`cr.getLsbD (31 - i)` is CR bit i in IBM numbering; field n = bits 4n … 4n+3 = LT GT EQ SO), byte memory
  (big-endian).  `Outcome.next s pc`: completed, next instruction at `pc`.
-/
import FalconModel.Lift

namespace Falcon.Isa.Ppc

abbrev Word := BitVec 32
abbrev Reg := BitVec 5

structure St where
  gpr : Reg → Word
  lr : Word
  ctr : Word
  ca : Bool
  so : Bool
  /-- CR bit `i` (IBM numbering: 0 = LT of CR0 … 31 = SO of CR7) -/
  cr : Nat → Bool
  mem : ByteMem

inductive Outcome where
  | next (s : St) (pc : Word)
  | fault          -- unmapped byte
  | invalid        -- invalid instruction form (e.g. lwzu with RA = 0 or RA = RT)
  | reserved       -- not in the accepted subset

namespace St
def w (s : St) (i : Reg) (v : Word) : St := { s with gpr := fun j => if j = i then v else s.gpr j }
/-- `(RA|0)` -/
def r0 (s : St) (i : Reg) : Word := if i = 0 then 0 else s.gpr i
/-- set CR field `bf` to `lt gt eq so` -/
def setCr (s : St) (bf : Nat) (lt gt eq so : Bool) : St :=
  { s with cr := fun i => if i = 4 * bf then lt else if i = 4 * bf + 1 then gt else if i = 4 * bf + 2 then eq
                          else if i = 4 * bf + 3 then so else s.cr i }
/-- record form (`Rc = 1`): CR0 ← signed comparison of the result with zero, and XER[SO] -/
def record (s : St) (v : Word) : St := s.setCr 0 (v.slt 0) ((0 : Word).slt v) (v == 0) s.so
end St

def rdByte (m : ByteMem) (a : Word) : Option (BitVec 8) := (m a.toNat).map (fun b => BitVec.ofNat 8 b.toNat)
def wrByte (m : ByteMem) (a : Word) (v : BitVec 8) : ByteMem :=
  fun x => if x = a.toNat then some (UInt8.ofNat v.toNat) else m x

def rdWord (m : ByteMem) (a : Word) : Option Word := do
  let b0 ← rdByte m a
  let b1 ← rdByte m (a + 1)
  let b2 ← rdByte m (a + 2)
  let b3 ← rdByte m (a + 3)
  pure (b0 ++ b1 ++ b2 ++ b3)

def wrWord (m : ByteMem) (a : Word) (v : Word) : ByteMem :=
  let b (k : Nat) : BitVec 8 := v.extractLsb' (8 * k) 8
  wrByte (wrByte (wrByte (wrByte m a (b 3)) (a + 1) (b 2)) (a + 2) (b 1)) (a + 3) (b 0)

/-- `MASK(mb, me)`: ones from bit `mb` through bit `me` (IBM numbering, 0 = most significant), wrapping around -/
def mask (mb me : Nat) : Word :=
  BitVec.ofNat 32 ((List.range 32).foldl (fun acc i =>
    let inside := if mb ≤ me then mb ≤ i ∧ i ≤ me else i ≤ me ∨ mb ≤ i
    if inside then acc + 2 ^ (31 - i) else acc) 0)

/-- the 33-bit sum `a + b + c`: (low 32 bits, carry out) -/
def addc (a b : Word) (c : Bool) : Word × Bool :=
  let t : BitVec 33 := a.zeroExtend 33 + b.zeroExtend 33 + (if c then 1 else 0)
  (t.truncate 32, t.getLsbD 32)

/-- `BO`/`BI` of the conditional branches: (new CTR, branch taken) -/
def condOk (s : St) (bo : BitVec 5) (bi : Nat) : Word × Bool :=
  let decr := !bo.getLsbD 2                      -- BO[2] = 0: decrement CTR
  let ctr' := if decr then s.ctr - 1 else s.ctr
  let ctrOk := bo.getLsbD 2 || ((ctr' != 0) != bo.getLsbD 1)
  let condOk := bo.getLsbD 4 || (s.cr bi == bo.getLsbD 3)
  (ctr', ctrOk && condOk)

def field (w : Word) (lo n : Nat) : Nat := (w.toNat >>> lo) % 2 ^ n
def rfield (w : Word) (lo : Nat) : Reg := BitVec.ofNat 5 (field w lo 5)

def step (w : Word) (pc : Word) (s : St) : Outcome :=
  let op := field w 26 6
  let rt := rfield w 21; let ra := rfield w 16; let rb := rfield w 11
  let si : BitVec 16 := BitVec.ofNat 16 (field w 0 16)
  let xo := field w 1 10
  let rc : Bool := field w 0 1 == 1
  let nxt (s' : St) : Outcome := .next s' (pc + 4)
  let fin (s' : St) (v : Word) : Outcome := nxt (if rc then s'.record v else s')
  match op with
  | 14 => nxt (s.w rt (s.r0 ra + si.signExtend 32))                                 -- addi / li
  | 15 => nxt (s.w rt (s.r0 ra + (si ++ (0 : BitVec 16))))                           -- addis / lis
  | 10 =>                                                                            -- cmpli (cmplwi: L = 0)
    if field w 21 1 = 1 ∨ field w 22 1 = 1 then .reserved
    else
      let a := s.gpr ra; let b : Word := si.zeroExtend 32
      nxt (s.setCr (field w 23 3) (a.ult b) (b.ult a) (a == b) s.so)
  | 11 =>                                                                            -- cmpi (cmpwi: L = 0)
    if field w 21 1 = 1 ∨ field w 22 1 = 1 then .reserved
    else
      let a := s.gpr ra; let b : Word := si.signExtend 32
      nxt (s.setCr (field w 23 3) (a.slt b) (b.slt a) (a == b) s.so)
  | 24 => nxt (s.w ra (s.gpr rt ||| si.zeroExtend 32))                               -- ori (nop)
  | 18 =>                                                                            -- b / bl (AA = 0)
    if field w 1 1 = 1 then .reserved
    else
      let li : BitVec 24 := BitVec.ofNat 24 (field w 2 24)
      let target := pc + ((li ++ (0 : BitVec 2)).signExtend 32)
      .next (if field w 0 1 = 1 then { s with lr := pc + 4 } else s) target
  | 16 =>                                                                            -- bc (AA = 0)
    if field w 1 1 = 1 then .reserved
    else
      let bd : BitVec 14 := BitVec.ofNat 14 (field w 2 14)
      let (ctr', ok) := condOk s rt (field w 16 5)
      let s1 := { s with ctr := ctr' }
      let s2 := if field w 0 1 = 1 then { s1 with lr := pc + 4 } else s1
      .next s2 (if ok then pc + ((bd ++ (0 : BitVec 2)).signExtend 32) else pc + 4)
  | 19 =>
    if xo = 16 then                                                                  -- bclr
      let (ctr', ok) := condOk s rt (field w 16 5)
      let target := s.lr &&& 0xfffffffc
      let s1 := { s with ctr := ctr' }
      let s2 := if field w 0 1 = 1 then { s1 with lr := pc + 4 } else s1
      .next s2 (if ok then target else pc + 4)
    else if xo = 528 then                                                            -- bcctr
      if !rt.getLsbD 2 then .invalid
      else
        let ok := rt.getLsbD 4 || (s.cr (field w 16 5) == rt.getLsbD 3)
        let s2 := if field w 0 1 = 1 then { s with lr := pc + 4 } else s
        .next s2 (if ok then s.ctr &&& 0xfffffffc else pc + 4)
    else .reserved
  | 21 =>                                                                            -- rlwinm
    let sh := field w 11 5; let mb := field w 6 5; let me := field w 1 5
    let v := (s.gpr rt).rotateLeft sh &&& mask mb me
    fin (s.w ra v) v
  | 31 =>
    let oe : Bool := field w 10 1 == 1
    match field w 1 9, oe with
    | 266, false => let v := s.gpr ra + s.gpr rb; fin (s.w rt v) v                    -- add
    | 40, false => let v := ~~~(s.gpr ra) + s.gpr rb + 1; fin (s.w rt v) v            -- subf
    | 202, false =>                                                                   -- addze
      let (v, c) := addc (s.gpr ra) 0 s.ca
      fin ({ s with ca := c }.w rt v) v
    | _, _ =>
      match xo with
      | 444 => let v := s.gpr rt ||| s.gpr rb; fin (s.w ra v) v                        -- or (mr)
      | 824 =>                                                                        -- srawi
        let sh := field w 11 5
        let x := s.gpr rt
        let v := x.sshiftRight sh
        let lost := x &&& (BitVec.ofNat 32 (2 ^ sh - 1))
        fin ({ s with ca := x.msb && lost != 0 }.w ra v) v
      | 339 =>                                                                        -- mfspr
        let spr := field w 16 5 + 32 * field w 11 5
        if spr = 8 then nxt (s.w rt s.lr) else if spr = 9 then nxt (s.w rt s.ctr) else .reserved
      | 467 =>                                                                        -- mtspr
        let spr := field w 16 5 + 32 * field w 11 5
        if spr = 8 then nxt { s with lr := s.gpr rt } else if spr = 9 then nxt { s with ctr := s.gpr rt } else .reserved
      | _ => .reserved
  | 32 | 33 | 34 =>                                                                   -- lwz lwzu lbz
    let upd := op = 33
    if upd ∧ (ra = 0 ∨ ra = rt) then .invalid
    else
      let ea := (if upd then s.gpr ra else s.r0 ra) + si.signExtend 32
      let v : Option Word := if op = 34 then (rdByte s.mem ea).map (·.zeroExtend 32) else rdWord s.mem ea
      match v with
      | none => .fault
      | some v => nxt (if upd then (s.w rt v).w ra ea else s.w rt v)
  | 36 | 37 =>                                                                        -- stw stwu
    let upd := op = 37
    if upd ∧ ra = 0 then .invalid
    else
      let ea := (if upd then s.gpr ra else s.r0 ra) + si.signExtend 32
      let s1 := { s with mem := wrWord s.mem ea (s.gpr rt) }
      nxt (if upd then s1.w ra ea else s1)
  | 47 =>                                                                             -- stmw
    let ea := s.r0 ra + si.signExtend 32
    let n := 32 - rt.toNat
    nxt { s with mem := (List.range n).foldl (fun m k =>
      wrWord m (ea + BitVec.ofNat 32 (4 * k)) (s.gpr (rt + BitVec.ofNat 5 k))) s.mem }
  | _ => .reserved

/-! ### the tie to falcon's scalars, and the specification's post line for the driver -/

def crNames : List String :=
  (List.range 8).flatMap (fun i => ["lt", "gt", "eq", "so"].map (fun f => s!"cr{i}-{f}"))

def v32 (σ : State) (n : String) : Word :=
  match σ.get n with
  | some c => BitVec.ofNat 32 c.val
  | none => 0

def vb (σ : State) (n : String) : Bool :=
  match σ.get n with
  | some c => c.val % 2 = 1
  | none => false

def absState (σ : State) : St :=
  { gpr := fun i => v32 σ s!"r{i.toNat}"
    lr := v32 σ "lr", ctr := v32 σ "ctr", ca := vb σ "carry", so := vb σ "so"
    cr := fun i => vb σ (crNames.getD i "")
    mem := σ.mem }

def w32Str (v : Word) : String := "0x" ++ Const.hexDigits v.toNat ++ ":32"
def b1Str (b : Bool) : String := if b then "0x1:1" else "0x0:1"

def windowsStr (mem : ByteMem) (ws : List (Nat × Nat)) : String :=
  ",".intercalate (ws.map fun (a, len) =>
    Fil.hex a ++ ":" ++ MachState.bytesHex ((List.range len).map fun i => (mem (a + i)).getD 0))

def wordsOfBE : List UInt8 → List Word
  | a :: b :: c :: d :: rest => BitVec.ofNat 32 (((a.toNat * 256 + b.toNat) * 256 + c.toNat) * 256 + d.toNat) :: wordsOfBE rest
  | _ => []

/-- delta post line of the specification (same shape as the harness's) -/
def specLine (bytes : List UInt8) (addr : Nat) (m : MachState) : String :=
  let σ₀ := m.toState
  let ws := m.mem.map fun (a, bs) => (a, bs.length)
  let pre (n : String) : String := match m.regs.lookup n with | some c => toString c | none => "-"
  let unchanged (head : String) := "next=" ++ head ++ " ;  ; " ++ windowsStr σ₀.mem ws
  match wordsOfBE bytes with
  | [w] =>
    match step w (BitVec.ofNat 32 addr) (absState σ₀) with
    | .next s pc =>
      let regs : List (String × String) :=
        (List.range 32).map (fun k => (s!"r{k}", w32Str (s.gpr (BitVec.ofNat 5 k)))) ++
        [("lr", w32Str s.lr), ("ctr", w32Str s.ctr), ("carry", b1Str s.ca)] ++
        crNames.zipIdx.map (fun (n, i) => (n, b1Str (s.cr i)))
      let ch := regs.filterMap fun (n, v) => if v = pre n then none else some (n ++ "=" ++ v)
      "next=" ++ Fil.hex pc.toNat ++ " ; " ++ ",".intercalate ch ++ " ; " ++ windowsStr s.mem ws
    | .fault => unchanged "fault"
    | .invalid => unchanged "unpredictable"
    | .reserved => unchanged "reserved"
  | _ => unchanged "reserved"

end Falcon.Isa.Ppc
