/-
  FalconModel.Isa.Ppc — reference interpreter for the 32-bit PowerPC instructions falcon's PPC dispatcher
  (`lib/translator/ppc/mod.rs`) accepts.  THIS FILE IS THE SPECIFICATION of property C02 for PowerPC, written from the
  instruction descriptions of the Power ISA (Book I) / PowerPC UISA (transcribed from memory: the manuals are not in the
  sandbox); it decodes the raw big-endian word by bit fields, independent of capstone and of falcon's IL.

  State: r0…r31, LR, CTR, XER[CA] (falcon's scalar `carry`), XER[SO] (the test state's `so`), the condition register as 32
  bits (`cr.getLsbD (31 - i)` is CR bit i in IBM numbering; field n = bits 4n … 4n+3 = LT GT EQ SO), byte memory
  (big-endian).  `Outcome.next s pc`: completed, next instruction at `pc`.
-/
import FalconModel.Lift

namespace Falcon.Isa.Ppc

abbrev Word := BitVec 32
abbrev Reg := BitVec 5

structure St where
  gpr : Reg → Word
  lr : Word
  ctr : Word
  ca : Bool
  so : Bool
  /-- CR bit `i` (IBM numbering: 0 = LT of CR0 … 31 = SO of CR7) -/
  cr : Nat → Bool
  mem : ByteMem

inductive Outcome where
  | next (s : St) (pc : Word)
  | fault          -- unmapped byte
  | invalid        -- invalid instruction form (e.g. lwzu with RA = 0 or RA = RT)
  | reserved       -- not in the accepted subset

namespace St
def w (s : St) (i : Reg) (v : Word) : St := { s with gpr := fun j => if j = i then v else s.gpr j }
/-- `(RA|0)` -/
def r0 (s : St) (i : Reg) : Word := if i = 0 then 0 else s.gpr i
/-- set CR field `bf` to `lt gt eq so` -/
def setCr (s : St) (bf : Nat) (lt gt eq so : Bool) : St :=
  { s with cr := fun i => if i = 4 * bf then lt else if i = 4 * bf + 1 then gt else if i = 4 * bf + 2 then eq
                          else if i = 4 * bf + 3 then so else s.cr i }
/-- record form (`Rc = 1`): CR0 ← signed comparison of the result with zero, and XER[SO] -/
def record (s : St) (v : Word) : St := s.setCr 0 (v.slt 0) ((0 : Word).slt v) (v == 0) s.so
end St

def rdByte (m : ByteMem) (a : Word) : Option (BitVec 8) := (m a.toNat).map (fun b => BitVec.ofNat 8 b.toNat)
def wrByte (m : ByteMem) (a : Word) (v : BitVec 8) : ByteMem :=
  fun x => if x = a.toNat then some (UInt8.ofNat v.toNat) else m x

def rdWord (m : ByteMem) (a : Word) : Option Word := do
  let b0 ← rdByte m a
  let b1 ← rdByte m (a + 1)
  let b2 ← rdByte m (a + 2)
  let b3 ← rdByte m (a + 3)
  pure (b0 ++ b1 ++ b2 ++ b3)

def wrWord (m : ByteMem) (a : Word) (v : Word) : ByteMem :=
  let b (k : Nat) : BitVec 8 := v.extractLsb' (8 * k) 8
  wrByte (wrByte (wrByte (wrByte m a (b 3)) (a + 1) (b 2)) (a + 2) (b 1)) (a + 3) (b 0)

/-- `MASK(mb, me)`: ones from bit `mb` through bit `me` (IBM numbering, 0 = most significant), wrapping around -/
def mask (mb me : Nat) : Word :=
  BitVec.ofNat 32 ((List.range 32).foldl (fun acc i =>
    let inside := if mb ≤ me then mb ≤ i ∧ i ≤ me else i ≤ me ∨ mb ≤ i
    if inside then acc + 2 ^ (31 - i) else acc) 0)

/-- the 33-bit sum `a + b + c`: (low 32 bits, carry out) -/
def addc (a b : Word) (c : Bool) : Word × Bool :=
  let t : BitVec 33 := a.zeroExtend 33 + b.zeroExtend 33 + (if c then 1 else 0)
  (t.truncate 32, t.getLsbD 32)

/-- `BO`/`BI` of the conditional branches: (new CTR, branch taken) -/
def condOk (s : St) (bo : BitVec 5) (bi : Nat) : Word × Bool :=
  let decr := !bo.getLsbD 2                      -- BO[2] = 0: decrement CTR
  let ctr' := if decr then s.ctr - 1 else s.ctr
  let ctrOk := bo.getLsbD 2 || ((ctr' != 0) != bo.getLsbD 1)
  let condOk := bo.getLsbD 4 || (s.cr bi == bo.getLsbD 3)
  (ctr', ctrOk && condOk)

/-! ### instructions, decoded from the raw word -/

inductive Instr where
  | addi (rt ra : Reg) (si : BitVec 16)
  | addis (rt ra : Reg) (si : BitVec 16)
  | add (rt ra rb : Reg) (rc : Bool)
  | subf (rt ra rb : Reg) (rc : Bool)
  | addze (rt ra : Reg) (rc : Bool)
  | or_ (ra rs rb : Reg) (rc : Bool)
  | ori (ra rs : Reg) (ui : BitVec 16)
  | rlwinm (ra rs : Reg) (sh mb me : BitVec 5) (rc : Bool)
  | srawi (ra rs : Reg) (sh : BitVec 5) (rc : Bool)
  | cmpi (bf : BitVec 3) (ra : Reg) (si : BitVec 16)
  | cmpli (bf : BitVec 3) (ra : Reg) (ui : BitVec 16)
  | lbz (rt ra : Reg) (d : BitVec 16)
  | lwz (rt ra : Reg) (d : BitVec 16)
  | lwzu (rt ra : Reg) (d : BitVec 16)
  | stw (rs ra : Reg) (d : BitVec 16)
  | stwu (rs ra : Reg) (d : BitVec 16)
  | stmw (rs ra : Reg) (d : BitVec 16)
  | mflr (rt : Reg) | mfctr (rt : Reg) | mtlr (rs : Reg) | mtctr (rs : Reg)
  | b (li : BitVec 24) (lk : Bool)
  | bc (bo bi : BitVec 5) (bd : BitVec 14) (lk : Bool)
  | bclr (bo bi : BitVec 5) (lk : Bool)
  | bcctr (bo bi : BitVec 5) (lk : Bool)
  deriving DecidableEq, Repr

def fOp (w : Word) : BitVec 6 := w.extractLsb' 26 6
def fRt (w : Word) : Reg := w.extractLsb' 21 5
def fRa (w : Word) : Reg := w.extractLsb' 16 5
def fRb (w : Word) : Reg := w.extractLsb' 11 5
def fMb (w : Word) : BitVec 5 := w.extractLsb' 6 5
def fMe (w : Word) : BitVec 5 := w.extractLsb' 1 5
def fXo (w : Word) : BitVec 10 := w.extractLsb' 1 10
def fImm (w : Word) : BitVec 16 := w.extractLsb' 0 16
def fRc (w : Word) : Bool := w.getLsbD 0
def fAa (w : Word) : Bool := w.getLsbD 1

/-- opcode 31: the X/XO forms (for the XO forms bit 10 is OE, which must be 0 here) -/
def decode31 (w : Word) : Option Instr :=
  let rt := fRt w; let ra := fRa w; let rb := fRb w; let rc := fRc w
  match (fXo w).toNat with
  | 266 => some (.add rt ra rb rc)
  | 40 => some (.subf rt ra rb rc)
  | 202 => if rb = 0 then some (.addze rt ra rc) else none
  | 444 => some (.or_ ra rt rb rc)
  | 824 => some (.srawi ra rt rb rc)
  | 339 => if rc then none
           else if ra = 8 ∧ rb = 0 then some (.mflr rt) else if ra = 9 ∧ rb = 0 then some (.mfctr rt) else none
  | 467 => if rc then none
           else if ra = 8 ∧ rb = 0 then some (.mtlr rt) else if ra = 9 ∧ rb = 0 then some (.mtctr rt) else none
  | _ => none

def decode (w : Word) : Option Instr :=
  let rt := fRt w; let ra := fRa w; let i := fImm w
  match (fOp w).toNat with
  | 14 => some (.addi rt ra i)
  | 15 => some (.addis rt ra i)
  | 10 => if w.getLsbD 21 ∨ w.getLsbD 22 then none else some (.cmpli (w.extractLsb' 23 3) ra i)     -- cmplwi: L = 0
  | 11 => if w.getLsbD 21 ∨ w.getLsbD 22 then none else some (.cmpi (w.extractLsb' 23 3) ra i)      -- cmpwi: L = 0
  | 24 => some (.ori ra rt i)
  | 18 => if fAa w then none else some (.b (w.extractLsb' 2 24) (fRc w))
  | 16 => if fAa w then none else some (.bc rt ra (w.extractLsb' 2 14) (fRc w))
  | 19 =>
    match (fXo w).toNat with
    | 16 => some (.bclr rt ra (fRc w))
    | 528 => some (.bcctr rt ra (fRc w))
    | _ => none
  | 21 => some (.rlwinm ra rt (fRb w) (fMb w) (fMe w) (fRc w))
  | 31 => decode31 w
  | 32 => some (.lwz rt ra i)
  | 33 => some (.lwzu rt ra i)
  | 34 => some (.lbz rt ra i)
  | 36 => some (.stw rt ra i)
  | 37 => some (.stwu rt ra i)
  | 47 => some (.stmw rt ra i)
  | _ => none

def sext16 (i : BitVec 16) : Word := i.signExtend 32
def zext16 (i : BitVec 16) : Word := i.zeroExtend 32

/-- the words `rs, rs+1, …, r31` stored by `stmw` at `ea, ea+4, …` -/
def stmwMem (s : St) (rs : Reg) (ea : Word) : ByteMem :=
  (List.range (32 - rs.toNat)).foldl (fun m k =>
    wrWord m (ea + BitVec.ofNat 32 (4 * k)) (s.gpr (rs + BitVec.ofNat 5 k))) s.mem

def exec (i : Instr) (pc : Word) (s : St) : Outcome :=
  let nxt (s' : St) : Outcome := .next s' (pc + 4)
  let fin (rc : Bool) (s' : St) (v : Word) : Outcome := nxt (if rc then s'.record v else s')
  match i with
  | .addi rt ra si => nxt (s.w rt (s.r0 ra + sext16 si))
  | .addis rt ra si => nxt (s.w rt (s.r0 ra + (si ++ (0 : BitVec 16))))
  | .add rt ra rb rc => let v := s.gpr ra + s.gpr rb; fin rc (s.w rt v) v
  | .subf rt ra rb rc => let v := ~~~(s.gpr ra) + s.gpr rb + 1; fin rc (s.w rt v) v
  | .addze rt ra rc =>
    let (v, c) := addc (s.gpr ra) 0 s.ca
    fin rc ({ s with ca := c }.w rt v) v
  | .or_ ra rs rb rc => let v := s.gpr rs ||| s.gpr rb; fin rc (s.w ra v) v
  | .ori ra rs ui => nxt (s.w ra (s.gpr rs ||| zext16 ui))
  | .rlwinm ra rs sh mb me rc =>
    let v := (s.gpr rs).rotateLeft sh.toNat &&& mask mb.toNat me.toNat
    fin rc (s.w ra v) v
  | .srawi ra rs sh rc =>
    let x := s.gpr rs
    let v := x.sshiftRight sh.toNat
    let lost := x &&& (BitVec.ofNat 32 (2 ^ sh.toNat - 1))
    fin rc ({ s with ca := x.msb && lost != 0 }.w ra v) v
  | .cmpi bf ra si =>
    let a := s.gpr ra; let b := sext16 si
    nxt (s.setCr bf.toNat (a.slt b) (b.slt a) (a == b) s.so)
  | .cmpli bf ra ui =>
    let a := s.gpr ra; let b := zext16 ui
    nxt (s.setCr bf.toNat (a.ult b) (b.ult a) (a == b) s.so)
  | .lbz rt ra d =>
    match rdByte s.mem (s.r0 ra + sext16 d) with
    | none => .fault
    | some b => nxt (s.w rt (b.zeroExtend 32))
  | .lwz rt ra d =>
    match rdWord s.mem (s.r0 ra + sext16 d) with
    | none => .fault
    | some v => nxt (s.w rt v)
  | .lwzu rt ra d =>
    if ra = 0 ∨ ra = rt then .invalid
    else
      let ea := s.gpr ra + sext16 d
      match rdWord s.mem ea with
      | none => .fault
      | some v => nxt ((s.w rt v).w ra ea)
  | .stw rs ra d => nxt { s with mem := wrWord s.mem (s.r0 ra + sext16 d) (s.gpr rs) }
  | .stwu rs ra d =>
    if ra = 0 then .invalid
    else
      let ea := s.gpr ra + sext16 d
      nxt ({ s with mem := wrWord s.mem ea (s.gpr rs) }.w ra ea)
  | .stmw rs ra d => nxt { s with mem := stmwMem s rs (s.r0 ra + sext16 d) }
  | .mflr rt => nxt (s.w rt s.lr)
  | .mfctr rt => nxt (s.w rt s.ctr)
  | .mtlr rs => nxt { s with lr := s.gpr rs }
  | .mtctr rs => nxt { s with ctr := s.gpr rs }
  | .b li lk =>
    .next (if lk then { s with lr := pc + 4 } else s) (pc + ((li ++ (0 : BitVec 2)).signExtend 32))
  | .bc bo bi bd lk =>
    let (ctr', ok) := condOk s bo bi.toNat
    let s1 := { s with ctr := ctr' }
    let s2 := if lk then { s1 with lr := pc + 4 } else s1
    .next s2 (if ok then pc + ((bd ++ (0 : BitVec 2)).signExtend 32) else pc + 4)
  | .bclr bo bi lk =>
    let (ctr', ok) := condOk s bo bi.toNat
    let target := s.lr &&& 0xfffffffc
    let s1 := { s with ctr := ctr' }
    let s2 := if lk then { s1 with lr := pc + 4 } else s1
    .next s2 (if ok then target else pc + 4)
  | .bcctr bo bi lk =>
    if !bo.getLsbD 2 then .invalid
    else
      let ok := bo.getLsbD 4 || (s.cr bi.toNat == bo.getLsbD 3)
      let s2 := if lk then { s with lr := pc + 4 } else s
      .next s2 (if ok then s.ctr &&& 0xfffffffc else pc + 4)

def step (w : Word) (pc : Word) (s : St) : Outcome :=
  match decode w with
  | none => .reserved
  | some i => exec i pc s

/-! ### the tie to falcon's scalars, and the specification's post line for the driver -/

/-- the scalars of falcon's PPC lifter that make up the machine state, in one table:
    0–31 `r0…r31`, 32 `lr`, 33 `ctr`, 34 `carry` (XER[CA]), 35+i the CR bit `i` (`crN-lt/gt/eq/so`) -/
def allNames : List String :=
  ["r0", "r1", "r2", "r3", "r4", "r5", "r6", "r7", "r8", "r9", "r10", "r11", "r12", "r13", "r14", "r15", "r16", "r17", "r18", "r19", "r20", "r21", "r22", "r23", "r24", "r25", "r26", "r27", "r28", "r29", "r30", "r31", "lr", "ctr", "carry", "cr0-lt", "cr0-gt", "cr0-eq", "cr0-so", "cr1-lt", "cr1-gt", "cr1-eq", "cr1-so", "cr2-lt", "cr2-gt", "cr2-eq", "cr2-so", "cr3-lt", "cr3-gt", "cr3-eq", "cr3-so", "cr4-lt", "cr4-gt", "cr4-eq", "cr4-so", "cr5-lt", "cr5-gt", "cr5-eq", "cr5-so", "cr6-lt", "cr6-gt", "cr6-eq", "cr6-so", "cr7-lt", "cr7-gt", "cr7-eq", "cr7-so"]

def nm (k : Nat) : String := allNames.getD k ""
def gprName (i : Reg) : String := nm i.toNat
def crName (i : Nat) : String := nm (35 + i)
def crNames : List String := allNames.drop 35

def v32 (σ : State) (n : String) : Word :=
  match σ.get n with
  | some c => BitVec.ofNat 32 c.val
  | none => 0

def vb (σ : State) (n : String) : Bool :=
  match σ.get n with
  | some c => c.val % 2 = 1
  | none => false

def absState (σ : State) : St :=
  { gpr := fun i => v32 σ (gprName i)
    lr := v32 σ (nm 32), ctr := v32 σ (nm 33), ca := vb σ (nm 34), so := vb σ "so"
    cr := fun i => decide (i < 32) && vb σ (crName i)
    mem := σ.mem }

def w32Str (v : Word) : String := "0x" ++ Const.hexDigits v.toNat ++ ":32"
def b1Str (b : Bool) : String := if b then "0x1:1" else "0x0:1"

def windowsStr (mem : ByteMem) (ws : List (Nat × Nat)) : String :=
  ",".intercalate (ws.map fun (a, len) =>
    Fil.hex a ++ ":" ++ MachState.bytesHex ((List.range len).map fun i => (mem (a + i)).getD 0))

def wordsOfBE : List UInt8 → List Word
  | a :: b :: c :: d :: rest => BitVec.ofNat 32 (((a.toNat * 256 + b.toNat) * 256 + c.toNat) * 256 + d.toNat) :: wordsOfBE rest
  | _ => []

/-- delta post line of the specification (same shape as the harness's) -/
def specLine (bytes : List UInt8) (addr : Nat) (m : MachState) : String :=
  let σ₀ := m.toState
  let ws := m.mem.map fun (a, bs) => (a, bs.length)
  let pre (n : String) : String := match m.regs.lookup n with | some c => toString c | none => "-"
  let unchanged (head : String) := "next=" ++ head ++ " ;  ; " ++ windowsStr σ₀.mem ws
  match wordsOfBE bytes with
  | [w] =>
    match step w (BitVec.ofNat 32 addr) (absState σ₀) with
    | .next s pc =>
      let regs : List (String × String) :=
        (List.range 32).map (fun k => (s!"r{k}", w32Str (s.gpr (BitVec.ofNat 5 k)))) ++
        [("lr", w32Str s.lr), ("ctr", w32Str s.ctr), ("carry", b1Str s.ca)] ++
        crNames.zipIdx.map (fun (n, i) => (n, b1Str (s.cr i)))
      let ch := regs.filterMap fun (n, v) => if v = pre n then none else some (n ++ "=" ++ v)
      "next=" ++ Fil.hex pc.toNat ++ " ; " ++ ",".intercalate ch ++ " ; " ++ windowsStr s.mem ws
    | .fault => unchanged "fault"
    | .invalid => unchanged "unpredictable"
    | .reserved => unchanged "reserved"
  | _ => unchanged "reserved"

end Falcon.Isa.Ppc
