/-
  FalconModel.Isa.Mips — reference interpreter for the MIPS32 (release 2) instructions that falcon's MIPS
  dispatcher (`lib/translator/mips/mod.rs`) accepts, both endiannesses.  THIS FILE IS THE SPECIFICATION
  of property C02 for MIPS.  It is written from the instruction descriptions of "MIPS32 Architecture For
  Programmers, Volume II" (transcribed from memory: the manual is not in the sandbox), and is independent
  of capstone (it decodes the raw 32-bit word by bit fields) and of falcon's IL.

  * `decode : Word → Option Instr`   strict: fields the manual requires to be zero must be zero
  * `exec   : Instr → Word (pc) → St → Outcome`      one non-branch instruction
  * `branch : Instr → Word (pc) → St → Option Br`    what a branch decides (condition, target, link) from the PRE-state
  * `step2  : branch word, delay-slot word`          the link register is written, the slot executes, control transfers
  Registers are `BitVec 32`; `GPR[0]` reads as zero and ignores writes.  Memory is a partial byte map; an
  access to an unmapped byte is `Outcome.fault` (outside what a test state describes, not an architectural event).
  Exceptions (Overflow, Trap, Syscall, Breakpoint, Address Error) are `Outcome.trap`.  Values the manual leaves
  UNPREDICTABLE (HI/LO after `mul`, after a division by zero) are flagged, not invented.
-/
import FalconModel.Exec

namespace Falcon.Isa.Mips

abbrev Word := BitVec 32
abbrev Reg := BitVec 5

structure St where
  gpr : Reg → Word
  hi : Word
  lo : Word
  mem : ByteMem
  bigEndian : Bool

namespace St
/-- `GPR[i]`, with `GPR[0] = 0` -/
def r (s : St) (i : Reg) : Word := if i = 0 then 0 else s.gpr i
/-- `GPR[i] ← v` (a write to register 0 is discarded) -/
def w (s : St) (i : Reg) (v : Word) : St :=
  if i = 0 then s else { s with gpr := fun j => if j = i then v else s.gpr j }
end St

inductive Trap where
  | overflow | trap | syscall | breakpoint | addrLoad | addrStore
  deriving DecidableEq, Repr

inductive Outcome where
  /-- completed; `pc` is the address of the next instruction; `unpHiLo`: HI and LO are UNPREDICTABLE -/
  | next (s : St) (pc : Word) (unpHiLo : Bool)
  | trap (t : Trap)
  /-- the result depends on the environment (`rdhwr`) -/
  | env
  /-- an access touched a byte the state does not map -/
  | fault
  /-- the manual declares the behaviour UNPREDICTABLE (e.g. `jalr` with rs = rd, a branch in a delay slot) -/
  | unpredictable
  /-- not an instruction of the accepted subset -/
  | reserved

/-! ### instructions -/

inductive R3 where      -- rd ← rs op rt
  | addu | subu | and | or | xor | nor | slt | sltu | movz | movn | mul
  deriving DecidableEq, Repr
inductive R3T where     -- trapping three-register arithmetic
  | add | sub
  deriving DecidableEq, Repr
inductive Sh where
  | sll | srl | sra
  deriving DecidableEq, Repr
inductive Imm where     -- rt ← rs op imm16
  | addiu | slti | sltiu | andi | ori | xori
  deriving DecidableEq, Repr
inductive MulDiv where  -- HI/LO ← rs op rt
  | mult | multu | div | divu | madd | maddu | msub | msubu
  deriving DecidableEq, Repr
inductive Ld where
  | lb | lbu | lh | lhu | lw | ll | lwl | lwr
  deriving DecidableEq, Repr
inductive St' where
  | sb | sh | sw | sc | swl | swr
  deriving DecidableEq, Repr
inductive Br1 where     -- compare rs with zero
  | bltz | bgez | blez | bgtz
  deriving DecidableEq, Repr
inductive Br1L where    -- … and link
  | bltzal | bgezal
  deriving DecidableEq, Repr
inductive Br2 where
  | beq | bne
  deriving DecidableEq, Repr

inductive Instr where
  | r3 (op : R3) (rd rs rt : Reg)
  | r3t (op : R3T) (rd rs rt : Reg)
  | shi (op : Sh) (rd rt : Reg) (sa : BitVec 5)
  | shv (op : Sh) (rd rt rs : Reg)
  | imm (op : Imm) (rt rs : Reg) (i : BitVec 16)
  | addi (rt rs : Reg) (i : BitVec 16)
  | lui (rt : Reg) (i : BitVec 16)
  | muldiv (op : MulDiv) (rs rt : Reg)
  | mfhi (rd : Reg) | mflo (rd : Reg) | mthi (rs : Reg) | mtlo (rs : Reg)
  | clz (rd rs rt : Reg) | clo (rd rs rt : Reg)
  | load (op : Ld) (rt base : Reg) (off : BitVec 16)
  | store (op : St') (rt base : Reg) (off : BitVec 16)
  | pref | sync
  | teq (rs rt : Reg) | syscall | break_
  | rdhwr (rt rd : Reg)
  | br1 (op : Br1) (rs : Reg) (off : BitVec 16)
  | br1l (op : Br1L) (rs : Reg) (off : BitVec 16)
  | br2 (op : Br2) (rs rt : Reg) (off : BitVec 16)
  | j (idx : BitVec 26) | jal (idx : BitVec 26)
  | jr (rs : Reg) | jalr (rd rs : Reg)
  deriving DecidableEq, Repr

def Instr.isBranch : Instr → Bool
  | .br1 .. | .br1l .. | .br2 .. | .j _ | .jal _ | .jr _ | .jalr .. => true
  | _ => false

/-! ### decoding the raw word -/

def fOp (w : Word) : BitVec 6 := w.extractLsb' 26 6
def fRs (w : Word) : Reg := w.extractLsb' 21 5
def fRt (w : Word) : Reg := w.extractLsb' 16 5
def fRd (w : Word) : Reg := w.extractLsb' 11 5
def fSa (w : Word) : BitVec 5 := w.extractLsb' 6 5
def fFn (w : Word) : BitVec 6 := w.extractLsb' 0 6
def fImm (w : Word) : BitVec 16 := w.extractLsb' 0 16
def fIdx (w : Word) : BitVec 26 := w.extractLsb' 0 26

/-- opcode 0 (SPECIAL), by function field -/
def decodeSpecial (w : Word) : Option Instr :=
  let rs := fRs w; let rt := fRt w; let rd := fRd w; let sa := fSa w
  let r3 (op : R3) : Option Instr := if sa = 0 then some (.r3 op rd rs rt) else none
  let r3t (op : R3T) : Option Instr := if sa = 0 then some (.r3t op rd rs rt) else none
  let shi (op : Sh) : Option Instr := if rs = 0 then some (.shi op rd rt sa) else none
  let shv (op : Sh) : Option Instr := if sa = 0 then some (.shv op rd rt rs) else none
  let md (op : MulDiv) : Option Instr := if rd = 0 ∧ sa = 0 then some (.muldiv op rs rt) else none
  match (fFn w).toNat with
  | 0x00 => shi .sll
  | 0x02 => shi .srl          -- rs = 1 is ROTR: not in the subset
  | 0x03 => shi .sra
  | 0x04 => shv .sll
  | 0x06 => shv .srl          -- sa = 1 is ROTRV: not in the subset
  | 0x07 => shv .sra
  | 0x08 => if rt = 0 ∧ rd = 0 ∧ sa = 0 then some (.jr rs) else none
  | 0x09 => if rt = 0 ∧ sa = 0 then some (.jalr rd rs) else none
  | 0x0a => r3 .movz
  | 0x0b => r3 .movn
  | 0x0c => some .syscall
  | 0x0d => some .break_
  | 0x0f => if rs = 0 ∧ rt = 0 ∧ rd = 0 then some .sync else none
  | 0x10 => if rs = 0 ∧ rt = 0 ∧ sa = 0 then some (.mfhi rd) else none
  | 0x11 => if rt = 0 ∧ rd = 0 ∧ sa = 0 then some (.mthi rs) else none
  | 0x12 => if rs = 0 ∧ rt = 0 ∧ sa = 0 then some (.mflo rd) else none
  | 0x13 => if rt = 0 ∧ rd = 0 ∧ sa = 0 then some (.mtlo rs) else none
  | 0x18 => md .mult
  | 0x19 => md .multu
  | 0x1a => md .div
  | 0x1b => md .divu
  | 0x20 => r3t .add
  | 0x21 => r3 .addu
  | 0x22 => r3t .sub
  | 0x23 => r3 .subu
  | 0x24 => r3 .and
  | 0x25 => r3 .or
  | 0x26 => r3 .xor
  | 0x27 => r3 .nor
  | 0x2a => r3 .slt
  | 0x2b => r3 .sltu
  | 0x34 => some (.teq rs rt)
  | _ => none

/-- opcode 0x1c (SPECIAL2) -/
def decodeSpecial2 (w : Word) : Option Instr :=
  let rs := fRs w; let rt := fRt w; let rd := fRd w; let sa := fSa w
  let md (op : MulDiv) : Option Instr := if rd = 0 ∧ sa = 0 then some (.muldiv op rs rt) else none
  match (fFn w).toNat with
  | 0x00 => md .madd
  | 0x01 => md .maddu
  | 0x02 => if sa = 0 then some (.r3 .mul rd rs rt) else none
  | 0x04 => md .msub
  | 0x05 => md .msubu
  | 0x20 => if sa = 0 then some (.clz rd rs rt) else none
  | 0x21 => if sa = 0 then some (.clo rd rs rt) else none
  | _ => none

def decode (w : Word) : Option Instr :=
  let rs := fRs w; let rt := fRt w; let i := fImm w
  match (fOp w).toNat with
  | 0x00 => decodeSpecial w
  | 0x01 =>
    match rt.toNat with
    | 0x00 => some (.br1 .bltz rs i)
    | 0x01 => some (.br1 .bgez rs i)
    | 0x10 => some (.br1l .bltzal rs i)
    | 0x11 => some (.br1l .bgezal rs i)
    | _ => none
  | 0x02 => some (.j (fIdx w))
  | 0x03 => some (.jal (fIdx w))
  | 0x04 => some (.br2 .beq rs rt i)
  | 0x05 => some (.br2 .bne rs rt i)
  | 0x06 => if rt = 0 then some (.br1 .blez rs i) else none
  | 0x07 => if rt = 0 then some (.br1 .bgtz rs i) else none
  | 0x08 => some (.addi rt rs i)
  | 0x09 => some (.imm .addiu rt rs i)
  | 0x0a => some (.imm .slti rt rs i)
  | 0x0b => some (.imm .sltiu rt rs i)
  | 0x0c => some (.imm .andi rt rs i)
  | 0x0d => some (.imm .ori rt rs i)
  | 0x0e => some (.imm .xori rt rs i)
  | 0x0f => if rs = 0 then some (.lui rt i) else none
  | 0x1c => decodeSpecial2 w
  | 0x1f => if fFn w = 0x3b ∧ rs = 0 ∧ fSa w = 0 then some (.rdhwr rt (fRd w)) else none
  | 0x20 => some (.load .lb rt rs i)
  | 0x21 => some (.load .lh rt rs i)
  | 0x22 => some (.load .lwl rt rs i)
  | 0x23 => some (.load .lw rt rs i)
  | 0x24 => some (.load .lbu rt rs i)
  | 0x25 => some (.load .lhu rt rs i)
  | 0x26 => some (.load .lwr rt rs i)
  | 0x28 => some (.store .sb rt rs i)
  | 0x29 => some (.store .sh rt rs i)
  | 0x2a => some (.store .swl rt rs i)
  | 0x2b => some (.store .sw rt rs i)
  | 0x2e => some (.store .swr rt rs i)
  | 0x30 => some (.load .ll rt rs i)
  | 0x33 => some .pref
  | 0x38 => some (.store .sc rt rs i)
  | _ => none

/-! ### memory -/

def rdByte (m : ByteMem) (a : Word) : Option (BitVec 8) := (m a.toNat).map (fun b => BitVec.ofNat 8 b.toNat)

def wrByte (m : ByteMem) (a : Word) (v : BitVec 8) : ByteMem :=
  fun x => if x = a.toNat then some (UInt8.ofNat v.toNat) else m x

/-- the halfword at the (aligned) address `a` -/
def rdHalf (be : Bool) (m : ByteMem) (a : Word) : Option (BitVec 16) := do
  let b0 ← rdByte m a
  let b1 ← rdByte m (a + 1)
  pure (if be then b0 ++ b1 else b1 ++ b0)

/-- the word at the (aligned) address `a` -/
def rdWord (be : Bool) (m : ByteMem) (a : Word) : Option Word := do
  let b0 ← rdByte m a
  let b1 ← rdByte m (a + 1)
  let b2 ← rdByte m (a + 2)
  let b3 ← rdByte m (a + 3)
  pure (if be then b0 ++ b1 ++ b2 ++ b3 else b3 ++ b2 ++ b1 ++ b0)

def wrHalf (be : Bool) (m : ByteMem) (a : Word) (v : BitVec 16) : ByteMem :=
  let hi : BitVec 8 := v.extractLsb' 8 8
  let lo : BitVec 8 := v.extractLsb' 0 8
  if be then wrByte (wrByte m a hi) (a + 1) lo else wrByte (wrByte m a lo) (a + 1) hi

def wrWord (be : Bool) (m : ByteMem) (a : Word) (v : Word) : ByteMem :=
  let b (k : Nat) : BitVec 8 := v.extractLsb' (8 * k) 8
  if be then wrByte (wrByte (wrByte (wrByte m a (b 3)) (a + 1) (b 2)) (a + 2) (b 1)) (a + 3) (b 0)
  else wrByte (wrByte (wrByte (wrByte m a (b 0)) (a + 1) (b 1)) (a + 2) (b 2)) (a + 3) (b 3)

/-! ### arithmetic helpers -/

def sext16 (i : BitVec 16) : Word := i.signExtend 32
def zext16 (i : BitVec 16) : Word := i.zeroExtend 32
def bit (b : Bool) : Word := if b then 1 else 0

/-- number of leading zero bits of a word (32 for zero) -/
def clzW (x : Word) : Nat :=
  let rec go : Nat → Nat → Nat
    | 0, acc => acc
    | k + 1, acc => if x.getLsbD k then acc else go k (acc + 1)
  go 32 0

def r3 (op : R3) (a b old : Word) : Word :=
  match op with
  | .addu => a + b
  | .subu => a - b
  | .and => a &&& b
  | .or => a ||| b
  | .xor => a ^^^ b
  | .nor => ~~~(a ||| b)
  | .slt => bit (a.slt b)
  | .sltu => bit (a.ult b)
  | .movz => if b = 0 then a else old
  | .movn => if b ≠ 0 then a else old
  | .mul => a * b

/-- shift by `n ∈ 0..31` -/
def sh (op : Sh) (x : Word) (n : Nat) : Word :=
  match op with
  | .sll => x <<< n
  | .srl => x >>> n
  | .sra => x.sshiftRight n

def immOp (op : Imm) (a : Word) (i : BitVec 16) : Word :=
  match op with
  | .addiu => a + sext16 i
  | .slti => bit (a.slt (sext16 i))
  | .sltiu => bit (a.ult (sext16 i))
  | .andi => a &&& zext16 i
  | .ori => a ||| zext16 i
  | .xori => a ^^^ zext16 i

/-- the 33-bit sum/difference of the manual's ADD/ADDI/SUB: overflow iff bit 32 ≠ bit 31 -/
def addOv (a b : Word) : Option Word :=
  let t : BitVec 33 := a.signExtend 33 + b.signExtend 33
  if t.getLsbD 32 ≠ t.getLsbD 31 then none else some (t.truncate 32)

def subOv (a b : Word) : Option Word :=
  let t : BitVec 33 := a.signExtend 33 - b.signExtend 33
  if t.getLsbD 32 ≠ t.getLsbD 31 then none else some (t.truncate 32)

/-- HI/LO after a multiply/divide; `none` = UNPREDICTABLE (divisor zero) -/
def mulDiv (op : MulDiv) (a b hi lo : Word) : Option (Word × Word) :=
  let acc : BitVec 64 := hi ++ lo
  let split (p : BitVec 64) : Option (Word × Word) := some (p.extractLsb' 32 32, p.extractLsb' 0 32)
  match op with
  | .mult => split (a.signExtend 64 * b.signExtend 64)
  | .multu => split (a.zeroExtend 64 * b.zeroExtend 64)
  | .madd => split (acc + a.signExtend 64 * b.signExtend 64)
  | .maddu => split (acc + a.zeroExtend 64 * b.zeroExtend 64)
  | .msub => split (acc - a.signExtend 64 * b.signExtend 64)
  | .msubu => split (acc - a.zeroExtend 64 * b.zeroExtend 64)
  | .div => if b = 0 then none else some (BitVec.ofInt 32 (a.toInt.tmod b.toInt), BitVec.ofInt 32 (a.toInt.tdiv b.toInt))
  | .divu => if b = 0 then none else some (a % b, a / b)

/-! ### one non-branch instruction -/

def doLoad (op : Ld) (s : St) (rt : Reg) (a : Word) (pc : Word) : Outcome :=
  let be := s.bigEndian
  let fin (v : Option Word) : Outcome :=
    match v with
    | some v => .next (s.w rt v) (pc + 4) false
    | none => .fault
  let b : Nat := (a &&& 3).toNat             -- byte offset inside the aligned word
  let aw : Word := a &&& ~~~3
  match op with
  | .lb => fin ((rdByte s.mem a).map (·.signExtend 32))
  | .lbu => fin ((rdByte s.mem a).map (·.zeroExtend 32))
  | .lh => if a.getLsbD 0 then .trap .addrLoad else fin ((rdHalf be s.mem a).map (·.signExtend 32))
  | .lhu => if a.getLsbD 0 then .trap .addrLoad else fin ((rdHalf be s.mem a).map (·.zeroExtend 32))
  | .lw | .ll => if b ≠ 0 then .trap .addrLoad else fin (rdWord be s.mem a)
  | .lwl =>
    -- the bytes from `a` to the end (BE) / start (LE) of the aligned word go to the most-significant end of rt
    let k := 8 * (if be then b else 3 - b)
    fin ((rdWord be s.mem aw).map fun (m : Word) => (m <<< k) ||| (s.r rt &&& ~~~((BitVec.allOnes 32) <<< k)))
  | .lwr =>
    let k := 8 * (if be then 3 - b else b)
    fin ((rdWord be s.mem aw).map fun (m : Word) => (m >>> k) ||| (s.r rt &&& ~~~((BitVec.allOnes 32) >>> k)))

/-- bytes `v[8i+7:8i]` -/
def byteOf (v : Word) (i : Nat) : BitVec 8 := v.extractLsb' (8 * i) 8

def doStore (op : St') (s : St) (rt : Reg) (a : Word) (pc : Word) : Outcome :=
  let be := s.bigEndian
  let v := s.r rt
  let b : Nat := (a &&& 3).toNat
  let ok (m : ByteMem) : Outcome := .next { s with mem := m } (pc + 4) false
  match op with
  | .sb => ok (wrByte s.mem a (byteOf v 0))
  | .sh => if a.getLsbD 0 then .trap .addrStore else ok (wrHalf be s.mem a (v.truncate 16))
  | .sw => if b ≠ 0 then .trap .addrStore else ok (wrWord be s.mem a v)
  | .sc => if b ≠ 0 then .trap .addrStore
           else .next ({ s with mem := wrWord be s.mem a v }.w rt 1) (pc + 4) false   -- LLbit assumed set
  | .swl =>
    -- most-significant bytes of rt, from `a` towards the end (BE) / start (LE) of the aligned word
    let n := if be then 4 - b else b + 1
    ok ((List.range n).foldl (fun m i => wrByte m (if be then a + BitVec.ofNat 32 i else a - BitVec.ofNat 32 i) (byteOf v (3 - i))) s.mem)
  | .swr =>
    -- least-significant bytes of rt, from `a` towards the start (BE) / end (LE) of the aligned word
    let n := if be then b + 1 else 4 - b
    ok ((List.range n).foldl (fun m i => wrByte m (if be then a - BitVec.ofNat 32 i else a + BitVec.ofNat 32 i) (byteOf v i)) s.mem)

def exec (i : Instr) (pc : Word) (s : St) : Outcome :=
  let nxt (s' : St) : Outcome := .next s' (pc + 4) false
  match i with
  | .r3 op rd rs rt =>
    let v := r3 op (s.r rs) (s.r rt) (s.r rd)
    .next (s.w rd v) (pc + 4) (op == .mul)            -- MUL leaves HI and LO UNPREDICTABLE
  | .r3t .add rd rs rt => match addOv (s.r rs) (s.r rt) with
    | some v => nxt (s.w rd v)
    | none => .trap .overflow
  | .r3t .sub rd rs rt => match subOv (s.r rs) (s.r rt) with
    | some v => nxt (s.w rd v)
    | none => .trap .overflow
  | .addi rt rs i => match addOv (s.r rs) (sext16 i) with
    | some v => nxt (s.w rt v)
    | none => .trap .overflow
  | .shi op rd rt sa => nxt (s.w rd (sh op (s.r rt) sa.toNat))
  | .shv op rd rt rs => nxt (s.w rd (sh op (s.r rt) ((s.r rs).toNat % 32)))
  | .imm op rt rs i => nxt (s.w rt (immOp op (s.r rs) i))
  | .lui rt i => nxt (s.w rt (i ++ (0 : BitVec 16)))
  | .muldiv op rs rt =>
    match mulDiv op (s.r rs) (s.r rt) s.hi s.lo with
    | some (h, l) => nxt { s with hi := h, lo := l }
    | none => .next s (pc + 4) true
  | .mfhi rd => nxt (s.w rd s.hi)
  | .mflo rd => nxt (s.w rd s.lo)
  | .mthi rs => nxt { s with hi := s.r rs }
  | .mtlo rs => nxt { s with lo := s.r rs }
  | .clz rd rs rt => if rt ≠ rd then .unpredictable else nxt (s.w rd (BitVec.ofNat 32 (clzW (s.r rs))))
  | .clo rd rs rt => if rt ≠ rd then .unpredictable else nxt (s.w rd (BitVec.ofNat 32 (clzW (~~~(s.r rs)))))
  | .load op rt base off => doLoad op s rt (s.r base + sext16 off) pc
  | .store op rt base off => doStore op s rt (s.r base + sext16 off) pc
  | .pref | .sync => nxt s
  | .teq rs rt => if s.r rs = s.r rt then .trap .trap else nxt s
  | .syscall => .trap .syscall
  | .break_ => .trap .breakpoint
  | .rdhwr .. => .env
  | .br1 .. | .br1l .. | .br2 .. | .j _ | .jal _ | .jr _ | .jalr .. => .unpredictable    -- needs `step2`

/-! ### branches with their delay slot -/

/-- what the branch at `pc` decides, all from the state BEFORE the delay slot -/
structure Br where
  taken : Bool
  target : Word
  /-- register written by the branch itself (before the slot executes) -/
  link : Option (Reg × Word)

def relTarget (pc : Word) (off : BitVec 16) : Word := pc + 4 + ((off.signExtend 30 ++ (0 : BitVec 2)) : BitVec 32)
def absTarget (pc : Word) (idx : BitVec 26) : Word := ((pc + 4).extractLsb' 28 4 ++ idx ++ (0 : BitVec 2) : BitVec 32)

def cond1 (op : Br1) (a : Word) : Bool :=
  match op with
  | .bltz => a.slt 0
  | .bgez => !(a.slt 0)
  | .blez => a.sle 0
  | .bgtz => !(a.sle 0)

/-- `none`: not a branch; `some none`: UNPREDICTABLE operand combination -/
def branch (i : Instr) (pc : Word) (s : St) : Option (Option Br) :=
  match i with
  | .br1 op rs off => some (some ⟨cond1 op (s.r rs), relTarget pc off, none⟩)
  | .br1l op rs off =>
    if rs = 31 then some none
    else some (some ⟨(match op with | .bltzal => (s.r rs).slt 0 | .bgezal => !((s.r rs).slt 0)), relTarget pc off, some (31, pc + 8)⟩)
  | .br2 .beq rs rt off => some (some ⟨s.r rs = s.r rt, relTarget pc off, none⟩)
  | .br2 .bne rs rt off => some (some ⟨s.r rs ≠ s.r rt, relTarget pc off, none⟩)
  | .j idx => some (some ⟨true, absTarget pc idx, none⟩)
  | .jal idx => some (some ⟨true, absTarget pc idx, some (31, pc + 8)⟩)
  | .jr rs => some (some ⟨true, s.r rs, none⟩)
  | .jalr rd rs => if rd = rs then some none else some (some ⟨true, s.r rs, some (rd, pc + 8)⟩)
  | _ => none

/-- a branch at `pc` and the instruction in its delay slot -/
def step2i (b d : Instr) (pc : Word) (s : St) : Outcome :=
  match branch b pc s with
  | none => .reserved
  | some none => .unpredictable
  | some (some br) =>
    if d.isBranch then .unpredictable
    else
      let s₁ := match br.link with
        | some (r, v) => s.w r v
        | none => s
      match exec d (pc + 4) s₁ with
      | .next s₂ _ u => .next s₂ (if br.taken then br.target else pc + 8) u
      | o => o

/-- one non-branch word -/
def step (w : Word) (pc : Word) (s : St) : Outcome :=
  match decode w with
  | none => .reserved
  | some i => if i.isBranch then .reserved else exec i pc s

/-- a branch word and its delay-slot word -/
def step2 (wb wd : Word) (pc : Word) (s : St) : Outcome :=
  match decode wb, decode wd with
  | some b, some d => step2i b d pc s
  | _, _ => .reserved

end Falcon.Isa.Mips
