/-
  FalconModel.Isa.A64Lift — option (A) of LIFTER_BRIEF: the Lean MIRROR of what falcon's AArch64 lifter
  emits, as a function of the raw word and the instruction address, for the classes

    add/adds/sub/subs (immediate) and (shifted register), incl. the MOV (to/from SP) alias,
    mov (register) [ORR alias], mov (wide immediate / inverted wide immediate) [MOVZ / MOVN aliases],
    mov (bitmask immediate) [ORR-immediate alias], add/sub (extended register), nop,
    ldr/ldrb/ldrh/ldrsb/ldrsh/ldrsw/str/strb/strh (integer) with unsigned offset, unscaled offset,
    post-index and pre-index,
    b, bl, b.cond, cbz/cbnz, tbz/tbnz, br, blr, ret.

  It mirrors bad64's choice of mnemonic (the dispatcher of lib/translator/aarch64/mod.rs sees aliases:
  `cmp`/`cmn`/`neg`/`negs` are rejected, `mov` is accepted) and then `semantics.rs` line by line:
  `AArch64Register::get/set` (W views truncate / zero-extend, register 31 = `xzr` constant zero or `sp`),
  `operand_load` (immediates with `lsl #12` as an IL shift, shifted registers), `mem_operand_address` with
  its write-back side effect applied last, the flag expressions of `adds`/`subs` (flags first, then the
  destination — since commit 78c87ba), and the successors of the terminators.

  `lift w addr = none`: the word is outside these classes or the lifter rejects it.  The driver compares
  `lift w addr` with falcon's dumped `BlockTranslationResult` SYNTACTICALLY on every case; any difference
  is reported as a broken correspondence (`MIRROR-DIFF`).
-/
import FalconModel.Lift
import FalconModel.Isa.A64

namespace Falcon
namespace A64Lift
open A64 (fld bit)

/-! ### registers (`register.rs`) -/

def xName (i : Nat) : String := "x" ++ toString i

def sc (name : String) (bits : Nat) : Scalar := { name := name, bits := bits }

/-- name of the 64-bit scalar behind register number `n` when 31 means the zero register (as a destination) -/
def zName (n : Nat) : String := if n = 31 then "xzr" else xName n

/-- name of the 64-bit scalar behind register number `n` when 31 means SP -/
def sName (n : Nat) : String := if n = 31 then "sp" else xName n

def k (v bits : Nat) : Expr := .const ⟨bits, v⟩

/-- `get()` of Xn / Wn with 31 = XZR / WZR -/
def rz (N n : Nat) : Expr :=
  if n = 31 then k 0 N
  else if N = 64 then .scalar (sc (xName n) 64) else .ext .trun N (.scalar (sc (xName n) 64))

/-- `get()` of Xn|SP / Wn|WSP -/
def rs (N n : Nat) : Expr :=
  if N = 64 then .scalar (sc (sName n) 64) else .ext .trun N (.scalar (sc (sName n) 64))

/-- `set()`: the full register is assigned, a short value is zero-extended -/
def widen (N : Nat) (e : Expr) : Expr := if N = 64 then e else .ext .zext 64 e

def setZ (N d : Nat) (e : Expr) : Op := .assign (sc (zName d) 64) (widen N e)
def setS (N d : Nat) (e : Expr) : Op := .assign (sc (sName d) 64) (widen N e)

def temp (addr bits : Nat) : Scalar := sc ("temp_0x" ++ String.ofList ((Nat.toDigits 16 addr).map Char.toUpper)) bits

/-! ### graphs -/

def mkInstrs (addr : Nat) : Nat → List Op → List Instr
  | _, [] => []
  | i, op :: rest => { index := i, addr := some addr, op := op } :: mkInstrs addr (i + 1) rest

/-- the one-block instruction graph every supported instruction gets -/
def oneBlock (addr : Nat) (ops : List Op) : Function :=
  { addr := addr
    cfg := { blocks := [{ index := 0, nextInstr := ops.length, instrs := mkInstrs addr 0 ops }]
             edges := [], entry := some 0, exit := some 0, nextIndex := 1, nextTemp := 0 } }

/-- a non-terminating instruction: the block falls through to `addr + 4` -/
def straight (addr : Nat) (ops : List Op) : BTR :=
  { addr := addr, length := 4, instrs := [oneBlock addr ops], succs := [(addr + 4, none)] }

/-- a terminating instruction: `length` stays 0, the successors are the semantics' -/
def terminator (addr : Nat) (ops : List Op) (succs : List (Nat × Option Expr)) : BTR :=
  { addr := addr, length := 0, instrs := [oneBlock addr ops], succs := succs }

/-! ### add / sub -/

/-- the four flag assignments of `adds` / `subs` (`op` = .add / .sub) -/
def flagOps (N : Nat) (op : BinOp) (l r : Expr) : List Op :=
  let res := Expr.bin op l r
  [ .assign (sc "n" 1) (.bin .cmplts res (k 0 N)),
    .assign (sc "z" 1) (.bin .cmpeq res (k 0 N)),
    .assign (sc "c" 1) (.bin .cmpneq (.ext .zext 72 res) (.bin op (.ext .zext 72 l) (.ext .zext 72 r))),
    .assign (sc "v" 1) (.bin .cmpneq (.ext .sext 72 res) (.bin op (.ext .sext 72 l) (.ext .sext 72 r))) ]

def addSubImm (w : BitVec 32) (addr : Nat) : Option BTR :=
  let N := if bit w 31 then 64 else 32
  let sub := bit w 30
  let s := bit w 29
  let sh := bit w 22
  let imm12 := fld w 21 10
  let n := fld w 9 5
  let d := fld w 4 0
  if s ∧ d = 31 then none                                  -- cmn / cmp
  else if !sub ∧ !s ∧ !sh ∧ imm12 = 0 ∧ (d = 31 ∨ n = 31) then
    some (straight addr [setS N d (rs N n)])               -- mov (to/from SP)
  else
    let op : BinOp := if sub then .sub else .add
    let l := rs N n
    let r := if sh then Expr.bin .shl (k imm12 N) (k 12 N) else k imm12 N
    if s then some (straight addr (flagOps N op l r ++ [setZ N d (.bin op l r)]))
    else some (straight addr [setS N d (.bin op l r)])

/-- `shift()` for LSL/LSR/ASR/ROR applied to a register value -/
def shifted (N : Nat) (v : Expr) (shift amount : Nat) : Expr :=
  match shift with
  | 0 => if amount = 0 then v else .bin .shl v (k amount N)
  | 1 => .bin .shr v (k amount N)
  | 2 => .bin .ashr v (k amount N)
  | _ => .bin .or (.bin .shl v (.bin .sub (k N N) (k amount N))) (.bin .shr v (k amount N))

def addSubShift (w : BitVec 32) (addr : Nat) : Option BTR :=
  let N := if bit w 31 then 64 else 32
  let sub := bit w 30
  let s := bit w 29
  let shift := fld w 23 22
  let imm6 := fld w 15 10
  let m := fld w 20 16
  let n := fld w 9 5
  let d := fld w 4 0
  if shift = 3 ∨ (N = 32 ∧ imm6 ≥ 32) then none
  else if s ∧ d = 31 then none                             -- cmn / cmp
  else if sub ∧ n = 31 then none                           -- neg / negs
  else
    let op : BinOp := if sub then .sub else .add
    let l := rz N n
    let r := shifted N (rz N m) shift imm6
    if s then some (straight addr (flagOps N op l r ++ [setZ N d (.bin op l r)]))
    else some (straight addr [setZ N d (.bin op l r)])


/-- `shift()` for the extend modifiers (UXTB … SXTX) applied to a register value of `vb` bits -/
def extended (N vb : Nat) (v : Expr) (option amount : Nat) : Expr :=
  let len := 8 <<< (option % 4)
  let e1 := if len < vb then Expr.ext .trun len v else v
  let e2 := if len < N then Expr.ext (if option < 4 then .zext else .sext) N e1 else e1
  .bin .shl e2 (k amount N)

/-- ADD/ADDS/SUB/SUBS (extended register).  bad64 names Rm as Xm for UXTX/SXTX in the 64-bit form and as Wm
    otherwise, and prints `add Xd|SP, Xn|SP, Xm` (no modifier) for UXTX #0 when Rd or Rn is 31 -/
def addSubExt (w : BitVec 32) (addr : Nat) : Option BTR :=
  let N := if bit w 31 then 64 else 32
  let sub := bit w 30
  let s := bit w 29
  let option := fld w 15 13
  let imm3 := fld w 12 10
  let m := fld w 20 16
  let n := fld w 9 5
  let d := fld w 4 0
  if fld w 23 22 ≠ 0 ∨ imm3 > 4 then none
  else if s ∧ d = 31 then none                             -- cmn / cmp
  else
    let vb := if N = 64 ∧ option % 4 = 3 then 64 else 32
    let r := if N = 64 ∧ option = 3 ∧ imm3 = 0 ∧ (d = 31 ∨ n = 31) then rz 64 m
             else extended N vb (rz vb m) option imm3
    let op : BinOp := if sub then .sub else .add
    let l := rs N n
    if s then some (straight addr (flagOps N op l r ++ [setZ N d (.bin op l r)]))
    else some (straight addr [setS N d (.bin op l r)])

/-! ### mov -/

/-- ORR (shifted register) with Rn = 31, no shift: `mov Rd, Rm` -/
def movReg (w : BitVec 32) (addr : Nat) : Option BTR :=
  let N := if bit w 31 then 64 else 32
  if fld w 30 29 = 1 ∧ !bit w 21 ∧ fld w 23 22 = 0 ∧ fld w 15 10 = 0 ∧ fld w 9 5 = 31 then
    some (straight addr [setZ N (fld w 4 0) (rz N (fld w 20 16))])
  else none

/-- MOVZ / MOVN when bad64 prints them as `mov` -/
def movWide (w : BitVec 32) (addr : Nat) : Option BTR :=
  let N := if bit w 31 then 64 else 32
  let opc := fld w 30 29
  let hw := fld w 22 21
  let imm16 := fld w 20 5
  let d := fld w 4 0
  if N = 32 ∧ hw ≥ 2 then none
  else if imm16 = 0 ∧ hw ≠ 0 then none                     -- stays movz / movn
  else if opc = 2 then some (straight addr [setZ N d (k (imm16 <<< (16 * hw)) N)])
  else if opc = 0 then
    if N = 32 ∧ imm16 = 0xffff then none                   -- stays movn
    else some (straight addr [setZ N d (k (2 ^ N - 1 - (imm16 <<< (16 * hw))) N)])
  else none


/-- the value fits one 16-bit halfword of a 64-bit word -/
def oneHalfword (v : Nat) : Bool :=
  [0, 16, 32, 48].any fun sh => v &&& (0xffffffffffffffff - (0xffff <<< sh)) == 0

/-- bad64's `MoveWidePreferred` (arch-arm64/disassembler/pcode.c): the element size is the register size and the
    decoded immediate, or its complement, fits one halfword — then the ORR-immediate is NOT printed as `mov` -/
def moveWidePreferred (sf immN : Bool) (imms immr : Nat) : Bool :=
  let width := if sf then 64 else 32
  if sf ∧ !immN then false
  else if !sf ∧ (immN ∨ imms ≥ 32) then false
  else
    match A64.decodeBitMasks (if immN then 1 else 0) imms immr width with
    | none => false
    | some imm => oneHalfword imm.toNat || oneHalfword (2 ^ width - 1 - imm.toNat)

/-- ORR (immediate) with Rn = 31 when bad64 prints it as `mov Rd|SP, #bitmask` -/
def movBitmask (w : BitVec 32) (addr : Nat) : Option BTR :=
  let N := if bit w 31 then 64 else 32
  if fld w 30 29 = 1 ∧ fld w 9 5 = 31 ∧ !(N = 32 ∧ bit w 22) ∧
      !moveWidePreferred (bit w 31) (bit w 22) (fld w 15 10) (fld w 21 16) then
    match A64.decodeBitMasks (fld w 22 22) (fld w 15 10) (fld w 21 16) N with
    | some imm => some (straight addr [setS N (fld w 4 0) (k imm.toNat N)])
    | none => none
  else none

/-! ### loads and stores (integer, immediate forms) -/

/-- `mem_operand_address`: (address expression, write-back) for the immediate addressing modes.
    mode: 4 = unsigned offset (byte offset given), 0 = unscaled, 1 = post-index, 3 = pre-index -/
def memOperand (mode n off : Nat) : Expr × List Op :=
  let base := Expr.scalar (sc (sName n) 64)
  let indexed := Expr.bin .add base (k off 64)
  match mode with
  | 1 => (base, [.assign (sc (sName n) 64) indexed])
  | 3 => (indexed, [.assign (sc (sName n) 64) indexed])
  | _ => (indexed, [])

def ldstImm (w : BitVec 32) (addr : Nat) : Option BTR :=
  let size := fld w 31 30
  let opc := fld w 23 22
  let n := fld w 9 5
  let t := fld w 4 0
  if bit w 26 then none
  else
    let unsignedOff := fld w 25 24 = 1
    let mode := if unsignedOff then 4 else fld w 11 10
    if ¬ unsignedOff ∧ (fld w 25 24 ≠ 0 ∨ bit w 21 ∨ mode = 2) then none
    else
      let off := if unsignedOff then fld w 21 10 <<< size
                 else (A64.sext64 (fld w 20 12) 9 0).toNat
      let (address, wb) := memOperand mode n off
      let bits := 8 <<< size
      match A64.decodeSizeOpc size opc with
      | none => none
      | some (.prefetch, _, _) => if mode = 4 ∨ mode = 0 then some (straight addr [.nop]) else none
      | some (.store, _, regsize) =>
        -- str: the register at its own width; strb/strh: the W register truncated
        let v := if size ≥ 2 then rz regsize t else .ext .trun bits (rz 32 t)
        some (straight addr ([.store address v] ++ wb))
      | some (.load, signed, regsize) =>
        let tmp := temp addr bits
        let v := if signed then Expr.ext .sext regsize (.scalar tmp) else .scalar tmp
        let width := if signed then regsize else bits
        some (straight addr ([.load tmp address, setZ width t v] ++ wb))

/-! ### branches -/

def target (addr : Nat) (imm bits : Nat) : Nat := (BitVec.ofNat 64 addr + A64.sext64 imm bits 2).toNat

def flagE (n : String) : Expr := .scalar (sc n 1)
def notE (e : Expr) : Expr := .bin .cmpneq e (k 1 1)

def condExpr (c : Nat) : Expr :=
  match c with
  | 0 => flagE "z"
  | 1 => flagE "c"
  | 2 => flagE "n"
  | 3 => flagE "v"
  | 4 => .bin .and (flagE "c") (notE (flagE "z"))
  | 5 => .bin .cmpeq (flagE "n") (flagE "v")
  | _ => .bin .and (.bin .cmpeq (flagE "n") (flagE "v")) (notE (flagE "z"))

def branches (w : BitVec 32) (addr : Nat) : Option BTR :=
  if fld w 30 26 = 0b00101 then
    let t := target addr (fld w 25 0) 26
    if bit w 31 then
      some (straight addr [.assign (sc "x30" 64) (k ((addr + 4) % 2 ^ 64) 64), .branch (k t 64)])
    else some (terminator addr [] [(t, none)])
  else if fld w 31 25 = 0b0101010 then
    if bit w 24 ∨ bit w 4 then none
    else
      let t := target addr (fld w 23 5) 19
      let cond := fld w 3 0
      if cond / 2 = 7 then some (terminator addr [] [(t, none)])
      else
        let ct := condExpr (cond / 2)
        let cf := notE ct
        if cond % 2 = 1 then some (terminator addr [] [(t, some cf), (addr + 4, some ct)])
        else some (terminator addr [] [(t, some ct), (addr + 4, some cf)])
  else if fld w 30 25 = 0b011010 then
    let N := if bit w 31 then 64 else 32
    let t := target addr (fld w 23 5) 19
    let v := rz N (fld w 4 0)
    let ne := Expr.bin .cmpneq v (k 0 N)
    let eq := Expr.bin .cmpeq v (k 0 N)
    if bit w 24 then some (terminator addr [] [(t, some ne), (addr + 4, some eq)])
    else some (terminator addr [] [(t, some eq), (addr + 4, some ne)])
  else if fld w 30 25 = 0b011011 then
    let N := if bit w 31 then 64 else 32
    let t := target addr (fld w 18 5) 14
    let bitpos := fld w 31 31 * 32 + fld w 23 19
    let v := Expr.bin .and (rz N (fld w 4 0)) (k (2 ^ bitpos) N)
    let ne := Expr.bin .cmpneq v (k 0 N)
    let eq := Expr.bin .cmpeq v (k 0 N)
    if bit w 24 then some (terminator addr [] [(t, some ne), (addr + 4, some eq)])
    else some (terminator addr [] [(t, some eq), (addr + 4, some ne)])
  else if fld w 31 25 = 0b1101011 then
    if fld w 20 16 ≠ 31 ∨ fld w 15 10 ≠ 0 ∨ fld w 4 0 ≠ 0 then none
    else
      let n := fld w 9 5
      match fld w 24 21 with
      | 0 => some (terminator addr [.branch (rz 64 n)] [])
      | 1 =>
        let tmp := temp addr 64
        some (straight addr [.assign tmp (rz 64 n), .assign (sc "x30" 64) (k ((addr + 4) % 2 ^ 64) 64),
                             .branch (.scalar tmp)])
      | 2 => some (terminator addr [.branch (rz 64 n)] [])
      | _ => none
  else none

/-! ### loads and stores: the other integer forms -/

/-- the instruction body `ldr*/str*/prfm` share once the address expression is known (`semantics.rs` ldr, ldrb, …) -/
def ldstBody (addr size opc t : Nat) (address : Expr) (wb : List Op) : Option BTR :=
  let bits := 8 <<< size
  match A64.decodeSizeOpc size opc with
  | none => none
  | some (.prefetch, _, _) => some (straight addr [.nop])
  | some (.store, _, regsize) =>
    let v := if size ≥ 2 then rz regsize t else .ext .trun bits (rz 32 t)
    some (straight addr ([.store address v] ++ wb))
  | some (.load, signed, regsize) =>
    let tmp := temp addr bits
    let v := if signed then Expr.ext .sext regsize (.scalar tmp) else .scalar tmp
    let width := if signed then regsize else bits
    some (straight addr ([.load tmp address, setZ width t v] ++ wb))

/-- the offset operand of the register-offset forms: `[Xn|SP, Xm{, lsl #s}]` and `[Xn|SP, Wm|Xm, uxtw|sxtw|sxtx {#s}]` -/
def regOffset (m option amt : Nat) (s : Bool) : Expr :=
  if option = 3 ∧ !s then rz 64 m
  else extended 64 (if option % 4 = 3 then 64 else 32) (rz (if option % 4 = 3 then 64 else 32) m) option amt

/-- register offset: `size 111 0 00 opc 1 Rm option S 10 Rn Rt` -/
def ldstReg (w : BitVec 32) (addr : Nat) : Option BTR :=
  let size := fld w 31 30
  let option := fld w 15 13
  let s := bit w 12
  if bit w 26 then none
  else if option % 4 < 2 then none
  else
    let address := Expr.bin .add (.scalar (sc (sName (fld w 9 5)) 64))
      (regOffset (fld w 20 16) option (if s then size else 0) s)
    ldstBody addr size (fld w 23 22) (fld w 4 0) address []

/-- the `size 111 V 00/01 …` space: register offset or one of the immediate forms -/
def ldstSingleM (w : BitVec 32) (addr : Nat) : Option BTR :=
  if fld w 25 24 = 0 ∧ bit w 21 ∧ fld w 11 10 = 2 then ldstReg w addr else ldstImm w addr

/-- LDR (literal), LDRSW (literal), PRFM (literal): `opc 011 0 00 imm19 Rt` -/
def ldLiteral (w : BitVec 32) (addr : Nat) : Option BTR :=
  if bit w 26 then none
  else
    let address := k (target addr (fld w 23 5) 19) 64
    let t := fld w 4 0
    match fld w 31 30 with
    | 0 => ldstBody addr 2 1 t address []
    | 1 => ldstBody addr 3 1 t address []
    | 2 => ldstBody addr 2 2 t address []
    | _ => ldstBody addr 3 2 t address []

/-- LDAR/LDLAR/STLR/STLLR and their byte/halfword forms, lifted as plain accesses: `size 001000 1 L 0 Rs o0 Rt2 Rn Rt` -/
def ldstOrdered (w : BitVec 32) (addr : Nat) : Option BTR :=
  if !bit w 23 ∨ bit w 21 then none
  else
    let address := Expr.bin .add (.scalar (sc (sName (fld w 9 5)) 64)) (k 0 64)
    ldstBody addr (fld w 31 30) (if bit w 22 then 1 else 0) (fld w 4 0) address []

/-- STLUR/STLURB/STLURH: `size 011001 00 0 imm9 00 Rn Rt` -/
def stlur (w : BitVec 32) (addr : Nat) : Option BTR :=
  if fld w 23 22 ≠ 0 ∨ bit w 21 ∨ fld w 11 10 ≠ 0 then none
  else
    let address := Expr.bin .add (.scalar (sc (sName (fld w 9 5)) 64)) (k (A64.sext64 (fld w 20 12) 9 0).toNat 64)
    ldstBody addr (fld w 31 30) 0 (fld w 4 0) address []

/-- LDP/STP/LDPSW/LDNP/STNP (integer): `opc 101 0 mode L imm7 Rt2 Rn Rt` -/
def ldstPairInt (w : BitVec 32) (addr : Nat) : Option BTR :=
  let opc := fld w 31 30
  let mode := fld w 25 23
  let load := bit w 22
  let t := fld w 4 0
  let n := fld w 9 5
  let t2 := fld w 14 10
  if bit w 26 then none
  else if mode > 3 ∨ opc = 3 then none
  else
    let signed := opc = 1
    if signed ∧ (!load ∨ mode = 0) then none
    else
      let scale := 2 + opc / 2
      let bits := 8 <<< scale
      let off := (A64.sext64 (fld w 21 15) 7 scale).toNat
      let (address, wb) := memOperand (if mode = 1 then 1 else if mode = 3 then 3 else 4) n off
      let second := Expr.bin .add address (k (bits / 8) 64)
      if load then
        let tmp0 := temp addr bits
        let tmp1 := temp (addr + 1) bits
        let width := if signed then 64 else bits
        let v (tmp : Scalar) : Expr := if signed then Expr.ext .sext 64 (.scalar tmp) else .scalar tmp
        some (straight addr ([.load tmp0 address, .load tmp1 second, setZ width t (v tmp0), setZ width t2 (v tmp1)] ++ wb))
      else
        some (straight addr ([.store address (rz bits t), .store second (rz bits t2)] ++ wb))

/-- the integer load/store space outside `size 111 …`: `op0 = x1x0` -/
def ldstOther (w : BitVec 32) (addr : Nat) : Option BTR :=
  if fld w 29 27 = 0b101 then ldstPairInt w addr
  else if fld w 29 27 = 0b011 ∧ fld w 25 24 = 0 then ldLiteral w addr
  else if fld w 29 24 = 0b001000 then ldstOrdered w addr
  else if fld w 29 24 = 0b011001 then stlur w addr
  else none

/-! ### the mirror -/

def lift (w : BitVec 32) (addr : Nat) : Option BTR :=
  if w.toNat = 0xd503201f then some (straight addr [.nop])
  else if fld w 28 23 = 0b100010 then addSubImm w addr
  else if fld w 28 24 = 0b01011 ∧ !bit w 21 then addSubShift w addr
  else if fld w 28 24 = 0b01010 then movReg w addr
  else if fld w 28 23 = 0b100101 then movWide w addr
  else if fld w 29 27 = 0b111 ∧ !bit w 25 then ldstSingleM w addr
  else if fld w 28 23 = 0b100100 then movBitmask w addr
  else if fld w 28 24 = 0b01011 then addSubExt w addr
  else if fld w 27 27 = 1 ∧ fld w 25 25 = 0 then ldstOther w addr
  else branches w addr

/-- does the mirror cover this word?  (used by the driver: `none` from `lift` on a covered word means
    "the lifter rejects it") -/
def covered (w : BitVec 32) : Bool :=
  w.toNat = 0xd503201f ∨ fld w 28 23 = 0b100010 ∨ fld w 28 24 = 0b01011 ∨ fld w 28 24 = 0b01010 ∨
  fld w 28 23 = 0b100101 ∨
  (fld w 28 23 = 0b100100 ∧ (A64.decodeBitMasks (fld w 22 22) (fld w 15 10) (fld w 21 16) (if bit w 31 then 64 else 32)).isSome) ∨
  (fld w 27 27 = 1 ∧ fld w 25 25 = 0 ∧ !bit w 26) ∨
  fld w 30 26 = 0b00101 ∨ fld w 31 25 = 0b0101010 ∨ fld w 30 25 = 0b011010 ∨ fld w 30 25 = 0b011011 ∨
  fld w 31 25 = 0b1101011

def btrEq (a b : BTR) : Bool :=
  a.addr == b.addr && a.length == b.length && decide (a.instrs = b.instrs) && decide (a.succs = b.succs)

end A64Lift
end Falcon
