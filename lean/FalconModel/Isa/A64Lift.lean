/-
  FalconModel.Isa.A64Lift — Lean mirror of what falcon's AArch64 lifter emits (option (A) of LIFTER_BRIEF).
-/
import FalconModel.Lift

namespace Falcon
namespace A64Lift

def btrEq (a b : BTR) : Bool :=
  a.addr == b.addr && a.length == b.length && decide (a.instrs = b.instrs) && decide (a.succs = b.succs)

def lift (_w : BitVec 32) (_addr : Nat) : Option BTR := none

end A64Lift
end Falcon
