/-
  FalconModel.FilIL — FIL for operations, blocks, functions and programs (one S-expression per object,
  so a whole function fits on one request line).

    prog  := (prog fn*)
    fn    := (fn <addr> <index|-> <entry|-> <exit|-> <nextIndex> <nextTemp> blk* edge*)
    blk   := (blk <i> <nextInstr> phi* ins*)
    phi   := (phi <scalar> <entry-scalar|-> (<pred> <scalar>)*)
    ins   := (ins <idx> <addr|-> op)
    op    := (assign sc e) | (store idx src) | (load sc idx) | (branch e) | (intrinsic <mnem> <w> <r>) | (nop)
             w, r := - | (e*)
    edge  := (edge <h> <t> <-|e>)
  The Rust side (harness/src/fil.rs) prints and reads exactly this.
-/
import FalconModel.FilExpr
import FalconModel.IL

namespace Falcon
namespace Fil

def optNat? : Sx → Option (Option Nat)
  | .atom "-" => some none
  | x => x.nat?.map some

def scalarSx? : Sx → Option Scalar
  | .list (.atom "s" :: rest) => scalar? rest
  | _ => none

def exprList? : List Sx → Option (List Expr)
  | [] => some []
  | x :: xs => do pure ((← expr? x) :: (← exprList? xs))

def optExprs? : Sx → Option (Option (List Expr))
  | .atom "-" => some none
  | .list xs => (exprList? xs).map some
  | _ => none

def op? : Sx → Option Op
  | .list [.atom "assign", d, e] => do pure (.assign (← scalarSx? d) (← expr? e))
  | .list [.atom "store", i, s] => do pure (.store (← expr? i) (← expr? s))
  | .list [.atom "load", d, i] => do pure (.load (← scalarSx? d) (← expr? i))
  | .list [.atom "branch", t] => do pure (.branch (← expr? t))
  | .list [.atom "intrinsic", .atom m, w, r] => do
      pure (.intrinsic { mnemonic := m, written := (← optExprs? w), read := (← optExprs? r) })
  | .list [.atom "nop"] => some .nop
  | _ => none

def ins? : Sx → Option Instr
  | .list [.atom "ins", i, a, o] => do pure { index := (← i.nat?), addr := (← optNat? a), op := (← op? o) }
  | _ => none

def incoming? : List Sx → Option (List (Nat × Scalar))
  | [] => some []
  | .list [p, s] :: xs => do pure (((← p.nat?), (← scalarSx? s)) :: (← incoming? xs))
  | _ => none

def phi? : Sx → Option Phi
  | .list (.atom "phi" :: out :: ent :: inc) => do
      let e ← match ent with
        | .atom "-" => some none
        | x => (scalarSx? x).map some
      pure { out := (← scalarSx? out), entry := e, incoming := (← incoming? inc) }
  | _ => none

def blkItems? : List Sx → Option (List Phi × List Instr)
  | [] => some ([], [])
  | x :: xs => do
      let (ps, is) ← blkItems? xs
      match x with
      | .list (.atom "phi" :: _) => do pure ((← phi? x) :: ps, is)
      | .list (.atom "ins" :: _) => do pure (ps, (← ins? x) :: is)
      | _ => none

def blk? : Sx → Option Block
  | .list (.atom "blk" :: i :: n :: items) => do
      let (ps, is) ← blkItems? items
      pure { index := (← i.nat?), nextInstr := (← n.nat?), instrs := is, phis := ps }
  | _ => none

def edge? : Sx → Option Edge
  | .list [.atom "edge", h, t, c] => do
      let c ← match c with
        | .atom "-" => some none
        | x => (expr? x).map some
      pure { head := (← h.nat?), tail := (← t.nat?), cond := c }
  | _ => none

def fnItems? : List Sx → Option (List Block × List Edge)
  | [] => some ([], [])
  | x :: xs => do
      let (bs, es) ← fnItems? xs
      match x with
      | .list (.atom "blk" :: _) => do pure ((← blk? x) :: bs, es)
      | .list (.atom "edge" :: _) => do pure (bs, (← edge? x) :: es)
      | _ => none

def function? : Sx → Option Function
  | .list (.atom "fn" :: a :: idx :: en :: ex :: ni :: nt :: items) => do
      let (bs, es) ← fnItems? items
      pure { addr := (← a.nat?), index := (← optNat? idx),
             cfg := { blocks := bs, edges := es, entry := (← optNat? en), exit := (← optNat? ex),
                      nextIndex := (← ni.nat?), nextTemp := (← nt.nat?) } }
  | _ => none

def functions? : List Sx → Option (List Function)
  | [] => some []
  | x :: xs => do pure ((← function? x) :: (← functions? xs))

/-- the functions are ADDED in order (`Program::add_function`): whatever index a function carries in the text (one cloned
    out of another program carries that program's index) it gets the next free index of this program -/
def program? : Sx → Option Program
  | .list (.atom "prog" :: fs) => do
      let gs ← functions? fs
      pure { functions := gs.zipIdx.map (fun (g, i) => { g with index := some i }) }
  | _ => none

-- printers ------------------------------------------------------------------------------------

def hex (n : Nat) : String := "0x" ++ Const.hexDigits n

def optNatStr : Option Nat → String
  | none => "-"
  | some n => toString n

def optHexStr : Option Nat → String
  | none => "-"
  | some n => hex n

def optExprsStr : Option (List Expr) → String
  | none => "-"
  | some es => "(" ++ " ".intercalate (es.map exprStr) ++ ")"

def opStr : Op → String
  | .assign d e => s!"(assign {scalarStr d} {exprStr e})"
  | .store i s => s!"(store {exprStr i} {exprStr s})"
  | .load d i => s!"(load {scalarStr d} {exprStr i})"
  | .branch t => s!"(branch {exprStr t})"
  | .intrinsic i => s!"(intrinsic {i.mnemonic} {optExprsStr i.written} {optExprsStr i.read})"
  | .nop => "(nop)"

def insStr (i : Instr) : String := s!"(ins {i.index} {optHexStr i.addr} {opStr i.op})"

def phiStr (p : Phi) : String :=
  let ent := match p.entry with | none => "-" | some s => scalarStr s
  let inc := p.incoming.map (fun (b, s) => s!"({b} {scalarStr s})")
  " ".intercalate (["(phi", scalarStr p.out, ent] ++ inc) ++ ")"

def blkStr (b : Block) : String :=
  " ".intercalate (["(blk", toString b.index, toString b.nextInstr] ++ b.phis.map phiStr ++ b.instrs.map insStr) ++ ")"

def edgeStr (e : Edge) : String :=
  let c := match e.cond with | none => "-" | some x => exprStr x
  s!"(edge {e.head} {e.tail} {c})"

def functionStr (f : Function) : String :=
  " ".intercalate (["(fn", hex f.addr, optNatStr f.index, optNatStr f.cfg.entry, optNatStr f.cfg.exit,
    toString f.cfg.nextIndex, toString f.cfg.nextTemp] ++ f.cfg.blocks.map blkStr ++ f.cfg.edges.map edgeStr) ++ ")"

def programStr (p : Program) : String :=
  " ".intercalate ("(prog" :: p.functions.map functionStr) ++ ")"

end Fil
end Falcon
