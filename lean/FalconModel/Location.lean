/-
  FalconModel.Location — program locations (`lib/il/location.rs`, `Function::locations` of
  `lib/il/function.rs`, `Program::function` of `lib/il/program.rs`).

  `RefFunctionLocation<'f>` holds references to a block / an instruction / an edge; Rust's derived `Eq`/`Hash`
  on it compare the referenced *values*, so the mirror `FLoc` holds the values.  `FunctionLocation` /
  `ProgramLocation` (the owned, program-independent forms) hold indices: `OFLoc` / `OPLoc`.

  Every `Err(..)` of this file is canonicalised to `err:other` by the line protocol, so the model returns
  `Res.err .other` wherever the code returns an error; `unwrap()` on `None` is `Res.panic`.

  The second half is the *specification*: the declarative successor relation `succB`, the declarative list
  of locations, and a generic verified work-list closure `closure` (used for "reachable by repeated forward
  steps" here and for the key set of the fixed-point engine in C09).
-/
import FalconModel.IL

namespace Falcon

/-- `RefFunctionLocation` -/
inductive FLoc where
  | instr (b : Block) (i : Instr)
  | edge (e : Edge)
  | empty (b : Block)
  deriving DecidableEq, Repr, Inhabited

/-- `RefProgramLocation` -/
structure PLoc where
  fn : Function
  loc : FLoc
  deriving DecidableEq, Repr, Inhabited

/-- `FunctionLocation` -/
inductive OFLoc where
  | instr (bi ii : Nat)
  | edge (h t : Nat)
  | empty (bi : Nat)
  deriving DecidableEq, Repr, Inhabited

/-- `ProgramLocation` -/
structure OPLoc where
  fidx : Option Nat
  loc : OFLoc
  deriving DecidableEq, Repr, Inhabited

namespace Cfg
/-- `ControlFlowGraph::block(index)` as a `Result` -/
def blockR (c : Cfg) (i : Nat) : Res Block :=
  match c.block i with
  | some b => .ok b
  | none => .err .other
/-- `ControlFlowGraph::edge(head, tail)` as a `Result` -/
def edgeR (c : Cfg) (h t : Nat) : Res Edge :=
  match c.edge h t with
  | some e => .ok e
  | none => .err .other
/-- `edges_out(index)`: `GraphVertexNotFound` when the vertex has no entry in the successor map -/
def edgesOutR (c : Cfg) (i : Nat) : Res (List Edge) :=
  if c.hasBlock i then .ok (c.edgesOut i) else .err .other
/-- `edges_in(index)` -/
def edgesInR (c : Cfg) (i : Nat) : Res (List Edge) :=
  if c.hasBlock i then .ok (c.edgesIn i) else .err .other
end Cfg

/-- scan a list of instructions for the first one whose index is `idx`; answer the element that follows it
    (`some none`: it was the last one; `none`: no such instruction).  `instruction_forward` scans the block
    front to back, `instruction_backward` back to front, i.e. the reversed list. -/
def nextAfter : List Instr → Nat → Option (Option Instr)
  | [], _ => none
  | x :: xs, idx => if x.index = idx then some xs.head? else nextAfter xs idx

namespace FLoc

/-- `RefProgramLocation::instruction_forward` -/
def instrForward (f : Function) (b : Block) (i : Instr) : Res (List FLoc) :=
  match nextAfter b.instrs i.index with
  | some (some j) => .ok [.instr b j]
  | some none => (f.cfg.edgesOutR b.index).map (·.map .edge)
  | none => .err .other

/-- `RefProgramLocation::instruction_backward` -/
def instrBackward (f : Function) (b : Block) (i : Instr) : Res (List FLoc) :=
  match nextAfter b.instrs.reverse i.index with
  | some (some j) => .ok [.instr b j]
  | some none => (f.cfg.edgesInR b.index).map (·.map .edge)
  | none => .err .other

/-- `edge_forward` -/
def edgeForward (f : Function) (e : Edge) : Res (List FLoc) :=
  (f.cfg.blockR e.tail).map fun blk =>
    match blk.instrs.head? with
    | none => [.empty blk]
    | some i => [.instr blk i]

/-- `edge_backward` -/
def edgeBackward (f : Function) (e : Edge) : Res (List FLoc) :=
  (f.cfg.blockR e.head).map fun blk =>
    match blk.instrs.getLast? with
    | none => [.empty blk]
    | some i => [.instr blk i]

/-- `RefProgramLocation::forward` (the function is the `self.function` of the program location) -/
def forward (f : Function) : FLoc → Res (List FLoc)
  | .instr b i => instrForward f b i
  | .edge e => edgeForward f e
  | .empty b => (f.cfg.edgesOutR b.index).map (·.map .edge)

/-- `RefProgramLocation::backward` -/
def backward (f : Function) : FLoc → Res (List FLoc)
  | .instr b i => instrBackward f b i
  | .edge e => edgeBackward f e
  | .empty b => (f.cfg.edgesInR b.index).map (·.map .edge)

/-- `impl From<RefFunctionLocation> for FunctionLocation` -/
def toOwned : FLoc → OFLoc
  | .instr b i => .instr b.index i.index
  | .edge e => .edge e.head e.tail
  | .empty b => .empty b.index

/-- `RefFunctionLocation::instruction().address()` -/
def address : FLoc → Option Nat
  | .instr _ i => i.addr
  | _ => none

end FLoc

/-- `Function::locations` -/
def Function.locations (f : Function) : List FLoc :=
  f.cfg.blocks.flatMap (fun b => if b.instrs.isEmpty then [FLoc.empty b] else b.instrs.map (FLoc.instr b))
    ++ f.cfg.edges.map FLoc.edge

namespace OFLoc
/-- `FunctionLocation::apply` -/
def apply (o : OFLoc) (f : Function) : Res FLoc :=
  match o with
  | .instr bi ii =>
    match f.cfg.block bi with
    | none => .err .other
    | some b =>
      match b.instruction ii with
      | none => .err .other
      | some i => .ok (.instr b i)
  | .edge h t =>
    match f.cfg.edge h t with
    | none => .err .other
    | some e => .ok (.edge e)
  | .empty bi =>
    match f.cfg.block bi with
    | none => .err .other
    | some b => .ok (.empty b)
end OFLoc

namespace PLoc
/-- `impl From<RefProgramLocation> for ProgramLocation` -/
def toOwned (l : PLoc) : OPLoc := { fidx := l.fn.index, loc := l.loc.toOwned }
def address (l : PLoc) : Option Nat := l.loc.address
def forward (l : PLoc) : Res (List PLoc) := (l.loc.forward l.fn).map (·.map (PLoc.mk l.fn))
def backward (l : PLoc) : Res (List PLoc) := (l.loc.backward l.fn).map (·.map (PLoc.mk l.fn))

/-- `RefProgramLocation::migrate`: `self.function().index().unwrap()` panics for a function outside a program -/
def migrate (l : PLoc) (p : Program) : Res PLoc :=
  match l.fn.index with
  | none => .panic
  | some fi =>
    match p.function fi with
    | none => .err .other
    | some g =>
      match l.loc with
      | .instr b i =>
        match g.cfg.block b.index with
        | none => .err .other
        | some b' =>
          match b'.instruction i.index with
          | none => .err .other
          | some i' => .ok ⟨g, .instr b' i'⟩
      | .edge e =>
        match g.cfg.edge e.head e.tail with
        | none => .err .other
        | some e' => .ok ⟨g, .edge e'⟩
      | .empty b =>
        match g.cfg.block b.index with
        | none => .err .other
        | some b' => .ok ⟨g, .empty b'⟩
end PLoc

namespace OPLoc
/-- `ProgramLocation::apply` -/
def apply (o : OPLoc) (p : Program) : Res PLoc :=
  match o.fidx with
  | none => .err .other
  | some fi =>
    match p.function fi with
    | none => .err .other
    | some f => (o.loc.apply f).map (PLoc.mk f)
end OPLoc

/-- first location of a block: its first instruction, or the block itself when it is empty -/
def Block.firstLoc (b : Block) : FLoc :=
  match b.instrs.head? with
  | some i => .instr b i
  | none => .empty b

/-- last location of a block (where the backward solver starts) -/
def Block.lastLoc (b : Block) : FLoc :=
  match b.instrs.getLast? with
  | some i => .instr b i
  | none => .empty b

/-- `RefProgramLocation::from_function` -/
def PLoc.fromFunction (f : Function) : Option (Res PLoc) :=
  f.cfg.entry.map fun en => (f.cfg.blockR en).map fun b => ⟨f, b.firstLoc⟩

/-- first instruction (block order, then instruction order) of `f` whose address is `a` -/
def Function.findAddr (f : Function) (a : Nat) : Option FLoc :=
  f.cfg.blocks.findSome? fun b => (b.instrs.find? (fun i => i.addr == some a)).map (FLoc.instr b)

/-- pass 1 of `from_address`: the function with the greatest address `≤ a` (the first such in index order) -/
def closestFunction (a : Nat) : List Function → Option Function → Option Function
  | [], cur => cur
  | f :: fs, cur =>
    if f.addr > a then closestFunction a fs cur
    else match cur with
      | none => closestFunction a fs (some f)
      | some ff => if f.addr > ff.addr then closestFunction a fs (some f) else closestFunction a fs (some ff)

/-- `RefProgramLocation::from_address` -/
def PLoc.fromAddress (p : Program) (a : Nat) : Option PLoc :=
  let pass1 : Option PLoc :=
    match closestFunction a p.functions none with
    | none => none
    | some f => (f.findAddr a).map (PLoc.mk f)
  match pass1 with
  | some l => some l
  | none => p.functions.findSome? fun f => (f.findAddr a).map (PLoc.mk f)

/-! ## Specification side -/

/-- `i` is immediately followed by `j` somewhere in the list -/
def adjB : List Instr → Instr → Instr → Bool
  | x :: y :: r, i, j => (x == i && y == j) || adjB (y :: r) i j
  | _, _, _ => false

/-- The successor relation between locations, stated declaratively:
    consecutive instructions of a block; the last instruction of a block (or the empty block) and each edge
    leaving the block; an edge and the first instruction of its tail block (or the empty tail block). -/
def succB : FLoc → FLoc → Bool
  | .instr b i, .instr b' j => b == b' && adjB b.instrs i j
  | .instr b i, .edge e => b.instrs.getLast? == some i && e.head == b.index
  | .empty b, .edge e => e.head == b.index
  | .edge e, .instr b j => e.tail == b.index && b.instrs.head? == some j
  | .edge e, .empty b => e.tail == b.index
  | _, _ => false

/-- block index a location is anchored at (an edge lies on the paths through its head) -/
def FLoc.anchor : FLoc → Nat
  | .instr b _ => b.index
  | .edge e => e.head
  | .empty b => b.index

/-- well-formed function: what falcon's constructors maintain (`new_block`, `Block::assign…`,
    `unconditional_edge`/`conditional_edge`): unique block indices, unique instruction indices per block,
    unique edges between existing blocks. -/
structure WFf (f : Function) : Prop where
  blocks_nodup : (f.cfg.blocks.map (·.index)).Nodup
  edges_nodup : (f.cfg.edges.map (fun e => (e.head, e.tail))).Nodup
  edge_head : ∀ e ∈ f.cfg.edges, f.cfg.hasBlock e.head = true
  edge_tail : ∀ e ∈ f.cfg.edges, f.cfg.hasBlock e.tail = true
  instrs_nodup : ∀ b ∈ f.cfg.blocks, (b.instrs.map (·.index)).Nodup

def wffB (f : Function) : Bool :=
  decide (f.cfg.blocks.map (·.index)).Nodup
  && decide (f.cfg.edges.map (fun e => (e.head, e.tail))).Nodup
  && f.cfg.edges.all (fun e => f.cfg.hasBlock e.head && f.cfg.hasBlock e.tail)
  && f.cfg.blocks.all (fun b => decide (b.instrs.map (·.index)).Nodup)

/-- well-formed program: what `Program::add_function` maintains -/
structure WFp (p : Program) : Prop where
  idx_some : ∀ f ∈ p.functions, f.index.isSome = true
  idx_nodup : (p.functions.map (·.index)).Nodup

def wfpB (p : Program) : Bool :=
  p.functions.all (fun f => f.index.isSome) && decide (p.functions.map (·.index)).Nodup

/-- reflexive-transitive closure of a list-valued step function -/
inductive Reach {α : Type} (step : α → List α) : α → α → Prop where
  | refl (a : α) : Reach step a a
  | tail {a b c : α} : Reach step a b → c ∈ step b → Reach step a c

/-- work-list closure: pops `todo`, accumulates `seen`; `none` when the fuel (number of pops) runs out -/
def closure {α : Type} [DecidableEq α] (step : α → List α) : Nat → List α → List α → Option (List α)
  | _, [], seen => some seen
  | 0, _ :: _, _ => none
  | n + 1, x :: todo, seen =>
    if x ∈ seen then closure step n todo seen
    else closure step n (step x ++ todo) (x :: seen)

/-- forward step as a list (errors give no successors) -/
def FLoc.stepF (f : Function) (l : FLoc) : List FLoc :=
  match l.forward f with
  | .ok ls => ls
  | _ => []

def FLoc.stepB (f : Function) (l : FLoc) : List FLoc :=
  match l.backward f with
  | .ok ls => ls
  | _ => []

/-- enough fuel for `closure` over the locations of `f`: every location is expanded at most once and every
    expansion pushes at most `|edges| + 1` entries -/
def Function.locFuel (f : Function) : Nat :=
  let n := f.locations.length + 1
  n * (f.cfg.edges.length + 2) + 1

end Falcon
