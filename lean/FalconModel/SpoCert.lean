/-
  FalconModel.SpoCert — the certificate checker for property C17 (stack-pointer offsets,
  `lib/analysis/stack_pointer_offsets.rs`).

  falcon's `stack_pointer_offsets(&function, &architecture)` returns, for every location the fixed point
  visited, the abstract value of the stack pointer immediately AFTER that location executes:
  `Top | Value(isize) | Bottom`, `Value(k)` claiming "sp = (sp at function entry) + k".

  The checker does not re-run the analysis.  It takes the reported map `R` and accepts when `R` is closed under
  the checker's OWN abstract step along every edge of the location graph
  (`RefProgramLocation::forward`: instruction → next instruction | out-edges of its block; edge → first
  instruction of the tail | the empty tail block; empty block → its out-edges):

      entry:  for the location l of the entry point:   xfer (operation at l) (value 0) ⊑ R l
      l → l': R l = some a  ⇒  R l' = some a'  and  xfer (operation at l') a ⊑ a'

  The checker's step for `sp := e` computes the LINEAR FORM of `e` in `sp` modulo `2^w`
  (`linear`: through add / sub / mul-by-a-constant, nested arbitrarily; closed subexpressions are evaluated
  with the C04 model of `eval`) and yields a number only when the coefficient of `sp` is one, i.e.
  `e ≡ sp + c`; everything else, and every load into `sp`, yields `top`.  Scalars are identified by NAME (the
  executor's state is keyed by name).

  Offsets live in `BitVec w` (`w` = width of the stack pointer): that IS "modulo `2^w`", and the signed reading
  the property speaks of is `BitVec.toInt`.  `reportedIsize` is falcon's `value_u64() as isize`.

  `FalconProofs/Props/C17.lean` proves: `spoCheck strict f sp R = true →` on every run of `FStep` from the entry,
  after every location `l` executes with `R l = value k`, the state holds `sp = s₀ + k`.

  `strict`: runs of `FStep` end at intrinsics and at `Operation::Branch` (the executor has no semantics for the
  former and leaves the function at the latter), so any abstract step is sound for them.  With `strict = false`
  the checker keeps the offset across them (what falcon does, and what no execution can contradict); with
  `strict = true` an intrinsic that may write the stack pointer (declared, or effects undeclared) gives `top`.
  The verdict of the check uses `strict = false`; the strict verdict is reported as a note.
-/
import FalconModel.Exec

namespace Falcon
namespace SpoCert

/-- `il::FunctionLocation` -/
inductive Loc where
  | instr (block index : Nat)
  | edge (head tail : Nat)
  | empty (block : Nat)
  deriving DecidableEq, Repr, Inhabited

def Loc.str : Loc → String
  | .instr b i => s!"i:{b}:{i}"
  | .edge h t => s!"e:{h}:{t}"
  | .empty b => s!"b:{b}"

/-- the analysis' lattice: `bottom ⊑ value k ⊑ top` -/
inductive AOff (w : Nat) where
  | top
  | value (k : BitVec w)
  | bottom
  deriving DecidableEq, Repr, Inhabited

abbrev Report (w : Nat) := Loc → Option (AOff w)

/-- `a ⊑ b`: everything `b` claims follows from `a` -/
def AOff.le {w : Nat} : AOff w → AOff w → Bool
  | .bottom, _ => true
  | _, .top => true
  | .value a, .value b => a == b
  | _, _ => false

-- ------------------------------------------------------------------ the linear form

/-- a closed expression of width `w` as the form `0·sp + c` -/
def closedVal (w : Nat) (e : Expr) : Option (BitVec w × BitVec w) :=
  if e.allConstants then
    match e.eval with
    | .ok c => if c.bits = w ∧ c.val < 2 ^ w then some (0, BitVec.ofNat w c.val) else none
    | _ => none
  else none

/-- `linear sp w e = some (coef, c)`: in every state where `sp` holds the `w`-bit value `s`, `e` evaluates to
    `s * coef + c` (modulo `2^w`), if it evaluates at all -/
def linear (sp : String) (w : Nat) : Expr → Option (BitVec w × BitVec w)
  | .scalar s => if s.name = sp then some (1, 0) else none
  | .const c => closedVal w (.const c)
  | .bin op l r =>
    match op with
    | .add =>
      match linear sp w l, linear sp w r with
      | some (a, b), some (c, d) => some (a + c, b + d)
      | _, _ => none
    | .sub =>
      match linear sp w l, linear sp w r with
      | some (a, b), some (c, d) => some (a - c, b - d)
      | _, _ => none
    | .mul =>
      match linear sp w l, linear sp w r with
      | some (a, b), some (c, d) =>
        if a = 0 then some (b * c, b * d)
        else if c = 0 then some (a * d, b * d)
        else none
      | _, _ => none
    | _ => closedVal w (.bin op l r)
  | .ext op b e => closedVal w (.ext op b e)
  | .ite c t e => closedVal w (.ite c t e)

-- ------------------------------------------------------------------ the abstract step

/-- the names an intrinsic may write include `sp` (`None` = effects undeclared) -/
def mayWrite (sp : String) (i : Intrinsic) : Bool :=
  match i.scalarsWritten with
  | none => true
  | some ws => ws.any (fun s => s.name == sp)

/-- `top`, unless nothing reaches the location -/
def AOff.havoc {w : Nat} : AOff w → AOff w
  | .bottom => .bottom
  | _ => .top

/-- the checker's own abstract step: the offset after the operation, from the offset before it
    (`none` = an edge or an empty block: nothing executes) -/
def xfer (strict : Bool) (sp : String) (w : Nat) (op : Option Op) (a : AOff w) : AOff w :=
  match op with
  | none => a
  | some (.assign dst src) =>
    if dst.name = sp then
      match a with
      | .value k =>
        match linear sp w src with
        | some (coef, c) => if coef = 1 then .value (k + c) else .top
        | none => .top
      | .top => .top
      | .bottom => .bottom
    else a
  | some (.load dst _) => if dst.name = sp then a.havoc else a
  | some (.store _ _) => a
  | some (.branch _) => a
  | some (.intrinsic i) => if strict && mayWrite sp i then a.havoc else a
  | some .nop => a

-- ------------------------------------------------------------------ the checker

/-- the locations executed next from the configuration (block, position), with their operations:
    the instruction there; the empty block; or, at the end of a non-empty block, its out-edges -/
def primary (f : Function) (bk : Block) (pos : Nat) : List (Loc × Option Op) :=
  match bk.instrs[pos]? with
  | some i => [(.instr bk.index i.index, some i.op)]
  | none =>
    if bk.instrs.isEmpty then [(.empty bk.index, none)]
    else (f.cfg.edgesOut bk.index).map (fun e => (.edge bk.index e.tail, none))

section
variable (strict : Bool) (sp : String) {w : Nat}

def flows (a : AOff w) (R : Report w) (p : Loc × Option Op) : Bool :=
  match R p.1 with
  | none => false
  | some a' => (xfer strict sp w p.2 a).le a'

def entryOk (f : Function) (R : Report w) : Bool :=
  match f.cfg.entry with
  | none => true
  | some e =>
    match f.block e with
    | none => true
    | some bk => (primary f bk 0).all (flows strict sp (.value 0) R)

def instrOk (f : Function) (R : Report w) (bk : Block) (pos : Nat) : Bool :=
  match bk.instrs[pos]? with
  | none => true
  | some i =>
    match R (.instr bk.index i.index) with
    | none => true
    | some a => (primary f bk (pos + 1)).all (flows strict sp a R)

def emptyOk (f : Function) (R : Report w) (bk : Block) : Bool :=
  if bk.instrs.isEmpty then
    match R (.empty bk.index) with
    | none => true
    | some a => (f.cfg.edgesOut bk.index).all (fun e => flows strict sp a R (.edge bk.index e.tail, none))
  else true

def edgeOk (f : Function) (R : Report w) (bk : Block) (e : Edge) : Bool :=
  match R (.edge bk.index e.tail) with
  | none => true
  | some a =>
    match f.block e.tail with
    | none => true
    | some tb => (primary f tb 0).all (flows strict sp a R)

def blockOk (f : Function) (R : Report w) (bk : Block) : Bool :=
  (List.range bk.instrs.length).all (instrOk strict sp f R bk) &&
  emptyOk strict sp f R bk &&
  (f.cfg.edgesOut bk.index).all (edgeOk strict sp f R bk)

/-- the verified checker -/
def spoCheck (f : Function) (R : Report w) : Bool :=
  entryOk strict sp f R && f.cfg.blocks.all (blockOk strict sp f R)

end

-- ------------------------------------------------------------------ what the claims mean

/-- the meaning of an abstract offset for a concrete state, `s0` being the stack pointer at function entry -/
def Holds (sp : String) {w : Nat} (s0 : BitVec w) (σ : State) : AOff w → Prop
  | .top => True
  | .value k => σ.get sp = some (Const.ofBV (s0 + k))
  | .bottom => False

/-- `Executed f c0 l σ`: some run of `f` from configuration `c0` has just executed location `l`, and `σ` is the
    state immediately after it.  An instruction executes and falls through; an edge is taken when control is at
    the end of its head block and its guard is enabled; an empty block is "executed" by being there. -/
inductive Executed (f : Function) (c0 : Config) : Loc → State → Prop where
  | instr {b : Config} {bk : Block} {i : Instr} {σ' : State} :
      FRun f c0 b → f.block b.block = some bk → bk.instrs[b.pos]? = some i →
      execute b.state i.op = .ok (σ', .fallThrough) → Executed f c0 (.instr b.block i.index) σ'
  | edge {b : Config} {bk : Block} {e : Edge} :
      FRun f c0 b → f.block b.block = some bk → b.pos = bk.instrs.length →
      e ∈ f.cfg.edgesOut b.block → guardHolds b.state e.cond → Executed f c0 (.edge b.block e.tail) b.state
  | empty {b : Config} {bk : Block} :
      FRun f c0 b → f.block b.block = some bk → bk.instrs = [] → Executed f c0 (.empty b.block) b.state

-- ------------------------------------------------------------------ falcon's conversion to `isize`

/-- `u64 as isize` -/
def asIsize (v : Nat) : Int := (BitVec.ofNat 64 v).toInt

/-- `StackPointerOffset::from_intermediate` on a `Value`: `value_u64().ok_or(..)? as isize` -/
def reportedIsize (c : Const) : Option Int := if c.val < 2 ^ 64 then some (asIsize c.val) else none

/-- how the check reads a reported `isize`: as an offset modulo `2^w` -/
def ofReported (w : Nat) (i : Int) : BitVec w := BitVec.ofInt w i

-- ------------------------------------------------------------------ unverified helpers for the driver

/-- the flow relation the checker walks: (l, l', operation at l') -/
def flowEdges (f : Function) : List (Loc × Loc × Option Op) :=
  f.cfg.blocks.flatMap (fun bk =>
    ((List.range bk.instrs.length).flatMap (fun pos =>
      match bk.instrs[pos]? with
      | none => []
      | some i => (primary f bk (pos + 1)).map (fun p => (Loc.instr bk.index i.index, p.1, p.2)))) ++
    (if bk.instrs.isEmpty then
      (f.cfg.edgesOut bk.index).map (fun e => (Loc.empty bk.index, Loc.edge bk.index e.tail, none))
     else []) ++
    (f.cfg.edgesOut bk.index).flatMap (fun e =>
      match f.block e.tail with
      | none => []
      | some tb => (primary f tb 0).map (fun p => (Loc.edge bk.index e.tail, p.1, p.2))))

def entryLocs (f : Function) : List (Loc × Option Op) :=
  match f.cfg.entry with
  | none => []
  | some e =>
    match f.block e with
    | none => []
    | some bk => primary f bk 0

end SpoCert
end Falcon
