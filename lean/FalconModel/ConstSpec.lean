/-
  FalconModel.ConstSpec — the *specification* of the IL operators: fixed-width two's-complement
  bit-vector arithmetic, written with Lean's `BitVec n` and nothing else.

  `specBin`/`specExt` are what property C04 says an operator means.  They are executable (the driver
  prints them next to the model's answer); the two shifts are guarded so that executing the
  specification never builds a `2^(2^64)`-sized number — `FalconProofs.C04.SpecGuards` proves the guarded
  forms equal to the plain `BitVec` operations.
-/
import FalconModel.Expr

namespace Falcon

namespace Const

/-- a `BitVec` as a constant -/
def ofBV {n : Nat} (x : BitVec n) : Const := ⟨n, x.toNat⟩

/-- the bit-vector a constant denotes -/
def toBV (c : Const) : BitVec c.bits := BitVec.ofNat c.bits c.val

/-- well-formed: the stored value is already reduced (all of falcon's constructors guarantee it) -/
def WF (c : Const) : Prop := c.val < 2 ^ c.bits

instance (c : Const) : Decidable c.WF := inferInstanceAs (Decidable (_ < _))

end Const

namespace Spec

open Const

/-- logical shift left that saturates to zero once the amount reaches the width -/
def shl {n : Nat} (x : BitVec n) (s : Nat) : BitVec n := if s ≥ n then 0 else x <<< s

/-- logical shift right that saturates to zero -/
def shr {n : Nat} (x : BitVec n) (s : Nat) : BitVec n := if s ≥ n then 0 else x >>> s

/-- arithmetic shift right that saturates to all-sign-bits -/
def ashr {n : Nat} (x : BitVec n) (s : Nat) : BitVec n :=
  if s ≥ n then (if x.msb then BitVec.allOnes n else 0) else x.sshiftRight s

/-- meaning of a binary operator on two `n`-bit vectors; `none` = division by zero -/
def binBV {n : Nat} (op : BinOp) (x y : BitVec n) : Option Const :=
  match op with
  | .add => some (ofBV (x + y))
  | .sub => some (ofBV (x - y))
  | .mul => some (ofBV (x * y))
  | .divu => if y = 0 then none else some (ofBV (x / y))
  | .modu => if y = 0 then none else some (ofBV (x % y))
  | .divs => if y = 0 then none else some (ofBV (x.sdiv y))
  | .mods => if y = 0 then none else some (ofBV (x.srem y))
  | .and => some (ofBV (x &&& y))
  | .or => some (ofBV (x ||| y))
  | .xor => some (ofBV (x ^^^ y))
  | .shl => some (ofBV (shl x y.toNat))
  | .shr => some (ofBV (shr x y.toNat))
  | .ashr => some (ofBV (ashr x y.toNat))
  | .cmpeq => some (bit (x == y))
  | .cmpneq => some (bit (x != y))
  | .cmplts => some (bit (x.slt y))
  | .cmpltu => some (bit (x.ult y))

/-- what C04 says `a op b` is: sort error iff the widths differ, division error iff the divisor is
    zero, otherwise the `BitVec` result.  Defined for widths ≥ 1. -/
def bin (op : BinOp) (a b : Const) : Res Const :=
  if h : a.bits = b.bits then
    match binBV op a.toBV (h ▸ b.toBV) with
    | some c => .ok c
    | none => .err .div0
  else .err .sort

/-- extension / truncation -/
def ext (op : ExtOp) (a : Const) (m : Nat) : Res Const :=
  match op with
  | .zext => if m ≤ a.bits then .err .sort else .ok (ofBV (a.toBV.zeroExtend m))
  | .sext => if m ≤ a.bits then .err .sort else .ok (ofBV (a.toBV.signExtend m))
  | .trun => if m ≥ a.bits then .err .sort else .ok (ofBV (a.toBV.truncate m))

/-- compositional meaning of a closed expression -/
def denote : Expr → Res Const
  | .scalar _ => .err .scalar
  | .const c => .ok c
  | .bin op l r => do
      let a ← denote l
      let b ← denote r
      bin op a b
  | .ext op m e => do
      let a ← denote e
      ext op a m
  | .ite c t e => do
      let cv ← denote c
      if cv.val = 1 then denote t else denote e

end Spec
end Falcon
