/-
  FalconModel.Backing — mirror of `lib/memory/backing.rs` (`memory::backing::Memory`), and the
  specification it is measured against (a permissioned byte map `Nat → Option (UInt8 × Perm)`).

  Used by C16 (this memory on its own), C08 (the paged memory falls back to a backing memory) and
  C19 (the ELF loader fills one).  Everything is in namespace `Falcon.Backing`.

  API (model, mirrors of the Rust methods; `Res.panic` = a Rust panic, `Res.err` = a returned `Err`):
    `Memory.new e`                      `Memory::new(endian)`
    `Memory.setMemory m a d p`          `set_memory(address, data, permissions)`      : Res Memory
    `Memory.sectionAddress m x`         `section_address(address)`                    : Res (Option Nat)
    `Memory.permissions m x`            `permissions(address)`                        : Res (Option Perm)
    `Memory.get8 m x`                   `get8(address)`                               : Res (Option UInt8)
    `Memory.get m a bits`               `get(address, bits)`                          : Res (Option Const)
    `Memory.get32 m a`                  `get32(address)`                              : Res (Option Nat)
    `Memory.set32 m a v`                `set32(address, value)`                       : Res Memory
    `Memory.sections`                   `sections()` (ascending key order, as `BTreeMap` iterates)
  API (specification):
    `ByteMap`, `ByteMap.empty`, `override`, `overrideBytes`, `abs`, `readBytes`, `assemble`,
    `specGet`, `specGet32`, `within32`, `bytes32`, `Inv` (the representation invariant: sorted, disjoint, non-empty, below 2^64).

  Modelling conventions (DESIGN §3): `u64`/`usize` are `Nat`; every `u64` addition of the source is a
  checked addition (`add64`, the harness builds falcon with overflow checks, so an overflow is a panic);
  `BTreeMap<u64, Section>` is an association list kept in ascending key order (`SMap`), with `find`,
  `insert`, `erase`, `floor` mirroring `get`, `insert`, `remove`, `range(..=k).next_back()`;
  `unwrap`/indexing/`split_off` past the end are explicit `Res.panic`.
  The theorems are in `FalconProofs/Backing/*.lean` and `FalconProofs/Props/C16.lean`.
-/
import FalconModel.Basic
import FalconModel.Const

namespace Falcon.Backing

/-- `MemoryPermissions` (bitflags over `u32`: READ = 1, WRITE = 2, EXECUTE = 4): the raw bits. -/
abbrev Perm := Nat

inductive Endian where
  | big
  | little
  deriving DecidableEq, Repr, Inhabited

/-- `backing::Section`. -/
structure Section where
  data : List UInt8
  perm : Perm
  deriving DecidableEq, Repr, Inhabited

/-- `Section::len`. -/
abbrev Section.len (s : Section) : Nat := s.data.length

abbrev Entry := Nat × Section

/-- end address of an entry (a natural number: never overflows in the model; the mirror functions
    compute it with `add64` wherever the source does). -/
abbrev Entry.stop (e : Entry) : Nat := e.1 + e.2.data.length

/-- `BTreeMap<u64, Section>`: association list in ascending key order. -/
abbrev SMap := List Entry

/-- `2^64`, kept behind a definition so that proofs never compute with the literal. -/
def U64 : Nat := 2 ^ 64

/-- checked `u64` addition: overflow is a panic. -/
def add64 (x y : Nat) : Res Nat := if x + y < U64 then .ok (x + y) else .panic

/-- `Result::unwrap` on a result of the expression/constant layer: an `Err` becomes a panic. -/
def unwrapR {α : Type} : Res α → Res α
  | .ok a => .ok a
  | _ => .panic

namespace SMap

/-- `BTreeMap::get`. -/
def find : SMap → Nat → Option Section
  | [], _ => none
  | (k, s) :: rest, x => if k = x then some s else find rest x

/-- `BTreeMap::insert` (replaces the value of an existing key). -/
def insert (k : Nat) (v : Section) : SMap → SMap
  | [] => [(k, v)]
  | (k', v') :: rest =>
    if k' < k then (k', v') :: insert k v rest
    else if k' = k then (k, v) :: rest
    else (k, v) :: (k', v') :: rest

/-- `BTreeMap::remove`. -/
def erase (k : Nat) (m : SMap) : SMap := m.filter (fun e => e.1 ≠ k)

/-- `range((Included(0), Included(x))).next_back()`: the entry with the greatest key `≤ x`
    (the list is in ascending key order). -/
def floor : SMap → Nat → Option Entry
  | [], _ => none
  | (k, s) :: rest, x =>
    if k ≤ x then
      match floor rest x with
      | some e => some e
      | none => some (k, s)
    else none

end SMap

/-- `backing::Memory`. -/
structure Memory where
  endian : Endian
  sections : SMap
  deriving Repr, Inhabited

namespace Memory

/-- `Memory::new`. -/
def new (e : Endian) : Memory := ⟨e, []⟩

/-! ### `set_memory` -/

/-- `self.sections.get_mut(&a).unwrap…().truncate(n)`. -/
def truncateAt (a n : Nat) (cur : SMap) : Res SMap :=
  match cur.find a with
  | none => .panic
  | some s => .ok (cur.insert a { s with data := s.data.take n })

/-- `self.sections.get_mut(&a).unwrap…().data.split_off(at)`: the section keeps `[0, at)`, the tail is
    returned; `split_off` panics when `at > len`. -/
def splitOffAt (a off : Nat) (cur : SMap) : Res (SMap × List UInt8) :=
  match cur.find a with
  | none => .panic
  | some s =>
    if off > s.data.length then .panic
    else .ok (cur.insert a { s with data := s.data.take off }, s.data.drop off)

/-- `self.sections.get(&a).unwrap…().permissions()`. -/
def permAt (a : Nat) (cur : SMap) : Res Perm :=
  match cur.find a with
  | none => .panic
  | some s => .ok s.perm

/-- One iteration of the adjustment loop of `set_memory` for the snapshot entry `(a, l)`;
    `A` = `address`, `n` = `data.len()`.  Follows the evaluation order of the source (`&&`
    short-circuits, every `+` is checked). -/
def adjustStep (A n : Nat) (cur : SMap) (a l : Nat) : Res SMap :=
  if a < A then do
    -- `a < address && a + l > address`
    let e ← add64 a l
    if e > A then do
      -- `a + l <= address + data.len() as u64`
      let E ← add64 A n
      if e ≤ E then
        truncateAt a (A - a) cur
      else do
        let off := E - a
        let (cur, split) ← splitOffAt a off cur
        let p ← permAt a cur
        let cur := cur.insert E ⟨split, p⟩
        truncateAt a (A - a) cur
    else
      -- `a >= address` is false in both remaining arms
      pure cur
  else do
    -- `a >= address && a + l <= address + data.len() as u64`
    let e ← add64 a l
    let E ← add64 A n
    if e ≤ E then
      match cur.find a with
      | none => .panic                  -- "About to remove … but address does not exist"
      | some _ => pure (cur.erase a)
    else if a < E then do
      -- `a >= address && a < address + len && a + l > address + len`
      let off := E - a
      match cur.find a with
      | none => .panic
      | some s =>
        if off > s.data.length then .panic       -- "offset … is > data.len()"
        else do
          let (cur, split) ← splitOffAt a off cur
          let p ← permAt a cur
          let cur := cur.erase a
          pure (cur.insert E ⟨split, p⟩)
    else pure cur

/-- the loop `for al in als`. -/
def adjust (A n : Nat) : List (Nat × Nat) → SMap → Res SMap
  | [], cur => .ok cur
  | (a, l) :: rest, cur =>
    match adjustStep A n cur a l with
    | .ok cur' => adjust A n rest cur'
    | .err e => .err e
    | .panic => .panic

/-- the snapshot `als` taken before the loop. -/
def snapshot (m : SMap) : List (Nat × Nat) := m.map (fun e => (e.1, e.2.data.length))

/-- `Memory::set_memory`. -/
def setMemory (m : Memory) (A : Nat) (d : List UInt8) (p : Perm) : Res Memory :=
  if d.isEmpty then .ok m            -- `if data.is_empty() { return; }`
  else match adjust A d.length (snapshot m.sections) m.sections with
  | .ok cur => .ok { m with sections := cur.insert A ⟨d, p⟩ }
  | .err e => .err e
  | .panic => .panic

/-! ### lookups -/

/-- `Memory::section_address`. -/
def sectionAddress (m : Memory) (x : Nat) : Res (Option Nat) :=
  match m.sections.floor x with
  | none => .ok none
  | some (k, s) =>
    -- `*section_address <= address && *section_address + section.len() as u64 > address`
    if k ≤ x then
      match add64 k s.data.length with
      | .ok e => if e > x then .ok (some k) else .ok none
      | .err e => .err e
      | .panic => .panic
    else .ok none

/-- `Memory::permissions`. -/
def permissions (m : Memory) (x : Nat) : Res (Option Perm) :=
  match m.sectionAddress x with
  | .ok none => .ok none
  | .ok (some k) =>
    match m.sections.find k with
    | none => .panic
    | some s => .ok (some s.perm)
  | .err e => .err e
  | .panic => .panic

/-- `Memory::get8`. -/
def get8 (m : Memory) (x : Nat) : Res (Option UInt8) :=
  match m.sectionAddress x with
  | .ok none => .ok none
  | .ok (some k) =>
    match m.sections.find k with
    | none => .panic
    | some s =>
      match s.data[x - k]? with
      | none => .panic
      | some b => .ok (some b)
  | .err e => .err e
  | .panic => .panic

/-- the four bytes `set32` stores, in storage order (`as u8` truncates). -/
def bytes32 (e : Endian) (v : Nat) : List UInt8 :=
  match e with
  | .big => [UInt8.ofNat (v >>> 24), UInt8.ofNat (v >>> 16), UInt8.ofNat (v >>> 8), UInt8.ofNat v]
  | .little => [UInt8.ofNat v, UInt8.ofNat (v >>> 8), UInt8.ofNat (v >>> 16), UInt8.ofNat (v >>> 24)]

/-- overwrite `d[off ..]` with `bs` (positions past the end are dropped). -/
def writeAt : List UInt8 → Nat → List UInt8 → List UInt8
  | d, _, [] => d
  | d, off, b :: bs => writeAt (d.set off b) (off + 1) bs

/-- `Memory::set32`. -/
def set32 (m : Memory) (a v : Nat) : Res Memory :=
  match m.sectionAddress a with
  | .ok none => .panic                       -- "Address … has no section"
  | .ok (some k) =>
    match m.sections.find k with
    | none => .panic
    | some s =>
      let off := a - k
      if off + 4 > s.data.length then .err .other
      else .ok { m with sections := m.sections.insert k { s with data := writeAt s.data off (bytes32 m.endian v) } }
  | .err e => .err e
  | .panic => .panic

/-- the value `get32` assembles from four bytes. -/
def word32 (e : Endian) (b0 b1 b2 b3 : UInt8) : Nat :=
  match e with
  | .big => (b0.toNat <<< 24) ||| (b1.toNat <<< 16) ||| (b2.toNat <<< 8) ||| b3.toNat
  | .little => b0.toNat ||| (b1.toNat <<< 8) ||| (b2.toNat <<< 16) ||| (b3.toNat <<< 24)

/-- `Memory::get32`. -/
def get32 (m : Memory) (a : Nat) : Res (Option Nat) :=
  match m.sectionAddress a with
  | .ok none => .ok none
  | .ok (some k) =>
    match m.sections.find k with
    | none => .panic
    | some s =>
      let off := a - k
      if off + 4 > s.data.length then .ok none
      else
        match s.data[off]?, s.data[off + 1]?, s.data[off + 2]?, s.data[off + 3]? with
        | some b0, some b1, some b2, some b3 => .ok (some (word32 m.endian b0 b1 b2 b3))
        | _, _, _, _ => .panic
  | .err e => .err e
  | .panic => .panic

/-- one round of the loop of `get`: the expression built for byte `b` at index `i`, evaluated
    (`Expression::or/shl(..).unwrap()`, `executor::eval(..).unwrap()`: an `Err` would be a panic). -/
def getCombine (e : Endian) (bits i : Nat) (v : Const) (b : UInt8) : Res Const :=
  match e with
  | .big => do
    let sh ← unwrapR (Const.shl v (Const.new 8 bits))
    unwrapR (Const.or sh (Const.new b.toNat bits))
  | .little => do
    let sh ← unwrapR (Const.shl (Const.new b.toNat bits) (Const.new (i * 8) bits))
    unwrapR (Const.or sh v)

/-- the loop `for i in 1..(bits / 8)` of `get`; `cnt` rounds remain, `i` is the loop variable. -/
def getLoop (m : Memory) (a bits : Nat) : Nat → Nat → Const → Res (Option Const)
  | 0, _, v => .ok (some v)
  | cnt + 1, i, v =>
    match add64 a i with                    -- `address + i as u64`
    | .ok ai =>
      match m.get8 ai with
      | .ok (some b) =>
        match getCombine m.endian bits i v b with
        | .ok v' => getLoop m a bits cnt (i + 1) v'
        | .err e => .err e
        | .panic => .panic
      | .ok none => .ok none                -- `self.get8(address + i as u64)?`
      | .err e => .err e
      | .panic => .panic
    | .err e => .err e
    | .panic => .panic

/-- `Memory::get`. -/
def get (m : Memory) (a bits : Nat) : Res (Option Const) :=
  if bits % 8 ≠ 0 ∨ bits = 0 then .ok none
  else
    match m.get8 a with
    | .ok (some b) => getLoop m a bits (bits / 8 - 1) 1 (Const.new b.toNat bits)
    | .ok none => .ok none
    | .err e => .err e
    | .panic => .panic

end Memory

/-! ## Specification: a permissioned byte map -/

/-- what an address holds: nothing, or a byte with the permissions of its region. -/
abbrev ByteMap := Nat → Option (UInt8 × Perm)

def ByteMap.empty : ByteMap := fun _ => none

/-- `f` after the region write `(a, d, p)`: the addresses `a ≤ x < a + |d|` hold `d[x - a]` with `p`. -/
def override (f : ByteMap) (a : Nat) (d : List UInt8) (p : Perm) : ByteMap :=
  fun x => if a ≤ x ∧ x < a + d.length then (d[x - a]?).map (fun b => (b, p)) else f x

/-- `f` after storing the bytes `d` at `a` without touching permissions (the effect of `set32`). -/
def overrideBytes (f : ByteMap) (a : Nat) (d : List UInt8) : ByteMap :=
  fun x =>
    if a ≤ x ∧ x < a + d.length then
      match f x, d[x - a]? with
      | some (_, p), some b => some (b, p)
      | _, _ => none
    else f x

/-- whether the entry covers the address. -/
def covers (x : Nat) (e : Entry) : Bool := decide (e.1 ≤ x) && decide (x < e.1 + e.2.data.length)

/-- the byte map a section list stands for. -/
def abs (m : SMap) : ByteMap :=
  fun x =>
    match m.find? (covers x) with
    | some e => (e.2.data[x - e.1]?).map (fun b => (b, e.2.perm))
    | none => none

/-- the `n` bytes at `a, a+1, …` if all of them are mapped (addresses are below `2^64`). -/
def readBytes (f : ByteMap) : Nat → Nat → Option (List UInt8)
  | _, 0 => some []
  | a, n + 1 =>
    if a < U64 then
      match f a, readBytes f (a + 1) n with
      | some (b, _), some bs => some (b :: bs)
      | _, _ => none
    else none

/-- the number a byte string denotes: first byte most significant (big) or least significant (little). -/
def assemble (e : Endian) (bs : List UInt8) : Nat :=
  match e with
  | .big => bs.foldl (fun acc b => acc * 256 + b.toNat) 0
  | .little => bs.foldr (fun b acc => b.toNat + 256 * acc) 0

/-- what `get(a, bits)` must answer on the byte map `f`. -/
def specGet (e : Endian) (f : ByteMap) (a bits : Nat) : Option Const :=
  if bits % 8 ≠ 0 ∨ bits = 0 then none
  else (readBytes f a (bits / 8)).map (fun bs => ⟨bits, assemble e bs⟩)

/-- what `get32(a)` must answer when the four bytes lie in one section. -/
def specGet32 (e : Endian) (f : ByteMap) (a : Nat) : Option Nat :=
  (readBytes f a 4).map (assemble e)

/-- does `[a, a+4)` lie within one stored section? (the premise of the 32-bit clause of C16) -/
def within32 (m : SMap) (a : Nat) : Bool :=
  m.any (fun e => decide (e.1 ≤ a) && decide (a + 4 ≤ e.1 + e.2.data.length))

/-- the representation invariant of `sections`: ascending keys, pairwise disjoint (each section ends
    at or before the next key), no empty section, every section ends below `2^64`. -/
def Rel (e1 e2 : Entry) : Prop := e1.1 < e2.1 ∧ e1.1 + e1.2.data.length ≤ e2.1

structure Inv (m : SMap) : Prop where
  pairwise : m.Pairwise Rel
  nonempty : ∀ e ∈ m, 0 < e.2.data.length
  bounded : ∀ e ∈ m, e.1 + e.2.data.length < U64

end Falcon.Backing
