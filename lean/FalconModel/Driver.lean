/-
  FalconModel.Driver — mirror of `lib/executor/driver.rs` (`Driver::step`) together with the part of
  `lib/il/location.rs` it uses: `ProgramLocation::apply`, `RefProgramLocation::forward`,
  `RefProgramLocation::from_address`, and the conversion back to an owned `ProgramLocation`.

  What the code does, and the model therefore does too:
  * a location is owned data: function index + (block index, instruction INDEX) | (head, tail) | block
    index.  Every step starts by `apply`ing it to the program (`Program::function`, `Function::block`,
    `Block::instruction` = first instruction with that index, `Function::edge`); a failure is
    `ProgramLocationApplication` / `FunctionLocationApplication` (`err:other`).  `EmptyBlock(b)` applies
    to any existing block, empty or not.
  * Instruction: `State::execute`; on `FallThrough` `forward()` yields the next instruction of the block
    (position after the first position carrying this index) or, at the end of the block, the out-edges
    in `BTreeSet` order of the tail.  Exactly one location ⇒ it is taken WITHOUT evaluating a guard;
    otherwise the edges are tried in order, the first whose guard `is_one` wins, an edge without
    condition met on the way is an error ("Failed to get edge condition"; the harness prints it as
    `err:noedge`, like `ExecutorNoEdgeCondition` of the empty-block arm), none ⇒ `ExecutorNoValidLocation`.
  * `Branch(a)`: `from_address` (closest function at or below `a` first, then every function in index
    order; first instruction carrying the address); a miss makes falcon lift a new function through the
    architecture's translator — an external call, `step` answers `err:other` there and `needsLift`
    tells the driver to print `lift`.
  * Edge: `forward()[0]` (the first instruction of the tail block, or its `EmptyBlock`), state unchanged.
  * EmptyBlock: like the end of a block, on the unchanged state.
-/
import FalconModel.Exec

namespace Falcon
namespace Drv

/-- `il::FunctionLocation` -/
inductive Pos where
  | instr (block index : Nat)
  | edge (head tail : Nat)
  | empty (block : Nat)
  deriving DecidableEq, Repr, Inhabited

/-- `il::ProgramLocation` -/
structure Loc where
  fn : Option Nat
  pos : Pos
  deriving DecidableEq, Repr, Inhabited

/-- `il::RefProgramLocation`: the location resolved in a program -/
inductive Ref where
  | instr (f : Function) (b : Block) (i : Instr)
  | edge (f : Function) (e : Edge)
  | empty (f : Function) (b : Block)
  deriving Repr, Inhabited

/-- `From<RefProgramLocation> for ProgramLocation` -/
def Ref.toLoc : Ref → Loc
  | .instr f b i => ⟨f.index, .instr b.index i.index⟩
  | .edge f e => ⟨f.index, .edge e.head e.tail⟩
  | .empty f b => ⟨f.index, .empty b.index⟩

/-- `FunctionLocation::apply` -/
def applyPos (f : Function) : Pos → Res Ref
  | .instr bi ii =>
    match f.block bi with
    | none => .err .other
    | some b =>
      match b.instruction ii with
      | none => .err .other
      | some i => .ok (.instr f b i)
  | .edge h t =>
    match f.cfg.edge h t with
    | none => .err .other
    | some e => .ok (.edge f e)
  | .empty bi =>
    match f.block bi with
    | none => .err .other
    | some b => .ok (.empty f b)

/-- `ProgramLocation::apply` -/
def apply (P : Program) (l : Loc) : Res Ref :=
  match l.fn with
  | none => .err .other
  | some fi =>
    match P.function fi with
    | none => .err .other
    | some f => applyPos f l.pos

/-- the two shapes `instruction_forward` returns -/
inductive Fwd where
  | next (i : Instr)
  | edges (es : List Edge)
  deriving Repr, Inhabited

/-- the loop of `instruction_forward`: the first position whose instruction carries `idx` -/
def forwardIn (out : List Edge) (idx : Nat) : List Instr → Res Fwd
  | [] => .err .other
  | x :: rest =>
    if x.index = idx then
      match rest with
      | y :: _ => .ok (.next y)
      | [] => .ok (.edges out)
    else forwardIn out idx rest

/-- `RefProgramLocation::instruction_forward` -/
def instrForward (f : Function) (b : Block) (i : Instr) : Res Fwd :=
  forwardIn (f.cfg.edgesOut b.index) i.index b.instrs

/-- the first location of a block: its first instruction, or the block itself when it is empty -/
def blockEntry (b : Block) : Pos :=
  match b.instrs with
  | [] => .empty b.index
  | i :: _ => .instr b.index i.index

/-- `edge_forward` followed by the conversion to an owned location -/
def edgeForward (f : Function) (e : Edge) : Res Loc :=
  match f.block e.tail with
  | none => .err .other
  | some b => .ok ⟨f.index, blockEntry b⟩

/-- the `for location in locations` loop of `Driver::step` -/
def firstEnabled (σ : State) : List Edge → Res Edge
  | [] => .err .noedge
  | e :: es =>
    match e.cond with
    | none => .err .noedge
    | some g =>
      match σ.evalIn g with
      | .ok c => if c.isOne then .ok e else firstEnabled σ es
      | .err k => .err k
      | .panic => .panic

/-- `if locations.len() == 1 { take it } else { loop }` -/
def chooseEdge (σ : State) : List Edge → Res Edge
  | [e] => .ok e
  | es => firstEnabled σ es

def edgeLoc (f : Function) (e : Edge) : Loc := ⟨f.index, .edge e.head e.tail⟩

/-- first pass of `from_address`: the function with the greatest address not above `a`
    (the first one among equals) -/
def closest (a : Nat) : List Function → Option Function → Option Function
  | [], acc => acc
  | f :: fs, acc =>
    if f.addr > a then closest a fs acc
    else
      match acc with
      | none => closest a fs (some f)
      | some ff => if f.addr > ff.addr then closest a fs (some f) else closest a fs acc

/-- first instruction of the block carrying the address -/
def findInBlock (a : Nat) (b : Block) : Option Instr := b.instrs.find? (fun i => i.addr == some a)

/-- blocks in index order, instructions in list order -/
def findInFunction (a : Nat) (f : Function) : Option Loc :=
  f.cfg.blocks.findSome? (fun b => (findInBlock a b).map (fun i => ⟨f.index, .instr b.index i.index⟩))

/-- `RefProgramLocation::from_address` (then `.into()`) -/
def fromAddress (P : Program) (a : Nat) : Option Loc :=
  match (closest a P.functions none).bind (findInFunction a) with
  | some l => some l
  | none => P.functions.findSome? (findInFunction a)

/-- `Driver::step` -/
def step (P : Program) (d : Loc × State) : Res (Loc × State) :=
  match apply P d.1 with
  | .err k => .err k
  | .panic => .panic
  | .ok (.instr f b i) =>
    match execute d.2 i.op with
    | .err k => .err k
    | .panic => .panic
    | .ok (σ', .fallThrough) =>
      match instrForward f b i with
      | .err k => .err k
      | .panic => .panic
      | .ok (.next y) => .ok (⟨f.index, .instr b.index y.index⟩, σ')
      | .ok (.edges es) =>
        match chooseEdge σ' es with
        | .ok e => .ok (edgeLoc f e, σ')
        | .err k => .err k
        | .panic => .panic
    | .ok (σ', .branch a) =>
      match fromAddress P a with
      | some l => .ok (l, σ')
      | none => .err .other
  | .ok (.edge f e) =>
    match edgeForward f e with
    | .ok l => .ok (l, d.2)
    | .err k => .err k
    | .panic => .panic
  | .ok (.empty f b) =>
    match chooseEdge d.2 (f.cfg.edgesOut b.index) with
    | .ok e => .ok (edgeLoc f e, d.2)
    | .err k => .err k
    | .panic => .panic

/-- the step is an indirect branch whose target is not in the program (falcon would lift there) -/
def needsLift (P : Program) (d : Loc × State) : Option Nat :=
  match apply P d.1 with
  | .ok (.instr _ _ i) =>
    match execute d.2 i.op with
    | .ok (_, .branch a) => if (fromAddress P a).isNone then some a else none
    | _ => none
  | _ => none

/-- `n` steps; stops at the first error -/
def run (P : Program) : Nat → Loc × State → Res (Loc × State)
  | 0, d => .ok d
  | n + 1, d =>
    match step P d with
    | .ok d' => run P n d'
    | .err k => .err k
    | .panic => .panic

/-- the configurations visited by at most `n` steps, the start included; ends at the first error -/
def trace (P : Program) : Nat → Loc × State → List (Loc × State)
  | 0, d => [d]
  | n + 1, d =>
    match step P d with
    | .ok d' => d :: trace P n d'
    | _ => [d]

end Drv
end Falcon
