/-
  FalconModel.Reach — reachability in a finite directed graph given by a successor function.

  This file is deliberately independent of any particular graph representation so that other checks
  (C09 fixed-point engine, C12 reaching definitions, C18 program locations) can reuse it:

    * the graph is `succ : Nat → List Nat` (the successors of every vertex);
    * `Path succ u v`      : there is a path (of length ≥ 0) from `u` to `v`;
    * `PathPlus succ u v`  : there is a path of length ≥ 1 from `u` to `v`;
    * `Walk succ u v p`    : `p` is the list of vertices of a path from `u` to `v` (both ends included);
    * `reachAux succ fuel cur : Option (List Nat)` : closure rounds from the root list `cur`;
      `none` = the fuel ran out (never happens with fuel `univ.length + 1`, theorem `reachAux_total`
      in FalconProofs/C11/Reach.lean);
    * `reachL succ univ roots` / `reach succ univ r` : total versions, `univ` being any list that
      contains every successor of every vertex (only used to size the fuel).

  Theorems (FalconProofs/C11/Reach.lean):
      reachAux_spec  : reachAux succ fuel roots = some out → (v ∈ out ↔ ∃ r ∈ roots, Path succ r v)
      reach_spec     : (∀ u v, v ∈ succ u → v ∈ univ) → (v ∈ reach succ univ r ↔ Path succ r v)
      tabGet_mkTab   : tabGet (mkTab f keys) f x = f x
  core Lean only (links into the native drivers).
-/

namespace Falcon.Reach

/-- `Path succ u v`: `v` can be reached from `u` by following successor edges (zero or more). -/
inductive Path (succ : Nat → List Nat) : Nat → Nat → Prop where
  | refl (u : Nat) : Path succ u u
  | head {u v w : Nat} : v ∈ succ u → Path succ v w → Path succ u w

/-- a path with at least one edge -/
def PathPlus (succ : Nat → List Nat) (u v : Nat) : Prop := ∃ s, s ∈ succ u ∧ Path succ s v

/-- `Walk succ u v p`: `p` lists the vertices of a path from `u` to `v`, both ends included. -/
inductive Walk (succ : Nat → List Nat) : Nat → Nat → List Nat → Prop where
  | single (u : Nat) : Walk succ u u [u]
  | cons {u v w : Nat} {p : List Nat} : v ∈ succ u → Walk succ v w p → Walk succ u w (u :: p)

/-- every successor of a vertex of `cur` is in `cur` -/
def closed (succ : Nat → List Nat) (cur : List Nat) : Bool :=
  cur.all (fun u => (succ u).all (fun v => decide (v ∈ cur)))

/-- append the elements of `xs` that are not yet present -/
def addNew (cur : List Nat) : List Nat → List Nat
  | [] => cur
  | x :: xs => if x ∈ cur then addNew cur xs else addNew (cur ++ [x]) xs

/-- one closure round -/
def expand (succ : Nat → List Nat) (cur : List Nat) : List Nat :=
  addNew cur (cur.flatMap succ)

/-- closure rounds until closed; `none` when the fuel runs out -/
def reachAux (succ : Nat → List Nat) : Nat → List Nat → Option (List Nat)
  | 0, _ => none
  | fuel + 1, cur => if closed succ cur then some cur else reachAux succ fuel (expand succ cur)

/-- the set reachable from a list of roots (total; `univ` sizes the fuel) -/
def reachL (succ : Nat → List Nat) (univ : List Nat) (roots : List Nat) : List Nat :=
  (reachAux succ (univ.length + 1) roots).getD []

/-- the set reachable from `r` -/
def reach (succ : Nat → List Nat) (univ : List Nat) (r : Nat) : List Nat :=
  reachL succ univ [r]

/-- tabulate `f` on `keys` (pure optimisation: evaluate `f` once per key) -/
def mkTab {β : Type} (f : Nat → β) (keys : List Nat) : List (Nat × β) :=
  keys.map (fun k => (k, f k))

/-- look `x` up in a table of `f`, falling back to `f x`; equal to `f x` on tables made by `mkTab`
    (theorem `tabGet_mkTab`) -/
def tabGet {β : Type} (tab : List (Nat × β)) (f : Nat → β) (x : Nat) : β :=
  match tab.lookup x with
  | some b => b
  | none => f x

end Falcon.Reach
