/-
  FalconModel.FilExpr — reading and printing constants, scalars and expressions in FIL.

    (c 0xff 8)   (s rax 64)   (s x 32 3)   (add e e) … (zext 64 e) … (ite e e e)
    constants outside expressions:  0xff:8
-/
import FalconModel.Sx
import FalconModel.Expr

namespace Falcon
namespace Fil

def binOpNames : List (String × BinOp) :=
  [("add", .add), ("sub", .sub), ("mul", .mul), ("divu", .divu), ("modu", .modu), ("divs", .divs),
   ("mods", .mods), ("and", .and), ("or", .or), ("xor", .xor), ("shl", .shl), ("shr", .shr),
   ("ashr", .ashr), ("cmpeq", .cmpeq), ("cmpneq", .cmpneq), ("cmplts", .cmplts), ("cmpltu", .cmpltu)]

def extOpNames : List (String × ExtOp) := [("zext", .zext), ("sext", .sext), ("trun", .trun)]

def binOp? (s : String) : Option BinOp := binOpNames.lookup s
def extOp? (s : String) : Option ExtOp := extOpNames.lookup s

def BinOp.name (op : BinOp) : String :=
  match binOpNames.find? (fun p => p.2 == op) with
  | some p => p.1
  | none => "?"

def ExtOp.name (op : ExtOp) : String :=
  match extOpNames.find? (fun p => p.2 == op) with
  | some p => p.1
  | none => "?"

/-- `0xff:8` ↦ the raw pair (not trimmed: the harness always prints trimmed values; the reader
    keeps what it is given so that a malformed stream stays malformed) -/
def const? (s : String) : Option Const :=
  match s.splitOn ":" with
  | [v, b] => do
      let v ← Sx.parseNat v
      let b ← b.toNat?
      pure ⟨b, v⟩
  | _ => none

def scalar? : List Sx → Option Scalar
  | [.atom n, b] => do pure { name := n, bits := (← b.nat?) }
  | [.atom n, b, v] => do pure { name := n, bits := (← b.nat?), ssa := some (← v.nat?) }
  | _ => none

mutual
def expr? : Sx → Option Expr
  | .atom _ => none
  | .list xs => exprL? xs
def exprL? : List Sx → Option Expr
  | [.atom "c", v, b] => do pure (.const ⟨← b.nat?, ← v.nat?⟩)
  | .atom "s" :: rest => do pure (.scalar (← scalar? rest))
  | [.atom "ite", c, t, e] => do pure (.ite (← expr? c) (← expr? t) (← expr? e))
  | [.atom op, a, b] =>
      match binOp? op with
      | some o => do pure (.bin o (← expr? a) (← expr? b))
      | none =>
        match extOp? op with
        | some o => do pure (.ext o (← a.nat?) (← expr? b))
        | none => none
  | _ => none
end

def scalarStr (s : Scalar) : String :=
  match s.ssa with
  | none => s!"(s {s.name} {s.bits})"
  | some v => s!"(s {s.name} {s.bits} {v})"

def exprStr : Expr → String
  | .scalar s => scalarStr s
  | .const c => s!"(c 0x{Const.hexDigits c.val} {c.bits})"
  | .bin op l r => s!"({BinOp.name op} {exprStr l} {exprStr r})"
  | .ext op b e => s!"({ExtOp.name op} {b} {exprStr e})"
  | .ite c t e => s!"(ite {exprStr c} {exprStr t} {exprStr e})"

/-- read one expression from a string -/
def readExpr (s : String) : Option Expr :=
  match Sx.parseAll s with
  | some [x] => expr? x
  | _ => none

end Fil
end Falcon
