/-
  FalconModel.Lift — what a lifter returns (`BlockTranslationResult`) as data, its FIL form, machine
  states in text form, and the execution of a lifted block by the IL semantics (`Exec.lean`), following
  edges the way falcon's executor does (`Driver::step`: a single out-edge is taken without evaluating
  its guard; among several the first whose guard is one, in increasing order of the tail index).

    btr   := (btr <addr> <length> (fn <ins addr> - <entry> <exit> <n> 0 blk* edge*)* (succ <addr> <-|cond>)*)
    state := <l|b> ; reg=0xval:bits,... ; 0xaddr:hexbytes,...
    post  := next=<0xaddr|err…> ; reg=…,… ; 0xaddr:hexbytes,…
-/
import FalconModel.FilIL
import FalconModel.Exec

namespace Falcon

structure BTR where
  addr : Nat
  length : Nat
  /-- one instruction graph per native instruction; `Function.addr` is the instruction's address -/
  instrs : List Function
  succs : List (Nat × Option Expr)
  deriving Repr, Inhabited

namespace Fil

def btrItems? : List Sx → Option (List Function × List (Nat × Option Expr))
  | [] => some ([], [])
  | x :: xs => do
      let (fs, ss) ← btrItems? xs
      match x with
      | .list (.atom "fn" :: _) => do pure ((← function? x) :: fs, ss)
      | .list [.atom "succ", a, c] => do
          let c ← match c with
            | .atom "-" => some none
            | y => (expr? y).map some
          pure (fs, ((← a.nat?), c) :: ss)
      | _ => none

def btr? : Sx → Option BTR
  | .list (.atom "btr" :: a :: l :: items) => do
      let (fs, ss) ← btrItems? items
      pure { addr := (← a.nat?), length := (← l.nat?), instrs := fs, succs := ss }
  | _ => none

end Fil

/-- machine state in text form -/
structure MachState where
  endian : Endian
  regs : List (String × Const)
  mem : List (Nat × List UInt8)
  deriving Inhabited

namespace MachState

def hexPairs : List Char → Option (List UInt8)
  | [] => some []
  | a :: b :: rest => do
      let x ← Sx.hexVal a
      let y ← Sx.hexVal b
      let r ← hexPairs rest
      pure (UInt8.ofNat (x * 16 + y) :: r)
  | _ => none

def parseRegs (s : String) : Option (List (String × Const)) :=
  (s.splitOn ",").filter (· ≠ "") |>.mapM fun kv =>
    match kv.splitOn "=" with
    | [k, v] => do pure (k, ← Fil.const? v)
    | _ => none

def parseMem (s : String) : Option (List (Nat × List UInt8)) :=
  (s.splitOn ",").filter (· ≠ "") |>.mapM fun kv =>
    match kv.splitOn ":" with
    | [k, v] => do pure (← Sx.parseNat k, ← hexPairs v.toList)
    | _ => none

def parse (s : String) : Option MachState :=
  match (s.splitOn ";").map (fun x => x.trimAscii.toString) with
  | [e, r, m] => do
      let e ← if e = "l" then some Endian.little else if e = "b" then some Endian.big else none
      pure { endian := e, regs := (← parseRegs r), mem := (← parseMem m) }
  | _ => none

def toState (m : MachState) : State :=
  { scalars := m.regs
    mem := m.mem.foldl (fun acc (a, bs) => acc.write a bs) ByteMem.empty
    endian := m.endian }

def hex2 (b : UInt8) : String :=
  let d := Nat.toDigits 16 b.toNat
  String.ofList (if d.length = 1 then '0' :: d else d)

def bytesHex (bs : List UInt8) : String := String.join (bs.map hex2)

end MachState

/-- outcome of running a lifted block -/
inductive LiftOut where
  | next (σ : State) (pcs : List Nat)     -- reached the successors; the enabled one(s)
  | stop (σ : State) (why : String)       -- error / panic / out of fuel

instance : Inhabited LiftOut := ⟨.stop {} ""⟩

/-- how the executor leaves the end of a block with out-edges `es` (already in `edges_out` order) -/
def pickEdge (σ : State) (es : List Edge) : Res (Option Edge) :=
  match es with
  | [] => .ok none
  | [e] => .ok (some e)                 -- taken without evaluating the guard
  | _ =>
    let rec go : List Edge → Res (Option Edge)
      | [] => .err .noedge
      | e :: rest =>
        match e.cond with
        | none => .err .other            -- "Failed to get edge condition"
        | some g =>
          match σ.evalIn g with
          | .ok c => if c.isOne then .ok (some e) else go rest
          | .err er => .err er
          | .panic => .panic
    go es

/-- run one instruction graph from its entry to the end of its exit block -/
inductive GOut where
  | done (σ : State)
  | branch (σ : State) (a : Nat)
  | stop (σ : State) (why : String)

def runGraph (f : Function) : Nat → Config → GOut
  | 0, c => .stop c.state "err:steps"
  | fuel + 1, c =>
    match f.block c.block with
    | none => .stop c.state "err:other"
    | some b =>
      match b.instrs[c.pos]? with
      | some i =>
        match execute c.state i.op with
        | .ok (σ', .fallThrough) => runGraph f fuel ⟨c.block, c.pos + 1, σ'⟩
        | .ok (σ', .branch a) => .branch σ' a
        | .err e => .stop c.state (toString e)
        | .panic => .stop c.state "panic"
      | none =>
        if f.cfg.exit = some c.block then .done c.state
        else
          match pickEdge c.state (f.cfg.edgesOut c.block) with
          | .ok (some e) => runGraph f fuel ⟨e.tail, 0, c.state⟩
          | .ok none => .stop c.state "err:noedge"
          | .err e => .stop c.state (toString e)
          | .panic => .stop c.state "panic"

def runBTR (r : BTR) (σ₀ : State) (fuel : Nat := 4096) : LiftOut :=
  let rec go : List Function → State → LiftOut
    | [], σ =>
      -- successors: terminal blocks hang off the last exit block, in list order
      let es : List Edge := r.succs.zipIdx.map (fun ((_, c), i) => { head := 0, tail := i, cond := c })
      match pickEdge σ es with
      | .ok (some e) => .next σ ((r.succs[e.tail]?.map (·.1)).toList)
      | .ok none => .stop σ "err:noedge"
      | .err e => .stop σ (toString e)
      | .panic => .stop σ "panic"
    | f :: rest, σ =>
      match f.cfg.entry with
      | none => .stop σ "err:other"
      | some en =>
        match runGraph f fuel ⟨en, 0, σ⟩ with
        | .done σ' => go rest σ'
        | .branch σ' a => .next σ' [a]
        | .stop σ' why => .stop σ' why
  match r.instrs with
  | [] => .stop σ₀ "-"
  | fs => go fs σ₀

/-- canonical post-state line: the watched scalars and the bytes of the initial memory windows -/
def postLine (out : LiftOut) (watch : List String) (windows : List (Nat × Nat)) : String :=
  let (σ, head) := match out with
    | .next σ pcs => (σ, ",".intercalate (pcs.map Fil.hex))
    | .stop σ why => (σ, why)
  let regs := watch.map fun n => n ++ "=" ++ (match σ.get n with | some c => toString c | none => "-")
  let mem := windows.map fun (a, len) =>
    Fil.hex a ++ ":" ++ MachState.bytesHex ((List.range len).map fun i => (σ.mem (a + i)).getD 0)
  "next=" ++ head ++ " ; " ++ ",".intercalate regs ++ " ; " ++ ",".intercalate mem

end Falcon
