#!/bin/bash
# usage: neutral_eval.sh <Cxx>      — stage /tmp/neu-<Cxx>-out/n<i> as /verif/neutral/<Cxx>-n<i>/ and run the quick checks of the
# property and of every property whose code the change touches, against a patched COPY of /repo (tools/mutant_alt.sh).
# A behaviour-preserving rewrite must leave every check at exit 0; an alarm is analysed by hand (DESIGN §0.5).
cd /verif
P=$1
related() {  # checks whose subject includes the touched files
  local f="$1" r=""
  case "$f" in *il/expression*|*il/constant*|*executor/eval*) r="$r C04 C07";; esac
  case "$f" in *translator/x86*) r="$r C01 C05 C06";; esac
  case "$f" in *translator/mips*|*translator/ppc*) r="$r C02 C05 C06";; esac
  case "$f" in *translator/aarch64*) r="$r C03 C05";; esac
  case "$f" in *translator/mod.rs*|*translator/block_translation*) r="$r C06 C05";; esac
  case "$f" in *executor/*) r="$r C07";; esac
  case "$f" in *memory/paged*|*memory/value*) r="$r C08 C07";; esac
  case "$f" in *memory/backing*) r="$r C16 C19";; esac
  case "$f" in *analysis/fixed_point*) r="$r C09 C12 C13 C17";; esac
  case "$f" in *il/location*) r="$r C18 C07 C09";; esac
  case "$f" in *graph/*) r="$r C11 C15 C10";; esac
  case "$f" in *il/control_flow_graph*|*il/block*|*il/function*|*il/program*) r="$r C15 C06 C18";; esac
  case "$f" in *ssa*) r="$r C10";; esac
  case "$f" in *reaching_definitions*|*def_use*|*use_def*) r="$r C12 C14";; esac
  case "$f" in *analysis/constants*) r="$r C13";; esac
  case "$f" in *dead_code*) r="$r C14";; esac
  case "$f" in *stack_pointer*) r="$r C17";; esac
  case "$f" in *loader/*) r="$r C19";; esac
  case "$f" in *architecture*|*calling_convention*) r="$r C17";; esac
  echo $r
}
for src in /tmp/neu-$P-out/n*; do
  [ -f $src/patch.diff ] || continue
  id=$P-$(basename $src); d=/verif/neutral/$id; mkdir -p $d; cp $src/patch.diff $src/meta.json $d/ 2>/dev/null
  ids="$P"
  for f in $(grep '^+++ b/' $d/patch.diff | sed 's#+++ b/##'); do ids="$ids $(related $f)"; done
  ids=$(echo $ids | tr ' ' '\n' | grep -v '^C20$' | awk 'NF && !s[$0]++' | tr '\n' ' ')
  tools/mutant_alt.sh $d $ids
done
