#!/usr/bin/env python3
"""Regenerates section 0 ("As built") of DESIGN.md from design/*.md, the git log of /repo (fix commits), the findings
files and the seeded-change evaluations.  Everything below the marker line '## 1. The technique' is the original plan
and is left untouched."""
import glob, json, os, subprocess, collections
ROOT = os.path.dirname(os.path.dirname(os.path.abspath(__file__)))
D = os.path.join(ROOT, "DESIGN.md")
text = open(D).read()
marker = "## 1. The technique, and why it reaches what the tests cannot"
head_end = text.index("Overview (details in §6")            # keep the original title/contents block
plan_start = text.index(marker)
overview = text[head_end:plan_start]
title = text[:head_end]
if "## 0. As built" in title:
    title = title[:title.index("## 0. As built")]

def frag(name):
    return open(os.path.join(ROOT, "design", name)).read().rstrip() + "\n\n"

# fixes, grouped by area
log = subprocess.run(["git", "-C", "/repo", "log", "--reverse", "--format=%h\t%s", "ef085c9..HEAD"], capture_output=True, text=True).stdout.strip().split("\n")
areas = [("il/constant", "C04 constants/expressions"), ("il/expression", "C04 constants/expressions"), ("memory/paged", "C08 paged memory"),
         ("memory/backing", "C16 backing memory"), ("il/control_flow_graph", "C15 CFG editing"), ("graph/", "C11 graph library"),
         ("analysis/use_def", "C12 chains"), ("analysis/def_use", "C12 chains"), ("analysis/reaching", "C12 chains"),
         ("analysis/constants", "C13 constants analysis"), ("analysis/dead_code", "C14 dead-code elimination"),
         ("analysis/stack_pointer", "C17 stack-pointer offsets"), ("analysis/fixed_point", "C09 fixed-point engine"),
         ("analysis/calling_convention", "C20 calling conventions"), ("transformation/ssa", "C10 SSA"), ("loader/", "C19 ELF loader/linker"),
         ("translator/x86", "C01 x86/amd64 lifter"), ("translator/mips", "C02/C05/C06 MIPS lifter"), ("translator/ppc", "C02/C05 PowerPC lifter"),
         ("translator/aarch64", "C03/C05 AArch64 lifter")]
groups = collections.OrderedDict()
n = 0
for l in log:
    if "\t" not in l:
        continue
    h, s = l.split("\t", 1)
    if not s.startswith("fix:"):
        continue
    n += 1
    files = subprocess.run(["git", "-C", "/repo", "show", "--format=", "--name-only", h], capture_output=True, text=True).stdout.split()
    a = next((v for k, v in areas if files and k in files[0]), "other")
    groups.setdefault(a, []).append((h, s[5:]))
fixes = [f"### 0.3 Genuine defects found by the checks\n\nEvery entry below was first reported by a check on the then-current tree with a concrete failing input, then repaired as ONE "
         f"unguarded `fix:` commit in `/repo` touching only the defect (the 443 baseline tests pass after each), then the model was "
         f"updated to the repaired behaviour and the entry recorded as `fixed` in the findings files. **{n} repairs:**\n"]
for g, items in groups.items():
    fixes.append(f"* **{g}** ({len(items)})")
    for h, s in items:
        fixes.append(f"  * `{h}` {s}")
fixes.append("\n**Open findings** (genuine, reproduced against the real code, not repaired because the repair is not small and safe — a design "
             "decision, a change of what the lifter accepts, or a baseline test that asserts the defective behaviour; each check prints "
             "`KNOWN-FINDING` for exactly these signatures and still exits 1 for any other violation):\n")
kf = []
for f in [os.path.join(ROOT, "known_findings.json")] + sorted(glob.glob(os.path.join(ROOT, "known_findings.d", "*.json"))):
    if os.path.exists(f):
        kf += json.load(open(f))
for e in kf:
    if e.get("status") == "finding":
        w = e["what"].replace("\n", " ")
        fixes.append(f"* `{e['signature']}` — {w[:420]}{'…' if len(w) > 420 else ''}")
fixes_txt = "\n".join(fixes) + "\n\n"

seeded = subprocess.run(["python3", os.path.join(ROOT, "tools", "seeded_table.py")], capture_output=True, text=True).stdout
seeded_txt = frag("05_seeded_intro.md") + seeded + "\n" + frag("05_seeded_notes.md")
neutral = subprocess.run(["python3", os.path.join(ROOT, "tools", "neutral_table.py")], capture_output=True, text=True).stdout
seeded_txt += frag("05b_neutral_intro.md") + neutral + frag("05b_neutral_notes.md")
if os.path.exists(os.path.join(ROOT, "design", "06_smt_tie.md")):
    seeded_txt += frag("06_smt_tie.md")

section0 = "## 0. As built (authoritative wherever it differs from the plan in §1–§9)\n\n" + frag("00_head.md").split("\n", 2)[2] \
    + frag("02_table.md") + fixes_txt + frag("04_rest.md").split("### 0.6")[0] + seeded_txt + "### 0.6" + frag("04_rest.md").split("### 0.6")[1] \
    + "---------------------------------------------------------------------------------------------------\n\n"
open(D, "w").write(title + section0 + overview + text[plan_start:])
print("DESIGN.md regenerated:", len(section0.splitlines()), "lines in section 0;", n, "fixes;", sum(1 for e in kf if e.get('status') == 'finding'), "open findings")
