#!/bin/bash
# usage: mutant_batch.sh <seeded dir names...>   (evaluates each; property id = prefix before '-')
for d in "$@"; do
  pid=${d%%-*}
  /verif/tools/mutant_eval.sh $pid /verif/seeded/$d > /verif/work/mut.$d.log 2>&1
done
echo ALLDONE
