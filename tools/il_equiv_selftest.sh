#!/bin/bash
# usage: tools/il_equiv_selftest.sh [N per case file, default 1500] [seed, default 1] [case files …]
#
# Self-test of the SMT tie of C01/C02/C03 (design/06_smt_tie.md) — validation support, never a theorem:
#  1. the Lean FIL PRINTER of block translation results (lean/FalconModel/FilBTR.lean): every distinct BTR text that falcon
#     produced in the case files is parsed by the Lean reader, printed by the Lean printer and parsed again
#     (Drivers/FilTest.lean: `ROUNDTRIP-FAIL` unless btr? ∘ parse ∘ btrStr = id); the printed text must also be the text the
#     Rust printer (harness/src/lift.rs::btr_str) wrote;
#  2. the SMT ENCODER (tools/il_equiv.py): for N (BTR, state) pairs per case file — falcon's real IL for the request's word,
#     the request's state, distinct ILs first — z3's evaluation of the ENCODING from that state must be the post line that the
#     Lean IL model `runBTR` prints for the same pair (next address, every register of the state, every byte of its windows).
# Case files default to the quick-tier files of the last runs of C01, C02, C03 (work/C0x.quick0.cases; run ./check C0x quick
# first).  A SMALL version of 2. runs inside every check run in which a mirror difference occurs (props/smt_tie.py), on that
# run's own data.  Exit 0 = no mismatch.
set -u
cd "$(dirname "$0")/.."
N=${1:-1500}; SEED=${2:-1}
shift 2 2>/dev/null
FILES=("$@")
if [ ${#FILES[@]} -eq 0 ]; then
  for P in C01 C02 C03; do [ -f work/$P.quick0.cases ] && FILES+=(work/$P.quick0.cases); done
fi
[ ${#FILES[@]} -gt 0 ] || { echo "no case files (run ./check C01 quick first)"; exit 2; }
( cd lean && lake build fvd_filtest >/dev/null 2>&1 ) || { echo "fvd_filtest does not build"; exit 2; }
EXE=lean/.lake/build/bin/fvd_filtest
RC=0
TMP=$(mktemp -d); trap 'rm -rf $TMP' EXIT
for F in "${FILES[@]}"; do
  cut -f3 "$F" | grep '^(btr' | sed 's/ | .*//' | sort -u > $TMP/btrs.txt
  $EXE < $TMP/btrs.txt > $TMP/btrs.out
  if cmp -s $TMP/btrs.txt $TMP/btrs.out; then
    echo "FIL printer: $(wc -l < $TMP/btrs.txt) distinct BTRs of $F: Lean print(parse(text)) == text, parse(print(x)) == x"
  else
    echo "FIL printer: MISMATCH on $F ($(grep -c ROUNDTRIP-FAIL $TMP/btrs.out) round-trip failures, $(cmp $TMP/btrs.txt $TMP/btrs.out | head -1))"
    RC=1
  fi
done
python3 tools/il_equiv.py --selftest "$N" "$SEED" $EXE "${FILES[@]}" || RC=1
exit $RC
