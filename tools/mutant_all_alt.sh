#!/bin/bash
# usage: mutant_all_alt.sh <lanes> id...     — re-evaluates seeded changes against patched COPIES of /repo (tools/mutant_alt.sh),
# each with its own property's quick check plus the related checks recorded for it, <lanes> at a time.
cd /verif
LANES=$1; shift
related() {
  case $1 in
    C01-m3) echo C05;; C05-m3) echo C04;; C06-m2) echo C01;; C06-m3) echo C15;; C06-m4) echo C02;;
    C07-m1|C09-m2|C18-m1|C18-m2) echo "C07 C09 C18";; C07-m3) echo C08;; C07-m4) echo C18;;
    C09-m1) echo "C13 C17";; C09-m3) echo "C18 C07";; C09-m4) echo C12;;
    C10-m1|C11-m1|C11-m2|C10-m3) echo "C10 C11";; C10-m4) echo C12;;
    C12-m1|C12-m2|C14-m1|C12-m4) echo "C12 C14";; C12-m3) echo C09;;
    C13-m3) echo "C09 C17";; C13-m4) echo C09;; C15-m1|C06-m1|C15-m3) echo "C15 C06";;
    C17-m3) echo C09;; C18-m3) echo C07;; C18-m4) echo "C11 C15";; C20-m4) echo C19;;
    *) echo "";;
  esac
}
export -f related
printf '%s\n' "$@" | xargs -P $LANES --process-slot-var=SLOT -I{} bash -c '
  export ALT_TARGET=/tmp/alt-target-$SLOT
  id={}; p=${id%%-*}
  ids="$p $(related $id)"
  ids=$(echo $ids | tr " " "\n" | grep -v "^C20$" | awk "NF && !s[\$0]++" | tr "\n" " ")
  [ -n "$ids" ] && tools/mutant_alt.sh /verif/seeded/$id $ids'
echo ALLDONE
