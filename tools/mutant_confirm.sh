#!/bin/bash
# usage: mutant_confirm.sh <seeded dir>    — confirms a seeded change in the scratch worktree /tmp/mv/repo (never in /repo):
# the demo passes on the clean tree; with the patch the 443 baseline tests pass and the demo fails.  Writes <dir>/confirm.txt
set -u
MUT=$1; WT=${WT:-/tmp/mv/repo}
export CARGO_NET_OFFLINE=true CARGO_TARGET_DIR=${WT}-target
[ -d $WT ] || git -C /repo worktree add $WT HEAD
OUT=$MUT/confirm.txt; : > $OUT
cd $WT && git checkout -q -- . && git checkout -q --detach $(git -C /repo rev-parse HEAD) && rm -rf tests
echo "commit $(git rev-parse --short HEAD)" >> $OUT
mkdir -p tests && cp $MUT/demo.rs tests/demo.rs
echo "== clean tree: demo" >> $OUT
cargo test --offline --test demo 2>&1 | grep -E "^test result|^error" | head -3 >> $OUT
if ! git apply --check $MUT/patch.diff 2>>$OUT; then echo "PATCH DOES NOT APPLY" >> $OUT; rm -rf tests; exit 1; fi
git apply $MUT/patch.diff
echo "== patched: lib tests" >> $OUT
cargo test --offline --lib 2>&1 | grep -E "^test result|^error" | head -3 >> $OUT
echo "== patched: demo" >> $OUT
cargo test --offline --test demo 2>&1 | grep -E "^test result|^error" | head -3 >> $OUT
rm -rf tests; git checkout -q -- .
cat $OUT
