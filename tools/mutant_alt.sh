#!/bin/bash
# usage: mutant_alt.sh <seeded dir | patch file> <Cxx> [more ids]
# Runs the quick checks against a VARIANT of /repo (HEAD + the patch) without touching /repo, /verif/evidence or
# /verif/replays: scratch worktree + a copy of harness/ that depends on it + FV_OUT_DIR.  Safe to run while other checks
# or sub-agents use /repo.  (Not for C20: its pre_build regenerates lean/Generated/Arch.lean, which is shared.)
# Writes <seeded dir>/check.<Cxx>.log and replay.<Cxx>.json like mutant_check.sh; everything under /tmp is removed.
set -u
SRC=$1; shift
if [ -d "$SRC" ]; then PATCH=$SRC/patch.diff; DEST=$SRC; else PATCH=$SRC; DEST=$(dirname $SRC); fi
TAG=$(basename $SRC | tr -c 'A-Za-z0-9\n' '_')-$$
ALT=/tmp/alt-$TAG
mkdir -p $ALT/out
git -C /repo worktree add -q --detach $ALT/repo HEAD || exit 2
trap 'git -C /repo worktree remove --force $ALT/repo 2>/dev/null; rm -rf $ALT' EXIT
git -C $ALT/repo apply $PATCH || { echo "patch does not apply"; exit 2; }
rsync -a --exclude target /verif/harness/ $ALT/harness/
sed -i "s#path = \"/repo\"#path = \"$ALT/repo\"#" $ALT/harness/Cargo.toml
# ALT_TARGET (optional): a target directory that survives this run, so that the crates falcon depends on are compiled once
# per lane instead of once per patch (falcon itself and the harness are rebuilt: their path differs).  One user at a time.
TGT=${ALT_TARGET:-$ALT/harness/target}
sed -i "s#/verif/harness/target#$TGT#" $ALT/harness/.cargo/config.toml
grep -q "$TGT" $ALT/harness/.cargo/config.toml || { echo "cannot redirect the target dir"; exit 2; }
export FV_BIN_DIR=$TGT/release
for P in "$@"; do
  ( cd /verif && FV_HARNESS_DIR=$ALT/harness FV_OUT_DIR=$ALT/out timeout 6000 ./check $P quick > $DEST/check.$P.log 2>&1; echo "exit=$?" >> $DEST/check.$P.log )
  R=$(grep -m1 "^VIOLATION" $DEST/check.$P.log | sed 's/.*replay=\([^ ]*\).*/\1/')
  [ -n "$R" ] && [ -f "/verif/$R" ] && cp "/verif/$R" $DEST/replay.$P.json
  echo "$(basename $SRC) $P: $(grep -c '^VIOLATION' $DEST/check.$P.log) VIOLATION lines, $(grep -c 'no-failing-input-found' $DEST/check.$P.log) without failing input, $(tail -1 $DEST/check.$P.log)"
done
