#!/usr/bin/env python3
"""
il_equiv.py — are two block translation results (BTRs, FIL text) equivalent for ALL states?  Decided with z3.

VALIDATION SUPPORT for the model-to-code tie of the lifter properties C01/C02/C03 (design/06_smt_tie.md), never a theorem:
the universal theorems `lift_correct_*` are about a Lean mirror of the lifter; when falcon's emitted IL differs SYNTACTICALLY
from the mirror's IL for the same word, this tool asks z3 whether the two are SEMANTICALLY equal.  z3 and this encoder are
part of the trusted base of that tie (and are cross-checked against the Lean IL model by tools/il_equiv_selftest.sh).

    il_equiv.py [--jobs N] [--timeout S]                stdin : <id> TAB <l|b> TAB <BTR a> TAB <BTR b>
                                                        stdout: <id> TAB equiv | diff <model…> | unknown <why>
    il_equiv.py --eval                                  stdin : <id> TAB <state> TAB <BTR>
                                                        stdout: <id> TAB <post line computed by z3 from the ENCODING>  (self-test)

Semantics encoded = lean/FalconModel/{Const,Expr,Exec,Lift}.lean (`runBTR`), through the `BitVec` meaning of the operators that
property C04 proves (`ConstSpec.lean`):
  * scalars: one bit-vector per NAME (falcon's executor keys scalars by name only); a name used at two widths -> unknown;
    an assignment whose right-hand side has another width than the declared destination -> unknown;
  * add sub mul and or xor = bvadd…; shl/shr/ashr = bvshl/bvlshr/bvashr (SMT-LIB: amounts >= width give 0 / all sign bits,
    which is `Spec.shl/shr/ashr`); cmpeq cmpneq cmpltu cmplts -> 1-bit; zext/sext/trun with falcon's sort conditions
    (strictly wider / strictly narrower); ite with a 1-bit condition, taken iff the condition `is_one`;
    divu modu divs mods = bvudiv bvurem bvsdiv bvsrem with a DYNAMIC error when the divisor is 0 (lazy under ite, as `eval`);
    a sort error anywhere in an expression is a (static) error of the instruction that evaluates it (`symbolize` rebuilds
    the whole expression through the smart constructors);
  * memory: `mem : Array bv64 bv8` and `mapped : Array bv64 Bool` (falcon's memory is partial: a load with an unmapped byte
    is an error, a store maps its bytes); addresses narrower than 64 bits are zero-extended, wider -> unknown;
    `address + bytes > 2^64` is an error (the executor's checked-arithmetic panic); byte order = the case's endianness;
  * an instruction graph must be a DAG (else unknown: loop); it is executed block by block in topological order with
    path conditions: a single out-edge is taken WITHOUT evaluating its guard, among several the first whose guard `is_one`
    (list order), none -> error; the exit block ends the graph; `branch` ends the whole run with that target;
    an intrinsic ends the run with the outcome `trap:<name>` (per name, distinct from `err`); the graphs are chained as `Lift.runBTR` does; the successor is picked by the same rule;
  * every error (sort, div0, unmapped, wrap, no edge) is ONE outcome `err`.
Observable result compared: err; and when not err: every scalar that is not a lifter temporary (`temp_*`, `branching_condition`
— the names the proofs' `Abs`/`Agrees` relations ignore), the final mem and mapped arrays (extensional equality), the address
`runBTR` continues at, and for each successor address whether a guard for it is enabled (the successor SETS must agree too).
A temporary that is read before it is written on some path -> unknown.
Budget per query: z3's deterministic resource limit `rlimit` = 6e6 x S (S = --timeout, default 5: about 5 s of an idle core), so
that verdicts do not depend on the load of the machine, plus a wall-clock safety net of 6 x S seconds; beyond -> unknown.
"""
import os
import re
import subprocess
import sys
from concurrent.futures import ThreadPoolExecutor

Z3 = os.environ.get("FV_Z3", "/usr/bin/z3")
BINOPS = {"add": "bvadd", "sub": "bvsub", "mul": "bvmul", "and": "bvand", "or": "bvor", "xor": "bvxor",
          "shl": "bvshl", "shr": "bvlshr", "ashr": "bvashr",
          "divu": "bvudiv", "modu": "bvurem", "divs": "bvsdiv", "mods": "bvsrem"}
CMPS = {"cmpeq": "=", "cmpneq": "distinct", "cmplts": "bvslt", "cmpltu": "bvult"}
DIVS = {"divu", "modu", "divs", "mods"}
EXTS = ("zext", "sext", "trun")


class Unknown(Exception):
    pass


class StaticErr(Exception):
    """the instruction evaluating this expression returns an error in every state (sort error)"""


def is_temp(name):
    return name.startswith("temp_") or name == "branching_condition"


# ------------------------------------------------------------------------------------------------ S-expressions / FIL

TOKEN = re.compile(r"[()]|[^\s()]+")


def parse_sx(text):
    stack = [[]]
    for t in TOKEN.findall(text):
        if t == "(":
            stack.append([])
        elif t == ")":
            if len(stack) < 2:
                raise Unknown("unbalanced FIL text")
            x = stack.pop()
            stack[-1].append(x)
        else:
            stack[-1].append(t)
    if len(stack) != 1 or len(stack[0]) != 1:
        raise Unknown("not one S-expression")
    return stack[0][0]


def nat(tok):
    if not isinstance(tok, str):
        raise Unknown("number expected")
    try:
        return int(tok, 16) if tok.startswith("0x") else int(tok)
    except ValueError:
        raise Unknown("number expected: " + tok[:20])


def optnat(tok):
    return None if tok == "-" else nat(tok)


def expr_of(x):
    """FIL expression -> ('c', val, bits) | ('s', name, bits) | ('ite', c, t, e) | (binop, a, b) | (extop, bits, e)"""
    if not isinstance(x, list) or not x or not isinstance(x[0], str):
        raise Unknown("malformed expression")
    h = x[0]
    if h == "c" and len(x) == 3:
        return ("c", nat(x[1]), nat(x[2]))
    if h == "s" and len(x) in (3, 4):
        if len(x) == 4:
            raise Unknown("SSA-versioned scalar")
        return ("s", x[1], nat(x[2]))
    if h == "ite" and len(x) == 4:
        return ("ite", expr_of(x[1]), expr_of(x[2]), expr_of(x[3]))
    if (h in BINOPS or h in CMPS) and len(x) == 3:
        return (h, expr_of(x[1]), expr_of(x[2]))
    if h in EXTS and len(x) == 3:
        return (h, nat(x[1]), expr_of(x[2]))
    raise Unknown("unsupported expression head " + str(h)[:20])


def scalar_of(x):
    e = expr_of(x)
    if e[0] != "s":
        raise Unknown("scalar expected")
    return e[1], e[2]


def op_of(x):
    h = x[0]
    if h == "assign":
        return ("assign", scalar_of(x[1]), expr_of(x[2]))
    if h == "store":
        return ("store", expr_of(x[1]), expr_of(x[2]))
    if h == "load":
        return ("load", scalar_of(x[1]), expr_of(x[2]))
    if h == "branch":
        return ("branch", expr_of(x[1]))
    if h == "nop":
        return ("nop",)
    if h == "intrinsic":
        return ("intrinsic", x[1] if len(x) > 1 and isinstance(x[1], str) else "?")
    raise Unknown("unsupported operation " + str(h)[:20])


class Fn:
    __slots__ = ("entry", "exit", "blocks", "order", "edges")


def fn_of(x):
    # (fn addr idx entry exit nextIndex nextTemp blk* edge*)
    if len(x) < 7:
        raise Unknown("malformed fn")
    f = Fn()
    f.entry, f.exit = optnat(x[3]), optnat(x[4])
    f.blocks, f.edges = {}, []
    for it in x[7:]:
        if it[0] == "blk":
            idx = nat(it[1])
            ins = []
            for i in it[3:]:
                if i[0] == "phi":
                    raise Unknown("phi node")
                if i[0] != "ins" or len(i) != 4:
                    raise Unknown("malformed ins")
                ins.append(op_of(i[3]))
            f.blocks.setdefault(idx, ins)          # `find?`: the first block with that index
        elif it[0] == "edge":
            f.edges.append((nat(it[1]), nat(it[2]), None if it[3] == "-" else expr_of(it[3])))
        else:
            raise Unknown("malformed fn item")
    return f


class Btr:
    __slots__ = ("fns", "succs")


def btr_of(text):
    x = parse_sx(text)
    if not isinstance(x, list) or len(x) < 3 or x[0] != "btr":
        raise Unknown("not a btr")
    b = Btr()
    b.fns, b.succs = [], []
    for it in x[3:]:
        if it[0] == "fn":
            b.fns.append(fn_of(it))
        elif it[0] == "succ" and len(it) == 3:
            b.succs.append((nat(it[1]), None if it[2] == "-" else expr_of(it[2])))
        else:
            raise Unknown("malformed btr item")
    return b


# normal form used as cache key: what has no influence on `runBTR` is dropped (addresses of the block, of the graphs and of
# the instructions, instruction/block counters), temporaries are renamed in order of first appearance (they are not observable)

def _norm_expr(e, ren):
    h = e[0]
    if h == "c":
        return e
    if h == "s":
        n = e[1]
        if is_temp(n):
            n = ren.setdefault(n, "temp_!%d" % len(ren))
        return ("s", n, e[2])
    if h == "ite":
        return ("ite", _norm_expr(e[1], ren), _norm_expr(e[2], ren), _norm_expr(e[3], ren))
    if h in EXTS:
        return (h, e[1], _norm_expr(e[2], ren))
    return (h, _norm_expr(e[1], ren), _norm_expr(e[2], ren))


def _norm_op(op, ren):
    k = op[0]
    if k in ("assign", "load"):
        d = _norm_expr(("s",) + op[1], ren)
        return (k, (d[1], d[2]), _norm_expr(op[2], ren))
    if k == "store":
        return (k, _norm_expr(op[1], ren), _norm_expr(op[2], ren))
    if k == "branch":
        return (k, _norm_expr(op[1], ren))
    return op


def normalise(b):
    ren = {}
    nb = Btr()
    nb.fns = []
    for f in b.fns:
        g = Fn()
        g.entry, g.exit = f.entry, f.exit
        g.blocks = {i: [_norm_op(o, ren) for o in ins] for i, ins in f.blocks.items()}
        g.edges = [(h, t, None if c is None else _norm_expr(c, ren)) for h, t, c in f.edges]
        nb.fns.append(g)
    nb.succs = [(a, None if c is None else _norm_expr(c, ren)) for a, c in b.succs]
    return nb


def key_of(b):
    return repr([(f.entry, f.exit, sorted(f.blocks.items()), f.edges) for f in b.fns]) + repr(b.succs)


# ------------------------------------------------------------------------------------------------ SMT terms

TRUE, FALSE = "true", "false"


def b_and(*xs):
    ys = []
    for x in xs:
        if x == FALSE:
            return FALSE
        if x != TRUE and x not in ys:
            ys.append(x)
    return TRUE if not ys else ys[0] if len(ys) == 1 else "(and " + " ".join(ys) + ")"


def b_or(*xs):
    ys = []
    for x in xs:
        if x == TRUE:
            return TRUE
        if x != FALSE and x not in ys:
            ys.append(x)
    return FALSE if not ys else ys[0] if len(ys) == 1 else "(or " + " ".join(ys) + ")"


def b_not(x):
    return FALSE if x == TRUE else TRUE if x == FALSE else "(not " + x + ")"


def bv(val, bits):
    return "(_ bv%d %d)" % (val, bits)


def sym(name):
    if "|" in name or "\\" in name:
        raise Unknown("scalar name not representable")
    return "|r0!" + name + "|"


BV64 = "(_ BitVec 64)"
MEM_SORT = "(Array (_ BitVec 64) (_ BitVec 8))"
MAP_SORT = "(Array (_ BitVec 64) Bool)"


class State:
    __slots__ = ("regs", "mem", "mapped", "partial")

    def __init__(self, regs, mem, mapped, partial):
        self.regs, self.mem, self.mapped, self.partial = regs, mem, mapped, partial

    def copy(self):
        return State(dict(self.regs), self.mem, self.mapped, set(self.partial))


class Query:
    """one SMT-LIB script: both BTRs start from the same symbolic state (|r0!name|, mem0, mapped0)"""

    def __init__(self, big):
        self.big = big
        self.lines = []
        self.n = 0
        self.width = {}            # scalar name -> width (one width per name)
        self.initial = {}          # non-temporary names whose initial value is referred to -> width
        self.accesses = []         # (path condition, address term (64 bits), bytes)
        self.names = {}            # (sort, term) -> defined name

    def define(self, sort, term, hint="t"):
        # hash-consing: the same term gets the same name, also ACROSS the two BTRs of a pair — whatever the two compute in the
        # same way (addresses, loaded values, the stored memory) is then syntactically equal and needs no reasoning by z3
        s = self.names.get((sort, term))
        if s is None:
            self.n += 1
            s = "%s!%d" % (hint, self.n)
            self.names[(sort, term)] = s
            self.lines.append("(define-fun %s () %s %s)" % (s, sort, term))
        return s

    def bvsort(self, w):
        return "(_ BitVec %d)" % w

    def check_width(self, name, w):
        if w <= 0:
            raise Unknown("zero-width scalar")
        old = self.width.setdefault(name, w)
        if old != w:
            raise Unknown("scalar %s at widths %d and %d" % (name, old, w))

    def initial_of(self, name, w):
        self.check_width(name, w)
        if is_temp(name):
            raise Unknown("temporary %s read before it is written" % name)
        self.initial[name] = w
        return sym(name)

    # ---- expressions: -> (term, width, dynamic error condition)
    def eval(self, e, st):
        h = e[0]
        if h == "c":
            _, v, w = e
            if w <= 0 or v >= (1 << w):
                raise Unknown("constant not reduced to its width")
            return bv(v, w), w, FALSE
        if h == "s":
            _, n, w = e
            self.check_width(n, w)
            if n in st.partial:
                raise Unknown("temporary %s undefined on some path" % n)
            if n in st.regs:
                return st.regs[n][1], w, FALSE
            return self.initial_of(n, w), w, FALSE
        if h == "ite":
            c, wc, ec = self.eval(e[1], st)
            t, wt, et = self.eval(e[2], st)
            f, wf, ef = self.eval(e[3], st)
            if wc != 1 or wt != wf:
                raise StaticErr()
            cond = "(= %s #b1)" % c
            err = b_or(ec, FALSE if et == FALSE and ef == FALSE else "(ite %s %s %s)" % (cond, et, ef))
            return "(ite %s %s %s)" % (cond, t, f), wt, err
        if h in EXTS:
            _, m, x = e
            t, w, er = self.eval(x, st)
            if m <= 0:
                raise Unknown("zero-width extension")
            if h == "trun":
                if m >= w:
                    raise StaticErr()
                return "((_ extract %d 0) %s)" % (m - 1, t), m, er
            if m <= w:
                raise StaticErr()
            return "((_ %s %d) %s)" % ("zero_extend" if h == "zext" else "sign_extend", m - w, t), m, er
        a, wa, ea = self.eval(e[1], st)
        b, wb, eb = self.eval(e[2], st)
        if wa != wb:
            raise StaticErr()
        if h in CMPS:
            return "(ite (%s %s %s) #b1 #b0)" % (CMPS[h], a, b), 1, b_or(ea, eb)
        err = b_or(ea, eb)
        if h in DIVS:
            err = b_or(err, "(= %s %s)" % (b, bv(0, wb)))
        return "(%s %s %s)" % (BINOPS[h], a, b), wa, err

    def eval_named(self, e, st):
        t, w, er = self.eval(e, st)
        if len(t) > 40:
            t = self.define(self.bvsort(w), t)
        if len(er) > 40:
            er = self.define("Bool", er, "e")
        return t, w, er

    def addr64(self, t, w):
        if w > 64:
            raise Unknown("address wider than 64 bits")
        return self.define(BV64, t if w == 64 else "((_ zero_extend %d) %s)" % (64 - w, t), "a")

    def byte_addrs(self, a, n):
        return [a if i == 0 else "(bvadd %s %s)" % (a, bv(i, 64)) for i in range(n)]

    # ---- one operation on (pc, st): -> (pc', st', [(pc, 'err') | (pc, 'next', st, target)])
    def execute(self, op, pc, st):
        k = op[0]
        out = []
        try:
            if k == "nop":
                return pc, st, out
            if k == "intrinsic":
                # `execute` returns `.err .intrinsic`: the run stops here.  A separate outcome per intrinsic name (a trap is
                # not interchangeable with a sort/div0/unmapped error, nor with another intrinsic)
                out.append((pc, "trap:" + str(op[1])))
                return FALSE, st, out
            if k == "assign":
                (dn, dw), src = op[1], op[2]
                t, w, er = self.eval_named(src, st)
                self.check_width(dn, dw)
                if w != dw:
                    raise Unknown("assignment of %d bits to %s:%d" % (w, dn, dw))
                if er != FALSE:
                    out.append((b_and(pc, er), "err"))
                    pc = b_and(pc, b_not(er))
                st = st.copy()
                st.regs[dn] = (dw, t)
                st.partial.discard(dn)
                return pc, st, out
            if k == "branch":
                t, w, er = self.eval_named(op[1], st)
                if er != FALSE:
                    out.append((b_and(pc, er), "err"))
                    pc = b_and(pc, b_not(er))
                out.append((pc, "next", st, self.addr64(t, w)))
                return FALSE, st, out
            if k == "store":
                v, wv, ev = self.eval_named(op[2], st)          # `execute` evaluates the value first, then the index
                i, wi, ei = self.eval_named(op[1], st)
                er = b_or(ev, ei)
                if wv % 8 != 0:
                    raise StaticErr()
                n = wv // 8
                a = self.addr64(i, wi)
                er = b_or(er, "(bvugt %s %s)" % (a, bv((1 << 64) - n, 64)))
                if er != FALSE:
                    out.append((b_and(pc, er), "err"))
                    pc = b_and(pc, b_not(er))
                if (pc, a, n) not in self.accesses:
                    self.accesses.append((pc, a, n))
                st = st.copy()
                mem, mp = st.mem, st.mapped
                for j, ba in enumerate(self.byte_addrs(a, n)):
                    k8 = (n - 1 - j) if self.big else j          # which byte of the value lands at a+j
                    mem = "(store %s %s ((_ extract %d %d) %s))" % (mem, ba, 8 * k8 + 7, 8 * k8, v)
                    mp = "(store %s %s true)" % (mp, ba)
                st.mem = self.define(MEM_SORT, mem, "m")
                st.mapped = self.define(MAP_SORT, mp, "p")
                return pc, st, out
            if k == "load":
                (dn, dw), idx = op[1], op[2]
                i, wi, er = self.eval_named(idx, st)
                self.check_width(dn, dw)
                if dw % 8 != 0:
                    raise StaticErr()
                n = dw // 8
                a = self.addr64(i, wi)
                bas = self.byte_addrs(a, n)
                er = b_or(er, "(bvugt %s %s)" % (a, bv((1 << 64) - n, 64)),
                          b_not(b_and(*["(select %s %s)" % (st.mapped, ba) for ba in bas])))
                er = self.define("Bool", er, "e")
                out.append((b_and(pc, er), "err"))
                pc = b_and(pc, b_not(er))
                if (pc, a, n) not in self.accesses:
                    self.accesses.append((pc, a, n))
                bs = ["(select %s %s)" % (st.mem, ba) for ba in bas]      # bs[j] = byte at a+j
                if not self.big:
                    bs = bs[::-1]                                         # most significant first for concat
                t = bs[0] if n == 1 else "(concat " + " ".join(bs) + ")"
                st = st.copy()
                st.regs[dn] = (dw, self.define(self.bvsort(dw), t))
                st.partial.discard(dn)
                return pc, st, out
        except StaticErr:
            out.append((pc, "err"))
            return FALSE, st, out
        raise Unknown("unsupported operation")

    # ---- merging
    def reg_in(self, st, n, w):
        if n in st.regs:
            return st.regs[n][1]
        return None if is_temp(n) else self.initial_of(n, w)

    def merge(self, items):
        """items: [(pc, State)] with exclusive path conditions -> (pc, State)"""
        items = [(p, s) for p, s in items if p != FALSE]
        if not items:
            return FALSE, None
        if len(items) == 1:
            return items[0]
        pcs = [self.define("Bool", p, "c") if len(p) > 40 else p for p, _ in items]
        names = {}
        for _, s in items:
            for n, (w, _) in s.regs.items():
                names[n] = w
        st = State({}, None, None, set())
        for _, s in items:
            st.partial |= s.partial
        for n, w in names.items():
            vals = [self.reg_in(s, n, w) for _, s in items]
            if any(v is None for v in vals):
                st.partial.add(n)
                continue
            if all(v == vals[0] for v in vals):
                st.regs[n] = (w, vals[0])
                continue
            acc = vals[-1]
            for p, v in zip(pcs[-2::-1], vals[-2::-1]):
                acc = "(ite %s %s %s)" % (p, v, acc)
            st.regs[n] = (w, self.define(self.bvsort(w), acc))
        for fld, sort, hint in (("mem", MEM_SORT, "m"), ("mapped", MAP_SORT, "p")):
            vals = [getattr(s, fld) for _, s in items]
            if all(v == vals[0] for v in vals):
                setattr(st, fld, vals[0])
            else:
                acc = vals[-1]
                for p, v in zip(pcs[-2::-1], vals[-2::-1]):
                    acc = "(ite %s %s %s)" % (p, v, acc)
                setattr(st, fld, self.define(sort, acc, hint))
        pc = b_or(*pcs)
        if len(pc) > 40:
            pc = self.define("Bool", pc, "c")
        return pc, st

    # ---- the choice among out-edges / successors (`pickEdge`): -> [(pc, index)], error pc
    def pick(self, guards, pc, st):
        if not guards:
            return [], pc
        if len(guards) == 1:
            return [(pc, 0)], FALSE                   # taken without evaluating the guard
        taken, rest = [], pc
        for i, g in enumerate(guards):
            if rest == FALSE:
                break
            if g is None:
                return taken, rest                    # "Failed to get edge condition"
            try:
                t, w, er = self.eval_named(g, st)
            except StaticErr:
                return taken, rest
            if er != FALSE:
                raise Unknown("division inside a guard")
            c = self.define("Bool", "(= %s %s)" % (t, bv(1, w)), "g")
            taken.append((b_and(rest, c), i))
            rest = b_and(rest, b_not(c))
        return taken, rest

    # ---- one instruction graph
    def run_graph(self, f, pc, st, finals):
        if f.entry is None:
            finals.append((pc, "err"))
            return FALSE, None
        out_edges = {}
        for h, t, c in f.edges:
            out_edges.setdefault(h, []).append((t, c))
        # topological order of the part reachable from the entry (edges out of the exit block are never followed)
        order, colour = [], {}
        stack = [(f.entry, 0)]
        colour[f.entry] = 1
        while stack:
            b, i = stack.pop()
            succ = [] if (b == f.exit or b not in f.blocks) else [t for t, _ in out_edges.get(b, [])]
            if i < len(succ):
                stack.append((b, i + 1))
                t = succ[i]
                if colour.get(t) == 1:
                    raise Unknown("loop in an instruction graph")
                if t not in colour:
                    colour[t] = 1
                    stack.append((t, 0))
            else:
                colour[b] = 2
                order.append(b)
        order.reverse()
        incoming = {f.entry: [(pc, st)]}
        done = []
        for b in order:
            bpc, bst = self.merge(incoming.get(b, []))
            if bpc == FALSE:
                continue
            if b not in f.blocks:
                finals.append((bpc, "err"))
                continue
            for op in f.blocks[b]:
                bpc, bst, outs = self.execute(op, bpc, bst)
                finals.extend(o for o in outs if o[0] != FALSE)
                if bpc == FALSE:
                    break
            if bpc == FALSE:
                continue
            if b == f.exit:
                done.append((bpc, bst))
                continue
            es = out_edges.get(b, [])
            taken, rest = self.pick([c for _, c in es], bpc, bst)
            for p, i in taken:
                incoming.setdefault(es[i][0], []).append((p, bst))
            if rest != FALSE:
                finals.append((rest, "err"))
        return self.merge(done)

    # ---- a whole BTR: -> dict(err, regs, mem, mapped, next, enabled)
    def run_btr(self, b):
        finals = []
        st = State({}, "mem0", "mapped0", set())
        pc = TRUE
        if not b.fns:
            finals.append((TRUE, "err"))              # runBTR: `.stop σ₀ "-"`
            pc = FALSE
        for f in b.fns:
            pc, st = self.run_graph(f, pc, st, finals)
            if pc == FALSE:
                break
        addrs = sorted({a for a, _ in b.succs})
        if pc != FALSE:
            taken, rest = self.pick([c for _, c in b.succs], pc, st)
            en = {}
            for a, c in b.succs:
                if c is None:
                    g = TRUE
                else:
                    try:
                        t, w, er = self.eval_named(c, st)
                    except StaticErr:
                        raise Unknown("ill-sorted successor guard")
                    if er != FALSE:
                        raise Unknown("division inside a guard")
                    g = "(= %s %s)" % (t, bv(1, w))
                en[a] = b_or(en.get(a, FALSE), g)
            for p, i in taken:
                finals.append((p, "next", st, bv(b.succs[i][0], 64), en))
            if rest != FALSE:
                finals.append((rest, "err"))
        traps = {}
        for f in finals:
            if f[1].startswith("trap:") and f[0] != FALSE:
                traps[f[1][5:]] = b_or(traps.get(f[1][5:], FALSE), f[0])
        # `err` = the run does not reach a successor (errors and traps); `traps` says which intrinsic, if any
        err = b_or(*([f[0] for f in finals if f[1] == "err"] + list(traps.values())))
        nexts = [f for f in finals if f[1] == "next" and f[0] != FALSE]
        res = {"err": self.define("Bool", err, "err"), "regs": {}, "mem": "mem0", "mapped": "mapped0", "next": bv(0, 64),
               "enabled": {a: FALSE for a in addrs}, "partial": set(),
               "traps": {n: self.define("Bool", t, "trap") for n, t in traps.items()}}
        if nexts:
            _, mst = self.merge([(f[0], f[2]) for f in nexts])
            res["regs"], res["mem"], res["mapped"], res["partial"] = mst.regs, mst.mem, mst.mapped, mst.partial
            acc = nexts[-1][3]
            for f in nexts[-2::-1]:
                acc = "(ite %s %s %s)" % (f[0], f[3], acc)
            res["next"] = self.define(BV64, acc, "next")
            for a in addrs:
                vals = [(f[0], f[4].get(a, FALSE) if len(f) > 4 else FALSE) for f in nexts]
                acc = vals[-1][1]
                for p, v in vals[-2::-1]:
                    acc = "(ite %s %s %s)" % (p, v, acc)
                res["enabled"][a] = self.define("Bool", acc, "en")
        return res

    def header(self):
        out = ["(declare-const mem0 %s)" % MEM_SORT, "(declare-const mapped0 %s)" % MAP_SORT]
        for n, w in sorted(self.initial.items()):
            out.append("(declare-const %s (_ BitVec %d))" % (sym(n), w))
        return out


def final_reg(q, res, n, w):
    if n in res["regs"]:
        return res["regs"][n][1]
    return q.initial_of(n, w)


def build_pair(big, ba, bb):
    """-> (script lines, list of get-value terms with labels) ; raises Unknown"""
    q = Query(big)
    ra = q.run_btr(ba)
    rb = q.run_btr(bb)
    names = {}
    for r in (ra, rb):
        for n, (w, _) in r["regs"].items():
            if not is_temp(n):
                names[n] = w
        for n in r["partial"]:
            if not is_temp(n):
                raise Unknown("register %s undefined on some path" % n)
    for n, w in list(q.initial.items()):
        names.setdefault(n, w)
    diffs = []
    for n, w in sorted(names.items()):
        x, y = final_reg(q, ra, n, w), final_reg(q, rb, n, w)
        if x != y:
            diffs.append((n, "(distinct %s %s)" % (x, y)))
    if ra["mem"] != rb["mem"]:
        diffs.append(("mem", "(distinct %s %s)" % (ra["mem"], rb["mem"])))
    if ra["mapped"] != rb["mapped"]:
        diffs.append(("mapped", "(distinct %s %s)" % (ra["mapped"], rb["mapped"])))
    if ra["next"] != rb["next"]:
        diffs.append(("next", "(distinct %s %s)" % (ra["next"], rb["next"])))
    for a in sorted(set(ra["enabled"]) | set(rb["enabled"])):
        x, y = ra["enabled"].get(a, FALSE), rb["enabled"].get(a, FALSE)
        if x != y:
            diffs.append(("succ-0x%x" % a, "(distinct %s %s)" % (x, y)))
    labelled = [(lbl, q.define("Bool", t, "d")) for lbl, t in diffs]
    stops = ["(distinct %s %s)" % (ra["err"], rb["err"])]
    for n in sorted(set(ra.get("traps", {})) | set(rb.get("traps", {}))):
        stops.append("(distinct %s %s)" % (ra.get("traps", {}).get(n, FALSE), rb.get("traps", {}).get(n, FALSE)))
    stop = q.define("Bool", b_or(*stops), "d")
    goal = b_or(stop, b_and(b_not(ra["err"]), b_or(*[d for _, d in labelled])))
    lines = q.header() + q.lines + ["(assert %s)" % goal]
    gets = [(("differs", "stop"), stop)] + [(("differs", l), "(and (not %s) %s)" % (ra["err"], d)) for l, d in labelled]
    for n, w in sorted(q.initial.items()):
        gets.append((("reg", n, w), sym(n)))
    for k, (pc, a, n) in enumerate(q.accesses):
        gets.append((("acc", k, n, "pc"), pc))
        gets.append((("acc", k, n, "addr"), a))
        for j in range(n):
            ba_ = a if j == 0 else "(bvadd %s %s)" % (a, bv(j, 64))
            gets.append((("acc", k, n, "b", j), "(select mem0 %s)" % ba_))
            gets.append((("acc", k, n, "m", j), "(select mapped0 %s)" % ba_))
    return lines, gets, goal == FALSE


# ------------------------------------------------------------------------------------------------ z3

RLIMIT_PER_S = 6000000       # z3 resource units per nominal second (an unloaded core does roughly this much per second)
WALL_FACTOR = 6              # wall-clock safety net per query = WALL_FACTOR x the nominal timeout


def run_z3(script, timeout_s, hard_s):
    """per query (check-sat): a DETERMINISTIC budget `rlimit` (so that a verdict does not depend on how busy the machine is)
    and, as a safety net, a wall-clock limit of WALL_FACTOR x timeout_s; per process a hard limit"""
    try:
        p = subprocess.run([Z3, "-smt2", "-in", "rlimit=%d" % int(timeout_s * RLIMIT_PER_S),
                            "-t:%d" % int(timeout_s * 1000 * WALL_FACTOR), "-T:%d" % int(hard_s)],
                           input=script, capture_output=True, text=True, timeout=hard_s + 30)
        return p.stdout
    except subprocess.TimeoutExpired as ex:
        return (ex.stdout or b"").decode() if isinstance(ex.stdout, bytes) else (ex.stdout or "")


def value_of(tok):
    """SMT-LIB value -> int | bool"""
    if tok == "true":
        return True
    if tok == "false":
        return False
    if isinstance(tok, str):
        if tok.startswith("#x"):
            return int(tok[2:], 16)
        if tok.startswith("#b"):
            return int(tok[2:], 2)
    if isinstance(tok, list) and len(tok) == 3 and tok[0] == "_" and tok[1].startswith("bv"):
        return int(tok[1][2:])
    raise ValueError(str(tok)[:40])


def parse_values(text):
    """the answer of (get-value (t1 t2 …)): list of values in order (terms are echoed; only the value is kept)"""
    x = parse_sx(text)
    return [value_of(p[1]) for p in x]


def solve_scripts(jobs, timeout_s, workers):
    """jobs: [(id, script lines, get-value terms)] -> {id: ('unsat'|'sat'|'unknown', values|None)}"""
    if not jobs:
        return {}
    nchunks = max(1, min(len(jobs), workers * 4))
    chunks = [jobs[i::nchunks] for i in range(nchunks)]

    def work(chunk):
        parts = []
        for jid, lines, gets in chunk:
            # no (set-logic): QF_ABV rejects `(as const …)` and Bool-valued arrays in z3 4.8.12
            parts.append('(reset)\n(set-option :produce-models true)\n(echo "BEGIN %s")\n' % jid + "\n".join(lines) +
                         '\n(echo "CHECK")\n(check-sat)\n' +
                         ("(get-value (%s))\n" % " ".join(g for _, g in gets) if gets else "") + '(echo "END")\n')
        out = run_z3("".join(parts), timeout_s, timeout_s * WALL_FACTOR * len(chunk) + 20)
        res = {}
        for m in re.finditer(r"BEGIN (\S+)\n(.*?)END\n", out, flags=re.S):
            pre, _, body = m.group(2).partition("CHECK\n")
            if pre.strip():
                # z3 said something (an error) while reading the definitions and assertions: the query is not what was meant
                res[m.group(1)] = ("unknown", None)
                continue
            first = body.strip().split("\n", 1)
            verdict = first[0].strip()
            vals = None
            if verdict == "sat" and len(first) > 1 and first[1].lstrip().startswith("("):
                try:
                    vals = parse_values(first[1])
                except Exception:
                    vals = None
            res[m.group(1)] = (verdict if verdict in ("sat", "unsat") else "unknown", vals)
        return res

    results = {}
    with ThreadPoolExecutor(max_workers=workers) as ex:
        for r in ex.map(work, chunks):
            results.update(r)
    return results


def render_model(gets, vals):
    """-> the text after `diff`: differs:<what> … <reg>=0x<v>:<bits> … @0x<addr>=<hh> … !0x<addr> (unmapped byte accessed)"""
    d = dict(zip([l for l, _ in gets], vals))
    out = ["differs:" + l[1] for l, _ in gets if l[0] == "differs" and d.get(l) is True]
    for l, _ in gets:
        if l[0] == "reg":
            out.append("%s=0x%x:%d" % (l[1], d[l], l[2]))
    seen = set()
    for l, _ in gets:
        if l[0] == "acc" and l[3] == "pc" and d[l] is True:
            k, n = l[1], l[2]
            a = d[("acc", k, n, "addr")]
            for j in range(n):
                x = (a + j) % (1 << 64)
                if x in seen:
                    continue
                seen.add(x)
                if d[("acc", k, n, "m", j)]:
                    out.append("@0x%x=%02x" % (x, d[("acc", k, n, "b", j)]))
                else:
                    out.append("!0x%x" % x)
    return " ".join(out)


def decide_pairs(pairs, timeout_s=5, workers=16, stats=None):
    """pairs: [(id, 'l'|'b', text a, text b)] -> {id: verdict string}.  Identical pairs (after dropping what has no influence
    on runBTR and renaming temporaries) are decided once."""
    where, keyed, jobs = {}, {}, []       # id -> key ; key -> verdict (None while the query is out) ; queries
    parsed = {}
    for pid, endian, ta, tb in pairs:
        tk = (endian, ta, tb)
        if tk not in parsed:
            try:
                na, nb = normalise(btr_of(ta)), normalise(btr_of(tb))
                parsed[tk] = (endian + key_of(na) + "\n" + key_of(nb), na, nb)
            except Unknown as u:
                parsed[tk] = (("bad", len(parsed)), "unknown " + str(u), None)
            except RecursionError:
                parsed[tk] = (("bad", len(parsed)), "unknown expression too deep", None)
        key, na, nb = parsed[tk]
        where[pid] = key
        if key in keyed:
            continue
        if nb is None:
            keyed[key] = na
            continue
        keyed[key] = None
        try:
            lines, gets, trivially = build_pair(endian == "b", na, nb)
            if trivially:
                keyed[key] = "equiv"
            else:
                jobs.append((str(len(jobs)), lines, gets, key))
        except Unknown as u:
            keyed[key] = "unknown " + str(u)
        except RecursionError:
            keyed[key] = "unknown expression too deep"
    res = solve_scripts([(j, l, g) for j, l, g, _ in jobs], timeout_s, workers)
    for j, lines, gets, key in jobs:
        v, vals = res.get(j, ("unknown", None))
        if v == "unsat":
            keyed[key] = "equiv"
        elif v == "sat" and vals is not None and len(vals) == len(gets):
            keyed[key] = "diff " + render_model(gets, vals)
        elif v == "sat":
            keyed[key] = "unknown sat but the model could not be read"
        else:
            keyed[key] = "unknown z3 gave no answer within its budget (rlimit %d, %g s wall)" % (timeout_s * RLIMIT_PER_S, timeout_s * WALL_FACTOR)
    if stats is not None:
        stats["pairs"] = len(pairs)
        stats["distinct_pairs"] = len(keyed)
        stats["z3_queries"] = len(jobs)
    return {pid: keyed[k] for pid, k in where.items()}


# ------------------------------------------------------------------------------------------------ --eval (self-test)

def parse_state(text):
    f = [x.strip() for x in text.split(";")]
    if len(f) != 3 or f[0] not in ("l", "b"):
        raise Unknown("bad state")
    regs, mem = [], []
    for kv in f[1].split(","):
        if kv:
            k, v = kv.split("=", 1)
            val, bits = v.split(":")
            regs.append((k, int(val, 16), int(bits)))
    for kv in f[2].split(","):
        if kv:
            k, v = kv.split(":", 1)
            mem.append((int(k, 16), bytes.fromhex(v)))
    return f[0], regs, mem


def build_eval(state_text, btr_text):
    """script that pins the initial state and asks for the outcome of the ENCODING of one BTR"""
    endian, regs, mem = parse_state(state_text)
    q = Query(endian == "b")
    b = btr_of(btr_text)
    r = q.run_btr(b)
    given = {n: (v, w) for n, v, w in regs}
    for n, w in q.initial.items():
        if n not in given:
            raise Unknown("skip: the state does not define " + n)
        if given[n][1] != w:
            raise Unknown("skip: the state defines %s at another width" % n)
    # the initial state is DEFINED (no free symbol is left: z3 evaluates the encoding)
    m0 = "((as const %s) #x00)" % MEM_SORT
    p0 = "((as const %s) false)" % MAP_SORT
    for a, bs in mem:
        for i, x in enumerate(bs):
            m0 = "(store %s %s %s)" % (m0, bv(a + i, 64), bv(x, 8))
            p0 = "(store %s %s true)" % (p0, bv(a + i, 64))
    lines = ["(define-fun mem0 () %s %s)" % (MEM_SORT, m0), "(define-fun mapped0 () %s %s)" % (MAP_SORT, p0)]
    for n, w in q.initial.items():
        lines.append("(define-fun %s () (_ BitVec %d) %s)" % (sym(n), w, bv(given[n][0], w)))
    lines += q.lines
    gets = [("err", r["err"]), ("next", r["next"])]
    shown = []
    for n, v, w in regs:
        if n in q.width and q.width[n] != w:
            raise Unknown("skip: the state defines %s at another width" % n)
        if n in r["regs"]:
            gets.append(("reg:" + n, r["regs"][n][1]))
            shown.append((n, w, None))
        else:
            shown.append((n, w, v))
    if r["mem"] != "mem0" or r["mapped"] != "mapped0":
        for a, bs in mem:
            for i in range(len(bs)):
                gets.append(("mem", "(ite (select %s %s) (select %s %s) #x00)" % (r["mapped"], bv(a + i, 64), r["mem"], bv(a + i, 64))))
    return lines, gets, shown, mem


def render_eval(gets, vals, shown, mem):
    d = list(zip([l for l, _ in gets], vals))
    if d[0][1]:
        return "next=err"
    regvals = {l[4:]: v for l, v in d if l.startswith("reg:")}
    regs = ["%s=0x%x:%d" % (n, regvals[n] if v is None else v, w) for n, w, v in shown]
    mv = [v for l, v in d if l == "mem"] or [x for _, bs in mem for x in bs]      # untouched memory: the initial bytes
    ws, k = [], 0
    for a, bs in mem:
        ws.append("0x%x:%s" % (a, "".join("%02x" % x for x in mv[k:k + len(bs)])))
        k += len(bs)
    return "next=0x%x ; %s ; %s" % (d[1][1], ",".join(regs), ",".join(ws))


def eval_lines(items, timeout_s=10, workers=16):
    """items: [(id, state text, btr text)] -> {id: post line | 'skip …' | 'unknown …'}"""
    out, jobs, meta = {}, [], {}
    for iid, st, bt in items:
        try:
            lines, gets, shown, mem = build_eval(st, bt)
            jobs.append((str(len(jobs)), lines, gets))
            meta[str(len(jobs) - 1)] = (iid, gets, shown, mem)
        except Unknown as u:
            out[iid] = ("" if str(u).startswith("skip") else "unknown ") + str(u)
        except RecursionError:
            out[iid] = "unknown expression too deep"
    res = solve_scripts(jobs, timeout_s, workers)
    for j, (iid, gets, shown, mem) in meta.items():
        v, vals = res.get(j, ("unknown", None))
        if v == "sat" and vals is not None and len(vals) == len(gets):
            out[iid] = render_eval(gets, vals, shown, mem)
        else:
            out[iid] = "unknown z3 answered " + v
    return out


def selftest(files, n, seed, exe, timeout_s=10, workers=16):
    """the ENCODER against the Lean IL model: for (BTR, state) pairs sampled from case files (`class TAB request TAB falcon's
    answer`, the BTR is falcon's real output for the request's word, the state is the request's) the outcome that z3 computes
    from the encoding must be the post line of `runBTR` (Drivers/FilTest.lean, `btr-run`).  -> (compared, skipped, mismatches)"""
    import random
    rng = random.Random(seed)
    items = []
    for path in files:
        rows = []
        with open(path) as f:
            for line in f:
                p = line.rstrip("\n").split("\t")
                if len(p) >= 3 and " | " in p[1] and p[2].startswith("(btr"):
                    rows.append((p[1].split(" | ", 1)[1], p[2].split(" | ", 1)[0]))
        rng.shuffle(rows)
        # prefer distinct instruction shapes: one state per distinct BTR text first
        seen, pick, rest = set(), [], []
        for st, bt in rows:
            (rest if bt in seen else pick).append((st, bt))
            seen.add(bt)
        items += (pick + rest)[:n]
    return selftest_items(items, exe, timeout_s, workers)


def selftest_items(items, exe, timeout_s=10, workers=16):
    """items: [(state text, BTR text)]"""
    ids = [str(i) for i in range(len(items))]
    z = eval_lines([(i, st, bt) for i, (st, bt) in zip(ids, items)], timeout_s, workers)
    inp = "".join("btr-run\t%s\t%s\n" % (st, bt) for st, bt in items)
    p = subprocess.run([exe], input=inp, capture_output=True, text=True, timeout=3000)
    lean = p.stdout.split("\n")[:len(items)]
    if p.returncode != 0 or len(lean) != len(items):
        return 0, 0, [("driver", "fvd_filtest failed: rc=%s, %d answers for %d lines" % (p.returncode, len(lean), len(items)), "")]
    compared, skipped, bad, why = 0, 0, [], {}
    for i, (st, bt), l in zip(ids, items, lean):
        zv = z[i]
        if zv.startswith("skip") or zv.startswith("unknown"):
            skipped += 1
            k = " ".join(zv.split(" ")[:4])
            why[k] = why.get(k, 0) + 1
            continue
        if not l.startswith("next=0x"):
            l = "next=err" if l.startswith("next=") else l
        compared += 1
        if zv != l:
            bad.append((st, bt, "z3: %s | lean: %s" % (zv, l)))
    return compared, skipped, bad, why


def main():
    args = sys.argv[1:]
    if args and args[0] == "--selftest":
        # --selftest N SEED FILTEST_EXE FILE…
        n, seed, exe, files = int(args[1]), int(args[2]), args[3], args[4:]
        sys.setrecursionlimit(10000)
        r = selftest(files, n, seed, exe)
        compared, skipped, bad = r[0], r[1], r[2]
        for st, bt, msg in bad[:20]:
            print("MISMATCH %s\n   state: %s\n   btr:   %s" % (msg, st, bt))
        print("il_equiv selftest: %d (BTR, state) pairs compared with the Lean IL model, %d outside the encoder (%s), %d mismatches"
              % (compared, skipped, r[3] if len(r) > 3 else "", len(bad)))
        return 1 if bad or compared == 0 else 0
    workers, timeout_s = 16, 5.0
    if "--jobs" in args:
        workers = int(args[args.index("--jobs") + 1])
    if "--timeout" in args:
        timeout_s = float(args[args.index("--timeout") + 1])
    sys.setrecursionlimit(10000)
    rows = [l.rstrip("\n").split("\t") for l in sys.stdin if l.strip()]
    if "--eval" in args:
        res = eval_lines([(r[0], r[1], r[2]) for r in rows if len(r) == 3], timeout_s, workers)
        for r in rows:
            if len(r) == 3:
                print(r[0] + "\t" + res[r[0]])
        return 0
    stats = {}
    res = decide_pairs([(r[0], r[1], r[2], r[3]) for r in rows if len(r) == 4], timeout_s, workers, stats)
    for r in rows:
        if len(r) == 4:
            print(r[0] + "\t" + res[r[0]])
    print("il_equiv: %s" % stats, file=sys.stderr)
    return 0


if __name__ == "__main__":
    sys.exit(main())
