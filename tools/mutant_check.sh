#!/bin/bash
# usage: mutant_check.sh <seeded dir> <Cxx> [more ids]   — the brief's procedure: apply the change to /repo, run the quick
# checks, undo it straight afterwards.  Writes <dir>/check.<Cxx>.log (+ the first replay as <dir>/replay.<Cxx>.json)
set -u
MUT=$1; shift
if [ -n "$(git -C /repo status --porcelain --untracked-files=no)" ]; then echo "/repo is not clean"; exit 2; fi
git -C /repo apply $MUT/patch.diff || { echo "patch does not apply to /repo"; exit 2; }
trap 'git -C /repo checkout -q -- .' EXIT
for P in "$@"; do
  ( cd /verif && rm -rf replays/$P && timeout 3000 ./check $P quick > $MUT/check.$P.log 2>&1; echo "exit=$?" >> $MUT/check.$P.log )
  R=$(grep -m1 "^VIOLATION" $MUT/check.$P.log | sed 's/.*replay=\([^ ]*\).*/\1/')
  [ -n "$R" ] && [ -f "/verif/$R" ] && cp "/verif/$R" $MUT/replay.$P.json
  echo "$(basename $MUT) $P: $(grep -c '^VIOLATION' $MUT/check.$P.log) VIOLATION lines, $(grep -c 'no-failing-input-found' $MUT/check.$P.log) without failing input, $(tail -1 $MUT/check.$P.log)"
done
