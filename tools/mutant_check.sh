#!/bin/bash
# usage: mutant_check.sh <seeded dir> <Cxx> [more ids]   — the brief's procedure: apply the change to /repo, run the quick
# checks, undo it straight afterwards.  Writes <dir>/check.<Cxx>.log (+ the first replay as <dir>/replay.<Cxx>.json)
set -u
# REPO/VERIF may point to an isolated copy (worktree of /repo HEAD + rsync'ed copy of /verif whose harness depends on that
# worktree) while sub-agents are still building against /repo itself: same procedure, different directories
REPO=${REPO:-/repo}; VERIF=${VERIF:-/verif}
MUT=$1; shift
if [ -n "$(git -C $REPO status --porcelain --untracked-files=no)" ]; then echo "$REPO is not clean"; exit 2; fi
git -C $REPO apply $MUT/patch.diff || { echo "patch does not apply to $REPO"; exit 2; }
trap 'git -C $REPO checkout -q -- .' EXIT
for P in "$@"; do
  ( cd $VERIF && rm -rf replays/$P && timeout 3000 ./check $P quick > $MUT/check.$P.log 2>&1; echo "exit=$?" >> $MUT/check.$P.log )
  R=$(grep -m1 "^VIOLATION" $MUT/check.$P.log | sed 's/.*replay=\([^ ]*\).*/\1/')
  [ -n "$R" ] && [ -f "$VERIF/$R" ] && cp "$VERIF/$R" $MUT/replay.$P.json
  echo "$(basename $MUT) $P: $(grep -c '^VIOLATION' $MUT/check.$P.log) VIOLATION lines, $(grep -c 'no-failing-input-found' $MUT/check.$P.log) without failing input, $(tail -1 $MUT/check.$P.log)"
done
