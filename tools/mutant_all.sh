#!/bin/bash
# confirm what is not yet confirmed, then run the checks (own property + related ones) for every seeded change on /repo
cd /verif
for d in seeded/*/; do d=${d%/}; [ -s $d/confirm.txt ] && grep -q "patched: demo" $d/confirm.txt || tools/mutant_confirm.sh /verif/$d > /dev/null 2>&1; done
extra() {
  case $1 in
    C07-m1|C09-m2|C18-m1|C18-m2) echo "C07 C09 C18";;
    C10-m1|C11-m1|C11-m2) echo "C10 C11";;
    C12-m1|C12-m2|C14-m1) echo "C12 C14";;
    C15-m1|C06-m1) echo "C15 C06";;
    C01-*|C02-*|C03-*|C06-m2) echo "C05";;
    C05-*) echo "C01";;
    C09-m1) echo "C13 C17";;
    C20-m2) echo "C02";;
    *) echo "";;
  esac
}
for d in seeded/*/; do d=${d%/}; id=$(basename $d); p=${id%%-*}
  ids="$p $(extra $id)"; ids=$(echo $ids | tr ' ' '\n' | awk '!s[$0]++' | tr '\n' ' ')
  tools/mutant_check.sh /verif/$d $ids
done
echo ALLDONE
