#!/usr/bin/env python3
"""table of the behaviour-preserving rewrites (neutral/<id>/): which checks stayed quiet, which raised an alarm"""
import glob, json, os, re
ROOT = os.path.dirname(os.path.dirname(os.path.abspath(__file__)))
print("| id | rewrite (abridged) | observable difference | checks run: result |")
print("|---|---|---|---|")
for d in sorted(glob.glob(os.path.join(ROOT, "neutral", "*"))):
    mp = os.path.join(d, "meta.json")
    if not os.path.exists(mp):
        continue
    try:
        meta = json.load(open(mp))
    except Exception:
        meta = {}
    res = []
    for lf in sorted(glob.glob(os.path.join(d, "check.C*.log"))):
        mm = re.search(r"check\.(C\d+)\.log$", lf)
        if not mm:
            continue
        p = mm.group(1)
        s = open(lf).read()
        ex = re.findall(r"^exit=(\d+)", s, flags=re.M)
        v = len(re.findall(r"^VIOLATION", s, flags=re.M))
        nf = len(re.findall(r"no-failing-input-found", s))
        e = int(ex[-1]) if ex else None
        if e == 0:
            res.append(f"{p}: quiet")
        elif e == 1 and v == nf:
            res.append(f"{p}: **alarm** ({v} × no-failing-input-found)")
        elif e == 1:
            res.append(f"{p}: **ALARM claiming a failing input** ({v - nf})")
        else:
            res.append(f"{p}: exit {e}")
    def cell(k, n):
        return str(meta.get(k, "")).replace("|", "/").replace("\n", " ")[:n]
    print(f"| {os.path.basename(d)} | {cell('summary', 200)} | {cell('observable_differences', 120)} | {'; '.join(res)} |")
