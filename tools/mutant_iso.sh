#!/bin/bash
# usage: mutant_iso.sh "<id>:<props>" ...   e.g.  "C07-m3:C07 C08"
# Evaluates seeded changes in the isolated copy (/tmp/mv/verif + worktree /tmp/mv/repo), for use while sub-agents are
# still building against /repo.  Syncs the copy with /verif and the worktree with /repo HEAD first.
set -u
rsync -a --exclude work --exclude replays --exclude harness/target --exclude .git --exclude harness/Cargo.toml --exclude harness/.cargo /verif/ /tmp/mv/verif/
cp /verif/harness/Cargo.toml /tmp/mv/verif/harness/Cargo.toml && sed -i 's#path = "/repo"#path = "/tmp/mv/repo"#' /tmp/mv/verif/harness/Cargo.toml
git -C /tmp/mv/repo checkout -q -- . ; git -C /tmp/mv/repo checkout -q --detach $(git -C /repo rev-parse HEAD)
for spec in "$@"; do
  id=${spec%%:*}; props=${spec#*:}
  d=/verif/seeded/$id
  [ -s $d/confirm.txt ] && grep -q "patched: demo" $d/confirm.txt || /verif/tools/mutant_confirm.sh $d > /dev/null 2>&1
  REPO=/tmp/mv/repo VERIF=/tmp/mv/verif /verif/tools/mutant_check.sh $d $props
done
echo ALLDONE
