#!/usr/bin/env python3
"""collects the evaluation of every seeded change (seeded/<id>/eval.txt, check.*.log) into meta.json and prints a table"""
import glob, json, os, re
ROOT = os.path.dirname(os.path.dirname(os.path.abspath(__file__)))
rows = []
for d in sorted(glob.glob(os.path.join(ROOT, "seeded", "*"))):
    mid = os.path.basename(d)
    mp = os.path.join(d, "meta.json")
    if not os.path.exists(mp):
        continue
    meta = json.load(open(mp))
    ev = open(os.path.join(d, "eval.txt")).read() if os.path.exists(os.path.join(d, "eval.txt")) else ""
    sections = re.split(r"^== ", ev, flags=re.M)
    def sec(name):
        for s in sections:
            if s.startswith(name):
                return s
        return ""
    clean_demo = "ok. 1 passed" in sec("clean tree: demo") or "test result: ok" in sec("clean tree: demo")
    lib_ok = "443 passed" in sec("patched: lib tests")
    demo_fails = "FAILED" in sec("patched: demo")
    checks = {}
    for s in sections:
        m = re.match(r"check (C\d+) quick", s)
        if m:
            pid = m.group(1)
            viol = len(re.findall(r"^VIOLATION", s, flags=re.M))
            nofail = len(re.findall(r"no-failing-input-found", s))
            ex = re.search(r"^exit=(\d+)", s, flags=re.M)
            summ = re.search(r"outcomes (\{[^}]*\})", s)
            checks[pid] = {"exit": int(ex.group(1)) if ex else None, "violation_lines": viol,
                           "of_which_no_failing_input": nofail, "outcomes": summ.group(1) if summ else None}
    meta["evaluation"] = {"demo_passes_on_clean_tree": clean_demo, "suite_passes_with_change": lib_ok,
                          "demo_fails_with_change": demo_fails, "checks": checks,
                          "how": "tools/mutant_eval.sh (isolated copy of /verif + worktree of /repo HEAD with the patch applied)"}
    json.dump(meta, open(mp, "w"), indent=1)
    own = checks.get(meta.get("property", mid.split("-")[0]), {})
    det = "—"
    if own:
        if own["exit"] == 1 and own["violation_lines"] > own["of_which_no_failing_input"]:
            det = "yes: concrete failing input"
        elif own["exit"] == 1:
            det = "yes: correspondence/obligation broken, no failing input found"
        elif own["exit"] == 0:
            det = "**MISSED**"
        else:
            det = f"exit {own['exit']}"
    others = [p for p, c in checks.items() if p != meta.get("property") and c["exit"] == 1]
    rows.append((mid, meta.get("summary", "")[:150].replace("|", "/"), "yes" if (clean_demo and lib_ok and demo_fails) else "NO", det, ",".join(others)))
print("| id | change | confirmed | caught by its property's quick check | also caught by |")
print("|---|---|---|---|---|")
for r in rows:
    print("| " + " | ".join(r) + " |")
