#!/usr/bin/env python3
"""collects the evaluation of every seeded change (seeded/<id>/confirm.txt, check.<Cxx>.log) into meta.json and prints the table"""
import glob, json, os, re
ROOT = os.path.dirname(os.path.dirname(os.path.abspath(__file__)))
rows = []
for d in sorted(glob.glob(os.path.join(ROOT, "seeded", "*"))):
    mid = os.path.basename(d)
    mp = os.path.join(d, "meta.json")
    if not os.path.exists(mp):
        continue
    meta = json.load(open(mp))
    pid = meta.get("property") or mid.split("-")[0]
    cf = open(os.path.join(d, "confirm.txt")).read() if os.path.exists(os.path.join(d, "confirm.txt")) else ""
    parts = re.split(r"^== ", cf, flags=re.M)
    def sec(name):
        return next((s for s in parts if s.startswith(name)), "")
    clean_demo = "test result: ok" in sec("clean tree: demo")
    lib_ok = "443 passed" in sec("patched: lib tests")
    demo_fails = "FAILED" in sec("patched: demo")
    checks = {}
    for lf in sorted(glob.glob(os.path.join(d, "check.C*.log"))):
        mm = re.search(r"check\.(C\d+)\.log$", lf)
        if not mm:
            continue
        p = mm.group(1)
        s = open(lf).read()
        ex = re.findall(r"^exit=(\d+)", s, flags=re.M)
        summ = re.search(r"outcomes (\{[^}]*\})", s)
        checks[p] = {"exit": int(ex[-1]) if ex else None,
                     "violation_lines": len(re.findall(r"^VIOLATION", s, flags=re.M)),
                     "of_which_no_failing_input": len(re.findall(r"no-failing-input-found", s)),
                     "outcomes": summ.group(1) if summ else None}
    meta["evaluation"] = {"demo_passes_on_clean_tree": clean_demo, "suite_passes_with_change": lib_ok,
                          "demo_fails_with_change": demo_fails, "checks": checks,
                          "how": "tools/mutant_confirm.sh in a scratch worktree; rounds 1-2 first with tools/mutant_check.sh (git -C /repo apply, ./check <id> quick, git -C /repo checkout -- .), all logs regenerated with the final machinery by tools/mutant_alt.sh (the same check against a patched copy of /repo)"}
    json.dump(meta, open(mp, "w"), indent=1)
    def verdict(c):
        if not c:
            return "not run"
        if c["exit"] == 1 and c["violation_lines"] > c["of_which_no_failing_input"]:
            return "caught (failing input)"
        if c["exit"] == 1:
            return "caught (no-failing-input-found)"
        if c["exit"] == 0:
            return "**missed**"
        return f"exit {c['exit']}"
    others = [f"{p}: {verdict(c).replace('**missed**', 'quiet')}" for p, c in checks.items() if p != pid]
    rows.append((mid, meta.get("summary", "").replace("|", "/").replace("\n", " ")[:170],
                 "yes" if (clean_demo and lib_ok and demo_fails) else "NO", verdict(checks.get(pid)), "; ".join(others)))
print("| id | change (abridged) | confirmed | its property's quick check | other checks run |")
print("|---|---|---|---|---|")
for r in rows:
    print("| " + " | ".join(r) + " |")
