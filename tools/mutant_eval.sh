#!/bin/bash
# usage: mutant_eval.sh <Cxx> <mutant dir with patch.diff demo.rs meta.json> [more property ids to run]
# Evaluates one seeded change in an ISOLATED copy (/tmp/mv/verif + worktree /tmp/mv/repo), so that /repo is untouched:
#   1. confirms it: demo passes on the clean tree; with the patch the 443 tests pass and the demo fails
#   2. runs ./check <Cxx> quick (and the extra ids) against the patched tree and records exit codes / VIOLATION lines
#   3. reverts the worktree
set -u
PID=$1; MUT=$2; shift 2; EXTRA="$@"
WT=/tmp/mv/repo; V=/tmp/mv/verif
export CARGO_NET_OFFLINE=true CARGO_TARGET_DIR=/tmp/mv/repo-target
OUT=$MUT/eval.txt; : > $OUT
cd $WT && git checkout -q -- . && git clean -fdq tests 2>/dev/null
mkdir -p tests && cp $MUT/demo.rs tests/demo.rs
echo "== clean tree: demo" >> $OUT
cargo test --offline --test demo 2>&1 | grep -E "^test result|error(\[|:)" | head -3 >> $OUT
if ! git apply --check $MUT/patch.diff 2>>$OUT; then echo "PATCH DOES NOT APPLY" >> $OUT; rm -f tests/demo.rs; exit 1; fi
git apply $MUT/patch.diff
echo "== patched: lib tests" >> $OUT
cargo test --offline --lib 2>&1 | grep -E "^test result|error(\[|:)" | head -3 >> $OUT
echo "== patched: demo" >> $OUT
cargo test --offline --test demo 2>&1 | grep -E "^test result|error(\[|:)" | head -3 >> $OUT
rm -f tests/demo.rs
for P in $PID $EXTRA; do
  echo "== check $P quick (patched)" >> $OUT
  ( cd $V && rm -rf replays/$P && env -u CARGO_TARGET_DIR timeout 3000 ./check $P quick > $MUT/check.$P.log 2>&1; echo "exit=$?" >> $MUT/check.$P.log )
  grep -E "^VIOLATION|^exit=|quick:" $MUT/check.$P.log | head -12 >> $OUT
  # keep the first replay for the record
  R=$(grep -m1 "^VIOLATION" $MUT/check.$P.log | sed 's/.*replay=\([^ ]*\).*/\1/')
  [ -n "$R" ] && [ -f "$V/$R" ] && cp "$V/$R" $MUT/replay.$P.json
done
cd $WT && git checkout -q -- . 
echo "== done" >> $OUT
cat $OUT
