#!/bin/bash
# usage: neutral_reeval.sh <lanes> [id...]   — re-runs the behaviour-preserving rewrites in neutral/<id>/ (all of them by default) against
# the current checks: own property + every property whose code the patch touches (same mapping as neutral_eval.sh), on patched
# COPIES of /repo (tools/mutant_alt.sh).  Every check must stay at exit 0.
cd /verif
LANES=$1; shift
ids="$@"; [ -z "$ids" ] && ids=$(ls neutral | grep -v "^C20-")
related() {
  local f="$1" r=""
  case "$f" in *il/expression*|*il/constant*|*executor/eval*) r="$r C04 C07";; esac
  case "$f" in *translator/x86*) r="$r C01 C05 C06";; esac
  case "$f" in *translator/mips*|*translator/ppc*) r="$r C02 C05 C06";; esac
  case "$f" in *translator/aarch64*) r="$r C03 C05";; esac
  case "$f" in *translator/mod.rs*|*translator/block_translation*) r="$r C06 C05";; esac
  case "$f" in *executor/*) r="$r C07";; esac
  case "$f" in *memory/paged*|*memory/value*) r="$r C08 C07";; esac
  case "$f" in *memory/backing*) r="$r C16 C19";; esac
  case "$f" in *analysis/fixed_point*) r="$r C09 C12 C13 C17";; esac
  case "$f" in *il/location*) r="$r C18 C07 C09";; esac
  case "$f" in *graph/*) r="$r C11 C15 C10";; esac
  case "$f" in *il/control_flow_graph*|*il/block*|*il/function*|*il/program*) r="$r C15 C06 C18";; esac
  case "$f" in *ssa*) r="$r C10";; esac
  case "$f" in *reaching_definitions*|*def_use*|*use_def*|*location_set*) r="$r C12 C14";; esac
  case "$f" in *analysis/constants*) r="$r C13";; esac
  case "$f" in *dead_code*) r="$r C14";; esac
  case "$f" in *stack_pointer*) r="$r C17";; esac
  case "$f" in *loader/*) r="$r C19";; esac
  case "$f" in *architecture*|*calling_convention*) r="$r C17";; esac
  echo $r
}
export -f related
printf '%s\n' $ids | xargs -P $LANES --process-slot-var=SLOT -I{} bash -c '
  export ALT_TARGET=/tmp/alt-target-$SLOT
  id={}; p=${id%%-*}; d=/verif/neutral/$id
  ids="$p"
  for f in $(grep "^+++ b/" $d/patch.diff | sed "s#+++ b/##"); do ids="$ids $(related $f)"; done
  ids=$(echo $ids | tr " " "\n" | grep -v "^C20$" | awk "NF && !s[\$0]++" | tr "\n" " ")
  tools/mutant_alt.sh $d $ids'
echo ALLDONE
