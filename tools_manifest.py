#!/usr/bin/env python3
"""regenerates MANIFEST.json from the table below (keeps the file valid at all times)"""
import json, os
ROOT = os.path.dirname(os.path.abspath(__file__))
props = [json.loads(l) for l in open(os.path.join(ROOT, "properties.jsonl"))]
ALL = [p["id"] for p in props]

CLAIMED = {
 "C04": dict(
    category="proof",
    text="Lean 4 theorems: every Constant operator of the mirror model equals the BitVec operation at every width >= 1 and "
         "all values (sort/div0 errors exactly as stated, never a panic), eval = compositional BitVec denotation for all "
         "expression trees; the mirror model is tied to lib/il/constant.rs, expression.rs, executor/eval.rs by a three-way "
         "differential run (falcon / model / BitVec spec) on every check.",
    design_ref="DESIGN.md §6 C04",
    note="Trusted: Lean kernel; axioms propext, Classical.choice, Quot.sound; the correspondence harness; num-bigint "
         "modelled as Nat/Int. 'No unbounded allocation' is observed (RLIMIT_AS), not proved.",
    technique="Lean 4 proof of a mirror model + differential correspondence check"),
 "C05": dict(
    category="translation_validation",
    text="Every BlockTranslationResult the seven real translators return on a structured byte sweep is judged by a Lean "
         "checker (width rules of all expressions and operations, entry/exit/edges of each instruction graph, out-edge and "
         "successor guards recognised as a partition) whose soundness is a Lean theorem over all states; panics are caught "
         "and reported with their site. Totality over all byte strings is explored, not proved.",
    design_ref="DESIGN.md §6 C05",
    note="Trusted: Lean kernel, the FIL printer/reader pair, catch_unwind. 'Never panics/terminates' concerns Rust and C "
         "code (capstone, bad64) and is observed on the sweep only.",
    technique="Lean-verified well-formedness checker run on the lifters' real outputs"),
 "C12": dict(
    category="translation_validation",
    text="For every IL function, if the four Lean checks pass on falcon's reaching_definitions / use_def / def_use output, then "
         "on every execution (FStep runs; also every forward path of the location graph) the last writer of each scalar is in the "
         "reported set, every reported assign/load reaches the location kill-free, use-def contains the last writer of every scalar "
         "read and def-use is its inverse (theorem checks_sound); the checks run on thousands of generated functions per run, with "
         "witness executions for every rejected output.",
    design_ref="DESIGN.md §6 C12",
    note="Scalars identified as falcon does (name, width, SSA version); intrinsics write exactly what they declare; theorems are "
         "conditional on the reachability fuel sufficing (exhaustion is reported as an internal error, never a verdict); the "
         "witness-state search is unverified.",
    technique="Lean 4 definitional model + kernel-proved checks run on falcon's outputs"),
 "C13": dict(
    category="translation_validation",
    text="constCheck f R is a Lean certificate checker proved sound for all functions, maps, initial states and runs of any length of "
         "the function-level step relation (constCheck_sound, constEval_sound); it is run on the map returned by falcon's constants() "
         "for thousands of generated functions per run, with a search for a contradicting execution whenever it rejects. Completion is "
         "checked on functions built so that no scalar is read before it is assigned.",
    design_ref="DESIGN.md §6 C13",
    note="Runs end at Operation::Branch and intrinsics (executor semantics); one width per scalar name; the must-assigned certificate "
         "and the Top-versus-absent parsing of the Debug rendering are unverified but only checked by the verified part; the completion "
         "clause is tested, not proved.",
    technique="Lean 4 kernel-proved certificate checker run on the real analysis output"),
 "C08": dict(
    category="proof",
    text="Lean 4 theorems about a mirror model of lib/memory/paged.rs (V = il::Constant through value.rs): a representation invariant "
         "preserved by every store; store = write of the value's bytes into the denoted byte array for every overlap and page-crossing "
         "pattern; load = endian read of that array for every positive multiple-of-8 width (fast path and byte loop), none iff a byte is "
         "absent, never an error; by induction every finite store/load/set_permissions history from new/new_with_backing (also over "
         "several handles with clones, in the model) answers what the byte array answers; eq reflexive and implies identical loads and "
         "permissions; permission range, frame and default theorems. Tied to the code by a three-way per-operation differential run "
         "(falcon / model / byte-array spec) on every check, including Memory<Expression> histories compared after evaluation.",
    design_ref="DESIGN.md §6 C08",
    note="Trusted: Lean kernel; axioms propext, Classical.choice, Quot.sound; harness, driver and diff. Copy-on-write sharing "
         "(RC::make_mut) is not modelled: clone independence is a model-level theorem plus a correspondence check over interleaved "
         "multi-handle histories. V = Expression is correspondence-only. Widths below 2^63 bits.",
    technique="Lean 4 proof of a mirror model (invariant + refinement to a byte array) + differential correspondence check"),
}

checks = []
for pid in ALL:
    if pid not in CLAIMED:
        continue
    c = CLAIMED[pid]
    checks.append({
        "property_id": pid,
        "quick_cmd": f"./check {pid} quick",
        "thorough_cmd": f"./check {pid} thorough",
        "evidence_file": f"/verif/evidence/{pid}.json",
        "replay_cmd_template": f"./check {pid} --replay {{path}}",
        "engine": "lean4+harness",
        "level_claimed": {"category": c["category"], "text": c["text"], "design_ref": c["design_ref"]},
        "level_note": c["note"],
        "technique": c["technique"],
    })
na = [{"property_id": p, "reason": "check not built yet in this round (planned: DESIGN.md §6/§8); nothing is claimed for it"}
      for p in ALL if p not in CLAIMED]
m = {
 "version": 1,
 "setup_cmd": "./check --setup",
 "hooks": {"guard": "--cfg falcon_verif", "enable": "no hooks are needed: the harness uses falcon's public API only",
           "baseline_off_cmd": "cd /repo && cargo test --offline --lib", "source_commits": [], "add_only": True},
 "engines": [{"name": "lean4+harness", "path": "/verif/check",
              "serves_properties": sorted(CLAIMED), "kind_free_text":
              "Lean 4 models/specs/theorems (lean/), native Lean drivers, Rust correspondence harness (harness/), python orchestrator"}],
 "checks": checks,
 "not_applicable": na,
 "notes": "Repairs of genuine defects are unguarded 'fix:' commits in /repo, listed in known_findings.json.",
}
json.dump(m, open(os.path.join(ROOT, "MANIFEST.json"), "w"), indent=1)
print("claimed:", sorted(CLAIMED), "not claimed:", len(na))
