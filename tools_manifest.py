#!/usr/bin/env python3
"""regenerates MANIFEST.json from the table below (keeps the file valid at all times)"""
import json, os
ROOT = os.path.dirname(os.path.abspath(__file__))
props = [json.loads(l) for l in open(os.path.join(ROOT, "properties.jsonl"))]
ALL = [p["id"] for p in props]

CLAIMED = {
 "C04": dict(
    category="proof",
    text="Lean 4 theorems: every Constant operator of the mirror model equals the BitVec operation at every width >= 1 and "
         "all values (sort/div0 errors exactly as stated, never a panic), eval = compositional BitVec denotation for all "
         "expression trees; the mirror model is tied to lib/il/constant.rs, expression.rs, executor/eval.rs by a three-way "
         "differential run (falcon / model / BitVec spec) on every check.",
    design_ref="DESIGN.md §6 C04",
    note="Trusted: Lean kernel; axioms propext, Classical.choice, Quot.sound; the correspondence harness; num-bigint "
         "modelled as Nat/Int. 'No unbounded allocation' is observed (RLIMIT_AS), not proved.",
    technique="Lean 4 proof of a mirror model + differential correspondence check"),
 "C05": dict(
    category="translation_validation",
    text="Every BlockTranslationResult the seven real translators return on a structured byte sweep is judged by a Lean "
         "checker (width rules of all expressions and operations, entry/exit/edges of each instruction graph, no reachable dead-end "
         "block and no edge out of the exit, out-edge and successor guards recognised as a partition) whose soundness is a Lean theorem over all states; panics are caught "
         "and reported with their site. Totality over all byte strings is explored, not proved.",
    design_ref="DESIGN.md §6 C05",
    note="Trusted: Lean kernel, the FIL printer/reader pair, catch_unwind. 'Never panics/terminates' concerns Rust and C "
         "code (capstone, bad64) and is observed on the sweep only.",
    technique="Lean-verified well-formedness checker run on the lifters' real outputs"),
 "C12": dict(
    category="translation_validation",
    text="For every IL function, if the four Lean checks pass on falcon's reaching_definitions / use_def / def_use output, then "
         "on every execution (FStep runs; also every forward path of the location graph) the last writer of each scalar is in the "
         "reported set, every reported assign/load reaches the location kill-free, use-def contains the last writer of every scalar "
         "read and def-use is its inverse (theorem checks_sound); the checks run on thousands of generated functions per run, with "
         "witness executions for every rejected output.",
    design_ref="DESIGN.md §6 C12",
    note="Scalars identified as falcon does (name, width, SSA version); intrinsics write exactly what they declare; theorems are "
         "conditional on the reachability fuel sufficing (exhaustion is reported as an internal error, never a verdict); the "
         "witness-state search is unverified.",
    technique="Lean 4 definitional model + kernel-proved checks run on falcon's outputs"),
 "C13": dict(
    category="translation_validation",
    text="constCheck f R is a Lean certificate checker proved sound for all functions, maps, initial states and runs of any length of "
         "the function-level step relation (constCheck_sound, constEval_sound); it is run on the map returned by falcon's constants() "
         "for thousands of generated functions per run, with a search for a contradicting execution whenever it rejects. Completion is "
         "checked on functions built so that no scalar is read before it is assigned.",
    design_ref="DESIGN.md §6 C13",
    note="Runs end at Operation::Branch and intrinsics (executor semantics); one width per scalar name; the must-assigned certificate "
         "and the Top-versus-absent parsing of the Debug rendering are unverified but only checked by the verified part; the completion "
         "clause is tested, not proved.",
    technique="Lean 4 kernel-proved certificate checker run on the real analysis output"),
 "C08": dict(
    category="proof",
    text="Lean 4 theorems about a mirror model of lib/memory/paged.rs (V = il::Constant through value.rs): a representation invariant "
         "preserved by every store; store = write of the value's bytes into the denoted byte array for every overlap and page-crossing "
         "pattern; load = endian read of that array for every positive multiple-of-8 width (fast path and byte loop), none iff a byte is "
         "absent, never an error; by induction every finite store/load/set_permissions history from new/new_with_backing (also over "
         "several handles with clones, in the model) answers what the byte array answers; eq reflexive and implies identical loads and "
         "permissions; permission range, frame and default theorems. Tied to the code by a three-way per-operation differential run "
         "(falcon / model / byte-array spec) on every check. For V = il::Expression: a mirror model of the Expression instance of value.rs, a "
         "proved homomorphism to the Constant memory (store and load, all widths, errors and panics included) for closed evaluation, any "
         "valuation and State::symbolize_and_eval, and the history theorem for well-sorted stored expressions; mode-E correspondence "
         "runs the Expression model against Memory<Expression>.",
    design_ref="DESIGN.md §6 C08",
    note="Trusted: Lean kernel; axioms propext, Classical.choice, Quot.sound; harness, driver and diff. Copy-on-write sharing "
         "(RC::make_mut) is not modelled: clone independence is a model-level theorem plus a correspondence check over interleaved "
         "multi-handle histories. Widths below 2^63 bits. Harness mode-E histories use constant trees (scalars are covered by the theorems).",
    technique="Lean 4 proof of a mirror model (invariant + refinement to a byte array) + differential correspondence check"),
 "C20": dict(
    category="proof",
    text="The descriptor / calling-convention / lifter-register tables AND the answers of the query functions (argument_type(n) for "
         "n up to registers+6, is_preserved / is_trashed on every convention, swept and one foreign register) are regenerated from the "
         "current build into Lean literals on every run; 15 clauses x 7 architectures (stack pointer emitted with the word width, "
         "endianness, every convention register emitted with its width, preserved and trashed disjoint, sp preserved, ABI argument "
         "order, argument_type = ABI registers then stack slots one machine word apart from the ABI offset, queries agree with the "
         "sets, return register, return address, stack slot length and offset) are proved by kernel evaluation (decide +kernel, 110 "
         "theorems) against a hand-written ABI table; the same run re-reads all 168 (architecture, field) values from the live code "
         "and compares each with the table and the ABI (exhaustive).",
    design_ref="DESIGN.md §6 C20",
    note="The argument clauses for aarch64/aarch64eb are _partial (known findings C20/aarch64*/args and C20/aarch64*/arg_types). 'Emitted' means emitted on the fixed "
         "register sweep. IL load/store carry no byte order: what is observed of the translator is its instruction-fetch order and "
         "address widths, the stored bytes on a memory built from endian(). The ABI table Abi.lean is hand-written and trusted.",
    technique="regenerated Lean literals + decide; hand-written ABI specification; exhaustive three-way comparison"),
 "C16": dict(
    category="proof",
    text="Lean 4 theorems over a mirror model of lib/memory/backing.rs: for every well-formed memory and every region with "
         "address+length < 2^64 (empty included) set_memory never panics, keeps the sections sorted, pairwise disjoint and non-empty and "
         "overrides the byte map on exactly the written range; by induction over arbitrary histories of set_memory/set32 every address "
         "reads the byte and permissions of the most recent covering region (none if never covered); get equals the bytes assembled in "
         "the memory's endianness and is None - never a panic - iff the width is unusable or a byte is unmapped; get32/set32 inside one "
         "section assemble / override exactly four bytes. Tied to the Rust code by a three-way per-operation differential run "
         "(falcon / model / byte-map spec) over whole histories on every check.",
    design_ref="DESIGN.md §6 C16",
    note="Trusted: Lean kernel; axioms propext, Classical.choice, Quot.sound; harness+driver+check. Side condition address+length < 2^64; "
         "a region containing the byte 2^64-1 is the known finding C16/topwin/top/*. The 'within one section' premise of the 32-bit clause "
         "is evaluated on the model's section list, which the sections operation compares with falcon's.",
    technique="Lean 4 proof of a mirror model + differential correspondence check"),
 "C15": dict(
    category="proof",
    text="Lean 4 theorems about a mirror model of ControlFlowGraph/Block editing (including merge's rounds in code order) and blockify: "
         "WF (edges join existing blocks, keys unique, instruction indices unique and below counters, entry/exit valid) holds after every "
         "finite history; lists stay sorted; merge is total and preserves the (prefix-closed) language of operation/guard sequences from "
         "the entry; append concatenates entry-to-exit languages; insert adds a disjoint isomorphic copy; no call panics. The model is "
         "tied to control_flow_graph.rs, block.rs, graph/mod.rs and block_translation_result.rs by comparing full graph dumps after every "
         "operation of generated histories, on every check.",
    design_ref="DESIGN.md §6 C15",
    note="The four maps of graph::Graph are abstracted to (blocks, edges) with derived queries; falcon's real queries are compared at "
         "every step (the container invariant itself is C11). Counter overflow is not modelled. Bounded language digests are search "
         "support only. Axioms: propext, Classical.choice, Quot.sound.",
    technique="Lean 4 proof of a mirror model + differential correspondence check on operation histories"),
 "C06": dict(
    category="proof",
    text="Two parts. (1) A Lean mirror of translate_function_extended (work-list discover + assemble on the C15 CfgEdit operations) with "
         "theorems for ALL translation tables, manual-edge sets and function addresses. Structure: the assembled function is well formed "
         "(no edge or entry names a missing block), its entry is the graph inserted for the function address, every instruction address "
         "is inserted exactly once, the work list is closed under successors and manual edges, assemble never panics after discover. "
         "Semantics (asm_refines, translate_function_refines, asm_refines_stuck, merge_preserves_executions, 15 theorems in all): under the decidable "
         "Coherent hypothesis on the table (one instruction graph per address whichever window it was lifted in, ...), for every state and "
         "every length, finite runs of the one-instruction-at-a-time reference and FRun executions of the recovered function (the IL "
         "semantics C07 ties to the executor) correspond in both directions through a state-preserving map, through the final merge, "
         "wherever windows end and whichever blocks branches target; asm_refines_merged_partial extends this to tables in which two "
         "transfers between the same instructions carry different guards (merged into one disjunctive edge since fix fed1e64), for runs "
         "whose states type every guard as a bit. The mirror is compared by exact FIL equality with the function falcon "
         "returns and the coherence hypothesis is evaluated on every case. (2) Per program, the recovered function is executed by "
         "falcon's executor and compared - address trace, final registers, memory, next pc - with the single-step reference recomputed in "
         "Lean from the dumped IL and with an independent byte-level reference machine.",
    design_ref="DESIGN.md §6 C06",
    note="asm_refines is a weak bisimulation on finite runs over FStep (divergence not treated); the harness-level equality runFn = runRef "
         "(fuel, roll-back at a failed edge choice, lone-edge guards) is validated per case on generated MIPS/MIPSEL/x86/amd64 programs "
         "(window-straddling layouts, branches into lifted blocks, manual edges), not proved. SingleCoherent (transfers of one lifted "
         "instruction) is checked per case, not proved of the lifters (their semantics are C01-C03). Known findings: MIPS branch into "
         "another branch's delay slot; conditional branch to its own fall-through address keeps one guarded edge.",
    technique="Lean 4 mirror of the assembly algorithm + theorems; exact structural correspondence; per-program trace validation"),
 "C07": dict(
    category="proof",
    text="Lean theorems over a mirror model of State::execute / Driver::step: execute = OpSem for typed operations; step = the relational "
         "small-step semantics Step under the premise (one width per scalar name, distinct instruction indices, guards exclusive and "
         "exhaustive); determinism; type preservation; run n = Steps n for every n; frame theorems (everything not written is unchanged); "
         "each error kind (undefined scalar, unmapped memory, zero divisor, intrinsic, no guard holds) and that an error returns no state; "
         "link to the function-level relation FStep used by the verified checkers. Tied to the code by per-step three-way comparison of "
         "real Driver::step traces over paged memory (with/without backing) with the model and the executable relational spec.",
    design_ref="DESIGN.md §6 C07",
    note="Premise: programs typed by one width per scalar name, distinct instruction indices per block, GuardsOK; memory is C08's byte "
         "array; accesses with a+len >= 2^64 are excluded (edge64); the translator call at absent branch targets is an oracle (lift). "
         "A lone conditional edge is followed unchecked (step_single_edge_unchecked): outside the property's premise, documented.",
    technique="Lean 4 proof of a mirror model + refinement to a relational semantics; executable spec in the driver"),
 "C14": dict(
    category="translation_validation",
    text="Every output g of analysis::dead_code_elimination on generated and amd64-lifted functions f is judged by the Lean checker "
         "dceCheck (g = f with assigns/loads replaced by nop, plus an inductive dead-set certificate). Theorem dceCheck_sound: acceptance "
         "implies that from any start configuration every fault-free FStep run of f of any length is matched step for step by a run of g "
         "through the same (block, position)s, with equal memory and the same store event at every step, states agreeing outside the dead "
         "set and on every name at indirect branches, intrinsics and ends of successor-less blocks; only_nops gives the shape clause. "
         "Rejected outputs are searched for a concrete diverging execution (Lean executor model and falcon's executor).",
    design_ref="DESIGN.md §6 C14",
    note="Trusted: Lean kernel; axioms propext, Classical.choice, Quot.sound; the FStep/execute semantics of Exec.lean (tied to falcon's "
         "executor by C07); FIL printer/reader and harness. The certificate computation is untrusted. The checker is sufficient, not "
         "complete. Known finding C14/alias-width/* (one name at two widths).",
    technique="Lean-verified translation-validation checker run on the real DCE outputs + differential execution"),
 "C11": dict(
    category="proof",
    text="36 Lean theorems for all finite graphs, roots and edit histories: the container mirror never panics, keeps the four views "
         "consistent and refines the abstract (V,E) graph; reachability, dominators, immediate dominators (existence and uniqueness), "
         "dominator tree, frontiers, back edges, natural loops, nesting, reducibility, acyclicity and transitive predecessors are the "
         "path-defined textbook objects (definitional models on one verified reach); pre-order, post-order, topological order and "
         "compute_acyclic are certified by sound checkers run on falcon's actual outputs. The correspondence runs the real falcon "
         "against the models on tens of thousands of graphs per run (thorough: exhaustive on <= 4 vertices).",
    design_ref="DESIGN.md §6 C11",
    note="Algorithms are definitional models (not a proof of Semi-NCA); order outputs are validated, not derived; a root that is not a "
         "vertex is outside the property; vertex and edge payloads are not modelled.",
    technique="Lean 4 proofs: mirror + refinement (container), definitional models on a verified reach, verified checkers; three-way correspondence"),
 "C10": dict(
    category="translation_validation",
    text="Every output of transformation::ssa_transformation is judged by the Lean validator ssaCheck, kernel-proved sound: same "
         "blocks/edges/positions (erasing versions gives the input), one phi operand per predecessor (plus the entry operand at the "
         "entry), single assignment, every use names the reaching definition on every CFG path, and lock-step execution of the original "
         "and the SSA form (phi nodes selecting by incoming edge) from every state for every number of steps - same positions, memory, "
         "evaluated values, errors. Rejected outputs are reported with a diverging run or a path witness; success of the "
         "transformation itself is observed on all generated functions.",
    design_ref="DESIGN.md §6 C10",
    note="The construction (dominators, frontiers, renaming) is not modelled: an accepted output is proved correct. Runs stay inside "
         "one function up to the first fault, indirect branch or intrinsic. Input functions are unversioned and phi-free. Names used at "
         "two widths are the known finding C10/flow/*/two-widths.",
    technique="Lean-verified validator with an untrusted forward-flow certificate + simulation proof; run on the real SSA outputs"),
 "C17": dict(
    category="translation_validation",
    text="falcon's real stack_pointer_offsets output, for each of the 7 Architecture objects, on generated IL functions over the "
         "architecture's own stack-pointer scalar and width and on machine-code prologue/epilogue idioms lifted by the real translators, "
         "is judged by the Lean checker spoCheck; theorem spoCheck_sound: acceptance implies that after every location on every FRun "
         "from the entry a reported number k satisfies sp = s0 + k in BitVec w; isize_congruent ties falcon's `u64 as isize` to that "
         "reading; the completion clause is checked directly; rejected maps trigger a search for a concrete contradicting run "
         "(aligned and unaligned s0). For machine-code cases the Lean ISA interpreters (MIPS, PPC, A64, x86) run the same bytes and every "
         "number falcon reports at an instruction boundary is compared with the ARCHITECTURAL stack register (r29, r1, SP, esp/rsp), so "
         "the register's name is not taken from falcon.",
    design_ref="DESIGN.md §6 C17",
    note="Runs end at Operation::Branch and at intrinsics (claims behind them are vacuous; the strict verdict is informative only); one "
         "width per name, no SSA; which scalar is the stack pointer is taken from falcon (C20's subject).",
    technique="Lean-verified certificate checker (linear forms modulo 2^w) run on the real analysis outputs"),
 "C18": dict(
    category="proof",
    text="Lean theorems over a mirror model of il/location.rs, Function::locations and Program::function: forward and backward answer "
         "one declarative successor relation and are therefore converse; locations() enumerates exactly the instructions, empty blocks "
         "and edges without duplicates; the forward closure from from_function equals CFG reachability from the entry block; the owned "
         "round trip is the identity on the program and on any program with equal functions at equal indices (a clone); from_address "
         "is sound and complete. Tied to the code by a three-way correspondence check on random functions and programs.",
    design_ref="DESIGN.md §6 C18",
    note="For all well-formed functions (WFf: unique block/instruction/edge indices, edges between existing blocks) and all programs "
         "built by add_function; reference identity of Ref locations is modelled by value equality, as Rust's derived Eq does; with "
         "duplicate instruction indices (outside WFf) the model mirrors first-/last-match and only the model is compared.",
    technique="Lean 4 proof of a mirror model + differential correspondence check"),
 "C09": dict(
    category="proof",
    text="Lean theorems about a literal mirror of the work-list loop of fixed_point_{forward,backward}_options, generic in locations, "
         "states and succs/preds/trans/join/cmp: keys = reachable locations; every successful strict run satisfies the data-flow "
         "equations without any monotonicity assumption; a re-computation that is not >= the stored state yields FixedPointOrdering; "
         "termination within 1+|Reach|(h+1)(D+1) iterations; for monotone analyses with join = lub the run returns exactly the least "
         "solution; both solvers instantiated over the C18 location model. Tied to the code by a three-way correspondence check with "
         "table-driven analyses (spec = Kleene iteration); falcon's own Ok answers of strict runs are re-checked against the data-flow "
         "equations on every case (an Ok map that does not solve them is a violation with the request as failing input).",
    design_ref="DESIGN.md §6 C09",
    note="Hypotheses are named in the theorems (ConvR, LawfulCmp, JoinLub, Mono, Total, rank); HashMap/VecDeque are modelled as lists; "
         "with force only the weaker >= claim holds, by design.",
    technique="Lean 4 proof of a mirror model (loop invariants) + differential correspondence check"),
 "C19": dict(
    category="translation_validation",
    text="ELF loading is modelled definitionally in Lean from a structured description of the file (what goblin hands to falcon); "
         "theorems show the model is what the property states (image_exact, perm_bits, arch_named, entries_exact, rebase_uniform, fits_ok, link_once_additive_partial "
         "(every R_386_RELATIVE word = file word + base of its own placement, added exactly once), "
         "and link_once over ALL histories of linker calls: every symbol-naming relocated word - x86 R_386_32/GLOB_DAT/JMP_SLOT and the "
         "MIPS o32 global GOT - holds the once-rebased address of the first placement exporting the symbol, and no later load_elf call "
         "touches a byte of an earlier object). The real loader::Elf / ElfLinker, including histories of the public load_elf, are compared "
         "with the model on files produced by an ELF writer (ELF32/64, LSB/MSB, five machines, 1-4 PT_LOAD segments, symbol/dynamic/"
         "relocation tables, 1-4 linked objects plus later loads) at four base addresses.",
    design_ref="DESIGN.md §6 C19",
    note="goblin's parsing is an external call: its view is checked against the description on every case, and the writer against "
         "readelf on every run. Additive relocation kinds (R_386_RELATIVE, R_MIPS_REL32, local GOT) are covered by the frame lemma and the "
         "correspondence, not by an explicit word = old + base statement. Overlapping segments and addresses >= 2^64 "
         "are outside the domain (model and falcon are still compared there).",
    technique="Lean 4 definitional model + theorems; generated-file correspondence check with a readelf self-test"),
 "C03": dict(
    category="proof",
    text="29 Lean theorems. For every integer A64 instruction class the lifter accepts - add/adds/sub/subs (immediate, shifted, extended "
         "register), all mov aliases, nop, ldr*/str* (immediate, unscaled, pre/post-index, register offset, literal), "
         "ldp/stp/ldpsw/ldnp/stnp, the ldar/stlr family and stlur (as plain accesses), prfm, b, bl, b.cond, cbz/cbnz, tbz/tbnz, br, blr, ret - "
         "a Lean mirror of the lifter (compared syntactically with falcon's emitted IL on every differential case) is proved, for all words "
         "of the class, all addresses and all states in which the Arm pseudocode completes, to yield the X0-X30/SP, NZCV, memory (LE and "
         "BE) and next pc of an A64 interpreter that decodes the raw word, written from the Arm pseudocode (AddWithCarry, ExtendReg, "
         "DecodeBitMasks, ConditionHolds, Mem[]). For subs the C flag is proved to be the negation of the architectural carry (known "
         "finding C03/*/subs/c). SIMD&FP transfer registers: four-way differential only (falcon executor / Lean IL model / Lean A64 "
         "interpreter / mirror) over class-exhaustive word sweeps and boundary+random states.",
    design_ref="DESIGN.md §6 C03",
    note="Tie of the mirror to falcon: syntactic equality of the emitted IL on every generated word; where that fails, a z3 query (tools/il_equiv.py, encoder self-tested against the Lean IL semantics on the same run) decides equivalence of the two ILs for all states - validation support for the tie, not a theorem; z3 and the encoder then join the trusted base. "
         "The specification is written from knowledge of the Arm ARM, which is not in the sandbox (no second source). CONSTRAINED "
         "UNPREDICTABLE encodings, data aborts, alignment faults and accesses wrapping past 2^64 are excluded and counted; memory ordering is not modelled; the mirror is tied to falcon by syntactic comparison, not by proof.",
    technique="Lean 4 mirror of the lifter + class theorems over all words, addresses and states; executable differential"),
 "C01": dict(
    category="proof",
    text="59 Lean theorems. Instruction level (64-bit mode): for mov/add/sub/cmp/and/or/xor in all five operand forms (r,r / r,imm / "
         "r,[mem] / [mem],r / [mem],imm), lea, inc/dec/neg/not, setcc r8, cmovcc r,r and jcc rel (14 flag-only condition codes; the "
         "not-taken 32-bit cmov still zero-extends), test r,r / r,imm, xchg r,r, movzx/movsx/movsxd r,r, push r64 / push imm, pop r64, leave, ret, ret imm16 (immediate zero-extended), call rel32 and call r64 (target read before the push) - all registers and operand sizes including high-byte registers "
         "(aliasing included), any base/index/scale/displacement, all addresses and every state with a mapped, non-wrapping access - "
         "running the IL of a Lean mirror of the lifter (including mode.rs operand_value/load/store; compared syntactically with falcon's "
         "real output on every generated case of these classes) yields all sixteen registers, CF ZF SF OF, memory and next pc of a Lean "
         "x86 specification written from the SDM. Helper level: flag formulas of add/adc/sub/sbb/inc/dec/neg, shl/shr/sar CF and results, "
         "cc_condition for all 16 codes, sub-register get/set equal the SDM for all values at 8/16/32/64 bits. Everything else: four-way "
         "differential per (encoding, state): falcon's executor on the lifted IL, the Lean IL semantics on the dumped IL, the Lean "
         "specification (both modes, on capstone's normalised operand description), and for amd64 the HOST CPU single-stepping the same "
         "bytes from the same state (signal-frame context switch with the trap flag). Template sweep of every accepted mnemonic x "
         "prefixes x 14 ModRM/SIB shapes.",
    design_ref="DESIGN.md §6 C01",
    note="Tie of the mirror to falcon: syntactic equality of the emitted IL on every generated word; where that fails, a z3 query (tools/il_equiv.py, encoder self-tested against the Lean IL semantics on the same run) decides equivalence of the two ILs for all states - validation support for the tie, not a theorem; z3 and the encoder then join the trusted base. "
         "cmovcc/jcc, stack and control transfer, shifts and bit tests at instruction level, segment- or 67-prefixed memory operands and all of 32-bit mode have no instruction-level theorem (differential only). 32-bit mode has no silicon oracle (Lean spec "
         "only). fs/gs forms have no silicon comparison. PF/AF are outside the property. 66-prefixed near branches are not generated "
         "(Intel and AMD differ). The fixed-width bit-vector theorems use bv_decide and therefore depend on its _native.bv_decide.ax_* "
         "axioms (listed per theorem in the evidence).",
    technique="Lean 4 mirror of the lifter + class theorems over all registers, immediates and states; differential testing against the Lean ISA specification validated on silicon"),
 "C02": dict(
    category="proof",
    text="MIPS (mips/mipsel) and 32-bit PowerPC: for every register/immediate field and every machine state, the IL falcon emits for the "
         "proved classes computes exactly the registers, memory and next pc of a Lean interpreter decoding the raw word (theorems "
         "lift_correct_single, lift_correct_pair, lift_overflow_stops, lift_correct_swl_swr, ppc_lift_correct over full Lean mirrors of the lifters; 11 theorems). "
         "MIPS: integer ALU incl. the trapping add/addi/sub (overflow decision for all operand values), shifts, immediates, lui, slt*, "
         "movn/movz, HI/LO moves, mult/multu/mul, byte/half/word loads and stores, lwl/lwr and swl/swr in both byte orders, the six conditional branches plus "
         "b/j with any such instruction in the delay slot. PowerPC: every lifted mnemonic but bdnzl and conditional bclr, including "
         "addze/srawi carry, record forms, rlwinm masks, update forms and stmw's exact word count. falcon's emitted IL is compared "
         "syntactically with the proved mirror on every generated word. Remaining classes: three-way differential (falcon executor / Lean "
         "IL model / Lean ISA interpreter) over the whole accepted opcode space, register-field sweeps and boundary states.",
    design_ref="DESIGN.md §6 C02",
    note="Tie of the mirror to falcon: syntactic equality of the emitted IL on every generated word; where that fails, a z3 query (tools/il_equiv.py, encoder self-tested against the Lean IL semantics on the same run) decides equivalence of the two ILs for all states - validation support for the tie, not a theorem; z3 and the encoder then join the trusted base. "
         "Interpreters transcribed from memory of the MIPS32 and Power ISA manuals (not in the sandbox, no second implementation); "
         "universality over encodings is proved for the (A) classes only; jr is _partial; CR SO bits excluded (XER[SO] is not modelled by "
         "falcon); PpcCarry.addc_eq and the byte identities of swl/swr use bv_decide and carry its native axioms; 11 known findings (link/target evaluated "
         "after the delay slot, division by zero, misaligned accesses, XER[SO], bdnzl).",
    technique="Lean 4 refinement proof (mirror of the lifter + ISA interpreter) + executable three-way correspondence"),
}

checks = []
for pid in ALL:
    if pid not in CLAIMED:
        continue
    c = CLAIMED[pid]
    checks.append({
        "property_id": pid,
        "quick_cmd": f"./check {pid} quick",
        "thorough_cmd": f"./check {pid} thorough",
        "evidence_file": f"/verif/evidence/{pid}.json",
        "replay_cmd_template": f"./check {pid} --replay {{path}}",
        "engine": "lean4+harness",
        "level_claimed": {"category": c["category"], "text": c["text"], "design_ref": c["design_ref"]},
        "level_note": c["note"],
        "technique": c["technique"],
    })
na = [{"property_id": p, "reason": "check not built yet in this round (planned: DESIGN.md §6/§8); nothing is claimed for it"}
      for p in ALL if p not in CLAIMED]
m = {
 "version": 1,
 "setup_cmd": "./check --setup",
 "hooks": {"guard": "--cfg falcon_verif", "enable": "no hooks are needed: the harness uses falcon's public API only",
           "baseline_off_cmd": "cd /repo && cargo test --offline --lib", "source_commits": [], "add_only": True},
 "engines": [{"name": "lean4+harness", "path": "/verif/check",
              "serves_properties": sorted(CLAIMED), "kind_free_text":
              "Lean 4 models/specs/theorems (lean/), native Lean drivers, Rust correspondence harness (harness/), python orchestrator"}],
 "checks": checks,
 "not_applicable": na,
 "notes": "Repairs of genuine defects are unguarded 'fix:' commits in /repo, listed in known_findings.json.",
}
json.dump(m, open(os.path.join(ROOT, "MANIFEST.json"), "w"), indent=1)
print("claimed:", sorted(CLAIMED), "not claimed:", len(na))
