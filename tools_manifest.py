#!/usr/bin/env python3
"""regenerates MANIFEST.json from the table below (keeps the file valid at all times)"""
import json, os
ROOT = os.path.dirname(os.path.abspath(__file__))
props = [json.loads(l) for l in open(os.path.join(ROOT, "properties.jsonl"))]
ALL = [p["id"] for p in props]

CLAIMED = {
 "C04": dict(
    category="proof",
    text="Lean 4 theorems: every Constant operator of the mirror model equals the BitVec operation at every width >= 1 and "
         "all values (sort/div0 errors exactly as stated, never a panic), eval = compositional BitVec denotation for all "
         "expression trees; the mirror model is tied to lib/il/constant.rs, expression.rs, executor/eval.rs by a three-way "
         "differential run (falcon / model / BitVec spec) on every check.",
    design_ref="DESIGN.md §6 C04",
    note="Trusted: Lean kernel; axioms propext, Classical.choice, Quot.sound; the correspondence harness; num-bigint "
         "modelled as Nat/Int. 'No unbounded allocation' is observed (RLIMIT_AS), not proved.",
    technique="Lean 4 proof of a mirror model + differential correspondence check"),
 "C05": dict(
    category="translation_validation",
    text="Every BlockTranslationResult the seven real translators return on a structured byte sweep is judged by a Lean "
         "checker (width rules of all expressions and operations, entry/exit/edges of each instruction graph, out-edge and "
         "successor guards recognised as a partition) whose soundness is a Lean theorem over all states; panics are caught "
         "and reported with their site. Totality over all byte strings is explored, not proved.",
    design_ref="DESIGN.md §6 C05",
    note="Trusted: Lean kernel, the FIL printer/reader pair, catch_unwind. 'Never panics/terminates' concerns Rust and C "
         "code (capstone, bad64) and is observed on the sweep only.",
    technique="Lean-verified well-formedness checker run on the lifters' real outputs"),
}

checks = []
for pid in ALL:
    if pid not in CLAIMED:
        continue
    c = CLAIMED[pid]
    checks.append({
        "property_id": pid,
        "quick_cmd": f"./check {pid} quick",
        "thorough_cmd": f"./check {pid} thorough",
        "evidence_file": f"/verif/evidence/{pid}.json",
        "replay_cmd_template": f"./check {pid} --replay {{path}}",
        "engine": "lean4+harness",
        "level_claimed": {"category": c["category"], "text": c["text"], "design_ref": c["design_ref"]},
        "level_note": c["note"],
        "technique": c["technique"],
    })
na = [{"property_id": p, "reason": "check not built yet in this round (planned: DESIGN.md §6/§8); nothing is claimed for it"}
      for p in ALL if p not in CLAIMED]
m = {
 "version": 1,
 "setup_cmd": "./check --setup",
 "hooks": {"guard": "--cfg falcon_verif", "enable": "no hooks are needed: the harness uses falcon's public API only",
           "baseline_off_cmd": "cd /repo && cargo test --offline --lib", "source_commits": [], "add_only": True},
 "engines": [{"name": "lean4+harness", "path": "/verif/check",
              "serves_properties": sorted(CLAIMED), "kind_free_text":
              "Lean 4 models/specs/theorems (lean/), native Lean drivers, Rust correspondence harness (harness/), python orchestrator"}],
 "checks": checks,
 "not_applicable": na,
 "notes": "Repairs of genuine defects are unguarded 'fix:' commits in /repo, listed in known_findings.json.",
}
json.dump(m, open(os.path.join(ROOT, "MANIFEST.json"), "w"), indent=1)
print("claimed:", sorted(CLAIMED), "not claimed:", len(na))
