"""C16 — backing memory is a permissioned byte map under overlapping writes (DESIGN §6 C16)."""
ID = "C16"
HARNESS_BIN = "c16"
DRIVER = "fvd_c16"
LEAN_TARGETS = ["FalconProofs.Props.C16", "fvd_c16"]
PROPS_MODULE = "FalconProofs.Props.C16"
LEVEL = "proof"
HISTORY_SEP = " ; "
RULE = ("each case is ONE history on a fresh memory::backing::Memory: the endianness, then 1..30 set_memory (regions "
        "overlapping, nested, adjacent, identical, empty; lengths 0..48; addresses random in a 128-byte window or on/next to "
        "a boundary of an existing section; windows at 0, at 2^62 and ending at 2^64-1 incl. regions touching / exceeding the "
        "last byte) interleaved with set32/get, followed by a dump (get8 + permissions) of every address of the window and its "
        "margin, get of 14 widths (incl. 0, 4, 12, 33), get32, and the sections() dump; plus every history of <= 2 regions in a "
        "6-byte window (3 regions: 4-byte window in quick, 6-byte in thorough) with dense reads; plus set32/get32 round-trip "
        "histories. Sizes: quick 14k random + 3k word histories + 4.2k enumerated; thorough 8 shards x (26k + 5k) + the "
        "19683 three-region histories per endianness. distinct = distinct request line; non-trivial = some set_memory of the history overlaps >= 2 stored "
        "sections or falls strictly inside one (splits it), decided on falcon's own sections() before the write "
        "(class component `nt`).")
TRUSTED = [
    "specification: byte map Nat -> Option (UInt8 x Perm) with `override` (FalconModel/Backing.lean, ~40 lines)",
    "correspondence: harness/src/bin/c16.rs + lean/Drivers/C16.lean + check (three-way diff, per operation)",
    "the premise 'the four bytes lie within one section' of the 32-bit clause is evaluated on the model's section list "
    "(which the `sections` operation compares with falcon's)",
]
ASSUMPTIONS = [
    "usize is 64 bits; falcon built with overflow-checks=on (release profile of the harness)",
    "theorems are stated for regions with address + length < 2^64; a region containing the byte 2^64-1 makes "
    "section_address overflow (known finding C16/*/top*), a 'region' with address + length > 2^64 is outside the property",
    "bits of `get` up to 256 in the correspondence (the theorem has no bound); allocation behaviour not modelled",
]
SHARDS = {"quick": 1, "thorough": 8}


def _ops(s):
    return s.split(HISTORY_SEP)


def _overlap(dump):
    """falcon's `sections` answer: entries must be in ascending order and pairwise disjoint"""
    if dump in ("-", "skipped", "panic"):
        return False
    prev_end = -1
    for ent in dump.split(","):
        try:
            a, _p, hx = ent.split(":")
            a = int(a)
        except ValueError:
            return True
        ln = len(hx) // 2
        if a < prev_end:
            return True
        prev_end = a + ln
    return False


def _first_diff(c):
    """(index, kind) of the first operation on which falcon contradicts the specification ('violation') or, failing
    that, differs from the model ('broken'); None when the whole history agrees"""
    req, impl = _ops(c.req), _ops(c.impl)
    model = _ops(c.model) if c.model is not None else []
    spec = _ops(c.spec) if c.spec is not None else []
    n = len(req)
    if len(impl) != n:
        return (0, "broken")
    broken = None
    outside = False
    for i in range(n):
        s = spec[i] if i < len(spec) else "-"
        m = model[i] if i < len(model) else None
        if s == "?" and req[i].startswith("set "):
            outside = True      # a region reaching beyond 2^64: the specification has no state from here on
        if outside or s == "?":
            # this operation is outside the property's domain (after a region reaching beyond 2^64 every later operation
            # is, too): what falcon does here (wrap, panic, accept) is not fixed by the property, and a rewrite that
            # changes it must not raise an alarm.  Later operations with a specified answer are still judged.
            if impl[i] == "panic" and req[i].startswith("set "):
                break
            continue
        if req[i] == "sections" and _overlap(impl[i]):
            return (i, "violation")
        if s not in ("-", "?") and impl[i] != s:
            return (i, "violation")
        if s not in ("-", "?") and impl[i] == s:
            # falcon does what the specification says on this operation: nothing is broken by the model saying otherwise
            # (it can only do so where it mirrors a listed defect, e.g. the overflow at a region ending at 2^64, and a
            # change that repairs the defect must not raise an alarm)
            pass
        elif m is not None and impl[i] != m and broken is None:
            broken = (i, "broken")
        if impl[i] == "panic" and req[i].startswith("set "):
            break           # the rest is `skipped` on both sides
    if len(model) != n and broken is None:
        broken = (0, "broken")
    return broken


def classify(c):
    d = _first_diff(c)
    return "ok" if d is None else d[1]


def _kind(ans):
    if ans in ("panic", "none", "ok", "skipped") or ans.startswith("err:"):
        return ans
    return "value"


def signature(c):
    d = _first_diff(c)
    if d is None:
        return f"{ID}/{c.cls}"
    i = d[0]
    req, impl = _ops(c.req), _ops(c.impl)
    op = req[i].split(" ")[0] if i < len(req) else "?"
    got = _kind(impl[i]) if i < len(impl) else "?"
    cls = c.cls
    if "/top" in cls.replace("topwin", ""):
        # histories holding a region that contains the byte 2^64-1: one family, whatever else they contain
        cls = "topwin/top"
    return f"{ID}/{cls}/{op}/{got}"


def nontrivial(c):
    return "/nt" in c.cls
