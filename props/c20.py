"""C20 — architecture descriptors agree with the lifters and the platform ABI (DESIGN §6 C20, pattern P4).

The property quantifies over a finite table, so `decide` over the whole table is a proof — provided the table in
Lean is today's.  `pre_build` therefore regenerates `lean/Generated/Arch.lean` from the current /repo build
(`harness/target/release/c20 table`) BEFORE lake builds `FalconProofs.Props.C20` and the driver; the line protocol
then re-reads every (architecture, field) from the live code and compares it with the table the proofs were
about ("model") and with the ABI-required value ("spec")."""
import os
import subprocess

ID = "C20"
HARNESS_BIN = "c20"
DRIVER = "fvd_c20"
_LEAN_TARGETS = ["FalconProofs.Props.C20", "fvd_c20"]
PROPS_MODULE = "FalconProofs.Props.C20"
LEVEL = "proof"
SHARDS = {"quick": 1, "thorough": 1}       # the table is finite: one pass enumerates it completely
RULE = ("exhaustive: one request per (architecture, field) for the seven architectures x 24 fields — the 10 descriptor/"
        "calling-convention fields, 6 observations of the translator (scalars of a register sweep: mov r,r for every GPR and "
        "sub-register, xmm moves, addu/mfhi/mflo, mr/add/mflr/mtlr/mtctr/cmpwi, mov xN/wN, add sp, ldr/str qN; instruction "
        "fetch order; bytes of a lifted store of 0x11223344; address widths of a lifted load and store), 4 judgements "
        "(sp emitted, convention registers not emitted, registers both preserved and trashed, sp preserved) and 4 query "
        "fields (argument_type(n) for n = 0..=argument registers+6; the offsets of the stack answers among them; "
        "is_preserved and is_trashed for every register of preserved/trashed/arguments/return/stack pointer, every sweep "
        "scalar and one register in neither set). falcon's answer is read from the live build, the model's from the "
        "regenerated table the theorems were proved about, the specification's from the hand-written ABI table (for the "
        "two is_* fields: from the table's own sets, as the code documents); distinct = distinct request; non-trivial = "
        "every request except the informational `sweep_failed`")
TRUSTED = [
    "specification: lean/FalconModel/Abi.lean — hand-written from the System V i386 / AMD64 / MIPS o32 / PowerPC-32 "
    "supplements and AAPCS64 (integer argument registers in order, return register, return-address location, offset of "
    "the first stack argument at function entry, word-sized stack slots), in falcon's register naming",
    "the table generator harness/src/bin/c20.rs (`c20 table`): prints falcon's live values as Lean literals; every "
    "(architecture, field) is re-read from the live build in the same run and compared with the table (falcon == model)",
    "the register sweep is a fixed list of encodings per architecture: 'emitted' means emitted on that sweep; encodings "
    "the translator rejects are listed in the field sweep_failed",
    "the IL's load/store carry no byte order (the memory object does, and the loaders build it from endian()): what is "
    "observed of the translator is its instruction-fetch order and the address widths; the stored bytes are observed on "
    "a memory built from the descriptor, as the loaders build it",
]
ASSUMPTIONS = [
    "the seven architectures are exactly those of falcon::architecture (fvh::lift::ARCHS); a new architecture needs a row "
    "in Abi.lean and a theorem block in Props/C20.lean (the driver answers bad-request for it, which fails the check)",
]

_ROOT = os.path.dirname(os.path.dirname(os.path.abspath(__file__)))
_TABLE = os.path.join(_ROOT, "lean", "Generated", "Arch.lean")
_BIN = os.path.join(_ROOT, "harness", "target", "release", "c20")


def _regenerate():
    """rewrite lean/Generated/Arch.lean from the current harness binary (the file is only touched when its text
    changes, so lake rebuilds the proofs exactly when a table entry changed)"""
    os.makedirs(os.path.dirname(_TABLE), exist_ok=True)
    p = subprocess.run([_BIN, "table", _TABLE], capture_output=True, text=True, timeout=600)
    if p.returncode != 0:
        raise RuntimeError("c20 table failed: " + p.stderr[-800:])


def pre_build(check_module, tier, seed):
    _regenerate()


def __getattr__(name):
    # `check --replay` (and nothing else) builds the Lean targets without calling pre_build; the table must be
    # today's there too, so reading LEAN_TARGETS regenerates it when the harness binary exists (it is always read
    # after the cargo build and before the lake build).
    if name == "LEAN_TARGETS":
        if os.path.exists(_BIN):
            try:
                _regenerate()
            except Exception:      # noqa — the build/cases that follow report the problem
                pass
        return list(_LEAN_TARGETS)
    raise AttributeError(name)


def extra_coverage():
    return {"exhaustive": True}


def nontrivial(c):
    return not c.req.endswith(" sweep_failed")
