"""C06 — function recovery reproduces sequential machine-code execution (DESIGN §6 C06)."""
import re
ID = "C06"
HARNESS_BIN = "c06"
DRIVER = "fvd_c06"
DRIVER_TAKES_ANSWER = True
LEAN_TARGETS = ["FalconProofs.Props.C06", "FalconProofs.Props.C06Asm", "fvd_c06"]
PROPS_MODULE = "FalconProofs.Props.C06"
LEVEL = "proof"
RULE = ("random machine-code programs from built-in mini-assemblers (MIPS/MIPSEL: addiu addu lw sw beq bne blez bgtz bltz bgez b j jr; "
        "x86/amd64: mov add inc cmp load/store, 1..5-byte nops, jcc/jmp in short and long forms, ret), 3..40 instructions so that "
        "code spans one or several 64-byte translation windows at varying alignment, forward/backward branches into the middle of "
        "already-lifted blocks, optional manual edges out of the indirect jump; lifted with the real translate_function_extended, "
        "executed from a boundary/random state by falcon's executor for <= 60 native instructions, compared with the single-step "
        "reference (lift one instruction at pc, run it, follow its successors) recomputed in Lean from the dumped per-instruction IL; "
        "structural clauses checked in Lean. non-trivial = the program has a branch and more than one lifted block. "
        "Assembly algorithm: for every program the translation results of falcon's work list are dumped and the Lean model "
        "(Assemble.discover + assemble) must reproduce the recovered function exactly; in addition synthetic tables of translation "
        "results (2-7 addresses; overlapping/incoherent instruction lists, empty instruction lists, empty windows, failing "
        "translate_block, conditional/unconditional successors inside and outside the table, manual edges with and without guards) "
        "are run through the REAL translate_function_extended with a table translator and compared with the model")
TRUSTED = [
    "Lean IL semantics (FalconModel/Exec.lean, Lift.lean, FnRec.lean) for both runs; per-instruction lifting is the same translator on both sides, so instruction semantics cancel out and only recovery is tested",
    "harness/src/bin/c06.rs (mini-assemblers, oracle dump), lean/Drivers/C06.lean",
]
ASSUMPTIONS = [
    "execution clause: per-program validation over generated programs and states, not a proof over all programs",
    "assembly algorithm: modelled (FalconModel/Assemble.lean on top of the C15 CfgEdit model) and proved well formed / entry / "
    "each-address-once / merge-language-preserving for all inputs (Props/C06Asm.lean); tied to the code by exact equality of "
    "`assemble . discover` with falcon's recovered function on every generated program (verdict asm-mismatch = broken)",
    "semantic clause for ALL states and run lengths: asm_refines (Props/C06Asm.lean) — under Assemble.Coherent (decidable; the driver "
    "evaluates it, and successor determinism against the single-instruction oracle, on every generated case: verdict `incoherent`) "
    "the recovered function and the reference machine 'one lifted instruction at a time' have the same runs in the IL operational "
    "semantics FStep/FRun (the semantics C07 ties to falcon's executor), through the final merge",
    "runs are compared on address trace and, when both terminate within the bound, on the final registers, memory window and next pc",
]


def classify(c):
    v = c.model
    if v.startswith("ok") or v.startswith("rejected"):
        return "ok"
    if v.startswith("structure") or v.startswith("diverge") or v.startswith("post-differs") or v.startswith("panic"):
        return "violation"
    # the hypothesis of `asm_refines` fails on the dumped translation results.  (`reqFun` is reported only when a guard is
    # DROPPED by the manual-edge loop; guards of successors are merged by OR since fed1e64.)  Two clauses describe the recovered
    # CFG itself (a concrete program whose CFG, read in the IL operational semantics, does not have the machine's
    # executions) and are reported as violations; the remaining clauses would mean the lifter/model tie is broken.
    if v.startswith("incoherent reqFun") or v.startswith("incoherent continuation"):
        return "violation"
    return "broken"      # model-mismatch / oracle-miss / unparsable: the correspondence, not the property


def signature(c):
    v = c.model
    arch = c.cls.split("/")[0]
    kind = v.split(" ")[0]
    if kind == "diverge":
        m = re.search(r"fn=\[([^\]]*)\]", v)
        head = m.group(1) if m else "addr"
        head = "addr" if head.startswith("0x") else head
        ds = "target-in-delay-slot" if "target-in-delay-slot" in c.cls else "plain"
        return f"C06/{arch}/diverge/fn-ends-with-{head}/{ds}"
    if kind == "incoherent":
        sub = v.split(" ")[1].split("@")[0].split("\t")[0] if " " in v else "unknown"
        ds = "target-in-delay-slot" if "target-in-delay-slot" in c.cls else "plain"
        return f"C06/{arch}/incoherent/{sub}/{ds}"
    if kind == "structure":
        return f"C06/{arch}/structure/{v.split(' ')[1]}"
    if kind == "panic":
        return f"C06/{arch}/{v.split(' ')[1] if ' ' in v else 'panic'}"
    return f"C06/{arch}/{kind}"


def nontrivial(c):
    return "nobranch" not in c.cls and c.impl.count("(blk ") > 1
