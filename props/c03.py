"""C03 — the AArch64 lifter agrees with the Arm architecture pseudocode (DESIGN §6 C03, LIFTER_BRIEF)."""
import os
import re
import sys
sys.path.insert(0, os.path.dirname(os.path.abspath(__file__)))
import types  # noqa: E402
import smt_tie  # noqa: E402
ID = "C03"
HARNESS_BIN = "c03"
DRIVER = "fvd_c03"
DRIVER_TAKES_ANSWER = True
LEAN_TARGETS = ["FalconProofs.Props.C03", "fvd_c03"]
PROPS_MODULE = "FalconProofs.Props.C03"
LEVEL = "proof"
RULE = ("one A64 word + one machine state per case, for aarch64 and aarch64eb: for every encoding class the dispatcher "
        "can reach (add/sub immediate | shifted | extended register; ORR-shifted/ORR-immediate/MOVZ/MOVN/MOVK (MOV aliases); "
        "HINT space; load/store unsigned-offset | unscaled | post | pre | unprivileged | register-offset, integer and SIMD&FP; "
        "LDAPUR/STLUR space; load-acquire/store-release space; pairs (no-allocate | post | offset | pre, integer, LDPSW, SIMD&FP); "
        "literal loads; B, BL, B.cond, CBZ/CBNZ, TBZ/TBNZ, BR/BLR/RET space) the class-defining bits (sf, op, S, sh, shift, "
        "option, imm3, size, V, opc, mode, L, o0-o2, cond, b5:b40, opc) are enumerated exhaustively incl. reserved values, "
        "Rd/Rn/Rm/Rt/Rt2 are sampled with 31, 30 and 0 forced often, immediates from {0,1,max,sign bit,max positive,random}; "
        "plus uniformly random words. States define every register a field can name (X, SP, NZCV, V for SIMD forms), values "
        "from carry/overflow edges, edge+-2 and random; memory operands are steered into a mapped window (aligned, unaligned, "
        "page-crossing, high addresses) and sometimes to unmapped or half-mapped memory. falcon lifts the word "
        "(translate_block), falcon's executor runs the IL, the Lean IL semantics runs the dumped IL, the Lean A64 interpreter "
        "runs the raw word; distinct = distinct request line; non-trivial = falcon returned IL and the interpreter defines the outcome")
TRUSTED = [
    "specification: lean/FalconModel/Isa/A64.lean, written from knowledge of the Arm ARM pseudocode (the manual is not in the sandbox)",
    "IL semantics: FalconModel/Exec.lean + Lift.lean (tied to falcon's executor by the three-way comparison here and by C07/C08)",
    "the mirror of the lifter FalconModel/Isa/A64Lift.lean is compared syntactically with falcon's dumped IL on every case of its classes",
    "correspondence: harness/src/bin/c03.rs + harness/src/lift.rs + lean/Drivers/C03.lean",
    smt_tie.TRUSTED,
]
ASSUMPTIONS = [
    "alignment checking off (SCTLR_ELx.A = 0, SA = 0); unaligned load-acquire/store-release accesses fault and are excluded",
    "CONSTRAINED UNPREDICTABLE encodings (write-back with base = transfer register, LDP with Rt = Rt2, should-be-one fields) are excluded and counted",
    "cases in which the interpreter takes a data abort (unmapped byte) are excluded and counted: IL has no exceptions, falcon's memory maps pages on stores",
]

STATS = {"unpredictable": 0, "fault_alignment": 0, "fault_translation": 0, "outside_spec": {}, "rejected_in_spec": {},
         "rejected": 0, "compared": 0, "mirror_compared": 0}


def _post(impl):
    """falcon's executed post line (second half of the answer)"""
    if not impl.startswith("(btr"):
        return None
    i = impl.rfind(" | next=")
    return impl[i + 3:] if i >= 0 else None


def _fields(line):
    f = [x.strip() for x in line.split(";")]
    return f if len(f) == 3 else None


def _diff(a, b):
    """which component differs between two post lines: next | <register name> | mem"""
    fa, fb = _fields(a), _fields(b)
    if fa is None or fb is None:
        return "shape"
    if fa[0] != fb[0]:
        return "next"
    ra, rb = fa[1].split(","), fb[1].split(",")
    if len(ra) != len(rb):
        return "shape"
    # ALL differing components, not the first one: a listed finding on one flag (SUBS sets C to the borrow) must not hide a
    # second defect on the same instruction (seeded C03-m2: V wrong when the subtrahend is INT_MIN)
    names = []
    for x, y in zip(ra, rb):
        if x != y:
            n = x.split("=")[0]
            if re.fullmatch(r"x\d+", n):
                n = "xreg"
            elif re.fullmatch(r"v\d+", n):
                n = "vreg"
            if n not in names:
                names.append(n)
    if fa[2] != fb[2]:
        names.append("mem")
    return "+".join(names) if names else None


def _mnemonic_class(cls):
    p = cls.split("/")
    return "/".join(p[1:]) if len(p) > 1 else cls


def classify(c):
    post = _post(c.impl)
    if c.model.startswith("MIRROR-SAME "):
        c.model = c.model[len("MIRROR-SAME "):]
        STATS["mirror_compared"] += 1
    spec, model = c.spec, c.model
    mc = _mnemonic_class(c.cls)
    if post is None:
        # falcon returned no IL
        if c.impl.startswith("panic"):
            return "violation"
        if model.startswith("MIRROR-DIFF"):
            return "broken"
        STATS["rejected"] += 1
        if spec.startswith("next="):
            k = mc.split("/")[0]
            STATS["rejected_in_spec"][k] = STATS["rejected_in_spec"].get(k, 0) + 1
        return "ok"
    mirror_diff = model.startswith("MIRROR-DIFF")
    if mirror_diff:
        model = model[len("MIRROR-DIFF "):]
    if model in ("unparsable", "bad-request"):
        return "broken"
    if spec == "unallocated":
        k = mc.split("/")[0] + ("/" + mc.split("/")[1] if mc.startswith("sweep") else "")
        STATS["outside_spec"][k] = STATS["outside_spec"].get(k, 0) + 1
        return "ok" if post == model and not mirror_diff else "broken"
    if spec.startswith("unpredictable"):
        STATS["unpredictable"] += 1
        return "ok" if post == model and not mirror_diff else "broken"
    if spec.startswith("fault:"):
        if spec == "fault:alignment":
            STATS["fault_alignment"] += 1
            return "ok" if post == model and not mirror_diff else "broken"
        # IL has no exceptions and falcon's memory maps a page on a store: a data abort has no counterpart; counted
        STATS["fault_translation"] += 1
        return "broken" if mirror_diff else "ok"
    STATS["compared"] += 1
    if post != spec:
        return "violation"        # a concrete (word, state) on which falcon disagrees with the architecture
    if post != model or mirror_diff:
        return "broken"           # IL model / mirror of the lifter no longer describes falcon
    return "ok"


def _only_mirror(c):
    """the case is 'broken' for no other reason than MIRROR-DIFF (same decisions as classify, without the counters)"""
    post, model, spec = _post(c.impl), c.model, c.spec
    if post is None or not model.startswith("MIRROR-DIFF "):
        return False
    model = model[len("MIRROR-DIFF "):]
    if model in ("unparsable", "bad-request", "rejected"):
        return False
    if spec == "unallocated" or spec.startswith("unpredictable") or spec == "fault:alignment":
        return post == model
    if spec.startswith("fault:"):
        return True
    return post == spec and post == model


SMT = smt_tie.new_counters()


def resolve_broken(check, cases):
    """falcon's IL differs syntactically from the mirror's: z3 decides whether it differs semantically (props/smt_tie.py;
    validation support for the mirror tie, not a theorem)"""
    return smt_tie.resolve(check, types.SimpleNamespace(**globals()), cases, _only_mirror, SMT)


def signature(c):
    post = _post(c.impl)
    if post is None:
        return f"C03/{c.cls}/{c.impl.split(' ')[0][:80]}"
    if c.spec.startswith("next="):
        d = _diff(post, c.spec)
        if d:
            arch = c.cls.split("/")[0]
            if d == "c" and "/addsub_" in c.cls and "_op1_S1_" in c.cls:
                return f"C03/{arch}/subs/c"          # one defect, one signature (all three operand forms, both widths)
            return f"C03/{c.cls}/{d}"
    if c.model.startswith("MIRROR-DIFF"):
        return f"C03/{c.cls}/mirror"
    m = c.model[len("MIRROR-DIFF "):] if c.model.startswith("MIRROR-DIFF ") else c.model
    d = _diff(post, m) if m.startswith("next=") else "model"
    return f"C03/{c.cls}/model-{d}"


def nontrivial(c):
    return c.impl.startswith("(btr") and c.spec.startswith("next=")


def extra_coverage():
    return {"c03_counts": STATS, "mirror_tie_smt": SMT,
            "unproved_classes": ["SIMD&FP transfer registers (V=1) of ldr/str/ldur/stur (immediate, register offset, literal) and ldp/stp/ldnp/stnp",
                                 "outside the statement, reachable through shared mnemonics: AdvSIMD/SVE add/sub/mov, SVE prefetches"],
            "proved_classes": "see lean/FalconProofs/Props/C03.lean header (A)"}
