"""C08 — paged memory is a byte-addressed array with independent clones (DESIGN §6 C08)."""
ID = "C08"
HARNESS_BIN = "c08"
DRIVER = "fvd_c08"
LEAN_TARGETS = ["FalconProofs.Props.C08", "fvd_c08"]
PROPS_MODULE = "FalconProofs.Props.C08"
LEVEL = "proof"
HISTORY_SEP = " ; "
RULE = ("one request = one history of 2..70 operations (new/newb/clone/store/load/perm/getperm/eq) over up to 4 "
        "handles, addresses drawn from four windows (two straddling a 1024-byte page boundary, one at the top of the "
        "address space, one at 0), widths 8..256 bits plus invalid ones, both endiannesses, with and without backing "
        "(sections covering / partly covering / missing the window), 15% of the histories run on Memory<Expression> "
        "(model column = the Expression-instance model, loads evaluated; spec column = byte array of the values); plus all histories of <=2 (quick) / <=3 (thorough) stores of widths 8/16/32 "
        "in an 8-byte window followed by all 8/16/32-bit loads; distinct = distinct request line; non-trivial = the "
        "history contains a load answering a value after at least two successful stores through that handle or its "
        "clone ancestors, or a value-answering load of more than 8 bits that crosses a 1024-byte page boundary")
TRUSTED = [
    "specification: byte array Nat -> Option UInt8 with endian read/write (FalconModel/Paged.lean, 40 lines)",
    "correspondence: harness/src/bin/c08.rs + lean/Drivers/C08.lean + check (three-way diff per operation)",
    "modelled, not verified: RC copy-on-write (clones are persistent values in the model), HashMap/BTreeMap, "
    "backing::Memory::set_memory (sections are taken as data; C16 covers it)",
]
ASSUMPTIONS = [
    "usize/u64 are 64 bits; falcon built with overflow-checks=on (release profile of the harness)",
    "V = il::Expression: load_expr_hom / history_expr reduce the Expression memory to the Constant memory for "
    "stored expressions that evaluate to a constant of their own width (true of well-sorted ones); mode E "
    "histories run the Expression-instance model against Memory<Expression>",
    "stored and loaded widths are below 2^63 bits",
]


def _ops(c):
    return c.req.split(HISTORY_SEP), c.impl.split(HISTORY_SEP), (c.model or "").split(HISTORY_SEP), \
        (c.spec or "").split(HISTORY_SEP)


def _mode_e(ops):
    return bool(ops) and ops[0] == "mode E"


def _first_diff(c):
    """(kind, index) of the first operation on which falcon contradicts the specification ('violation'),
    or else differs from the model ('broken'); None if the history is fine"""
    ops, impl, model, spec = _ops(c)
    n = len(ops)
    if len(impl) != n:
        # a panic that escaped the per-operation catch: the whole answer is `panic`
        return ("broken", 0)
    if len(model) != n or len(spec) != n:
        return ("broken", 0)
    broken = None
    for i in range(n):
        s = spec[i]
        if s not in ("-", "?") and impl[i] != s:
            return ("violation", i)
        if impl[i] != model[i] and broken is None:
            # (mode E histories are answered by the Expression-instance model, which compares expression
            # trees structurally exactly as Memory<Expression> does)
            broken = ("broken", i)
    return broken


def classify(c):
    d = _first_diff(c)
    return "ok" if d is None else d[0]


def _creation(ops, upto):
    """handle -> ('new'|'newb', endian) following clones, for the operations before index `upto`"""
    made = {}
    for op in ops[:upto]:
        t = op.split(" ")
        if t[0] == "new" and len(t) >= 3:
            made[t[1]] = ("unbacked", t[2])
        elif t[0] == "newb" and len(t) >= 3:
            made[t[1]] = ("backed", t[2])
        elif t[0] == "clone" and len(t) >= 3 and t[1] in made:
            made[t[2]] = made[t[1]]
    return made


def _num(s):
    try:
        return int(s, 16) if s.startswith("0x") else int(s)
    except ValueError:
        return None


def signature(c):
    d = _first_diff(c)
    if d is None:
        return f"{ID}/{c.cls}"
    kind, i = d
    ops, impl, model, spec = _ops(c)
    if i >= len(ops):
        return f"{ID}/{c.cls}"
    t = ops[i].split(" ")
    made = _creation(ops, i)
    mode = "E" if _mode_e(ops) else "C"
    back, endian = made.get(t[1], ("?", "?")) if len(t) > 1 else ("?", "?")
    got = impl[i] if i < len(impl) else "?"
    got = got if got in ("ok", "none", "panic", "true", "false") or got.startswith("err:") else "value"
    if t[0] == "eq" and len(t) >= 3:
        b2 = made.get(t[2], ("?", "?"))[0]
        return f"{ID}/eq/{back}-{b2}/falcon={got}"
    if t[0] == "getperm":
        earlier = [o.split(" ") for o in ops[:i]]
        permed = any(o[0] == "perm" for o in earlier)
        stored = any(o[0] == "store" for o in earlier)
        ctx = "after-perm" if permed else ("after-store" if stored else "fresh")
        return f"{ID}/getperm/{ctx}/{back}/falcon={got}"
    if t[0] == "store" and len(t) >= 4:
        a = _num(t[2])
        bits = _num(t[3].split(":")[1]) if ":" in t[3] else None
        where = "mid"
        if a is not None and bits is not None and bits % 8 == 0:
            end = a + bits // 8
            where = "end=2^64" if end == 2 ** 64 else ("end>2^64" if end > 2 ** 64 else "mid")
        return f"{ID}/store/{mode}/{where}/falcon={got}"
    if t[0] == "load":
        earlier = [o.split(" ") for o in ops[:i]]
        panicked = any(o[0] == "store" and j < len(impl) and impl[j] == "panic" for j, o in enumerate(earlier))
        ctx = "after-panicked-store" if panicked else "plain"
        return f"{ID}/load/{mode}/{endian}/{back}/{ctx}/falcon={got}"
    if t[0] == "perm":
        return f"{ID}/perm/falcon={got}"
    return f"{ID}/{t[0]}/falcon={got}"


def nontrivial(c):
    ops, impl, _, _ = _ops(c)
    if len(impl) != len(ops):
        return False
    stores = {}
    for i, op in enumerate(ops):
        t = op.split(" ")
        if t[0] == "clone" and len(t) >= 3:
            stores[t[2]] = stores.get(t[1], 0)
        elif t[0] == "store" and len(t) >= 4 and impl[i] == "ok":
            stores[t[1]] = stores.get(t[1], 0) + 1
        elif t[0] == "load" and len(t) >= 4:
            valued = impl[i].startswith("0x")
            if valued and stores.get(t[1], 0) >= 2:
                return True
            a, n = _num(t[2]), _num(t[3])
            if valued and a is not None and n is not None and n > 8 and (a % 1024) + n // 8 > 1024:
                return True
    return False
