"""C12 — reaching definitions and the def-use / use-def chains cover every execution (DESIGN §6 C12)."""
ID = "C12"
HARNESS_BIN = "c12"
DRIVER = "fvd_c12"
LEAN_TARGETS = ["FalconProofs.Props.C12", "fvd_c12"]
PROPS_MODULE = "FalconProofs.Props.C12"
LEVEL = "translation_validation"
# the request is the function only; the Lean driver receives `<request>\t<falcon's three relations>` and judges them
DRIVER_TAKES_ANSWER = True
RULE = ("random IL functions built through falcon's API by harness/src/genil.rs in six configurations (general; dense: "
        "three 32-bit names so that most instructions read two or three scalars and definitions kill one another; tiny; "
        "intrinsic-heavy: intrinsics with declared / undeclared written and read sets; branch instructions with arbitrary "
        "guards; large: up to 14 blocks), with loops, self-loops, empty blocks, unreachable blocks, the entry inside a "
        "loop, guarded edges reading freshly written scalars, self-updates x := x + c, every tenth function with gaps in "
        "its instruction indices (remove_instruction), plus nine hand-shaped functions and the functions on which the two "
        "repaired defects were found (corpus/C12); for each function falcon's "
        "reaching_definitions, use_def and def_use are run and the verified checks of FalconModel/ReachDefs.lean are "
        "applied to all three results (every location, every scalar). Self-test (class selftest/<verdict>): on "
        "intrinsic-free functions one pair is removed from / added to falcon's answer and the judge must reject it with "
        "exactly that verdict. distinct = distinct function text; non-trivial = "
        "some instruction reads two or more distinct scalars or reads a scalar it also writes")
TRUSTED = [
    "specification: FRunT / lastWriter / Reaches (FalconModel/ReachDefs.lean) over FStep of FalconModel/Exec.lean",
    "correspondence: harness/src/bin/c12.rs (printer of falcon's HashMaps) + lean/Drivers/C12.lean (reader) + check; "
    "FIL printer/reader",
    "scalars are identified as falcon identifies them (name, width, SSA version); well-formed IL has one width per name",
    "unverified: the search for a witness path and for an initial state that follows it (only decides whether a "
    "failed check is reported as a violation with a concrete execution or as a broken correspondence)",
]
ASSUMPTIONS = [
    "functions are well-formed (distinct block indices, distinct instruction indices per block, distinct edges "
    "between existing blocks): what falcon's constructors maintain; the driver answers `?` otherwise",
    "an intrinsic writes exactly the scalars it declares (undeclared = nothing is known, as in the property)",
]


def _verdict(c):
    return (c.model or "").split(" ", 1)[0]


def classify(c):
    """the driver's verdict on falcon's output decides; expected verdict: ok"""
    v = _verdict(c)
    if c.cls.startswith("selftest/"):
        # falcon's answer was deliberately damaged by the harness: the judge must say so, with the right verdict
        return "ok" if v == c.cls.split("/", 1)[1] else "broken"
    if v == "ok":
        return "ok"
    if v in ("spurious-rd", "not-inverse", "error", "error-expected:"):
        return "violation"
    if v in ("missing-rd", "missing-ud"):
        # a concrete initial state whose run follows the witness path was found => the property fails on an execution
        return "broken" if c.model.endswith("exec=none") else "violation"
    return "broken"         # `?`: the machinery could not judge this case


def signature(c):
    v = _verdict(c)
    if c.cls.startswith("selftest/"):
        return f"C12/{c.cls}/judge-said-{v}"
    toks = dict(t.split("=", 1) for t in (c.model or "").split(" ") if "=" in t and not t.startswith(("path=", "exec=")))
    if v == "missing-ud":
        # the position of the used scalar does not matter, the shape of the use does
        n = toks.get("reads", "?")
        shape = "self-update" if toks.get("self") == "1" else ("reads=1" if n == "1" else "reads>=2")
        return f"C12/use_def/{shape}"
    if v == "missing-rd":
        return "C12/reaching_definitions/missing"
    if v == "spurious-rd":
        return "C12/reaching_definitions/spurious"
    if v == "not-inverse":
        return "C12/def_use/not-inverse"
    if v.startswith("error"):
        return "C12/error/" + "-".join((c.model or "").split(" ")[1:3])
    return f"C12/unjudged/{c.cls.split('/')[0]}"


def nontrivial(c):
    if c.cls.startswith("selftest/"):
        return False        # a damaged copy of an answer already counted
    feats = c.cls.split("/")[-1]
    return "m" in feats or "s" in feats
