"""C11 — the graph container keeps its views consistent and the graph algorithms compute what they are named
after (DESIGN §6 C11)."""
import atexit
import os
import re
import subprocess

ID = "C11"
HARNESS_BIN = "c11"
DRIVER = "fvd_c11"
LEAN_TARGETS = ["FalconProofs.Props.C11", "fvd_c11"]
PROPS_MODULE = "FalconProofs.Props.C11"
LEVEL = "proof"
HISTORY_SEP = " ; "
SHARDS = {"quick": 8, "thorough": 8}
RULE = ("queries `q V E r` (all of reach/unreach/idom/doms/domtree/df/loops/looptree/red/acyc/tpreds/nopred/nosucc "
        "compared with the definitional model; pre/post/topo/cacyc judged by verified checkers) on: random graphs of "
        "1-12 vertices with edge probability 0.1/0.2/0.3/0.5, self-loops allowed, half of them rooted at one vertex, "
        "half of them with 1-3 extra vertices unreachable from the main part (pointing into it and to each other), ids "
        "contiguous, random < 1000 or up to 2^40, every vertex as root for <= 5 vertices else 3 roots, 1 in 30 roots "
        "not a vertex; structured graphs (chains, diamonds, nested loops, the irreducible triangle, disjoint loops, "
        "loops sharing a header, root inside a loop, falcon's own test graphs, each also with an unreachable vertex "
        "pointing into the loop) with every vertex as root; thorough only: every digraph on 1-3 vertices with every "
        "root and every digraph on 4 vertices with roots 0 and 3; edit histories of 1-40 operations "
        "iv/ie/re/rv/ru (30/35/10/15/10 %, half of the histories 25/55/8/8/4 % so that larger graphs get built) over a pool of 4-8 ids (some >= 2^32) with all four views dumped and "
        "cross-checked after every operation; after every operation every public per-vertex query (has_vertex, vertex, "
        "edges_in, edges_out, successors, predecessors, successor_indices, predecessor_indices) is asked for every id "
        "the history mentions anywhere plus one it never mentions, has_edge/edge for every mentioned pair (Q=/X= "
        "sections: an id must answer as present everywhere or as vertex-not-found everywhere), and at the end the "
        "graph must be == a graph rebuilt from its own vertices()/edges(). distinct = distinct request line; non-trivial = the graph has at least "
        "one cycle or a vertex with two predecessors; a history is non-trivial when it has >= 3 operations")
TRUSTED = [
    "specification: path-based definitions of reachability / dominance / frontier / natural loop / reducibility and "
    "the abstract (V, E) graph (FalconModel/Reach.lean, Graph.lean, GraphAlg.lean; proved equal to the executable "
    "models in FalconProofs/Props/C11.lean)",
    "correspondence: harness/src/bin/c11.rs + lean/Drivers/C11.lean + props/c11.py (section-wise diff, verified "
    "checkers for pre/post/topo/cacyc answers)",
    "modelled, not verified: BTreeMap/BTreeSet/FxHashMap behaviour (sorted association lists, order-free sets)",
]
ASSUMPTIONS = [
    "graphs are built through insert_vertex / insert_edge only (what every falcon caller does)",
    "query sections are compared on the vertices reachable from the root; what falcon says about unreachable "
    "vertices is not part of the property (that it panics when there are any is)",
    "usize is 64 bits",
]

_HERE = os.path.dirname(os.path.abspath(__file__))
_EXE = os.path.join(_HERE, "..", "lean", ".lake", "build", "bin", DRIVER)
_CACHE_MAX = 200_000

_proc = None
_ask_cache = {}
_eval_cache = {}


def _stop():
    global _proc
    if _proc is not None:
        try:
            _proc.stdin.close()
            _proc.wait(timeout=5)
        except Exception:
            try:
                _proc.kill()
            except Exception:
                pass
        _proc = None


atexit.register(_stop)


def _driver():
    global _proc
    if _proc is None or _proc.poll() is not None:
        _proc = subprocess.Popen([_EXE], stdin=subprocess.PIPE, stdout=subprocess.PIPE, text=True, bufsize=1)
    return _proc


def ask(line):
    """first column of the Lean driver's answer to one request line (persistent subprocess, cached)"""
    global _proc
    r = _ask_cache.get(line)
    if r is not None:
        return r
    out = ""
    for _ in range(2):
        p = _driver()
        try:
            p.stdin.write(line + "\n")
            p.stdin.flush()
            out = p.stdout.readline()
        except (BrokenPipeError, OSError):
            out = ""
        if out:
            break
        _stop()         # the driver died: one retry with a fresh process
    r = out.rstrip("\n").split("\t")[0] if out else "driver-died"
    if len(_ask_cache) > _CACHE_MAX:
        _ask_cache.clear()
    _ask_cache[line] = r
    return r


def parse_sections(s):
    """`a=x | b=y` -> ordered dict {a: x, b: y} (split at ` | ` and at the first `=`)"""
    out = {}
    for part in s.split(" | "):
        name, _, value = part.partition("=")
        out[name] = value
    return out


def _is_query(req):
    return req.startswith("q ")


def _history_where(c):
    if "INCONSISTENT" in c.impl:
        return "INCONSISTENT"
    impl = c.impl.split(HISTORY_SEP)
    ref = (c.spec if c.impl != c.spec else c.model).split(HISTORY_SEP)
    for i in range(max(len(impl), len(ref))):
        a = impl[i] if i < len(impl) else ""
        b = ref[i] if i < len(ref) else ""
        if a != b:
            if " Q=!" in a:
                return "per-vertex-queries"
            if " X=!" in a:
                return "per-edge-queries"
            if a.startswith("eq-rebuilt"):
                return a
            tok = (a.split(" ", 1)[0] if a else "missing")
            return re.sub(r"\d+", "N", tok)
    return ""


def _evaluate(c):
    if not _is_query(c.req):
        if c.impl != c.spec:
            return ("violation", _history_where(c))
        if c.impl != c.model:
            return ("broken", _history_where(c))
        return ("ok", "")
    M = parse_sections(c.model)
    I = parse_sections(c.impl)
    for name in M:
        if I.get(name) != M[name]:
            return ("broken" if c.spec == "?" else "violation", name)
    ws = c.req.split(" ")
    if len(ws) != 4:
        return ("broken", "request")
    _, V, E, r = ws
    for name in ("pre", "post", "topo", "cacyc"):
        if name in M:
            continue
        value = I.get(name)
        if value is None:
            return ("violation", name)
        if value == "":
            value = "-"
        if name == "topo":
            line = f"chk topo {V} {E} {value}"
        elif name == "cacyc":
            if ";" in value:
                v2, e2 = value.split(";", 1)
                line = f"chk cacyc {V} {E} {r} {v2 or '-'} {e2 or '-'}"
            else:
                line = f"chk cacyc {V} {E} {r} {value} -"
        else:
            line = f"chk {name} {V} {E} {r} {value}"
        if ask(line) != "valid":
            return ("violation", name)
    return ("ok", "")


def evaluate(c):
    key = (c.req, c.impl, c.model, c.spec)
    r = _eval_cache.get(c.req)
    if r is not None and r[0] == key:
        return r[1]
    v = _evaluate(c)
    if len(_eval_cache) > _CACHE_MAX:
        _eval_cache.clear()
    _eval_cache[c.req] = (key, v)
    return v


def classify(c):
    return evaluate(c)[0]


def signature(c):
    return f"C11/{c.cls}/{evaluate(c)[1]}"


def _edges_of(req):
    ws = req.split(" ")
    if len(ws) != 4 or ws[2] in ("-", ""):
        return []
    out = []
    for e in ws[2].split(","):
        h, _, t = e.partition(">")
        out.append((h, t))
    return out


def _has_cycle(edges):
    succ = {}
    for h, t in edges:
        if h == t:
            return True
        succ.setdefault(h, []).append(t)
    state = {}                       # 1 = on the stack, 2 = done
    for start in list(succ):
        if state.get(start):
            continue
        state[start] = 1
        stack = [(start, iter(succ.get(start, ())))]
        while stack:
            v, it = stack[-1]
            for w in it:
                s = state.get(w)
                if s == 1:
                    return True
                if s is None:
                    state[w] = 1
                    stack.append((w, iter(succ.get(w, ()))))
                    break
            else:
                state[v] = 2
                stack.pop()
    return False


def nontrivial(c):
    if not _is_query(c.req):
        return len(c.req.split(HISTORY_SEP)) >= 3
    edges = _edges_of(c.req)
    indeg = {}
    for _, t in edges:
        indeg[t] = indeg.get(t, 0) + 1
        if indeg[t] >= 2:
            return True
    return _has_cycle(edges)
