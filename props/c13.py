"""C13 — constant propagation never reports a value an execution contradicts (DESIGN §6 C13, pattern P3)."""
ID = "C13"
HARNESS_BIN = "c13"
DRIVER = "fvd_c13"
LEAN_TARGETS = ["FalconProofs.Props.C13", "fvd_c13"]
PROPS_MODULE = "FalconProofs.Props.C13"
LEVEL = "translation_validation"
DRIVER_TAKES_ANSWER = True
RULE = ("random IL functions (1-7 blocks, assignments/loads/stores/intrinsics/branches, partition and arbitrary "
        "guards, self loops, entry inside a loop, unreachable blocks incl. unreachable predecessors of live code, "
        "empty blocks) in three modes: init (every name assigned in a prologue: the premise of the completion "
        "clause holds by construction), init-illsorted (as init, one assignment of a value of another width), "
        "free (scalars may be read before they are assigned); 0-2 Constants::eval probes per function. falcon's "
        "real constants() map is judged by the kernel-proved checker constCheck; distinct = distinct request line; "
        "non-trivial = the analysis completed and reports at least one constant in a block that is a join or lies "
        "on a cycle")
TRUSTED = [
    "specification: the function-level small-step relation FStep/FRun of FalconModel/Exec.lean (C07's model of State::execute)",
    "correspondence: harness/src/bin/c13.rs (prints falcon's map; Top vs. no entry is read from the Debug rendering) "
    "+ lean/Drivers/C13.lean (parser, must-assigned certificate, search for a contradicting run) + check",
    "runs end at Operation::Branch and at intrinsics (the executor leaves the function / has no semantics for them)",
]
ASSUMPTIONS = [
    "one width per scalar name and no SSA versions (the executor's state is keyed by name); other functions are answered '?'",
    "a function without an entry block is outside the domain (there is no execution)",
]


def _kind(c):
    m = c.model
    if m.startswith("incomplete"):
        return "incomplete-" + m.split()[1].replace(":", "-")
    if " probe-contradicted" in m:
        return "probe-contradicted"
    if " contradicted" in m:
        return "contradicted"
    if m.startswith("invalid"):
        return "invalid"
    if "probe-mismatch" in m:
        return "probe-mismatch"
    return "other"


def classify(c):
    m = c.model
    if m == "?":
        return "ok"
    if m.startswith("incomplete"):
        # the completion clause: only for functions in which no scalar can be read before it is assigned
        return "violation" if "premise=yes" in c.spec else "ok"
    if " contradicted " in m or " probe-contradicted " in m:
        return "violation"
    if m == "valid":
        return "ok"
    return "broken"      # invalid without a contradicting run, probe mismatch, bad-answer, ...


def signature(c):
    return f"{ID}/{c.cls}/{_kind(c)}"


def nontrivial(c):
    return "nt=1" in c.spec
