"""C09 — the fixed-point engine returns the least solution of the data-flow equations (DESIGN §6 C09)."""
ID = "C09"
HARNESS_BIN = "c09"
DRIVER_TAKES_ANSWER = True   # the driver re-checks falcon's own `ok` answers against the equations (falcon-unsound)
DRIVER = "fvd_c09"
LEAN_TARGETS = ["FalconProofs.Props.C09", "fvd_c09"]
PROPS_MODULE = "FalconProofs.Props.C09"
LEVEL = "proof"
RULE = ("random functions built through falcon's API (1-8 blocks, loops, self-loops, empty blocks, unreachable blocks, "
        "entry block with predecessors, any block as exit) x a table-driven FixedPointAnalysis over bit masks of 2-4 "
        "bits: per-location transfer tables (entry for None + one per state) from four families - monotone gen/kill "
        "with union/subset order, monotone numeric with max/numeric order, arbitrary (usually non-monotone, with Err "
        "entries), malformed (join = intersection/xor/constant/Err, cmp never comparable / always Greater) - forward "
        "and backward, force on/off, max_analysis_steps in {0,1,5,30,2000,250000}; every 16th function has duplicate "
        "instruction indices (model only). distinct = distinct request line; non-trivial = the CFG has a cycle "
        "reachable from the entry and some location was recomputed at least twice (flags c and r of the class)")
TRUSTED = [
    "specification: Kleene iteration over the reachable locations + equation re-check (Drivers/C09.lean, "
    "FalconModel/FixedPoint.lean kleene/eqnB)",
    "correspondence: harness/src/bin/c09.rs + lean/Drivers/C09.lean + check (three-way diff); FIL printer/reader",
    "modelled, not verified: HashMap as association list, VecDeque as list; the location relation is C18's model",
]
ASSUMPTIONS = [
    "LawfulCmp: partial_cmp answers Equal only for equal states (fp_ok_solution), and is the order of the lattice "
    "(fp_least, fp_terminates); JoinLub, Mono (None below every state), finite height as named in the theorems",
    "the backward solver has no step budget in the code; the model runs it with 10^6 units of fuel",
]


def _canon(t):
    """the description string carried by FixedPointOrdering ("less" / "no relation") is free text the property says nothing
    about: an error of that kind at that location is what is compared (a rewording must not raise an alarm)"""
    return t.replace("err:ordering:less@", "err:ordering@").replace("err:ordering:norel@", "err:ordering@")


def classify(c):
    impl, model, s = _canon(c.impl), _canon(c.model), _canon(c.spec)
    if s.startswith("lfp"):
        # small step budget: the least solution or FixedPointMaxSteps
        if impl != "err:maxsteps" and impl != "ok" + s[3:]:
            return "violation"
    elif s == "unsound":
        return "violation" if impl == model else "broken"
    elif s == "falcon-unsound":
        return "violation"      # falcon returned Ok with a map that does not solve the equations

    elif s in ("-", "?", "sound"):
        pass
    elif impl != s:
        return "violation"
    if impl != model:
        return "broken"
    return "ok"


def nontrivial(c):
    flags = c.cls.rsplit("/", 1)[-1]
    return "c" in flags and "r" in flags
