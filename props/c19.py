"""C19 — ELF loading maps exactly the image and rebases uniformly (DESIGN §6 C19)."""
import re

ID = "C19"
HARNESS_BIN = "c19"
DRIVER = "fvd_c19"
LEAN_TARGETS = ["FalconProofs.Props.C19", "fvd_c19"]
PROPS_MODULE = "FalconProofs.Props.C19"
LEVEL = "translation_validation"
HISTORY_SEP = " ; "
RULE = ("each case is ONE line: a structured description of 1..4 ELF objects (class 32/64, LSB/MSB, machine, type, entry; "
        "program headers with the file bytes they cover; .symtab and .dynsym entries; .dynamic entries; DT_NEEDED names; "
        "REL/RELA/JMPREL tables) followed by queries. The harness's ELF writer turns the description into real files under "
        "/verif/work/c19 (ELF32/64, little/big endian, EM_386/X86_64/MIPS/PPC/AARCH64; 1..4 PT_LOAD segments, filesz <= memsz, "
        "adjacent / gapped / page-aligned, any flag combination incl. OS bits; p_paddr drawn independently of p_vaddr (equal in "
        "about 1/3 of the headers, otherwise a page-aligned address far from every virtual range), p_align varying (0, 1, 4.., "
        "0x1000, 0x10000), p_offset congruent to p_vaddr mod page or not; section headers covering only a part of their segment "
        "(sh_addr != p_vaddr); non-loadable headers interleaved that must not be mapped: PT_NOTE and PT_INTERP with file bytes "
        "and virtual addresses of their own, PT_GNU_STACK with an address and a size, PT_TLS with memsz > filesz, RELRO, SHLIB, "
        "EH_FRAME, PT_DYNAMIC; symbols of every type and binding, undefined / ABS / COMMON, duplicates, at the entry; optional dynamic segment with "
        ".hash/.dynsym/.dynstr/.rel(a).dyn/.rel(a).plt/.dynamic/.got), checks that goblin's view of the file equals the "
        "description, loads it with falcon::loader::Elf (from_file / from_file_with_base_address / new) at bases 0, 0x1000, "
        "0x40000000 and 2^40 (64-bit) and prints memory() as maximal runs (address, length, permissions, bytes or FNV hash), "
        "architecture() name/endianness, function_entries(), symbols(), program_entry(); `link` cases write a program and 1..3 "
        "shared objects (x86 and MIPS o32 relocations, DT_NEEDED graphs, duplicate exports, references to libraries loaded later) "
        "and print the same for falcon::loader::ElfLinker; `hist` cases continue on the SAME linker with 1..4 further calls of the "
        "public load_elf (shared objects with and without dependencies of their own, a second program, names that are already "
        "loaded - at the same base or another one -, a file that does not exist) and print memory, entries and symbols after "
        "every call; plus out-of-domain classes (inconsistent header, unsupported machine, "
        "overlapping segments, bases that push addresses to 2^64). distinct = distinct request line; non-trivial = a load case "
        "with >= 2 PT_LOAD segments, one of them with memsz > filesz, and a defined function symbol away from the entry, or a "
        "link case with >= 2 objects")
TRUSTED = [
    "specification = model: FalconModel/Elf.lean (image, arch, entries, symbols, programEntry, link), ~450 lines",
    "the goblin crate's parser (external call): the harness compares goblin's view of every generated file with the "
    "description the Lean side receives, and `c19 selftest` compares the writer with `readelf -a -W`",
    "correspondence: harness/src/bin/c19.rs (ELF writer, canonical printer) + lean/Drivers/C19.lean + check",
]
ASSUMPTIONS = [
    "well-formed = header names one of the seven supported (machine, class, encoding) combinations, every PT_LOAD has "
    "filesz <= memsz and its file range inside the file, PT_LOAD memory ranges pairwise disjoint, every reported address "
    "+ base < 2^64; outside this the specification column is `?` and only falcon == model is compared",
    "names of function entries are compared with the model only (the property does not fix them)",
    "linked objects: memory ranges of different objects disjoint, every relocation site inside one PT_LOAD segment",
    "falcon built with overflow-checks=on (release profile of the harness)",
]
SHARDS = {"quick": 1, "thorough": 8}

_FN = re.compile(r" fn=\S+")
_ORDER = ["arch", "mem", "fe", "fn", "syms", "pe"]


def _items(s):
    return s.split(HISTORY_SEP) if s is not None else []


def _proj(ans):
    """falcon's answer at the level of the specification: names of function entries dropped"""
    return _FN.sub(" fn=*", ans)


def _first_diff(c):
    """(item index, kind, component) of the first disagreement"""
    req, impl, model, spec = _items(c.req), _items(c.impl), _items(c.model), _items(c.spec)
    if len(impl) != len(req):
        return (0, "broken", "shape")
    broken = None
    for i in range(len(req)):
        s = spec[i] if i < len(spec) else "-"
        m = model[i] if i < len(model) else None
        if s not in ("-", "?") and _proj(impl[i]) != s:
            return (i, "violation", _component(_proj(impl[i]), s))
        if m is not None and impl[i] != m and broken is None:
            broken = (i, "broken", _component(impl[i], m))
    return broken


def _component(a, b):
    pa, pb = a.split(" "), b.split(" ")
    if len(pa) != len(pb) or len(pa) < 2:
        ka = a.split(":")[0] if a.startswith("bad-request") else (a if len(pa) < 2 else "obs")
        kb = b if len(pb) < 2 else "obs"
        return f"{ka}-vs-{kb}"
    diff = [x.split("=")[0] for x, y in zip(pa, pb) if x != y]
    for k in _ORDER:
        if k in diff:
            return k
    return "?"


def classify(c):
    d = _first_diff(c)
    return "ok" if d is None else d[1]


def signature(c):
    d = _first_diff(c)
    if d is None:
        return f"{ID}/{c.cls}"
    parts = c.cls.split("/")
    if parts[0] == "link":
        head = "/".join(parts[:3])        # link/<machine>/<resolved|later-lib>, link/unsupported
    elif parts[0] == "hist":
        # histories of load_elf calls: which call (0 = link, 1.. = later load_elf) first disagrees
        calls = [i for i, it in enumerate(_items(c.req)) if it == "link" or it.startswith("loadelf ")]
        k = calls.index(d[0]) if d[0] in calls else 0
        head = "/".join(parts[:2]) + ("/link" if k == 0 else "/later-call")
    elif parts[0] == "odd":
        head = c.cls
    else:
        head = "load"
    return f"{ID}/{head}/{d[2]}"


def nontrivial(c):
    if c.cls.startswith("link/") or c.cls.startswith("hist/"):
        return c.req.count("obj ") >= 2
    if not c.cls.startswith("load/"):
        return False
    entry, loads, bss, func = None, 0, False, False
    for it in _items(c.req):
        t = it.split(" ")
        if t[0] == "obj":
            entry = t[6]
        elif t[0] == "ph" and t[1] == "1":
            loads += 1
            bss = bss or int(t[7]) > int(t[6])        # ph type flags off vaddr paddr filesz memsz align bytes
        elif t[0] in ("sym", "dsym"):
            if int(t[4]) % 16 == 2 and t[2] != "0" and t[6] != "0" and t[2] != entry:
                func = True
    return loads >= 2 and bss and func


def pre_build(check, tier, seed):
    """sanity check of the ELF writer: `readelf -a -W` must read back what the descriptions say (class, encoding,
    machine, entry, every program header, both symbol tables, DT_NEEDED, every relocation)"""
    import os
    import subprocess
    import sys
    exe = os.path.join(check.BIN, HARNESS_BIN)
    p = subprocess.run([exe, "selftest", "150"], capture_output=True, text=True)
    if p.returncode != 0:
        sys.stderr.write(p.stdout[-2000:] + p.stderr[-4000:])
        sys.stderr.write("FATAL: the ELF writer of the C19 harness disagrees with readelf\n")
        sys.exit(2)
