"""C02 — MIPS and PowerPC lifters agree with the architecture manuals (DESIGN §6 C02, LIFTER_BRIEF.md)."""
import os
import sys
sys.path.insert(0, os.path.dirname(os.path.abspath(__file__)))
import types  # noqa: E402
import smt_tie  # noqa: E402
ID = "C02"
HARNESS_BIN = "c02"
DRIVER = "fvd_c02"
DRIVER_TAKES_ANSWER = True
LEAN_TARGETS = ["FalconProofs.Props.C02", "fvd_c02"]
PROPS_MODULE = "FalconProofs.Props.C02"
LEVEL = "proof"
GEN_TIMEOUT = 3000
DRIVER_TIMEOUT = 3000
RULE = ("raw instruction words built from encoding tables written from the manuals (every mnemonic the MIPS and PPC "
        "dispatchers accept), for mips, mipsel and ppc: all 32 values of each register field in turn, boundary immediates "
        "{0,1,2,4,0x1f,0x7fff,0x8000,0xfffc,0xffff}, all 32 shift amounts, random fields with forced aliasing/$zero/r0; MIPS "
        "branches always with a delay slot of 10 kinds (nop, addiu clobbering the branch's own rs / rt, reading or writing "
        "$ra / the jalr link register, ALU, load, store, trapping add); plus a sweep of every (opcode, function) pair with "
        "random remaining bits. States: every architectural register defined at 32 bits (boundary + random values), "
        "memory operands steered into 40-byte windows (aligned, and on purpose misaligned), INT_MIN/-1 and zero divisors. "
        "Aliasing/boundary grid (every non-branch form with a destination and a source): destination = source in all patterns "
        "(rd=rs, rd=rt, rs=rt, all three equal; registers 0, 2, 4, 31) x source values {0,1,0x7fffffff,0x80000000,0xffffffff}^2 x "
        "every value of the implicit inputs (PPC: CA in {0,1} for every form, Rc in {0,1}; branches: the tested CR bit x CTR in "
        "{0,1,2,0x80000000,0xffffffff} x LR; MIPS: six HI/LO pairs for madd/maddu/msub/msubu/mfhi/mflo). CA, CR bits, LR, CTR, "
        "HI, LO are always part of the compared post-state. "
        "Each case: falcon lifts the bytes and falcon's executor runs the IL; the Lean IL semantics runs the dumped IL; the "
        "Lean ISA interpreter runs the raw word(s); the dumped IL is compared syntactically with the Lean mirror of the "
        "lifter. distinct = distinct request line; non-trivial = the lifter accepted the word and the post-state differs "
        "from the pre-state in something other than the pc")
TRUSTED = [
    "specification: lean/FalconModel/Isa/Mips.lean and Isa/Ppc.lean, TRANSCRIBED FROM MEMORY of the MIPS32 (vol. II) and "
    "Power ISA / PowerPC UISA manuals (the manuals are not in the sandbox; no second MIPS/PPC implementation validates them)",
    "IL semantics: lean/FalconModel/Exec.lean + Lift.lean (properties C04, C07 tie it to falcon's evaluator/executor)",
    "correspondence: harness/src/bin/c02.rs + harness/src/lift.rs + lean/Drivers/C02.lean (three-way run + syntactic IL comparison)",
    "one lemma (FalconProofs/C02/PpcCarry.lean addc_eq: the manual's 33-bit carry against the lifter's unsigned comparison) is "
    "discharged by bv_decide; its _native.bv_decide axioms appear under ppc_lift_correct; the 64 closed byte identities of swl/swr "
    "(UnalignedStore.lean *_byte_*) and ea_split also use bv_decide and appear under lift_correct_swl_swr; all other proofs use only propext, "
    "Classical.choice, Quot.sound",
    "capstone's decoding is NOT trusted: the interpreters decode the raw word; a capstone/lifter operand mix-up shows as a disagreement",
    smt_tie.TRUSTED,
]
ASSUMPTIONS = [
    "the scalar `$zero` is not part of the MIPS register file (GPR[0] is the constant 0); LLbit is set when `sc` executes",
    "PPC: CA is the scalar `carry`; XER[SO] has no scalar in falcon, the state's `so` stands for it",
    "memory exceptions other than MIPS address errors (TLB, bus) are outside the model: an access to an unmapped byte is "
    "outside the compared domain",
]


def _split(post):
    """'next=H ; regs ; mem' -> (H, {reg: val}, mem)"""
    f = post.split(" ; ")
    if len(f) != 3 or not f[0].startswith("next="):
        return None
    regs = {}
    for kv in f[1].split(","):
        if "=" in kv:
            k, v = kv.split("=", 1)
            regs[k] = v
    return f[0][5:], regs, f[2].strip()


def _falcon_post(c):
    if " | " not in c.impl:
        return None
    return c.impl.rsplit(" | ", 1)[1]


def _model(c):
    m = c.model
    mir = "-"
    if " | mirror=" in m:
        m, mir = m.rsplit(" | mirror=", 1)
    return m, mir


def _diff(c):
    """None if falcon's executed post-state agrees with the specification; else the name of what differs"""
    fp = _falcon_post(c)
    sp = _split(c.spec)
    if sp is None:
        return "spec-unreadable"
    sh, sregs, smem = sp
    if fp is None:
        return None            # the lifter rejected the word
    f = _split(fp)
    if f is None:
        return "falcon-unreadable"
    fh, fregs, fmem = f
    if sh == "fault":
        return None            # the state does not describe the bytes the instruction touches
    if sh == "reserved":
        return "accepted-reserved"   # the lifter lifts a word the manual does not define (or the decoder is incomplete)
    if sh == "unpredictable":
        return None            # the manual allows anything
    if sh.startswith("trap:") or sh == "env":
        if fh != "err:intrinsic":
            return "no-" + sh.replace(":", "-")
    names = []
    if not (sh.startswith("trap:") or sh == "env") and fh != sh:
        if fh == "err:intrinsic":
            return "spurious-trap"
        names.append("next")
    # ALL differing components, in a fixed order: a listed finding on one component must not hide a second defect on the
    # same instruction, and the name must not depend on the iteration order of a set
    for k in sorted(set(sregs) | set(fregs)):
        sv, fv = sregs.get(k), fregs.get(k)
        if sv == "*":
            continue
        if sv != fv:
            if k in ("$hi", "$lo", "lr", "ctr", "carry"):
                n = k.strip("$")
            elif k.startswith("cr"):
                n = "cr-" + k.split("-")[1]
            else:
                n = "gpr"
            if n not in names:
                names.append(n)
    if smem != fmem:
        names.append("mem")
    return "+".join(names) if names else None


def classify(c):
    if c.model.startswith("unparsable") or c.model.startswith("bad-request") or c.impl == "bad-request":
        return "broken"
    d = _diff(c)
    if d == "accepted-reserved":
        # the interpreter's decoder is strict; words the lifter accepts although the manual reserves them are
        # reviewed by hand and listed here (anything else means the decoder is incomplete: broken correspondence)
        return "ok" if c.cls.split("/")[1] in REVIEWED_LAX else "broken"
    if d is not None:
        return "violation"
    m, mir = _model(c)
    fp = _falcon_post(c)
    if fp is None:
        # rejected by the lifter: the mirror must reject too
        return "ok" if mir in ("none", "-") else "broken"
    if m != fp:
        return "broken"
    if mir == "diff":
        return "broken"
    return "ok"


def _only_mirror(c):
    """the case is 'broken' for no other reason than `mirror=diff`"""
    if c.model.startswith("unparsable") or c.model.startswith("bad-request") or c.impl == "bad-request":
        return False
    if _diff(c) is not None:
        return False
    m, mir = _model(c)
    fp = _falcon_post(c)
    return fp is not None and m == fp and mir == "diff"


SMT = smt_tie.new_counters()


def resolve_broken(check, cases):
    """falcon's IL differs syntactically from the mirror's: z3 decides whether it differs semantically (props/smt_tie.py;
    validation support for the mirror tie, not a theorem)"""
    return smt_tie.resolve(check, types.SimpleNamespace(**globals()), cases, _only_mirror, SMT)


def signature(c):
    parts = c.cls.split("/")
    arch, mn = parts[0], parts[1] if len(parts) > 1 else "?"
    if arch == "mipsel":
        arch = "mips*"          # one signature for both byte orders unless the defect is byte-order specific
    elif arch == "mips":
        arch = "mips*"
    d = _diff(c)
    if d is not None:
        return f"C02/{arch}/{mn}/{d}"
    m, mir = _model(c)
    fp = _falcon_post(c)
    if fp is None:
        return f"C02/{arch}/{mn}/mirror-accepts-rejected"
    if m != fp:
        return f"C02/{arch}/{mn}/model-vs-executor"
    return f"C02/{arch}/{mn}/mirror-{mir}"


def nontrivial(c):
    fp = _falcon_post(c)
    if fp is None:
        return False
    f = _split(fp)
    return f is not None and (f[1] != {} or "err" in f[0] or c.cls.split("/")[-1] == "pair" or "/s" in c.cls)


def extra_coverage():
    return {
        "mirror_tie_smt": SMT,
        "proved_classes_A": PROVED_A,
        "unproved_classes": UNPROVED,
        "assumptions": ASSUMPTIONS,
    }


# capstone decodes SYNC (SPECIAL, funct 0x0f) without checking that bits 25..11 are zero, as the manual requires;
# falcon lifts such a reserved word as a nop
REVIEWED_LAX = {"sync"}

# filled in to match lean/FalconProofs/Props/C02.lean
PROVED_A = [
    "mips/mipsel: addu subu and or xor nor (incl. move/negu) ; sll srl sra nop ; sllv srlv srav ; addiu andi ori xori ; lui ; "
    "slt sltu slti sltiu ; movn movz ; mfhi mflo mthi mtlo ; mult multu mul ; lb lbu lh lhu lw ; sb sh sw ; add addi sub (no-overflow path; "
    "the overflow path: lift_overflow_stops) ; lwl lwr in both byte orders -- lift_correct_single: "
    "all fields, all states",
    "mips/mipsel: swl swr in both byte orders -- lift_correct_swl_swr (premise: the aligned word is mapped)",
    "mips/mipsel: beq bne bgez bgtz blez bltz b j with any of the above in the delay slot -- lift_correct_pair",
    "ppc: addi/li addis/lis add subf addze (Rc) mr nop rlwinm/slwi (Rc) srawi (Rc) cmpwi cmplwi lbz lwz lwzu stw stwu stmw "
    "mflr mtlr mtctr b bl blr bctr -- ppc_lift_correct: all fields, all states (CR SO bits excepted: finding cr-so)",
]
UNPROVED = [
    "mips/mipsel (differential only): div divu (zero-divisor finding), madd maddu msub msubu, "
    "clz clo (loop graphs), ll sc pref sync, teq syscall break rdhwr, jr jal jalr bal bgezal bltzal (findings)",
    "ppc (differential only): bdnzl (finding: nop), conditional bclr forms",
]
