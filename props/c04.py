"""C04 — IL expression evaluation is exact fixed-width bit-vector arithmetic (DESIGN §6 C04)."""
ID = "C04"
HARNESS_BIN = "c04"
DRIVER = "fvd_c04"
LEAN_TARGETS = ["FalconProofs.Props.C04", "fvd_c04"]
PROPS_MODULE = "FalconProofs.Props.C04"
LEVEL = "proof"
RULE = ("requests bin/un/eval/ctor/sra/rotl/subst from a boundary grid (15 widths x boundary values x all 17 operators, "
        "shift amounts n-1,n,n+1,2^32,2^63,2^64-1,2^64,..), random widths 1..140 and values, random expression trees "
        "to depth 6 (well-sorted and malformed), constructor and substitution requests; distinct = distinct request "
        "line; non-trivial = not a width-mismatch request and not (both operands zero)")
TRUSTED = [
    "specification: Lean core BitVec operations (FalconModel/ConstSpec.lean)",
    "correspondence: harness/src/bin/c04.rs + lean/Drivers/C04.lean + check (three-way diff)",
    "modelled, not verified: num-bigint arithmetic (BigUint/BigInt as Nat/Int), allocation behaviour",
]
ASSUMPTIONS = [
    "usize is 64 bits; falcon built with overflow-checks=on (release profile of the harness)",
    "'no unbounded allocation' is observed only (harness runs under RLIMIT_AS), not proved",
]


def nontrivial(c):
    if "mismatch" in c.cls:
        return False
    if c.cls.startswith("bin/") and c.req.count(" 0x0:") == 2:
        return False
    return True
