"""C01 — the x86/amd64 lifter agrees with the processor on every instruction and state (DESIGN §6 C01, LIFTER_BRIEF)."""
import os
import re
import sys
sys.path.insert(0, os.path.dirname(os.path.abspath(__file__)))
import types  # noqa: E402
import smt_tie  # noqa: E402
ID = "C01"
HARNESS_BIN = "c01"
DRIVER = "fvd_c01"
DRIVER_TAKES_ANSWER = True
LEAN_TARGETS = ["FalconProofs.Props.C01", "fvd_c01"]
PROPS_MODULE = "FalconProofs.Props.C01"
LEVEL = "proof"
GEN_TIMEOUT = 3000
RULE = ("one instruction x one machine state per case. Encodings: hand-written opcode-map rows for every mnemonic the x86 "
        "dispatcher accepts (one-byte map ALU/shift/mov/stack/string/control rows, 0f map, SSE subset) x operand-size/REX.W/"
        "REX.RXB/bare-REX/67/segment/lock/rep/repne prefix variants x 14 ModRM/SIB shapes (register-direct, aliasing reg=rm, "
        "[base], disp8, disp32, rip-relative/absolute, SIB with index/scale, no-base, rsp/r12 base, rbp/r13 base, base=index), "
        "in both modes (x86, amd64). States: every general register, CF PF ZF SF OF DF, the xmm file when an xmm register is "
        "named, segment bases when an override is present; boundary+random values (0, +-1, sign/carry edges of 8/16/32/64 bits), "
        "shift counts around 0/1/width, small rep counts, dividends whose quotient fits (2/3 of div/idiv cases), accumulator = "
        "destination for half of the cmpxchg cases; every register a memory operand uses is steered so that the architectural "
        "effective address lands in a mapped window (unaligned and page-edge addresses included), windows also around rsp, "
        "rbp (leave), rsi/rdi (string instructions). Compared per case: falcon's executor on the lifted IL, the Lean IL semantics "
        "on the dumped IL, the Lean x86 specification on capstone's operand description, and (amd64) the host CPU single-stepping "
        "the same bytes from the same state. distinct = distinct request; non-trivial = the lifter returned IL and the "
        "post-state differs from the pre-state in a register, flag, memory byte or non-sequential next address")
TRUSTED = [
    "the Lean x86 specification FalconModel/Isa/X86.lean (validated against the host CPU on every amd64 case; for 32-bit mode it is the only oracle)",
    "capstone's decoding (shared by the lifter and the specification; the silicon oracle executes the raw bytes and does not share it)",
    "the native single-stepper harness/src/bin/c01/native.rs (signal-frame context switch + RFLAGS.TF) and the Linux kernel's sigreturn",
    "correspondence: harness/src/bin/c01.rs + harness/src/lift.rs (FIL printer, exec_btr) + lean/Drivers/C01.lean",
    "IL semantics = FalconModel/Exec.lean (C04/C07 relate it to falcon's evaluator and executor)",
    smt_tie.TRUSTED,
]
ASSUMPTIONS = [
    "flat segments: cs/ds/es/ss bases are 0 in both modes; fs/gs bases are arbitrary (no silicon comparison for fs/gs: the host's fs base is the harness's TLS)",
    "PF and AF are outside the property; PF is part of the initial state only because jp/setp/cmovp read the scalar PF",
    "a fault of the host CPU (#DE #UD #GP #PF #AC) makes the outcome 'trap': nothing is compared on such a case",
    "32-bit mode cannot be entered from a 64-bit process: no silicon comparison there",
]

FLAG_NAMES = ("CF", "ZF", "SF", "OF", "DF")


def parse_post(line):
    """`next=… ; r=v,… ; a:hex,…` -> (next, {reg: value}, {addr: hex}) or None"""
    parts = [p.strip() for p in line.split(";")]
    if not parts or not parts[0].startswith("next="):
        return None
    nxt = parts[0][5:]
    regs, mem = {}, {}
    if len(parts) > 1:
        for kv in parts[1].split(","):
            if "=" in kv:
                k, v = kv.split("=", 1)
                regs[k] = v
    if len(parts) > 2:
        for kv in parts[2].split(","):
            if ":" in kv:
                k, v = kv.split(":", 1)
                mem[k] = v
    return nxt, regs, mem


def diff(a, b):
    """names of the fields on which two post lines disagree; `?` on either side matches anything"""
    pa, pb = parse_post(a), parse_post(b)
    if pa is None or pb is None:
        return ["unparsable"]
    out = []
    if pa[0] != pb[0] and "?" not in (pa[0], pb[0]):
        out.append("next")
    for k, v in pa[1].items():
        w = pb[1].get(k)
        if w is None or v == "?" or w == "?":
            continue
        if v != w:
            out.append(k)
    for k, v in pa[2].items():
        w = pb[2].get(k)
        if w is None or v == "?" or w == "?":
            continue
        if v != w:
            out.append("mem")
    return out


def what(fields):
    """coarse name of the first differing field: flags by name, any general/xmm register as `reg`"""
    order = ["next"] + list(FLAG_NAMES) + ["mem"]
    for o in order:
        if o in fields:
            return o
    return "reg" if fields else "-"


def split_impl(impl):
    p = impl.split(" | ")
    while len(p) < 4:
        p.append("-")
    return p[0], p[1], p[2], p[3]


def verdicts(c):
    """list of (kind, what) disagreements of one case"""
    btr, fpost, desc, npost = split_impl(c.impl)
    out = []
    if btr.startswith("err:sort"):
        return [("violation", "sort-error")]
    if btr.startswith("err:") or btr.startswith("panic") or btr == "bad-request":
        return []            # rejected by the lifter (a lifter panic is C05's subject)
    fp = parse_post(fpost)
    native_ok = npost.startswith("next=0x")
    spec = c.spec if c.spec not in (None, "-", "?", "") else None
    spec_ok = spec is not None and spec.startswith("next=0x")
    # falcon against silicon
    # the state's windows are the only mapped memory for falcon and for the specification; the stepper's scratch region is
    # mapped around them.  When both falcon and the specification fault on an access outside the windows the case says nothing.
    outside = fp is not None and fp[0] == "err:unmapped" and c.spec == "next=trap"
    if native_ok and not outside:
        if fp is None or not fp[0].startswith("0x"):
            out.append(("violation", "silicon/" + (fp[0] if fp else "unparsable")))
        else:
            d = diff(fpost, npost)
            if d and spec_ok:
                # registers the specification reports as architecturally undefined (bsf/bsr of zero, 16-bit bswap, ...)
                ps = parse_post(spec)
                undef = {k for k, v in ps[1].items() if v == "?"}
                d = [x for x in d if x not in undef]
            if d:
                out.append(("violation", "silicon/" + what(d)))
    # the specification against silicon: a disagreement is a defect of the specification, not of falcon
    # (a specification trap where silicon ran on is not compared: the specification's memory consists of the
    #  state's windows only, the scratch region of the stepper is mapped around them)
    if native_ok and spec_ok:
        d = diff(spec, npost)
        if d:
            out.append(("broken", "spec-vs-silicon/" + what(d)))
    # falcon against the specification
    if spec_ok:
        if fp is None or not fp[0].startswith("0x"):
            out.append(("violation", "spec/" + (fp[0] if fp else "unparsable")))
        else:
            d = diff(fpost, spec)
            if d:
                out.append(("violation", "spec/" + what(d)))
    # falcon's executor against the Lean IL semantics on the dumped IL
    if c.model not in (None, "-", "") and fp is not None:
        d = diff(fpost, c.model)
        if d:
            out.append(("broken", "executor-vs-il-model/" + what(d)))
    # falcon's IL against the Lean mirror of the lifter (the classes with a universal theorem): syntactic comparison by the
    # driver; a difference may still be settled semantically by resolve_broken below
    if smt_tie.has_mirror_diff(c):
        out.append(("broken", "mirror-differs"))
    return out


def classify(c):
    v = verdicts(c)
    if any(k == "violation" for k, _ in v):
        return "violation"
    if v:
        return "broken"
    return "ok"


def signature(c):
    v = verdicts(c)
    kind = "violation" if any(k == "violation" for k, _ in v) else "broken"
    w = next((w for k, w in v if k == kind), "-")
    # C01/<mode>/<mnemonic>/<form>/<what differs>; for a broken correspondence the pair of oracles is kept
    if kind == "violation" and "/" in w:
        w = w.split("/", 1)[1]
    return f"C01/{c.cls}/{w}"


def nontrivial(c):
    btr, fpost, desc, npost = split_impl(c.impl)
    if not btr.startswith("(btr"):
        return False
    m = re.search(r" \| (l ;.*)$", c.req)
    fp = parse_post(fpost)
    if not m or fp is None:
        return False
    pre = parse_post("next=- ; " + m.group(1).split(";", 1)[1])
    if pre is None:
        return True
    if any(pre[1].get(k) not in (None, v) for k, v in fp[1].items()):
        return True
    if any(pre[2].get(k) not in (None, v) for k, v in fp[2].items()):
        return True
    a = re.match(r"ins \S+ (\S+) (0x[0-9a-f]+)", c.req)
    if a and fp[0].startswith("0x"):
        return int(fp[0], 16) != int(a.group(2), 16) + len(a.group(1)) // 2
    return False


PROVED_HELPERS = ["set_zf", "set_sf", "set_of", "set_cf", "adc two-step carry", "sbb two-step borrow", "inc/dec/neg/cmp flag forms",
                  "shl/shr/sar CF and result for every masked count", "cc_condition (16 codes)",
                  "X86Register::get/set (64/32/16/8-bit, high byte; bit-vector level both modes' algebra, IL level in 64-bit mode)"]
MIRRORED_CLASS = ("instruction-level theorems lift_correct_rr / lift_correct_ri / lift_correct_un (64-bit mode, all five register shapes incl. "
                  "ah/ch/dh/bh, all registers, all states): {mov add sub cmp and or xor} x (reg,reg | reg,imm of the register's width), "
                  "{inc dec neg not} x reg; falcon's dumped IL == the mirror X86Lift.liftIns syntactically on every generated case "
                  "of these classes in BOTH modes (the 32-bit-mode mirror is compared but not covered by the theorems)")
# every other (mnemonic, form) is covered by the four-way differential only (option (C) of LIFTER_BRIEF)
UNPROVED_MNEMONICS = sorted("""adc add and bsf bsr bswap bt btc btr bts call cbw cdq cdqe clc cld cmc cmovcc cmp cmpsb cmpxchg cwd cwde dec div idiv imul
inc jcc jcxz jecxz jmp lea leave lodsb lodsd loop loope loopne mov movabs movaps movapd movd movdqa movdqu movhpd movlpd movnti movq movsb movsw
movsd movsq movsx movsxd movups movzx mul neg nop not or paddq pause pcmpeqb pcmpeqd pminub pmovmskb pop por prefetch pshufd pslldq psrldq
psubb psubq punpcklbw punpcklwd push pxor ret rol ror sahf sar sbb scasb scasw setcc shl shld shr shrd stc std stos sub test xadd xchg xor""".split())
NOT_COMPARED = ["cli", "sti", "hlt", "int", "syscall", "sysenter", "ud2", "wait (x87 state)"]


SMT = smt_tie.new_counters()


def resolve_broken(check, cases):
    """falcon's IL differs syntactically from the mirror's: z3 decides whether it differs semantically (props/smt_tie.py;
    validation support for the mirror tie, not a theorem)"""
    return smt_tie.resolve(check, types.SimpleNamespace(**globals()), cases,
                           lambda c: verdicts(c) == [("broken", "mirror-differs")], SMT)


def extra_coverage():
    return {
        "mirror_tie_smt": SMT,
        "oracles": ["falcon executor on lifted IL", "Lean IL semantics on dumped IL", "Lean x86 specification (both modes)", "host CPU single-step (amd64)"],
        "proved_helpers": PROVED_HELPERS,
        "mirrored_class_syntactic_check": MIRRORED_CLASS,
        "proved_instruction_classes": ["amd64 mov/add/sub/cmp/and/or/xor r,r", "amd64 mov/add/sub/cmp/and/or/xor r,imm(width of r)",
                                       "amd64 inc/dec/neg/not r",
                                       "amd64 mov/add/sub/cmp/and/or/xor r,[mem]", "amd64 mov/add/sub/cmp/and/or/xor [mem],r",
                                       "amd64 mov/add/sub/cmp/and/or/xor [mem],imm(width of the operand)", "amd64 lea r64/r32/r16,[mem]", "amd64 setcc r8 (14 condition codes; p/np read PF)", "amd64 cmovcc r,r 64/32/16-bit (14 codes; not-taken 32-bit zero-extends)", "amd64 jcc rel (14 codes, next address both ways)", "amd64 test r,r / r,imm", "amd64 xchg r,r", "amd64 movzx/movsx/movsxd r,r", "amd64 push r64 (mapped non-wrapping stack slot; push rsp stores the old rsp)", "amd64 pop r64 (mapped non-wrapping stack slot; pop rsp included)", "amd64 ret (no immediate; next address = the loaded return address)", "amd64 call rel32 (return address stored, next address = the target)", "amd64 ret imm16 (immediate ZERO-extended: rsp + 8 + imm16)", "amd64 leave", "amd64 push imm with the 64-bit operand size (the decoder's sign-extended immediate)", "amd64 call r64 (target read before the push: call rsp goes to the old rsp)",
                                       "memory operands: base/index any 64-bit register or rip, any scale/disp, no segment override, 64-bit address size, mapped non-wrapping access"],
        "unproved_classes": "memory operands with a segment override or a 67 prefix, cmovcc with a memory source, adc/sbb, test/xchg/movzx/movsx with a memory operand, push/pop of 16-bit or memory operands, call/jmp through memory, shifts/rotates/bt, every other mnemonic, and all of 32-bit mode: differential only (unproved_mnemonics lists the mnemonics with at least one unproved form, i.e. all of them)",
        "unproved_mnemonics": UNPROVED_MNEMONICS,
        "lifted_but_not_compared": NOT_COMPARED,
    }
