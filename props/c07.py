"""C07 — the concrete executor implements the IL operational semantics exactly (DESIGN §6 C07)."""
ID = "C07"
HARNESS_BIN = "c07"
DRIVER = "fvd_c07"
LEAN_TARGETS = ["FalconProofs.Props.C07", "fvd_c07"]
PROPS_MODULE = "FalconProofs.Props.C07"
LEVEL = "proof"
RULE = ("random programs (1-3 functions, 1-8 blocks, empty blocks, self-loops, 0-6 operations per block of all six "
        "kinds, widths 1/8/16/32/64/128, shared native addresses, indirect branches to present / absent addresses), "
        "3 initial states each (scalars partly undefined, little/big endian, backing present or not with partly "
        "unmapped regions across a page boundary, initial stores of 8..128 bits), start at the entry / a random "
        "location / an edge, 1-64 steps; two thirds well-formed (partition guards: c / c==0, ranges on a scalar), one "
        "third ill-formed (arbitrary guards, unconditional edges among several, ill-sorted expressions, stores and "
        "loads of 1-bit values, scalars holding a constant of another width, duplicate instruction indices, invalid "
        "start locations).  Every step of executor::Driver::step over memory::paged::Memory is compared (location, "
        "changed scalars, memory window of every store, address of every load, watch windows at the end) with Drv.step (model) and with the "
        "unique Sem.Step successor (specification; error kind must be one the specification names).  distinct = "
        "distinct request line; non-trivial = the run has >= 3 executed steps and executes a store or a load or traverses an edge")
TRUSTED = [
    "specification: FalconModel/Sem.lean (value / OpSem / Step) over C04's BitVec operators and the byte-array memory",
    "memory: State.mem is the byte array that property C08 shows falcon's paged memory to be",
    "correspondence: harness/src/bin/c07.rs + lean/Drivers/C07.lean + check (per-step three-way comparison)",
    "modelled, not verified: the translator call at a branch target outside the program (printed as `lift`)",
]
ASSUMPTIONS = [
    "accesses touching the last byte of the 64-bit address space (a + len >= 2^64) are outside the compared domain "
    "(both sides print edge64); theorems carry the side condition Access a bits (a + bits/8 <= 2^64)",
    "step_refines / step_deterministic / run_refines assume WF programs (distinct instruction indices per block), "
    "typed states (each scalar holds a constant of its declared width) and GuardsOK",
]
HISTORY_SEP = None

SEP = " ; "
NAMED = {"scalar", "div0", "unmapped", "intrinsic", "noedge"}


def _steps(t):
    return t.split(SEP)


def classify(c):
    if c.impl == "bad-request" or c.model == "bad-request":
        return "ok" if c.impl == c.model else "broken"
    impl, spec = _steps(c.impl), _steps(c.spec)
    for k, s in enumerate(spec):
        if s == "?":
            break                      # the specification is silent from here on
        if k >= len(impl):
            return "violation"         # falcon stopped although the specification goes on
        i = impl[k]
        if s.startswith("err:{"):
            kinds = set(s[5:-1].split(","))
            if not (i.startswith("err:") and i[4:] in kinds):
                return "violation"     # no successor in the semantics: falcon must report a named error kind
        elif i != s:
            return "violation"
    else:
        if len(impl) != len(spec):
            return "violation"
    if c.impl != c.model:
        return "broken"
    return "ok"


def nontrivial(c):
    impl = _steps(c.impl)
    if len(impl) < 4:                  # >= 3 executed steps + the terminal entry
        return False
    done = impl[:-1]
    mem = any(s.split(" ")[-1].startswith(("m0x", "l0x")) for s in done)     # a store or a load was executed
    edged = any(":e" in s.split(" ")[0] for s in done)                        # an edge was traversed
    return mem or edged
