"""C10 — SSA transformation yields valid SSA that preserves behaviour (DESIGN §6 C10, pattern P3: verified checker)."""
import re

ID = "C10"
HARNESS_BIN = "c10"
DRIVER = "fvd_c10"
LEAN_TARGETS = ["FalconProofs.Props.C10", "fvd_c10"]
PROPS_MODULE = "FalconProofs.Props.C10"
LEVEL = "translation_validation"
DRIVER_TAKES_ANSWER = True
RULE = ("request = one IL function f (FIL, unversioned, no phi nodes): 8 hand-written shapes (diamond read by an "
        "instruction / only by the join's guards, loop, loop header reading its counter only in guards, self-loop on "
        "the entry, unreachable predecessor, no entry, intrinsic with declared writes) plus random functions from "
        "harness/src/genil.rs in eight configurations (default; dense = 3 names in up to 6 blocks; textbook = all "
        "reachable, no self-loops, entry without predecessors; arbitrary non-partitioning guards; intrinsic-heavy; "
        "with indirect branches; big-cfg = up to 12 blocks over 2 names; two-widths = a name re-declared at a second "
        "width, raw variants) plus a small-scope stream EXHAUSTIVE over the CFG shape (every edge set over 2 and 3 blocks "
        "in quick, 2, 3 and 4 blocks = 65536 graphs in thorough, entry 0, two 8-bit names, blocks filled from a menu "
        "of assignments, partition guards reading the names), 1-12 blocks, loops through the entry, self-loops, empty and unreachable blocks, guards "
        "reading scalars. falcon's transformation::ssa_transformation(f) = g (phi nodes and versions printed in FIL) is "
        "judged by the Lean validator ssaCheck f g (proved sound in Props/C10.lean); when it rejects, f and g are "
        "executed side by side (Exec.lean / the SSA executor of Ssa.lean) from 64 boundary/random initial states for up "
        "to 200 steps, and failing that a CFG path from the entry to the offending read with another last definition is "
        "searched. distinct = distinct request line; non-trivial = falcon inserted at least one phi node, or one "
        "may be needed (a name written in some block and read upward-exposed by an instruction or guard of some block), "
        "or falcon produced no function")
TRUSTED = [
    "specification: the IL step relation FStep/execute of FalconModel/Exec.lean (its agreement with falcon's executor is property C07) and the SSA executor SStep of FalconModel/Ssa.lean (phi nodes select by incoming edge; falcon has no executor for phi nodes)",
    "checker: FalconModel/Ssa.lean certOk (kernel-proved sound); the certificate computation computeCert is untrusted",
    "correspondence: harness/src/bin/c10.rs (calls the real ssa_transformation, prints through fil.rs) + lean/Drivers/C10.lean + check",
]
ASSUMPTIONS = [
    "the behavioural theorem covers runs inside one function up to the first fault, indirect branch or intrinsic (FStep), from every initial state; names are identified as the executor's state does (by name)",
    "input functions carry no SSA versions and no phi nodes",
    "'succeeds on any function with an entry block' is observed on every generated function (Err/panic => violation), not proved: the construction (Semi-NCA dominators, frontiers, renaming) is not modelled",
]


def classify(c):
    """expected verdict: valid.  A rejected output with a concrete diverging run (or a concrete path violating the
    reaching-definition clause), or no output at all for a function that has an entry block => the property fails
    on this input; rejected without either => the validator could not justify falcon's output and no failing
    input was found (correspondence broken)."""
    v = c.model
    if v.startswith("valid"):
        return "ok"
    if v.startswith("invalid panic/") or v.startswith("invalid err/"):
        return "violation"
    if v.startswith("invalid ") and "; diverge " in v:
        return "violation"
    if v.startswith("invalid ") and "; path-witness " in v:
        # no diverging run among the tried states, but a CFG path from the entry to a read whose last definition
        # is not the version read: the clause "every use names the version whose definition reaches it on every
        # path from the entry" fails on that concrete path
        return "violation"
    return "broken"


def signature(c):
    """C10/<clause>: the clause of the validator that failed (no data values), see lean/Drivers/C10.lean"""
    v = c.model
    if v.startswith("invalid "):
        why = v[len("invalid "):].split(" ; ")[0].strip()
        return f"{ID}/{why}"
    return f"{ID}/{c.cls}/{v.split(' ')[0]}"


def nontrivial(c):
    m = re.match(r"phis=(\d+) cand=(\d)", c.spec or "")
    if m:
        return int(m.group(1)) >= 1 or m.group(2) == "1"
    return c.impl == "panic" or c.impl.startswith("err:")
