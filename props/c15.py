"""C15 — CFG construction and editing keep graphs consistent and meaning intact (DESIGN §6 C15)."""
ID = "C15"
HARNESS_BIN = "c15"
DRIVER = "fvd_c15"
LEAN_TARGETS = ["FalconProofs.Props.C15", "fvd_c15"]
PROPS_MODULE = "FalconProofs.Props.C15"
LEVEL = "proof"
HISTORY_SEP = " ; "
RULE = ("one case = one history of editing operations (new_block, uedge, cedge, entry, exit, op, bappend, rmins, temp, "
        "merge, append, insert, and the real BlockTranslationResult::blockify; failing calls included) over three graphs that start empty; after every operation the "
        "whole graph (blocks, instruction indices and operations, edges and guards, entry, exit, the three counters, "
        "falcon's successor/predecessor queries) is compared with the Lean model, the consistency conditions and the "
        "(length<=5) language digests with the specification. Generators: all graphs on 1-2 blocks x every edge "
        "absent/unconditional/conditional x every entry/exit then merge; sampled graphs on 3-4 blocks; chain/cycle/"
        "self-loop rich graphs then merge; blockify-like histories (instruction graphs appended/inserted then merged, a third through the real blockify); "
        "random histories of 1-40 operations. distinct = distinct request line; non-trivial = the history contains a "
        "merge that removed a block, or a successful append/insert of a graph with >= 2 blocks")
TRUSTED = [
    "specification: WF (FalconModel/CfgEdit.lean), Walk/Lang/LangEE path languages (same file)",
    "correspondence: harness/src/bin/c15.rs + lean/Drivers/C15.lean + check (three-way diff, first differing operation)",
    "abstraction: the four BTreeMaps of graph::Graph are modelled as (blocks, edges) with derived successor/"
    "predecessor queries; falcon's own queries are printed and compared after every operation (container: C11)",
    "bounded language digests (length <= 5, FNV hashes of FIL text) support the search only; equality of the unbounded "
    "languages is the Lean theorem",
]
ASSUMPTIONS = [
    "the counters next_index / next_temp_index / next_instruction_index do not overflow (2^64 calls)",
    "a call that panics leaves an unspecified graph: the harness restores the snapshot taken before the call; "
    "the theorems show that no call panics on a well-formed graph",
    "instruction comments and phi nodes are not edited by the operations of this property (Block::append does not copy phi nodes)",
]


def _ops(s):
    return s.split(HISTORY_SEP)


def _first_diff(c):
    """(index, kind, opname, detail) of the first operation where falcon differs from the specification
    ('violation') or from the model ('broken'); None if the whole history agrees"""
    reqs = _ops(c.req)
    impl = _ops(c.impl or "")
    model = _ops(c.model or "")
    spec = _ops(c.spec or "")
    if len(impl) != len(reqs):
        # the harness itself gave up on the line (e.g. `panic` for the whole request)
        return (0, "broken", "history", (c.impl or "")[:40])
    for i, rq in enumerate(reqs):
        name = rq.split(" ")[0]
        im = impl[i]
        parts = im.split("|")
        ires, iprops = (parts + ["", ""])[:2]
        sp = spec[i] if i < len(spec) else "-"
        if sp not in ("-", "?"):
            sres, sprops = (sp.split("|") + [""])[:2]
            if sres != "*" and sres != ires:
                return (i, "violation", name, ires)
            if sprops != iprops:
                # name the first property that differs: consistency, or the language digest
                ip, spp = iprops.split(" "), sprops.split(" ")
                detail = ip[0] if ip[0] != spp[0] else (ip[1].split("=")[0] + "-changed" if len(ip) > 1 else "props")
                return (i, "violation", name, detail)
        mo = model[i] if i < len(model) else ""
        if mo != im:
            mparts = (mo.split("|") + ["", ""])[:3]
            what = "result" if mparts[0] != ires else ("props" if mparts[1] != iprops else "graph")
            return (i, "broken", name, "model-" + what)
    return None


def classify(c):
    d = _first_diff(c)
    return "ok" if d is None else d[1]


def signature(c):
    d = _first_diff(c)
    if d is None:
        return f"{ID}/{c.cls}"
    return f"{ID}/{d[2]}/{d[3]}"


def nontrivial(c):
    tail = c.cls.split("/")[-1]
    return "m1" in tail or "a1" in tail or "i1" in tail
