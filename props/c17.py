"""C17 — stack-pointer offsets hold on every execution, for every architecture (DESIGN §6 C17, pattern P3)."""
ID = "C17"
HARNESS_BIN = "c17"
DRIVER = "fvd_c17"
LEAN_TARGETS = ["FalconProofs.Props.C17", "fvd_c17"]
PROPS_MODULE = "FalconProofs.Props.C17"
LEVEL = "translation_validation"
DRIVER_TAKES_ANSWER = True
RULE = ("for each of the seven Architecture objects (x86, amd64, mips, mipsel, ppc, aarch64, aarch64eb): (a) random IL "
        "functions (1-6 blocks, partition and arbitrary guards, loops, unreachable and empty blocks, entry inside a "
        "loop in 1/8) over that architecture's own stack_pointer() scalar and width plus registers of the same width, "
        "with stack-pointer updates of all shapes: sp+-c, c+sp, nested sums/differences/products of constants, sp*1, "
        "sp&mask, sp|c, sp^c, shifts, sp*2, sp+sp, ite, modulo, copies from other registers, sp+register, constants, "
        "loads into sp, division by zero; (b) machine-code functions assembled from prologue/epilogue idioms "
        "(push/pop/sub/add/lea/and/leave/xchg on esp/rsp; addiu/move/lw on $sp; stwu/addi/mr/lwz on r1; "
        "stp/ldp pre/post-index, sub/add/mov/and on sp) as straight lines, diamonds and loops, lifted by the real "
        "translators. falcon's real stack_pointer_offsets() map is judged by the kernel-proved checker spoCheck; "
        "distinct = distinct request line; non-trivial = the analysis completed and reports at least two distinct "
        "numbers")
TRUSTED = [
    "specification: the function-level small-step relation FStep/FRun of FalconModel/Exec.lean (C07's model of State::execute)",
    "correspondence: harness/src/bin/c17.rs (prints falcon's map and the architecture's stack_pointer(); lifts machine "
    "code with the real translators) + lean/Drivers/C17.lean (parser, search for a contradicting run) + check",
    "runs end at Operation::Branch and at intrinsics (the executor leaves the function / has no semantics for them): "
    "claims at locations behind them are vacuous",
    "which scalar is the stack pointer, and its width, are taken from falcon's Architecture::stack_pointer() (the tables are C20's subject)",
]
ASSUMPTIONS = [
    "one width per scalar name and no SSA versions (the executor's state is keyed by name); other functions are answered '?'",
    "a function without an entry block is outside the domain (there is no execution)",
    "isize is 64 bits",
]


def _kind(c):
    m = c.model
    if m.startswith("incomplete"):
        return "incomplete-" + m.split()[1].replace(":", "-")
    if " contradicted " in m:
        return "contradicted"
    if m.startswith("invalid"):
        return "invalid"
    return "other"


def classify(c):
    m = c.model
    if m == "?":
        return "ok"
    if m.startswith("incomplete"):
        # the completion clause: for functions whose entry block has no incoming edge
        return "violation" if "premise=yes" in c.spec else "ok"
    if " contradicted " in m:
        return "violation"
    if m == "valid":
        return "ok"
    return "broken"      # invalid without a contradicting run, bad-answer, ...


def signature(c):
    return f"{ID}/{_kind(c)}/{c.cls}"


def nontrivial(c):
    return "nt=1" in c.spec
