"""C17 — stack-pointer offsets hold on every execution, for every architecture (DESIGN §6 C17, pattern P3)."""
ID = "C17"
HARNESS_BIN = "c17"
DRIVER = "fvd_c17"
LEAN_TARGETS = ["FalconProofs.Props.C17", "fvd_c17"]
PROPS_MODULE = "FalconProofs.Props.C17"
LEVEL = "translation_validation"
DRIVER_TAKES_ANSWER = True
RULE = ("for each of the seven Architecture objects (x86, amd64, mips, mipsel, ppc, aarch64, aarch64eb): (a) random IL "
        "functions (1-6 blocks, partition and arbitrary guards, loops, unreachable and empty blocks, entry inside a "
        "loop in 1/8) over that architecture's own stack_pointer() scalar and width plus registers of the same width, "
        "with stack-pointer updates of all shapes: sp+-c, c+sp, nested sums/differences/products of constants, sp*1, "
        "sp&mask, sp|c, sp^c, shifts, sp*2, sp+sp, ite, modulo, copies from other registers, sp+register, constants, "
        "loads into sp, division by zero; (b) machine-code functions assembled from prologue/epilogue idioms "
        "(push/pop/sub/add/lea/and/leave/xchg on esp/rsp; addiu/move/lw on $sp; stwu/addi/mr/lwz on r1; "
        "stp/ldp pre/post-index, sub/add/mov/and on sp) as straight lines, diamonds and loops, lifted by the real "
        "translators. falcon's real stack_pointer_offsets() map is judged by the kernel-proved checker spoCheck; "
        "machine-code cases are also run on the reference interpreter of the instruction set from the architectural stack "
        "register = s0, and every number falcon reports at an instruction boundary is compared with the architectural "
        "stack pointer (verdict isa-contradicted); distinct = distinct request line; non-trivial = the analysis completed and reports at least two distinct "
        "numbers")
TRUSTED = [
    "specification: the function-level small-step relation FStep/FRun of FalconModel/Exec.lean (C07's model of State::execute)",
    "correspondence: harness/src/bin/c17.rs (prints falcon's map and the architecture's stack_pointer(); lifts machine "
    "code with the real translators) + lean/Drivers/C17.lean (parser, search for a contradicting run) + check",
    "runs end at Operation::Branch and at intrinsics (the executor leaves the function / has no semantics for them): "
    "claims at locations behind them are vacuous",
    "il cases: which scalar is the stack pointer, and its width, are falcon's Architecture::stack_pointer() (the generator "
    "builds the functions over that scalar); mc cases: additionally judged against the ARCHITECTURAL stack register by "
    "the reference interpreters FalconModel/Isa/{Mips,Ppc,A64,X86}.lean (the specifications of C01-C03, written from the "
    "manuals from memory; x86 decoding by capstone)",
]
ASSUMPTIONS = [
    "one width per scalar name and no SSA versions (the executor's state is keyed by name); other functions are answered '?'",
    "a function without an entry block is outside the domain (there is no execution)",
    "isize is 64 bits",
]


# ---------------------------------------------------------------- the architectural (ISA) oracle: coverage counters
ISA_KEYS = ("cmp", "top", "und", "noil", "exit", "fuel", "stop")
ISA_STATS = {}


def _isa_count(c):
    if "/mc/" not in c.cls:
        return
    arch = c.cls.split("/")[0]
    st = ISA_STATS.setdefault(arch, dict({"mc_cases": 0, "witnessed_cases": 0, "contradicted_cases": 0},
                                         **{k: 0 for k in ISA_KEYS}))
    st["mc_cases"] += 1
    if "isa-contradicted" in c.model:
        st["contradicted_cases"] += 1
    for tok in c.spec.split():
        if tok.startswith("isa=") and tok != "isa=-":
            st["witnessed_cases"] += 1
            for kv in tok[4:].split(","):
                k, _, v = kv.partition(":")
                if k in st and v.isdigit():
                    st[k] += int(v)


def extra_coverage():
    return {
        "isa_oracle": {
            "what": "mc cases only: the Lean reference interpreter of the instruction set (FalconModel/Isa/Mips.lean, "
                    "Ppc.lean, A64.lean decode the raw bytes of the request; X86.lean reads capstone's operand "
                    "description) runs the bytes 6 times (stack register aligned / unaligned / 8-aligned x branch "
                    "register zero / non-zero; 64 instructions of fuel) from ARCHITECTURAL stack register = s0 "
                    "(MIPS r29, PPC r1, A64 SP, x86 esp/rsp; name and width NOT taken from falcon); after every "
                    "machine instruction (MIPS: branch + delay slot) a number k reported at the last IL location "
                    "of that instruction must satisfy sp = s0 + k mod 2^w. Compared only where that location is "
                    "determined (all IL instructions with the address in one block, contiguous)",
            "counters": "per architecture: mc_cases; witnessed_cases (analysis completed, interpreter input present); "
                        "cmp = boundaries compared with a reported number; top = falcon reports Top/nothing there; "
                        "und = IL of the instruction spread over several blocks (e.g. x86 jcc); noil = instruction "
                        "lifted to no IL instruction (A64 cbz/b, empty blocks); runs ended by exit (left the code: "
                        "return) / fuel / stop (outside the interpreter's domain, trap, fault, unaligned access)",
            "per_architecture": ISA_STATS,
            "not_covered": "il cases (no machine code: the stack pointer's name there is falcon's own, by "
                           "construction of the generator); idioms outside an interpreter's domain end the run "
                           "(A64 `and sp,x0,#imm`; MIPS sw/lw from an unaligned s0 = Address Error); PPC has no "
                           "conditional branch the translator lifts, so only straight / jumped-over / spinning code",
        }
    }


def _kind(c):
    m = c.model
    if "isa-contradicted" in m:
        return "isa-contradicted"
    if m.startswith("incomplete"):
        return "incomplete-" + m.split()[1].replace(":", "-")
    if " contradicted " in m:
        return "contradicted"
    if m.startswith("invalid"):
        return "invalid"
    return "other"


def classify(c):
    m = c.model
    _isa_count(c)
    if "isa-contradicted" in m:
        return "violation"
    if m == "?":
        return "ok"
    if m.startswith("incomplete"):
        # the completion clause: for functions whose entry block has no incoming edge
        return "violation" if "premise=yes" in c.spec else "ok"
    if " contradicted " in m:
        return "violation"
    if m == "valid":
        return "ok"
    return "broken"      # invalid without a contradicting run, bad-answer, ...


def signature(c):
    return f"{ID}/{_kind(c)}/{c.cls}"


def nontrivial(c):
    return "nt=1" in c.spec
