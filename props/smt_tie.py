"""smt_tie — the `resolve_broken` hook shared by the lifter properties C01, C02, C03 (design/06_smt_tie.md).

VALIDATION SUPPORT for the model-to-code tie, never a theorem.  The universal theorems `lift_correct_*` are about a Lean MIRROR
of the lifter; the tie to falcon is that falcon's emitted IL equals the mirror's IL for the same instruction word.  Where the
two differ only SYNTACTICALLY the drivers hand out the mirror's IL (`MIRROR-BTR` fields) and this hook asks z3
(tools/il_equiv.py) whether both mean the same for ALL states:
  equiv   -> the case corresponds ('ok'; counter mirror_equivalent_by_smt)
  diff    -> z3's distinguishing state becomes a concrete request of the property's line protocol, goes through the normal
             pipeline (harness answer + Lean driver) and is judged by the property's own classify: a contradiction with the ISA
             specification is a VIOLATION with that concrete failing input; anything else stays 'broken'
  unknown -> 'broken' (today's behaviour): z3 timed out, or the IL is outside the encoder (intrinsics, loops, …)
Before any verdict is used the ENCODER is tested on this run's own data: z3's evaluation of the encoding of falcon's IL and of
the mirror's IL from the case's state must reproduce the post lines that the Lean IL model (`runBTR`) printed for them
(`MIRROR-BTR` fields 3 and 4).  One mismatch and nothing is resolved (everything stays 'broken').
z3 4.8.12 and tools/il_equiv.py are part of the trusted base of this tie; nothing here costs anything on a tree without
mirror differences (the hook is only called with cases classified 'broken').
"""
import importlib.util
import os
import sys
import time

ROOT = os.path.dirname(os.path.dirname(os.path.abspath(__file__)))
TRUSTED = ("semantic mirror tie (only when falcon's IL differs syntactically from the mirror's): z3 4.8.12 (/usr/bin/z3) + the "
           "SMT encoder tools/il_equiv.py + lean/FalconModel/FilBTR.lean (printer of the mirror's IL) + props/smt_tie.py decide "
           "`falcon's IL == mirror's IL for all states`; validation support, not a theorem; the encoder is re-tested against the "
           "Lean IL model on every run that uses it (tools/il_equiv_selftest.sh for the large version)")
SELFTEST_CASES = int(os.environ.get("FV_SMT_SELFTEST", "150"))
TIMEOUT_S = float(os.environ.get("FV_SMT_TIMEOUT", "5"))
_IL = None


def il_equiv():
    global _IL
    if _IL is None:
        spec = importlib.util.spec_from_file_location("il_equiv", os.path.join(ROOT, "tools", "il_equiv.py"))
        _IL = importlib.util.module_from_spec(spec)
        spec.loader.exec_module(_IL)
        sys.setrecursionlimit(max(10000, sys.getrecursionlimit()))
    return _IL


def new_counters():
    return {"mirror_differs": 0, "mirror_equivalent_by_smt": 0, "mirror_diff_by_smt": 0, "mirror_diff_confirmed_violation": 0,
            "mirror_unknown_by_smt": 0, "mirror_unknown_reasons": {}, "mirror_not_submitted": 0, "smt_distinct_pairs": 0,
            "smt_z3_queries": 0, "smt_selftest_compared": 0, "smt_selftest_mismatches": 0, "smt_seconds": 0.0,
            "note": "validation support for the mirror tie, not a theorem (design/06_smt_tie.md)"}


def mirror_fields(c):
    """(mirror BTR text | None, runBTR(mirror) post line, runBTR(falcon's IL) post line) of a case whose IL differs from the mirror"""
    ex = list(getattr(c, "extra", None) or [])
    if "MIRROR-BTR" not in ex:
        return None
    k = ex.index("MIRROR-BTR")
    f = ex[k + 1:k + 4] + ["-"] * 3
    return (f[0] if f[0].startswith("(btr") else None), f[1], f[2]


def has_mirror_diff(c):
    return mirror_fields(c) is not None


def state_of(req):
    return req.split(" | ", 1)[1] if " | " in req else None


def falcon_btr(c):
    return c.impl.split(" | ", 1)[0] if c.impl.startswith("(btr") else None


def concrete_request(req, model_text):
    """the request with its state replaced by z3's distinguishing state"""
    head, st = req.split(" | ", 1)
    f = [x.strip() for x in st.split(";")]
    regs, mem, seen = {}, {}, set()
    for tok in model_text.split(" "):
        if tok.startswith("@"):
            a, b = tok[1:].split("=")
            mem[int(a, 16)] = b
        elif "=" in tok and not tok.startswith("differs:"):
            k, v = tok.split("=", 1)
            regs[k] = v
    out = []
    for kv in f[1].split(","):
        if "=" not in kv:
            continue
        k, v = kv.split("=", 1)
        seen.add(k)
        nv = regs.get(k)
        out.append(k + "=" + (nv if nv is not None and nv.rsplit(":", 1)[1] == v.rsplit(":", 1)[1] else v))
    for k, v in regs.items():
        if k not in seen:
            out.append(k + "=" + v)
    windows = f[2]
    if mem:
        ws, cur = [], None
        for a in sorted(mem):
            if cur is not None and a == cur[0] + len(cur[1]) // 2:
                cur[1] += mem[a]
            else:
                cur = [a, mem[a]]
                ws.append(cur)
        windows = ",".join("0x%x:%s" % (a, h) for a, h in ws)
    return "%s | %s ; %s ; %s" % (head, f[0], ",".join(out), windows)


def norm_post(line):
    return line if line.startswith("next=0x") else ("next=err" if line.startswith("next=") else line)


def resolve(check, prop, cases, only_mirror, counters):
    """-> {index: (kind, info)} for the cases this hook can say something about; the others stay 'broken'"""
    t0 = time.time()
    E = il_equiv()
    out, cand = {}, []
    for i, c in enumerate(cases):
        mf = mirror_fields(c)
        if mf is None:
            continue
        counters["mirror_differs"] += 1
        fb, st = falcon_btr(c), state_of(c.req)
        if mf[0] is None or fb is None or st is None or not only_mirror(c):
            counters["mirror_not_submitted"] += 1          # rejected by one side, or something else is broken as well
            continue
        cand.append((i, c, st.split(";")[0].strip(), fb, mf))
    if not cand:
        return out
    # 1. the encoder against the Lean IL model, on this run's own data (distinct IL texts first)
    seen, sample = set(), []
    for i, c, endian, fb, mf in cand:
        if fb not in seen and len(sample) < SELFTEST_CASES:
            seen.add(fb)
            sample.append((state_of(c.req), fb, mf[2]))
            sample.append((state_of(c.req), mf[0], mf[1]))
    z = E.eval_lines([(str(k), st, bt) for k, (st, bt, _) in enumerate(sample)], timeout_s=10)
    bad = []
    for k, (st, bt, lean) in enumerate(sample):
        zv = z[str(k)]
        if zv.startswith("skip") or zv.startswith("unknown") or not lean.startswith("next="):
            continue
        counters["smt_selftest_compared"] += 1
        if zv != norm_post(lean):
            bad.append((st, bt, zv, lean))
    counters["smt_selftest_mismatches"] += len(bad)
    if bad:
        check.log("smt_tie: ENCODER SELF-TEST FAILED (%d of %d): z3's evaluation of the encoding differs from the Lean IL model; "
                  "no mirror difference is resolved.  First: z3 `%s` | lean `%s` | state `%s` | btr `%s`"
                  % (len(bad), len(sample), bad[0][2][:300], bad[0][3][:300], bad[0][0][:300], bad[0][1][:600]))
        counters["smt_seconds"] += round(time.time() - t0, 2)
        check.log("smt_tie: " + ", ".join("%s=%s" % (k, v) for k, v in counters.items() if k != "note"))
        return out
    # 2. equivalence for all states
    stats = {}
    verdicts = E.decide_pairs([(str(i), endian, fb, mf[0]) for i, c, endian, fb, mf in cand], timeout_s=TIMEOUT_S, stats=stats)
    counters["smt_distinct_pairs"] += stats.get("distinct_pairs", 0)
    counters["smt_z3_queries"] += stats.get("z3_queries", 0)
    confirm = {}            # verdict text -> representative index
    for i, c, endian, fb, mf in cand:
        v = verdicts[str(i)]
        if v == "equiv":
            counters["mirror_equivalent_by_smt"] += 1
            out[i] = ("ok", {"smt": "equiv"})
        elif v.startswith("diff"):
            counters["mirror_diff_by_smt"] += 1
            out[i] = ("broken", {"smt": v[:2000]})
            confirm.setdefault(v, i)
        else:
            counters["mirror_unknown_by_smt"] += 1
            why = " ".join(v.split(" ")[1:5])
            counters["mirror_unknown_reasons"][why] = counters["mirror_unknown_reasons"].get(why, 0) + 1
            out[i] = ("broken", {"smt": v[:300]})
    # 3. every distinguishing state goes through the normal pipeline
    if confirm:
        items = sorted(confirm.items(), key=lambda kv: kv[1])
        reqs = []
        for v, i in items:
            try:
                reqs.append(concrete_request(cases[i].req, v[5:]))
            except Exception:          # noqa: a model that cannot be turned into a request confirms nothing
                reqs.append(cases[i].req)
        impl, err = check.harness_answer(prop, reqs)
        mod, err2 = check.driver_answers(prop, reqs, impl) if not err else (None, None)
        if err or err2:
            check.log("smt_tie: confirmation run failed: %s" % (err or err2))
        else:
            for (v, i), req, im, ml in zip(items, reqs, impl, mod):
                p = ml.split("\t")
                c2 = check.Case(cases[i].cls, req, im, p[0], p[1] if len(p) > 1 else "-")
                c2.extra = p[2:]
                if check.classify(prop, c2) == "violation":
                    counters["mirror_diff_confirmed_violation"] += 1
                    out[i] = ("violation", {"case": c2, "smt": v[:2000],
                                            "note": "distinguishing state found by z3 (falcon's IL vs the mirror's IL), confirmed "
                                                    "by falcon's executor against the ISA specification"})
    counters["smt_seconds"] += round(time.time() - t0, 2)
    check.log("smt_tie: " + ", ".join("%s=%s" % (k, v) for k, v in counters.items() if k != "note"))
    return out
